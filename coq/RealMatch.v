(* Mirror of _wcmatch._Match.match / _match_real / _fs_match (Unix rules, str or bytes alike): the REALPATH decision.
   The regex engine and the file system are parameters: a pattern is what `Pattern.fullmatch` answers on a file name
   (None, or the spans of its capturing groups - the captured `**` runs), the file system is the three questions the code
   asks (`lexists`, `isdir` - following links -, `islink`), each on the exact path *string* it builds.  No proofs here. *)
From WC Require Import Str.
From Coq Require Import ZArith.
Open Scope Z_scope.

(* posixpath.join(a, b) *)
Definition pjoin (a b : str) : str :=
  if starts_with [47%N] b then b
  else match a with
       | [] => b
       | _ => if ends_with [47%N] a then a ++ b else a ++ [47%N] ++ b
       end.

(* str.strip('/') *)
Fixpoint lstrip_sl (s : str) : str :=
  match s with c :: s' => if N.eqb c 47 then lstrip_sl s' else s | [] => [] end.
Definition strip_sl (s : str) : str := rev (lstrip_sl (rev (lstrip_sl s))).

(* re.compile('/').split(s): every single `/` separates, empty pieces are kept *)
Fixpoint split_go (acc : str) (s : str) : list str :=
  match s with
  | [] => [rev acc]
  | c :: s' => if N.eqb c 47 then rev acc :: split_go [] s' else split_go (c :: acc) s'
  end.
Definition split_sl (s : str) : list str := split_go [] s.

(* s[a:b] for 0 <= a <= b *)
Definition substr (s : str) (a b : Z) : str := take (Z.to_nat (b - a)) (drop (Z.to_nat a) s).

(* what `Pattern.fullmatch(name)` returns: None, or for each capturing group None / its (start, end) *)
Definition mres := option (list (option (Z * Z))).

Section Fs.
  Variable islink : str -> bool.      (* os.path.islink / S_ISLNK(lstat) on the path string *)
  Variable isdir : str -> bool.       (* os.path.isdir / S_ISDIR(stat): follows links *)
  Variable lexists : str -> bool.     (* os.path.lexists / lstat succeeds *)

  (* the inner `for j, part in enumerate(parts, 1)` loop *)
  Fixpoint parts_ok (base : str) (parts : list str) (at_end : bool) : bool :=
    match parts with
    | [] => true
    | p :: rest =>
        let base' := pjoin base p in
        let check := negb at_end || (match rest with [] => false | _ :: _ => true end) in
        if check && islink base' then false else parts_ok base' rest at_end
    end.

  (* the `for i, star in enumerate(m.groups(), 1)` loop; `end = len(filename) - 1` as in the source *)
  Definition group_ok (root filename : str) (g : option (Z * Z)) : bool :=
    match g with
    | None => true
    | Some (a, b) =>
        let star := substr filename a b in
        match star with
        | [] => true
        | _ :: _ =>
            let at_end := Z.eqb b (Z.of_nat (length filename) - 1) in
            parts_ok (pjoin root (take (Z.to_nat a) filename)) (split_sl (strip_sl star)) at_end
        end
    end.

  Definition fs_match (m : mres) (filename : str) (follow : bool) (root : str) : bool :=
    match m with
    | None => false
    | Some groups => if follow then true else forallb (group_ok root filename) groups
    end.

  Section Pats.
    Variable pat : Type.
    Variable rematch : pat -> str -> mres.

    Definition match_real (filename : str) (include exclude : list pat) (follow : bool) (root : str) : bool :=
      let is_dir := ends_with [47%N] filename && negb (match filename with [] => true | _ => false end) in
      let is_file_dir := isdir (pjoin root filename) in
      let filename' := if negb is_dir && is_file_dir then filename ++ [47%N] else filename in
      if existsb (fun p => fs_match (rematch p filename') filename' follow root) include
      then negb (existsb (fun p => fs_match (rematch p filename') filename' true root) exclude)
      else false.

    (* _Match.match with real=True (the type checks raise before anything is asked and are left out) *)
    Definition match_realpath (filename : str) (include exclude : list pat) (follow : bool) (root : str) : bool :=
      let is_abs := starts_with [47%N] filename in
      let ex := if is_abs then lexists filename else lexists (pjoin root filename) in
      if ex then match_real filename include exclude follow root else false.
  End Pats.
End Fs.

(* ---- an executable file system for the correspondence: a table of (path without trailing separator, kind) for every
   path under the root, also through links; a query string is canonicalised (runs of `/` collapsed, trailing `/` noted) ---- *)
Inductive kind : Set := KFile | KDir | KLinkDir | KLinkFile | KDangling.

Fixpoint collapse (prev : bool) (s : str) : str :=
  match s with
  | [] => []
  | c :: s' => if N.eqb c 47 then (if prev then collapse true s' else c :: collapse true s') else c :: collapse false s'
  end.
Definition canon (q : str) : str * bool :=
  let c := collapse false q in
  match rev c with
  | 47%N :: (_ :: _) as r => (rev r, true)
  | _ => (c, false)
  end.
Fixpoint lookup (tbl : list (str * kind)) (q : str) : option kind :=
  match tbl with
  | [] => None
  | (p, k) :: t => if str_eqb p q then Some k else lookup t q
  end.
Definition t_islink (tbl : list (str * kind)) (q : str) : bool :=
  let '(c, slash) := canon q in
  match lookup tbl c with
  | Some KLinkDir => negb slash       (* `link/` is resolved by lstat *)
  | Some KLinkFile | Some KDangling => negb slash
  | _ => false
  end.
Definition t_isdir (tbl : list (str * kind)) (q : str) : bool :=
  let '(c, slash) := canon q in
  match lookup tbl c with Some KDir | Some KLinkDir => true | _ => false end.
Definition t_lexists (tbl : list (str * kind)) (q : str) : bool :=
  let '(c, slash) := canon q in
  match lookup tbl c with
  | Some KDir | Some KLinkDir => true
  | Some KFile => negb slash
  | Some KLinkFile | Some KDangling => negb slash
  | None => false
  end.

(* driver entry: each pattern is given by its two answers (on the name as written, on the name with `/` appended) *)
Definition pat2 := (mres * mres)%type.
Definition rematch2 (filename : str) (p : pat2) (f : str) : mres := if str_eqb f filename then fst p else snd p.
Definition run_realpath (tbl : list (str * kind)) (filename : str) (include exclude : list pat2) (follow : bool) (root : str) : bool :=
  match_realpath (t_islink tbl) (t_isdir tbl) (t_lexists tbl) pat2 (rematch2 filename) filename include exclude follow root.
