(* Extraction of the executable models to OCaml (ExtrOcamlBasic only; N, Z, positive, nat stay Coq datatypes). *)
Require Extraction.
Require Import ExtrOcamlBasic.
From WC Require Import Str WinDrive WcParse WcSplit Expand Spec Norm Escape GlobSplit Glob WcMatchM RealMatch.
From WC.Proofs Require Import GlobLemmas.
Extraction Language OCaml.
Extraction "../driver/model.ml" wcparse linux wcsplit pattern_lists den pden unparse punparse norm_pattern escape is_magic glob_all listed imatch gsplit run_realpath get_win_drive drive_regex drive_plain.
