(* Mirror of _wcparse._get_win_drive (345-393) with the four regexes it uses written as scanners:
     RE_WIN_DRIVE_START   ((?:\\\\|/){2}((?:\\[^\\/]|[^\\/])+)|([\\]?[a-z][\\]?:))((?:\\\\|/)|$)      re.I, .match
     RE_WIN_DRIVE_LETTER  ([a-z]:)((?:\\|/)|$)                                                         re.I, .match on group(0)
     RE_WIN_DRIVE_PART    ((?:\\[^\\/]|[^\\/])+)((?:\\\\|/)|$)                                         re.I, .finditer (search)
     RE_WIN_DRIVE_UNESCAPE \\(.)                                                                       .sub(r'\1')
   The greedy part scanner never has to back off: it stops only in front of a `/`, a `\` followed by a separator, a lone
   final `\` or the end, and none of the shorter prefixes is followed by a separator or the end.  No proofs here. *)
From WC Require Import Str.
From Coq Require Import ZArith.
Open Scope N_scope.

Definition is_sepc (c : ch) : bool := (c =? 92) || (c =? 47).

(* (?:\\\\|/) at the head of the text: an escaped backslash (two characters) or a slash *)
Definition pat_sep (p : str) : option str :=
  match p with
  | c :: r =>
      if c =? 47 then Some r
      else if c =? 92 then match r with d :: r' => if d =? 92 then Some r' else None | [] => None end
      else None
  | [] => None
  end.

(* ((?:\\[^\\/]|[^\\/])+) greedy at the head: (matched text, rest); matched = [] means no match *)
Fixpoint scan_part (s : str) : str * str :=
  match s with
  | [] => ([], [])
  | c :: r =>
      if c =? 92 then
        match r with
        | d :: r' => if is_sepc d then ([], s) else let '(m, t) := scan_part r' in (c :: d :: m, t)
        | [] => ([], s)
        end
      else if c =? 47 then ([], s)
      else let '(m, t) := scan_part r in (c :: m, t)
  end.

(* ((?:\\\\|/)|$) : Some (group non-empty, rest after the group); `$` also holds in front of a final line feed *)
Definition sep_or_end (s : str) : option (bool * str) :=
  match pat_sep s with
  | Some r => Some (true, r)
  | None => match s with
            | [] => Some (false, s)
            | c :: r => if (c =? 10) && (match r with [] => true | _ => false end) then Some (false, s) else None
            end
  end.

(* [a-z] under re.I on str: the ASCII letters and the four characters that case-fold onto them *)
Definition drive_letter (c : ch) : bool :=
  ((65 <=? c) && (c <=? 90)) || ((97 <=? c) && (c <=? 122)) || ch_in c [304; 305; 383; 8490].

(* RE_WIN_DRIVE_UNESCAPE.sub(r'\1', s): a backslash in front of anything but a line feed is dropped *)
Fixpoint unescape (s : str) : str :=
  match s with
  | [] => []
  | c :: r =>
      if c =? 92 then
        match r with
        | d :: r' => if d =? 10 then c :: unescape r else d :: unescape r'
        | [] => [c]
        end
      else c :: unescape r
  end.

Definition lower_ascii (c : ch) : ch := if (65 <=? c) && (c <=? 90) then c + 32 else c.
Definition lower (s : str) : str := map lower_ascii s.

(* finditer of RE_WIN_DRIVE_PART from the head of [s]: the first match found scanning left to right.
   Returns (part text, separator group non-empty, rest after the match, characters consumed up to the end of the match) *)
Fixpoint find_part (fuel : nat) (s : str) (skipped : N) : option (str * bool * str * N) :=
  match fuel with
  | O => None
  | S f =>
    match s with
    | [] => None
    | c :: r =>
        let '(m, t) := scan_part s in
        match m with
        | [] => find_part f r (skipped + 1)
        | _ :: _ =>
            match sep_or_end t with
            | Some (ne, t') => Some (m, ne, t', skipped + N.of_nat (length s - length t'))
            | None => find_part f r (skipped + 1)
            end
        end
    end
  end.

(* re.escape on a text (Python 3.7+): every character outside [A-Za-z0-9_] and above 127 kept ... the parser model's
   [re_escape_ch] is used by the caller; here the pieces are returned unescaped *)

(* the loop over the further parts of a UNC / device prefix: returns (parts in order, last slash, end offset, count = complete) *)
Fixpoint unc_loop (fuel : nat) (s : str) (pos : N) (parts : list str) (is_special : bool) (count complete first : N) (slash : bool)
  : list str * bool * N * bool :=
  match fuel with
  | O => (parts, slash, pos, count =? complete)
  | S f =>
    match find_part (S (length s)) s 0 with
    | None => (parts, slash, pos, count =? complete)
    | Some (m, ne, t', used) =>
        let count' := count + 1 in
        let p := unescape m in
        let parts' := parts ++ [p] in
        let pos' := pos + used in
        let '(complete', first') :=
          if is_special then
            if (count' =? first) && str_eqb (lower p) (S_ "unc") then (complete + 2, first)
            else if (count' =? first) && str_eqb (lower p) (S_ "global") then (complete + 1, first + 1)
            else (complete, first)
          else (complete, first) in
        if count' =? complete' then (parts', ne, pos', true)
        else unc_loop f t' pos' parts' is_special count' complete' first' ne
    end
  end.

Inductive drive :=
| DNone
| DLetter (text : str)                 (* `c:` as written *)
| DUnc (parts : list str).             (* server / share / ... , unescaped *)

(* (root_specified, drive, slash, end) *)
Definition get_win_drive (p : str) : bool * drive * bool * N :=
  let alt1 : option (str * bool * str * N) :=           (* (group 2, group 4 non-empty, rest, end) *)
    match pat_sep p with
    | Some r1 =>
        match pat_sep r1 with
        | Some r2 =>
            let '(m, t) := scan_part r2 in
            match m with
            | [] => None
            | _ :: _ => match sep_or_end t with
                        | Some (ne, t') => Some (m, ne, t', N.of_nat (length p - length t'))
                        | None => None
                        end
            end
        | None => None
        end
    | None => None
    end in
  match alt1 with
  | Some (g2, ne, t', e) =>
      let first_part := unescape g2 in
      let is_special := str_eqb (lower first_part) (S_ ".") || str_eqb (lower first_part) (S_ "?") in
      let '(parts, slash, e', ok) := unc_loop (S (length t')) t' e [first_part] is_special 0 1 1 false in
      if ok then (true, DUnc parts, slash, e') else (true, DNone, slash, e')
  | None =>
      (* alternative 2: [\\]?[a-z][\\]?: *)
      let bs1 := match p with c :: _ => c =? 92 | [] => false end in
      let q := if bs1 then tl p else p in
      let alt2 : option (bool * ch * str) :=                 (* (a backslash was written, letter, rest after the colon) *)
        match q with
        | c :: d :: r =>
            if negb (drive_letter c) then None
            else if d =? 58 then Some (bs1, c, r)
            else if d =? 92 then match r with e :: r' => if e =? 58 then Some (true, c, r') else None | [] => None end
            else None
        | _ => None
        end in
      (* `[\\]?` may also match nothing when the text starts with a letter: only then is q = p *)
      match alt2 with
      | Some (bs, c, r) =>
          match sep_or_end r with
          | Some (ne, t') =>
              let e := N.of_nat (length p - length t') in
              if bs then (false, DNone, false, e)            (* RE_WIN_DRIVE_LETTER does not match group(0) *)
              else (true, DLetter [c; 58], ne, e)
          | None => (starts_with [92; 92] p || starts_with [47] p, DNone, false, 0)
          end
      | None => (starts_with [92; 92] p || starts_with [47] p, DNone, false, 0)
      end
  end.

(* the drive text with regex=False (used by glob to find the starting point and by escape) *)
Definition drive_plain (d : drive) (slash : bool) : option str :=
  match d with
  | DNone => None
  | DLetter t => Some (t ++ (if slash then [92] else []))
  | DUnc parts => Some ([92; 92] ++ join_with [92] parts ++ (if slash then [92] else []))
  end.
