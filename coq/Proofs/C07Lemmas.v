(* C07: pattern lists decompose into single-pattern matches. *)
From WC Require Import Str WcParse WcSplit Expand Match.
From WC.Gen Require Import Consts FlagFuns.
From Coq Require Import Lia Permutation.
Import Mwcparse.
Open Scope Z_scope.

Section M.
  Variable fullmatch : str -> str -> bool.
  Notation mm := (match_model fullmatch).

  (* the verdict depends only on which regexes are present, not on order or multiplicity *)
  Lemma existsb_ext_in {A} (f : A -> bool) l l' : (forall x, In x l <-> In x l') -> existsb f l = existsb f l'.
  Proof.
    intros H. destruct (existsb f l) eqn:E.
    - apply existsb_exists in E as [x [Hx Hf]]. symmetry. apply existsb_exists. exists x. split; [apply H; exact Hx|exact Hf].
    - destruct (existsb f l') eqn:E'; [|reflexivity].
      apply existsb_exists in E' as [x [Hx Hf]].
      assert (existsb f l = true) by (apply existsb_exists; exists x; split; [apply H; exact Hx|exact Hf]). congruence.
  Qed.

  Theorem match_set_ext incl incl' excl excl' n :
    (forall r, In r incl <-> In r incl') -> (forall r, In r excl <-> In r excl') ->
    mm incl excl n = mm incl' excl' n.
  Proof. intros H1 H2. unfold match_model. rewrite (existsb_ext_in _ _ _ H1), (existsb_ext_in _ _ _ H2). reflexivity. Qed.

  Theorem match_spec incl excl n :
    mm incl excl n = true <->
    (exists r, In r incl /\ fullmatch r n = true) /\ ~ (exists r, In r excl /\ fullmatch r n = true).
  Proof.
    unfold match_model. rewrite andb_true_iff, negb_true_iff, existsb_exists. split.
    - intros [H1 H2]. split; [exact H1|]. intros [r [Hr Hm]].
      assert (existsb (fun r => fullmatch r n) excl = true) by (apply existsb_exists; exists r; auto). congruence.
    - intros [H1 H2]. split; [exact H1|].
      destruct (existsb (fun r => fullmatch r n) excl) eqn:E; [|reflexivity].
      exfalso. apply H2. apply existsb_exists in E. exact E.
  Qed.

  Theorem filter_pointwise incl excl names x :
    In x (filter_model fullmatch incl excl names) <-> In x names /\ mm incl excl x = true.
  Proof. unfold filter_model. apply filter_In. Qed.

  Theorem exclusions_alone_match_nothing excl n : mm [] excl n = false.
  Proof. reflexivity. Qed.
End M.

(* ---- the list loop: which regexes end up in the two lists ---- *)
Section Loop.
  Variable parse : Z -> str -> str.           (* a parser that never fails *)
  Notation items_loop := (items_loop (fun f p => inl (parse f p))).

  Definition negfl (pm : Z -> Z) (fl : Z) := pm (Z.lor (Z.lor fl u_NO_GLOBSTAR_CAPTURE) DOTMATCH).

  Lemma mem_In x l : mem x l = true <-> exists y, In y l /\ str_eqb x y = true.
  Proof. unfold mem. apply existsb_exists. Qed.

  Lemma str_eqb_eq a : forall b, str_eqb a b = true <-> a = b.
  Proof.
    induction a as [|x a IH]; destruct b as [|y b]; cbn [str_eqb]; split; intro H; try discriminate; try reflexivity.
    - apply andb_prop in H as [H1 H2]. apply N.eqb_eq in H1. apply IH in H2. congruence.
    - injection H as -> ->. rewrite N.eqb_refl. cbn. apply IH. reflexivity.
  Qed.

  (* with the limit disabled, every item is processed: the result lists are exactly the parses of the items
     (first occurrences), routed by is_negative *)
  Lemma items_loop_chars fl pm items : forall st,
    exists st', items_loop fl 0 pm items st = inl st' /\
      (forall t, In t (l_pos st') <-> In t (l_pos st) \/
         exists e, In e items /\ mem e (l_seen st) = false /\ is_negative fl e = false /\ t = parse (pm fl) e) /\
      (forall t, In t (l_neg st') <-> In t (l_neg st) \/
         exists e, In e items /\ mem e (l_seen st) = false /\ is_negative fl e = true /\ t = parse (negfl pm fl) (tl e)) /\
      (forall e, mem e (l_seen st') = true <-> mem e (l_seen st) = true \/ In e items).
  Proof.
    induction items as [|e r IH]; intros st.
    - exists st. cbn [Expand.items_loop]. split; [reflexivity|]. repeat split; intros; try tauto.
      + destruct H as [H|[e [[] _]]]; exact H.
      + destruct H as [H|[e [[] _]]]; exact H.
      + destruct H as [H|[]]; exact H.
    - cbn [Expand.items_loop]. cbn [Z.ltb Z.compare andb].
      destruct (mem e (l_seen st)) eqn:Hm.
      + destruct (IH {| l_total := l_total st + 1; l_seen := l_seen st; l_pos := l_pos st; l_neg := l_neg st |})
          as [st' [He [Hp [Hn Hs]]]].
        exists st'. split; [exact He|]. cbn [l_seen l_pos l_neg] in *. repeat split.
        * intros H. apply Hp in H as [H|[x [Hx R]]]; [left; exact H|right; exists x; split; [right; exact Hx|exact R]].
        * intros [H|[x [[->|Hx] [Hms R]]]]; apply Hp; [left; exact H|congruence|right; exists x; auto].
        * intros H. apply Hn in H as [H|[x [Hx R]]]; [left; exact H|right; exists x; split; [right; exact Hx|exact R]].
        * intros [H|[x [[->|Hx] [Hms R]]]]; apply Hn; [left; exact H|congruence|right; exists x; auto].
        * intros H. apply Hs in H as [H|H]; [left; exact H|right; right; exact H].
        * intros [H|[->|H]]; apply Hs; [left; exact H|left; exact Hm|right; exact H].
      + assert (Hseen : forall x, mem x (e :: l_seen st) = true <-> x = e \/ mem x (l_seen st) = true).
        { intros x. unfold mem. cbn [existsb]. rewrite orb_true_iff, str_eqb_eq. tauto. }
        destruct (is_negative fl e) eqn:Hneg.
        * destruct (IH {| l_total := l_total st + 1; l_seen := e :: l_seen st; l_pos := l_pos st;
                          l_neg := l_neg st ++ [parse (negfl pm fl) (tl e)] |}) as [st' [He [Hp [Hn Hs]]]].
          exists st'. split; [exact He|]. cbn [l_seen l_pos l_neg] in *. repeat split.
          -- intros H. apply Hp in H as [H|[x [Hx [Hmx R]]]]; [left; exact H|].
             right. exists x. split; [right; exact Hx|]. split; [|exact R].
             destruct (mem x (l_seen st)) eqn:Hx2; [|reflexivity].
             assert (mem x (e :: l_seen st) = true) by (apply Hseen; right; exact Hx2). congruence.
          -- intros [H|[x [[->|Hx] [Hms [Hng R]]]]]; [apply Hp; left; exact H|congruence|].
             destruct (mem x (e :: l_seen st)) eqn:Hx2.
             ++ apply Hseen in Hx2 as [->|Hx2]; congruence.
             ++ apply Hp. right. exists x. auto.
          -- intros H. apply Hn in H as [H|[x [Hx [Hmx R]]]].
             ++ apply in_app_or in H as [H|[<-|[]]]; [left; exact H|].
                right. exists e. split; [left; reflexivity|]. auto.
             ++ right. exists x. split; [right; exact Hx|]. split; [|exact R].
                destruct (mem x (l_seen st)) eqn:Hx2; [|reflexivity].
                assert (mem x (e :: l_seen st) = true) by (apply Hseen; right; exact Hx2). congruence.
          -- intros [H|[x [[->|Hx] [Hms [Hng R]]]]].
             ++ apply Hn. left. apply in_or_app. left. exact H.
             ++ apply Hn. left. apply in_or_app. right. left. symmetry. exact R.
             ++ destruct (mem x (e :: l_seen st)) eqn:Hx2.
                ** apply Hseen in Hx2 as [->|Hx2]; [|congruence].
                   apply Hn. left. apply in_or_app. right. left. symmetry. exact R.
                ** apply Hn. right. exists x. auto.
          -- intros H. apply Hs in H as [H|H]; [apply Hseen in H as [->|H]; [right; left; reflexivity|left; exact H]|right; right; exact H].
          -- intros [H|[->|H]]; apply Hs; [left; apply Hseen; right; exact H|left; apply Hseen; left; reflexivity|right; exact H].
        * destruct (IH {| l_total := l_total st + 1; l_seen := e :: l_seen st;
                          l_pos := l_pos st ++ [parse (pm fl) e]; l_neg := l_neg st |}) as [st' [He [Hp [Hn Hs]]]].
          exists st'. split; [exact He|]. cbn [l_seen l_pos l_neg] in *. repeat split.
          -- intros H. apply Hp in H as [H|[x [Hx [Hmx R]]]].
             ++ apply in_app_or in H as [H|[<-|[]]]; [left; exact H|].
                right. exists e. split; [left; reflexivity|]. auto.
             ++ right. exists x. split; [right; exact Hx|]. split; [|exact R].
                destruct (mem x (l_seen st)) eqn:Hx2; [|reflexivity].
                assert (mem x (e :: l_seen st) = true) by (apply Hseen; right; exact Hx2). congruence.
          -- intros [H|[x [[->|Hx] [Hms [Hng R]]]]].
             ++ apply Hp. left. apply in_or_app. left. exact H.
             ++ apply Hp. left. apply in_or_app. right. left. symmetry. exact R.
             ++ destruct (mem x (e :: l_seen st)) eqn:Hx2.
                ** apply Hseen in Hx2 as [->|Hx2]; [|congruence].
                   apply Hp. left. apply in_or_app. right. left. symmetry. exact R.
                ** apply Hp. right. exists x. auto.
          -- intros H. apply Hn in H as [H|[x [Hx [Hmx R]]]]; [left; exact H|].
             right. exists x. split; [right; exact Hx|]. split; [|exact R].
             destruct (mem x (l_seen st)) eqn:Hx2; [|reflexivity].
             assert (mem x (e :: l_seen st) = true) by (apply Hseen; right; exact Hx2). congruence.
          -- intros [H|[x [[->|Hx] [Hms [Hng R]]]]]; [apply Hn; left; exact H|congruence|].
             destruct (mem x (e :: l_seen st)) eqn:Hx2.
             ++ apply Hseen in Hx2 as [->|Hx2]; congruence.
             ++ apply Hn. right. exists x. auto.
          -- intros H. apply Hs in H as [H|H]; [apply Hseen in H as [->|H]; [right; left; reflexivity|left; exact H]|right; right; exact H].
          -- intros [H|[->|H]]; apply Hs; [left; apply Hseen; right; exact H|left; apply Hseen; left; reflexivity|right; exact H].
  Qed.
End Loop.
