(* Theorems about the REALPATH decision model (RealMatch.v): for every file-system oracle, regex oracle, name and root. *)
From WC Require Import Str RealMatch.
From Coq Require Import ZArith Lia.
Open Scope Z_scope.

Lemma existsb_ext' (A : Type) (f g : A -> bool) (l : list A) : (forall x, f x = g x) -> existsb f l = existsb g l.
Proof. intros H. induction l as [|x l IH]; [reflexivity|]. cbn. rewrite H, IH. reflexivity. Qed.

Section Real.
  Variable islink isdir lexists : str -> bool.
  Variable pat : Type.
  Variable rematch : pat -> str -> mres.

  Definition matched (m : mres) : bool := match m with Some _ => true | None => false end.

  (* the name the patterns are asked about: a directory written without separator gets one *)
  Definition effective (root filename : str) : str :=
    if negb (ends_with [47%N] filename && negb (match filename with [] => true | _ => false end)) && isdir (pjoin root filename)
    then filename ++ [47%N] else filename.

  Definition verdict_on (g : str) (include exclude : list pat) (follow : bool) (root : str) : bool :=
    existsb (fun p => fs_match islink (rematch p g) g follow root) include &&
    negb (existsb (fun p => fs_match islink (rematch p g) g true root) exclude).

  Lemma match_real_effective filename include exclude follow root :
    match_real islink isdir pat rematch filename include exclude follow root =
    verdict_on (effective root filename) include exclude follow root.
  Proof.
    unfold match_real, verdict_on, effective.
    destruct (existsb _ include); [rewrite andb_true_l|rewrite andb_false_l]; reflexivity.
  Qed.

  (* (1) a path that does not exist never matches *)
  Lemma nonexistent_never_matches filename include exclude follow root :
    (if starts_with [47%N] filename then lexists filename else lexists (pjoin root filename)) = false ->
    match_realpath islink isdir lexists pat rematch filename include exclude follow root = false.
  Proof. intros H. unfold match_realpath. rewrite H. reflexivity. Qed.

  (* (2) with FOLLOW (and for every exclusion pattern) links are never looked at: the verdict is the regex's *)
  Lemma fs_match_follow m filename root : fs_match islink m filename true root = matched m.
  Proof. destruct m; reflexivity. Qed.

  Lemma follow_is_regex_only g include exclude root :
    verdict_on g include exclude true root =
    existsb (fun p => matched (rematch p g)) include && negb (existsb (fun p => matched (rematch p g)) exclude).
  Proof.
    unfold verdict_on.
    rewrite (existsb_ext' _ _ (fun p => matched (rematch p g)) include) by (intros p; apply fs_match_follow).
    rewrite (existsb_ext' _ _ (fun p => matched (rematch p g)) exclude) by (intros p; apply fs_match_follow).
    reflexivity.
  Qed.

  (* (3) the walk along one captured run: it fails exactly at the first checked prefix that is a link.  Checked = every
     component, except the last one when the run ends at position len-1 of the name (as the code computes `at_end`) *)
  Fixpoint walk (base : str) (parts : list str) : list (str * bool) :=
    match parts with
    | [] => []
    | p :: rest => (pjoin base p, match rest with [] => true | _ => false end) :: walk (pjoin base p) rest
    end.

  Lemma parts_ok_spec : forall parts base at_end,
    parts_ok islink base parts at_end =
    forallb (fun ql => negb ((negb at_end || negb (snd ql)) && islink (fst ql))) (walk base parts).
  Proof.
    induction parts as [|p rest IH]; intros base at_end; [reflexivity|].
    cbn [parts_ok walk forallb fst snd]. rewrite <- IH.
    destruct rest; cbn [negb]; destruct (_ && islink (pjoin base p)); reflexivity.
  Qed.

  Lemma parts_ok_no_links : forall parts base at_end,
    (forall q, islink q = false) -> parts_ok islink base parts at_end = true.
  Proof.
    induction parts as [|p rest IH]; intros base at_end H; [reflexivity|]. cbn [parts_ok]. rewrite H, andb_false_r. apply IH. exact H.
  Qed.

  (* (4) FOLLOW can only add matches: whatever is accepted without it is accepted with it *)
  Lemma fs_match_mono m filename root : fs_match islink m filename false root = true -> fs_match islink m filename true root = true.
  Proof. destruct m; [reflexivity|discriminate]. Qed.

  Lemma follow_monotone g include exclude root :
    verdict_on g include exclude false root = true -> verdict_on g include exclude true root = true.
  Proof.
    unfold verdict_on. intros H. apply andb_true_iff in H. destruct H as [H1 H2]. apply andb_true_iff. split; [|exact H2].
    apply existsb_exists in H1. destruct H1 as [p [Hp Hm]]. apply existsb_exists. exists p. split; [exact Hp|].
    apply fs_match_mono. exact Hm.
  Qed.

  (* (5) the exclusion half of the verdict does not depend on the link oracle at all *)
  Lemma exclusions_ignore_links (islink2 : str -> bool) g exclude root :
    existsb (fun p => fs_match islink (rematch p g) g true root) exclude =
    existsb (fun p => fs_match islink2 (rematch p g) g true root) exclude.
  Proof. apply existsb_ext'. intros p. destruct (rematch p g); reflexivity. Qed.

  (* (6) soundness of an acceptance without FOLLOW: some inclusion regex matches and none of its captured runs walks
     through a link (in the sense of (3)); no exclusion regex matches *)
  Lemma accepted_without_follow g include exclude root :
    verdict_on g include exclude false root = true ->
    (exists p groups, In p include /\ rematch p g = Some groups /\ forallb (group_ok islink root g) groups = true) /\
    (forall p, In p exclude -> rematch p g = None).
  Proof.
    unfold verdict_on. intros H. apply andb_true_iff in H. destruct H as [H1 H2]. split.
    - apply existsb_exists in H1. destruct H1 as [p [Hp Hm]]. destruct (rematch p g) as [groups|] eqn:E; [|discriminate].
      exists p, groups. repeat split; try assumption.
    - intros p Hp. apply negb_true_iff in H2. destruct (rematch p g) as [groups|] eqn:E; [|reflexivity].
      exfalso. assert (X : existsb (fun p => fs_match islink (rematch p g) g true root) exclude = true).
      { apply existsb_exists. exists p. split; [exact Hp|]. rewrite E. reflexivity. }
      rewrite X in H2. discriminate.
  Qed.
End Real.

(* (7) on a tree without symbolic links REALPATH adds only the existence test and the directory rule *)
Lemma group_ok_no_links (islink : str -> bool) root g grp : (forall q, islink q = false) -> group_ok islink root g grp = true.
Proof.
  intros H. destruct grp as [[a b]|]; [|reflexivity]. unfold group_ok. destruct (substr g a b); [reflexivity|].
  apply parts_ok_no_links. exact H.
Qed.

Lemma no_links_follow_irrelevant (islink : str -> bool) pat (rematch : pat -> str -> mres) g include exclude root :
  (forall q, islink q = false) ->
  verdict_on islink pat rematch g include exclude false root = verdict_on islink pat rematch g include exclude true root.
Proof.
  intros H. unfold verdict_on.
  rewrite (existsb_ext' _ (fun p => fs_match islink (rematch p g) g false root) (fun p => fs_match islink (rematch p g) g true root) include); [reflexivity|].
  intros p. destruct (rematch p g) as [groups|]; [|reflexivity].
  cbn [fs_match]. apply forallb_forall. intros grp _. apply group_ok_no_links. exact H.
Qed.

(* non-vacuity on an executable file system: root /r with a/d -> ../real, the pattern `a/**/x` (group = the run `d`) *)
Example link_in_run_rejected :
  let tbl := [(S_ "/r", KDir); (S_ "/r/a", KDir); (S_ "/r/a/d", KLinkDir); (S_ "/r/a/d/x", KFile); (S_ "/r/real", KDir); (S_ "/r/real/x", KFile)] in
  run_realpath tbl (S_ "a/d/x") [(Some [Some (2, 3)], None)] [] false (S_ "/r") = false /\
  run_realpath tbl (S_ "a/d/x") [(Some [Some (2, 3)], None)] [] true (S_ "/r") = true /\
  run_realpath tbl (S_ "real/x") [(Some [Some (0, 4)], None)] [] false (S_ "/r") = true /\
  run_realpath tbl (S_ "a/zz") [(Some [], None)] [] true (S_ "/r") = false /\
  run_realpath tbl (S_ "a/d") [(None, Some [])] [] false (S_ "/r") = true.
Proof. vm_compute. repeat split. Qed.
