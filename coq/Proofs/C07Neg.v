From WC Require Import Str WcParse WcSplit Expand.
From WC.Gen Require Import Consts FlagFuns.
Import Mwcparse.
Open Scope Z_scope.

Lemma is_negative_table : forall fl c r,
  (has fl NEGATE = false -> is_negative fl (c :: r) = false) /\
  (has fl NEGATE = true -> has fl MINUSNEGATE = true -> is_negative fl (c :: r) = N.eqb 45 c) /\
  (has fl NEGATE = true -> has fl MINUSNEGATE = false -> has fl EXTMATCH = false -> is_negative fl (c :: r) = N.eqb 33 c) /\
  (has fl NEGATE = true -> has fl MINUSNEGATE = false -> has fl EXTMATCH = true ->
     is_negative fl (c :: r) = N.eqb 33 c && negb (match r with d :: _ => N.eqb 40 d | [] => false end)) /\
  is_negative fl [] = false.
Proof.
  intros fl c r. unfold is_negative, cMINUS, cEX, cLP.
  repeat split.
  - intros ->. destruct (has fl MINUSNEGATE), (has fl EXTMATCH); reflexivity.
  - intros -> ->. reflexivity.
  - intros -> -> ->. reflexivity.
  - intros -> -> ->. destruct r; reflexivity.
  - destruct (has fl MINUSNEGATE), (has fl EXTMATCH), (has fl NEGATE); reflexivity.
Qed.
