(* C01: the POSIX class tables of posix.py (regenerated into Gen/Posix.v) denote the documented C-locale
   classes (Spec.posix_doc): the rows the parser consults (bare names) have literally the documented range
   lists, hence agree on EVERY code point; the `^` rows are their complements below 0x110000 (str) / 0x100
   (bytes).  Re-proved whenever posix.py changes. *)
From WC Require Import Str Spec.
From WC.Gen Require Import Posix.
From Coq Require Import Lia ZifyBool.
Open Scope N_scope.

Definition pos_row_ok (row : string * bool * list N * list (N * N)) : bool :=
  let '(name, neg, _, rs) := row in
  if neg then true
  else (fix eq (a b : list (N * N)) : bool :=
          match a, b with
          | [], [] => true
          | (x, y) :: a', (u, v) :: b' => (x =? u) && (y =? v) && eq a' b'
          | _, _ => false
          end) rs (posix_doc (S_ name)).

Lemma pos_rows_u : forallb pos_row_ok table_u = true.
Proof. vm_compute. reflexivity. Qed.
Lemma pos_rows_a : forallb pos_row_ok table_a = true.
Proof. vm_compute. reflexivity. Qed.

Lemma list_eqb_eq : forall a b : list (N * N),
  (fix eq (a b : list (N * N)) : bool :=
          match a, b with
          | [], [] => true
          | (x, y) :: a', (u, v) :: b' => (x =? u) && (y =? v) && eq a' b'
          | _, _ => false
          end) a b = true -> a = b.
Proof.
  induction a as [|[x y] a IH]; destruct b as [|[u v] b]; intro H; try discriminate; [reflexivity|].
  apply andb_prop in H as [H1 H3]. apply andb_prop in H1 as [H1 H2].
  apply N.eqb_eq in H1, H2. subst. f_equal. apply IH. exact H3.
Qed.

(* every bare-name row carries exactly the documented ranges: agreement on all of N *)
Theorem posix_rows_documented : forall name txt rs,
  In (name, false, txt, rs) table_u \/ In (name, false, txt, rs) table_a ->
  rs = posix_doc (S_ name).
Proof.
  intros name txt rs [H|H].
  - pose proof pos_rows_u as Hf. rewrite forallb_forall in Hf. specialize (Hf _ H). cbn [pos_row_ok] in Hf.
    apply list_eqb_eq. exact Hf.
  - pose proof pos_rows_a as Hf. rewrite forallb_forall in Hf. specialize (Hf _ H). cbn [pos_row_ok] in Hf.
    apply list_eqb_eq. exact Hf.
Qed.

(* the table has a row for each of the 14 documented names *)
Definition names14 : list string :=
  ["alnum"; "alpha"; "ascii"; "blank"; "cntrl"; "digit"; "graph"; "lower"; "print"; "punct"; "space"; "upper";
   "word"; "xdigit"]%string.
Definition has_row (t : list (string * bool * list N * list (N * N))) (n : string) : bool :=
  existsb (fun r => let '(name, neg, _, _) := r in String.eqb name n && negb neg) t.
Lemma all_names_present : forallb (has_row table_u) names14 = true /\ forallb (has_row table_a) names14 = true.
Proof. split; vm_compute; reflexivity. Qed.

(* the `^` rows: complement of the documented class, on the whole code space of their string type *)
Ltac neg_rows limit :=
  repeat match goal with
  | H : In _ (_ :: _) |- _ => destruct H as [H|H]
  | H : In _ [] |- _ => destruct H
  | H : (_, _, _, _) = (_, true, _, _) |- _ => injection H as <- <- <-; vm_compute in_ranges; cbn; lia
  | H : (_, false, _, _) = (_, true, _, _) |- _ => discriminate H
  end.

Theorem posix_neg_rows_u : forall name txt rs c,
  In (name, true, txt, rs) table_u -> c < 1114112 ->
  in_ranges c rs = negb (in_ranges c (posix_doc (S_ name))).
Proof.
  intros name txt rs c H Hc. unfold table_u in H.
  repeat (destruct H as [H|H];
          [ first [ discriminate H
                  | injection H as <- <- <-; unfold in_ranges; vm_compute posix_doc; cbn [existsb fst snd]; lia ] | ]).
  destruct H.
Qed.

Theorem posix_neg_rows_a : forall name txt rs c,
  In (name, true, txt, rs) table_a -> c < 256 ->
  in_ranges c rs = negb (in_ranges c (posix_doc (S_ name))).
Proof.
  intros name txt rs c H Hc. unfold table_a in H.
  repeat (destruct H as [H|H];
          [ first [ discriminate H
                  | injection H as <- <- <-; unfold in_ranges; vm_compute posix_doc; cbn [existsb fst snd]; lia ] | ]).
  destruct H.
Qed.
