(* C19: results never depend on call history, caching, sharing or threads (cache model). *)
From WC Require Import Str Cache.
From Coq Require Import Lia.

Section LRU.
  Variables K V : Type.
  Variable keqb : K -> K -> bool.
  Hypothesis keqb_eq : forall a b, keqb a b = true -> a = b.
  Variable pure : K -> V.
  Variable cap : nat.

  Notation cache := (cache K V).
  Definition Inv (c : cache) : Prop := forall k v, In (k, v) c -> v = pure k.

  Lemma lookup_in k c v : lookup K V keqb k c = Some v -> exists k', keqb k k' = true /\ In (k', v) c.
  Proof.
    induction c as [|[k' v'] c IH]; cbn [lookup]; [discriminate|].
    destruct (keqb k k') eqn:E.
    - intros H. injection H as <-. exists k'. split; [exact E|left; reflexivity].
    - intros H. destruct (IH H) as [k2 [H1 H2]]. exists k2. split; [exact H1|right; exact H2].
  Qed.

  Lemma remove_incl k c : forall x, In x (remove K V keqb k c) -> In x c.
  Proof.
    induction c as [|[k' v'] c IH]; cbn [remove]; intros x H; [exact H|].
    destruct (keqb k k'); [right; exact H|].
    destruct H as [<-|H]; [left; reflexivity|right; apply IH; exact H].
  Qed.

  Lemma firstn_incl {A} n (l : list A) x : In x (firstn n l) -> In x l.
  Proof. revert l; induction n; intros [|a l]; cbn; try tauto. intros [->|H]; auto. Qed.

  Lemma call_ok c k : Inv c -> fst (call K V keqb pure cap c k) = pure k /\ Inv (snd (call K V keqb pure cap c k)).
  Proof.
    intros HI. unfold call. destruct (lookup K V keqb k c) eqn:E.
    - destruct (lookup_in _ _ _ E) as [k' [Hk Hin]]. apply keqb_eq in Hk. subst k'.
      pose proof (HI _ _ Hin) as ->. split; [reflexivity|].
      intros k2 v2 [H|H]; [injection H as <- <-; reflexivity|]. apply HI. eapply remove_incl. exact H.
    - split; [reflexivity|]. cbn [snd]. intros k2 v2 H. apply firstn_incl in H.
      destruct H as [H|H]; [injection H as <- <-; reflexivity|apply HI; exact H].
  Qed.

  (* any call history, any length, any eviction pattern: the cached function returns what the pure function returns *)
  Theorem run_pure ks : forall c, Inv c -> fst (run K V keqb pure cap c ks) = map pure ks /\ Inv (snd (run K V keqb pure cap c ks)).
  Proof.
    induction ks as [|k ks IH]; intros c HI; cbn [run map].
    - split; [reflexivity|exact HI].
    - destruct (call K V keqb pure cap c k) as [v c1] eqn:Ec.
      pose proof (call_ok c k HI) as [H1 H2]. rewrite Ec in H1, H2. cbn [fst snd] in H1, H2.
      destruct (run K V keqb pure cap c1 ks) as [vs c2] eqn:Er.
      pose proof (IH c1 H2) as [H3 H4]. rewrite Er in H3, H4. cbn [fst snd] in *. subst. split; [reflexivity|exact H4].
  Qed.

  Theorem run_from_empty ks : fst (run K V keqb pure cap [] ks) = map pure ks.
  Proof. apply run_pure. intros k v []. Qed.

  (* threads: any interleaving of atomic lookups, stores of computed values and clears keeps the invariant, and
     every hit returns the pure value *)
  Definition honest (e : event K V) : Prop := match e with EStore _ _ k v => v = pure k | _ => True end.

  Lemma step_ok c e : Inv c -> honest e ->
    Inv (fst (step K V keqb cap c e)) /\
    (forall k, e = ELookup K V k -> forall v, snd (step K V keqb cap c e) = Some (Some v) -> v = pure k).
  Proof.
    intros HI He. destruct e as [k|k v|]; cbn [step fst snd].
    - split.
      + destruct (lookup K V keqb k c) eqn:E; [|exact HI].
        destruct (lookup_in _ _ _ E) as [k' [Hk Hin]]. apply keqb_eq in Hk. subst k'.
        intros k2 v2 [H|H]; [injection H as <- <-; apply HI; exact Hin|apply HI; eapply remove_incl; exact H].
      + intros k0 Hk v Hv. injection Hk as <-. injection Hv as Hv.
        destruct (lookup_in _ _ _ Hv) as [k' [Hk Hin]]. apply keqb_eq in Hk. subst k'. apply HI. exact Hin.
    - split; [|intros k0 Hk; discriminate].
      intros k2 v2 H. apply firstn_incl in H. destruct H as [H|H].
      + injection H as <- <-. exact He.
      + apply HI. eapply remove_incl. exact H.
    - split; [intros k v []|intros k Hk; discriminate].
  Qed.

  Theorem interleaving_ok es : forall c, Inv c -> Forall honest es ->
    Inv (fold_left (fun c e => fst (step K V keqb cap c e)) es c).
  Proof.
    induction es as [|e es IH]; intros c HI HF; cbn [fold_left]; [exact HI|].
    inversion HF; subst. apply IH; [|assumption]. apply step_ok; assumption.
  Qed.

  (* the cache never holds more than `cap` entries once it is within the bound, whatever the history: a hit moves
     an entry, a miss stores one and truncates *)
  Lemma remove_length k c : length (remove K V keqb k c) <= length c.
  Proof. induction c as [|[k' v'] c IH]; cbn [remove length]; [lia|]. destruct (keqb k k'); cbn [length]; lia. Qed.

  Lemma lookup_remove_length k c v : lookup K V keqb k c = Some v -> S (length (remove K V keqb k c)) = length c.
  Proof.
    induction c as [|[k' v'] c IH]; cbn [lookup remove length]; [discriminate|].
    destruct (keqb k k'); [reflexivity|]. intro H. cbn [length]. rewrite (IH H). reflexivity.
  Qed.

  Lemma call_bound c k : length c <= cap -> length (snd (call K V keqb pure cap c k)) <= cap.
  Proof.
    intro H. unfold call. destruct (lookup K V keqb k c) eqn:E; cbn [snd].
    - cbn [length]. rewrite (lookup_remove_length _ _ _ E). exact H.
    - rewrite firstn_length. lia.
  Qed.

  Theorem run_bound ks : forall c, length c <= cap -> length (snd (run K V keqb pure cap c ks)) <= cap.
  Proof.
    induction ks as [|k ks IH]; intros c H; cbn [run]; [exact H|].
    pose proof (call_bound c k H) as Hc. destruct (call K V keqb pure cap c k) as [v c1]. cbn [snd] in Hc.
    specialize (IH c1 Hc). destruct (run K V keqb pure cap c1 ks) as [vs c2]. exact IH.
  Qed.

  Lemma step_bound c e : length c <= cap -> length (fst (step K V keqb cap c e)) <= cap.
  Proof.
    intro H. destruct e as [k|k v|]; cbn [step fst].
    - destruct (lookup K V keqb k c) eqn:E; [|exact H]. cbn [length]. rewrite (lookup_remove_length _ _ _ E). exact H.
    - rewrite firstn_length. lia.
    - cbn [length]. lia.
  Qed.

  Theorem interleaving_bound es : forall c, length c <= cap ->
    length (fold_left (fun c e => fst (step K V keqb cap c e)) es c) <= cap.
  Proof.
    induction es as [|e es IH]; intros c H; cbn [fold_left]; [exact H|]. apply IH. apply step_bound. exact H.
  Qed.

  (* every answer a lookup gives along an interleaving of honest events is the pure value *)
  Theorem interleaving_answers es : forall c, Inv c -> Forall honest es ->
    forall pre e post k v, es = pre ++ e :: post -> e = ELookup K V k ->
    snd (step K V keqb cap (fold_left (fun c e => fst (step K V keqb cap c e)) pre c) e) = Some (Some v) -> v = pure k.
  Proof.
    intros c HI HF pre e post k v Hes He Hv. subst es.
    apply Forall_app in HF as [Hpre Hrest]. inversion Hrest; subst.
    pose proof (interleaving_ok pre c HI Hpre) as HI'.
    match goal with X : honest (ELookup K V k) |- _ => 
      exact (proj2 (step_ok _ _ HI' X) k eq_refl v Hv) end.
  Qed.
End LRU.

(* matcher objects *)
Lemma lstr_eqb_eq a : forall b, lstr_eqb a b = true -> a = b.
Proof.
  induction a as [|x a IH]; destruct b as [|y b]; cbn [lstr_eqb]; intro H; try discriminate; [reflexivity|].
  apply andb_prop in H as [H1 H2]. f_equal; [|apply IH; exact H2].
  revert y H1. induction x as [|c x IHx]; destruct y as [|d y]; cbn [str_eqb]; intro H; try discriminate; [reflexivity|].
  apply andb_prop in H as [H3 H4]. apply N.eqb_eq in H3. subst. f_equal. apply IHx. exact H4.
Qed.

Theorem wc_eqb_eq a b : wc_eqb a b = true -> a = b.
Proof.
  destruct a as [i1 e1 r1 p1 f1], b as [i2 e2 r2 p2 f2]. unfold wc_eqb. cbn.
  intro H. repeat (apply andb_prop in H as [H ?]).
  apply lstr_eqb_eq in H. subst.
  repeat match goal with X : Bool.eqb _ _ = true |- _ => apply Bool.eqb_prop in X; subst end.
  destruct e1, e2; try discriminate; [|reflexivity].
  match goal with X : lstr_eqb _ _ = true |- _ => apply lstr_eqb_eq in X; subst end. reflexivity.
Qed.

Theorem rebuild_fields m : rebuild (fields m) = m.
Proof. destruct m; reflexivity. Qed.

(* completeness of the equality test: objects built from the same fields compare equal *)
Lemma str_eqb_refl x : str_eqb x x = true.
Proof. induction x as [|c x IH]; cbn [str_eqb]; [reflexivity|]. rewrite N.eqb_refl. exact IH. Qed.

Lemma lstr_eqb_refl a : lstr_eqb a a = true.
Proof. induction a as [|x a IH]; cbn [lstr_eqb]; [reflexivity|]. rewrite str_eqb_refl. exact IH. Qed.

Theorem wc_eqb_refl a : wc_eqb a a = true.
Proof.
  destruct a as [i e r p f]. unfold wc_eqb. cbn. rewrite lstr_eqb_refl, !Bool.eqb_reflx.
  destruct e as [x|]; [rewrite lstr_eqb_refl|]; reflexivity.
Qed.

Theorem wc_eqb_iff a b : wc_eqb a b = true <-> a = b.
Proof. split; [apply wc_eqb_eq|intros <-; apply wc_eqb_refl]. Qed.
