(* C20: RAWCHARS decodes Python-style character escapes and nothing else: one-step decoding lemmas of the
   norm_pattern scanner model, for every digit / character / remaining text. *)
From WC Require Import Str Norm.
From WC.Gen Require Import Consts.
From WC.Proofs Require Import Pinned_util.
From Coq Require Import Lia.
Open Scope N_scope.

Lemma hexval_lt a : is_hex a = true -> hexval a < 16.
Proof.
  unfold hexval, is_hex. intros H.
  destruct ((48 <=? a) && (a <=? 57)) eqn:E1.
  - apply andb_prop in E1 as [X Y]. apply N.leb_le in X, Y. lia.
  - destruct ((97 <=? a) && (a <=? 102)) eqn:E2.
    + apply andb_prop in E2 as [X Y]. apply N.leb_le in X, Y. lia.
    + cbn [orb] in H. apply andb_prop in H as [X Y]. apply N.leb_le in X, Y. lia.
Qed.

Section N.
  Variable uname : str -> option ch.

  (* without RAWCHARS and without separator normalisation the pattern is returned untouched *)
  Lemma norm_off b p : norm_pattern uname b false false p = inl p.
  Proof. reflexivity. Qed.

  (* \xhh, for every pair of hex digits, str and bytes *)
  Lemma decode_x b nrm a c r : is_hex a = true -> is_hex c = true ->
    norm_at uname b nrm true (92 :: 120 :: a :: c :: r) = Some (inl [hexval a * 16 + hexval c], r).
  Proof.
    intros Ha Hc. unfold norm_at.
    replace (ch_in 120 simple_escapes) with false by reflexivity.
    replace (120 =? 85) with false by reflexivity. replace (120 =? 117) with false by reflexivity.
    rewrite !andb_false_r. replace (120 =? 120) with true by reflexivity.
    cbn [take_hex]. rewrite Ha, Hc. cbn [hexnum fold_left].
    pose proof (hexval_lt a Ha) as H1. pose proof (hexval_lt c Hc) as H2.
    replace ((0 * 16 + hexval a) * 16 + hexval c) with (hexval a * 16 + hexval c) by lia.
    replace (hexval a * 16 + hexval c <? 1114112) with true by (symmetry; apply N.ltb_lt; lia).
    reflexivity.
  Qed.

  (* without RAWCHARS `\x41` stays an escaped `x` followed by the digits *)
  Lemma keep_x b nrm a c r : is_hex a = true -> is_hex c = true ->
    norm_at uname b nrm false (92 :: 120 :: a :: c :: r) = Some (inl [92; 120; a; c], r).
  Proof.
    intros Ha Hc. unfold norm_at.
    replace (ch_in 120 simple_escapes) with false by reflexivity.
    replace (120 =? 85) with false by reflexivity. replace (120 =? 117) with false by reflexivity.
    rewrite !andb_false_r. replace (120 =? 120) with true by reflexivity.
    cbn [take_hex]. rewrite Ha, Hc. reflexivity.
  Qed.

  (* an incomplete \x raises SyntaxError under RAWCHARS (second character not a hex digit, or text ends) *)
  Lemma incomplete_x b nrm a r : is_hex a = false ->
    norm_at uname b nrm true (92 :: 120 :: a :: r) = Some (inr NSyntax, a :: r).
  Proof.
    intros Ha. destruct b; cbn -[is_hex]; rewrite Ha; reflexivity.
  Qed.

  (* \a \b \f \n \r \t \v are decoded through BACK_SLASH_TRANSLATION (regenerated from the source), `\\` is kept *)
  Lemma decode_simple_table :
    map (fun c => norm_at uname false false true [92; c]) [97; 98; 102; 110; 114; 116; 118; 92] =
    [Some (inl [7], []); Some (inl [8], []); Some (inl [12], []); Some (inl [10], []); Some (inl [13], []);
     Some (inl [9], []); Some (inl [11], []); Some (inl [92; 92], [])]
    /\
    map (fun c => norm_at uname true false true [92; c]) [97; 98; 102; 110; 114; 116; 118; 92] =
    [Some (inl [7], []); Some (inl [8], []); Some (inl [12], []); Some (inl [10], []); Some (inl [13], []);
     Some (inl [9], []); Some (inl [11], []); Some (inl [92; 92], [])].
  Proof. split; reflexivity. Qed.

  (* every other backslash escape is left untouched, RAWCHARS or not (str: c not in N U u x, not simple, not octal) *)
  Lemma other_escape_kept nrm raw c r :
    ch_in c simple_escapes = false -> is_oct c = false -> c <> 47 ->
    c <> 78 -> c <> 85 -> c <> 117 -> c <> 120 ->
    norm_at uname false nrm raw (92 :: c :: r) = Some (inl [92; c], r).
  Proof.
    intros Hs Ho H47 H78 H85 H117 H120. unfold norm_at.
    assert (E : forall k, c <> k -> (c =? k) = false) by (intros k Hk; apply N.eqb_neq; exact Hk).
    replace (92 =? 47) with false by reflexivity. replace (92 =? 92) with true by reflexivity. cbn [negb].
    rewrite (E 47 H47), Hs, (E 85 H85), (E 117 H117), (E 120 H120), (E 78 H78), Ho. cbn [negb andb orb]. reflexivity.
  Qed.

  (* unescaped text is never touched: a character that is neither `\` nor `/` starts no match *)
  Lemma plain_char_untouched b nrm raw c r : c <> 92 -> c <> 47 -> norm_at uname b nrm raw (c :: r) = None.
  Proof.
    intros H1 H2. unfold norm_at.
    replace (c =? 47) with false by (symmetry; apply N.eqb_neq; exact H2).
    replace (c =? 92) with false by (symmetry; apply N.eqb_neq; exact H1). reflexivity.
  Qed.
End N.
