(* Theorems about the Windows drive scanner model (WinDrive.v). *)
From WC Require Import Str WinDrive.
From Coq Require Import Lia.
Open Scope N_scope.

(* a name made of characters that are neither `\` nor `/` *)
Definition plainc (c : ch) : bool := negb (c =? 92) && negb (c =? 47).
Definition plain_name (s : str) : Prop := forallb plainc s = true /\ s <> [].

Lemma plainc_facts c : plainc c = true -> (c =? 92) = false /\ (c =? 47) = false.
Proof. unfold plainc. intros H. apply andb_true_iff in H. destruct H as [A B]. apply negb_true_iff in A, B. split; assumption. Qed.

(* the greedy part scanner reads a plain name up to the separator that follows it *)
Lemma scan_part_plain : forall name r, forallb plainc name = true ->
  (match r with [] => True | c :: _ => c = 47 end) -> scan_part (name ++ r) = (name, r).
Proof.
  induction name as [|c name IH]; intros r H Hr.
  - cbn [app]. destruct r as [|d r']; [reflexivity|]. subst d. reflexivity.
  - cbn [forallb] in H. apply andb_true_iff in H. destruct H as [Hc Hn]. destruct (plainc_facts c Hc) as [A B].
    cbn [app scan_part]. rewrite A, B. rewrite (IH r Hn Hr). reflexivity.
Qed.

Lemma unescape_plain : forall s, forallb plainc s = true -> unescape s = s.
Proof.
  induction s as [|c s IH]; intros H; [reflexivity|]. cbn [forallb] in H. apply andb_true_iff in H. destruct H as [Hc Hn].
  destruct (plainc_facts c Hc) as [A _]. cbn [unescape]. rewrite A, (IH Hn). reflexivity.
Qed.

(* ---- `c:` followed by a separator or the end is a drive, whatever follows; written with a backslash it is not ---- *)
Lemma letter_not_sep c : drive_letter c = true -> (c =? 92) = false /\ (c =? 47) = false.
Proof.
  intros L. split; [destruct (N.eqb_spec c 92) as [->|]|destruct (N.eqb_spec c 47) as [->|]]; try reflexivity; vm_compute in L; discriminate.
Qed.

Theorem drive_letter_recognised c rest :
  drive_letter c = true -> (rest = [] \/ exists r, rest = 47 :: r) ->
  get_win_drive (c :: 58 :: rest) =
  (true, DLetter [c; 58], match rest with [] => false | _ => true end, match rest with [] => 2 | _ => 3 end).
Proof.
  intros L Hr. destruct (letter_not_sep c L) as [C92 C47].
  unfold get_win_drive. cbn [pat_sep]. rewrite C47, C92. cbn [tl]. rewrite L. cbn [negb].
  change (58 =? 58) with true. cbv iota.
  destruct Hr as [->|[r ->]]; [reflexivity|].
  unfold sep_or_end. cbn [pat_sep]. change (47 =? 47) with true. cbv iota. cbn [length].
  replace (S (S (S (length r))) - length r)%nat with 3%nat by lia. reflexivity.
Qed.

(* ---- `//server/share/…` (plain names, the first one neither `.` nor `?`): the drive is exactly server and share ---- *)
Lemma scan_plain_slash : forall name r, forallb plainc name = true -> scan_part (name ++ 47 :: r) = (name, 47 :: r).
Proof. intros name r H. apply scan_part_plain; [exact H|reflexivity]. Qed.

Lemma find_part_plain (name rest : str) : forallb plainc name = true -> name <> [] ->
  find_part (S (length (name ++ 47 :: rest))) (name ++ 47 :: rest) 0 = Some (name, true, rest, N.of_nat (length name + 1)).
Proof.
  intros H Hn. pose proof (scan_plain_slash name rest H) as SP.
  destruct name as [|c n]; [contradiction|].
  cbn [find_part app]. cbn [app] in SP. cbv delta [ch str] in SP |- *. rewrite SP.
  unfold sep_or_end. cbn [pat_sep]. change (47 =? 47) with true. cbv iota.
  f_equal. f_equal. cbn [length]. rewrite app_length. cbn [length]. f_equal. lia.
Qed.

Theorem unc_share_recognised server share rest :
  plain_name server -> plain_name share ->
  str_eqb (lower server) (S_ ".") || str_eqb (lower server) (S_ "?") = false ->
  get_win_drive (47 :: 47 :: server ++ 47 :: share ++ 47 :: rest) =
  (true, DUnc [server; share], true, N.of_nat (2 + length server + 1 + length share + 1)).
Proof.
  intros [Hs Hsn] [Hh Hhn] Hsp.
  assert (L : Nat.sub (length (47 :: 47 :: server ++ 47 :: share ++ 47 :: rest)) (length rest) = (2 + length server + 1 + length share + 1)%nat).
  { cbn [length]. rewrite !app_length. cbn [length]. rewrite !app_length. cbn [length]. lia. }
  assert (L2 : Nat.sub (length (47 :: 47 :: server ++ 47 :: share ++ 47 :: rest)) (length (share ++ 47 :: rest)) = (2 + length server + 1)%nat).
  { cbn [length]. rewrite !app_length. cbn [length]. rewrite !app_length. cbn [length]. lia. }
  unfold get_win_drive. do 2 (cbn [pat_sep]; change (47 =? 47) with true; cbv iota).
  pose proof (scan_plain_slash server (share ++ 47 :: rest) Hs) as SP. cbv delta [ch str] in SP |- *. rewrite SP. clear SP.
  destruct server as [|s0 server'] eqn:Es; [contradiction|]. rewrite <- Es in *.
  unfold sep_or_end at 1. cbn [pat_sep]. change (47 =? 47) with true. cbv iota.
  rewrite (unescape_plain _ Hs). rewrite Hsp. rewrite L2.
  destruct share as [|h0 share'] eqn:Eh; [contradiction|]. rewrite <- Eh in *.
  pose proof (find_part_plain share rest Hh Hhn) as FP. cbv delta [ch str] in FP |- *.
  cbn [unc_loop]. rewrite FP. rewrite (unescape_plain _ Hh).
  change (0 + 1 =? 1) with true. cbv iota.
  f_equal. lia.
Qed.

Example device_prefixes :
  get_win_drive (S_ "//?/UNC/srv/share/x") = (true, DUnc [S_ "?"; S_ "UNC"; S_ "srv"; S_ "share"], true, 18) /\
  get_win_drive (S_ "//?/GLOBAL/unc/s/h") = (true, DUnc [S_ "?"; S_ "GLOBAL"; S_ "unc"; S_ "s"; S_ "h"], false, 18) /\
  get_win_drive (S_ "//./c:/x") = (true, DUnc [S_ "."; S_ "c:"], true, 7) /\
  get_win_drive (S_ "//srv") = (true, DNone, false, 5) /\
  get_win_drive (S_ "\c:/") = (false, DNone, false, 4) /\
  get_win_drive (S_ "/a") = (true, DNone, false, 0) /\
  get_win_drive (S_ "a/b") = (false, DNone, false, 0).
Proof. vm_compute. repeat split. Qed.

(* ---- the end offset never points beyond the pattern (root() advances its iterator by it) ---- *)
Lemma scan_part_split : forall s m t, scan_part s = (m, t) -> s = m ++ t.
Proof.
  fix IH 1. intros s m t H. destruct s as [|c r]; [cbn in H; injection H as <- <-; reflexivity|].
  cbn [scan_part] in H. destruct (c =? 92).
  - destruct r as [|d r']; [injection H as <- <-; reflexivity|].
    destruct (is_sepc d); [injection H as <- <-; reflexivity|].
    destruct (scan_part r') as [m' t'] eqn:E. injection H as <- <-. rewrite (IH r' m' t' E). reflexivity.
  - destruct (c =? 47); [injection H as <- <-; reflexivity|].
    destruct (scan_part r) as [m' t'] eqn:E. injection H as <- <-. rewrite (IH r m' t' E). reflexivity.
Qed.

Lemma pat_sep_len s r : pat_sep s = Some r -> (length r < length s)%nat.
Proof.
  unfold pat_sep. destruct s as [|c s']; [discriminate|]. destruct (c =? 47); [intros H; injection H as <-; cbn; lia|].
  destruct (c =? 92); [|discriminate]. destruct s' as [|d s'']; [discriminate|]. destruct (d =? 92); [|discriminate].
  intros H; injection H as <-. cbn. lia.
Qed.

Lemma sep_or_end_len s ne t : sep_or_end s = Some (ne, t) -> (length t <= length s)%nat.
Proof.
  unfold sep_or_end. destruct (pat_sep s) as [r|] eqn:E.
  - intros H. injection H as _ <-. apply pat_sep_len in E. lia.
  - destruct s as [|c r]; [intros H; injection H as _ <-; lia|]. destruct ((c =? 10) && _); [|discriminate]. intros H; injection H as _ <-. lia.
Qed.

Lemma find_part_len : forall fuel s k m ne t used,
  find_part fuel s k = Some (m, ne, t, used) -> (N.to_nat used + length t = N.to_nat k + length s)%nat.
Proof.
  induction fuel as [|f IH]; intros s k m ne t used H; [discriminate|].
  cbn [find_part] in H. destruct s as [|c r]; [discriminate|].
  destruct (scan_part (c :: r)) as [m0 t0] eqn:E. pose proof (scan_part_split _ _ _ E) as Sp.
  assert (Skip : forall x, find_part f r (k + 1) = Some x -> Some x = Some (m, ne, t, used) -> (N.to_nat used + length t = N.to_nat k + length (c :: r))%nat).
  { intros x Hx Hq. rewrite Hq in Hx. apply IH in Hx. rewrite N2Nat.inj_add in Hx. change (N.to_nat 1) with 1%nat in Hx. cbn [length]. lia. }
  destruct m0 as [|x0 m0'].
  - destruct (find_part f r (k + 1)) as [x|] eqn:F; [|discriminate]. exact (Skip x eq_refl H).
  - destruct (sep_or_end t0) as [[ne0 t1]|] eqn:SE.
    + injection H as <- <- <- <-. apply sep_or_end_len in SE.
      assert (Lt : (length t0 <= length (c :: r))%nat) by (rewrite Sp, app_length; lia). rewrite N2Nat.inj_add, Nat2N.id. cbn [length] in *. destruct (length t1); lia.
    + destruct (find_part f r (k + 1)) as [x|] eqn:F; [|discriminate]. exact (Skip x eq_refl H).
Qed.

Lemma unc_loop_end : forall fuel s pos parts sp count complete first slash parts' sl e ok,
  unc_loop fuel s pos parts sp count complete first slash = (parts', sl, e, ok) ->
  (N.to_nat e <= N.to_nat pos + length s)%nat.
Proof.
  induction fuel as [|f IH]; intros s pos parts sp count complete first slash parts' sl e ok H.
  - cbn in H. injection H as _ _ <- _. lia.
  - cbn [unc_loop] in H. destruct (find_part (S (length s)) s 0) as [[[[m ne] t'] used]|] eqn:F.
    + apply find_part_len in F. cbn in F.
      destruct (if sp then _ else _) as [complete' first'].
      destruct (count + 1 =? complete').
      * injection H as _ _ <- _. rewrite N2Nat.inj_add. lia.
      * apply IH in H. rewrite N2Nat.inj_add in H. lia.
    + injection H as _ _ <- _. lia.
Qed.

Theorem drive_end_within p rs d sl e : get_win_drive p = (rs, d, sl, e) -> (N.to_nat e <= length p)%nat.
Proof.
  unfold get_win_drive.
  destruct (pat_sep p) as [r1|] eqn:E1.
  - destruct (pat_sep r1) as [r2|] eqn:E2.
    + destruct (scan_part r2) as [m t] eqn:E3. destruct m as [|x0 m'].
      * (* alternative 1 failed *) apply pat_sep_len in E1.
        destruct (match (if match p with c :: _ => c =? 92 | [] => false end then tl p else p) with c :: d0 :: r => _ | _ => None end) as [[[bs c] r]|].
        -- destruct (sep_or_end r) as [[ne t']|]; [destruct bs|]; intros H; injection H as _ _ _ <-; lia.
        -- intros H; injection H as _ _ _ <-. lia.
      * destruct (sep_or_end t) as [[ne t']|] eqn:E4.
        -- destruct (unc_loop _ _ _ _ _ _ _ _ _) as [[[parts slash] e'] ok] eqn:EL. apply unc_loop_end in EL.
           apply sep_or_end_len in E4. apply pat_sep_len in E1, E2. pose proof (scan_part_split _ _ _ E3) as Sp.
           assert (Lt : (length t <= length r2)%nat) by (rewrite Sp, app_length; lia).
           destruct ok; intros H; injection H as _ _ _ <-; lia.
        -- destruct (match (if match p with c :: _ => c =? 92 | [] => false end then tl p else p) with c :: d0 :: r => _ | _ => None end) as [[[bs c] r]|].
           ++ destruct (sep_or_end r) as [[ne t']|]; [destruct bs|]; intros H; injection H as _ _ _ <-; lia.
           ++ intros H; injection H as _ _ _ <-. lia.
    + destruct (match (if match p with c :: _ => c =? 92 | [] => false end then tl p else p) with c :: d0 :: r => _ | _ => None end) as [[[bs c] r]|].
      * destruct (sep_or_end r) as [[ne t']|]; [destruct bs|]; intros H; injection H as _ _ _ <-; lia.
      * intros H; injection H as _ _ _ <-. lia.
  - destruct (match (if match p with c :: _ => c =? 92 | [] => false end then tl p else p) with c :: d0 :: r => _ | _ => None end) as [[[bs c] r]|].
    + destruct (sep_or_end r) as [[ne t']|]; [destruct bs|]; intros H; injection H as _ _ _ <-; lia.
    + intros H; injection H as _ _ _ <-. lia.
Qed.
