(* C17: case and platform flags select a consistent matching mode (translated flag functions). *)
From WC Require Import Str WcParse.
From WC.Gen Require Import Consts FlagFuns.
From WC.Proofs Require Import Bits.
From Coq Require Import Lia Btauto.
Import Mwcparse.
Open Scope Z_scope.

(* case-insensitive <-> no CASE and (IGNORECASE, or Windows rules: FORCEWIN, or neither force flag on a
   case-insensitive platform) *)
Lemma get_case_table P f :
  get_case P f =
  negb (negb (Z.testbit f 0) &&
        (Z.testbit f 1 || Z.testbit f 16 || (negb (Z.testbit f 17) && negb (fs_case_sensitive P)))).
Proof.
  unfold get_case, is_case_sensitive. bitconds.
  destruct (Z.testbit f 0), (Z.testbit f 1), (Z.testbit f 16), (Z.testbit f 17), (fs_case_sensitive P); reflexivity.
Qed.

Lemma is_unix_style_table P f :
  is_unix_style P f =
  (negb (plat_windows P) || (negb (Z.testbit f 10) && Z.testbit f 17)) && negb (Z.testbit f 16).
Proof. unfold is_unix_style. bitconds. reflexivity. Qed.

(* FORCEWIN together with FORCEUNIX cancel out (fnmatch entry points) *)
Lemma fnmatch_transform_force P f :
  Z.testbit (fnmatch_flag_transform P f) 16 = Z.testbit f 16 && negb (Z.testbit f 17) /\
  Z.testbit (fnmatch_flag_transform P f) 17 = Z.testbit f 17 && negb (Z.testbit f 16).
Proof.
  unfold fnmatch_flag_transform. bitconds.
  destruct (Z.testbit f 17) eqn:H17, (Z.testbit f 16) eqn:H16; cbn [andb negb]; bitspec; rewrite ?H16, ?H17; split; reflexivity.
Qed.

(* ... and keeps CASE / IGNORECASE as given *)
Lemma fnmatch_transform_case P f :
  Z.testbit (fnmatch_flag_transform P f) 0 = Z.testbit f 0 /\ Z.testbit (fnmatch_flag_transform P f) 1 = Z.testbit f 1.
Proof.
  unfold fnmatch_flag_transform. bitconds.
  destruct (Z.testbit f 17 && Z.testbit f 16); bitspec; split;
    rewrite ?Bool.xorb_false_r, ?Bool.andb_true_r; reflexivity.
Qed.

(* glob entry points: cancellation, PATHNAME forced, and under REALPATH the platform decides (here: never
   Windows rules on a non-Windows platform) *)
Lemma glob_transform_force P f :
  plat_windows P = false ->
  Z.testbit (glob_flag_transform P f) 5 = true /\
  Z.testbit (glob_flag_transform P f) 16 = Z.testbit f 16 && negb (Z.testbit f 17) && negb (Z.testbit f 10) /\
  Z.testbit (glob_flag_transform P f) 17 = Z.testbit f 17 && negb (Z.testbit f 16).
Proof.
  intros HP. unfold glob_flag_transform. rewrite HP. bitconds.
  destruct (Z.testbit f 17) eqn:H17, (Z.testbit f 16) eqn:H16, (Z.testbit f 10) eqn:H10; cbn [andb negb];
    repeat (bits; rewrite ?H16, ?H17, ?H10; cbn [andb orb xorb negb]); repeat split;
    repeat (bits; rewrite ?H16, ?H17, ?H10; cbn [andb orb xorb negb]); try reflexivity; btauto.
Qed.

(* ---- the spec is closed under ASCII case changes of the name in case-insensitive mode ---- *)
From WC Require Import Spec.
Open Scope N_scope.

Definition swapcase (c : ch) : ch :=
  if (65 <=? c) && (c <=? 90) then c + 32 else if (97 <=? c) && (c <=? 122) then c - 32 else c.

Lemma lower_swap c : lower_ascii (swapcase c) = lower_ascii c.
Proof.
  unfold lower_ascii, swapcase.
  destruct ((65 <=? c) && (c <=? 90)) eqn:U.
  - apply andb_prop in U as [U1 U2]. apply N.leb_le in U1, U2.
    replace ((65 <=? c + 32) && (c + 32 <=? 90)) with false; [reflexivity|].
    symmetry. apply andb_false_iff. right. apply N.leb_gt. lia.
  - destruct ((97 <=? c) && (c <=? 122)) eqn:L.
    + apply andb_prop in L as [L1 L2]. apply N.leb_le in L1, L2.
      replace ((65 <=? c - 32) && (c - 32 <=? 90)) with true; [cbv iota; lia|].
      symmetry. apply andb_true_iff. split; apply N.leb_le; lia.
    + rewrite U. reflexivity.
Qed.

Lemma upper_swap c : upper_ascii (swapcase c) = upper_ascii c.
Proof.
  unfold upper_ascii, swapcase.
  destruct ((65 <=? c) && (c <=? 90)) eqn:U.
  - apply andb_prop in U as [U1 U2]. apply N.leb_le in U1, U2.
    replace ((97 <=? c + 32) && (c + 32 <=? 122)) with true.
    + replace ((97 <=? c) && (c <=? 122)) with false; [cbv iota; lia|].
      symmetry. apply andb_false_iff. left. apply N.leb_gt. lia.
    + symmetry. apply andb_true_iff. split; apply N.leb_le; lia.
  - destruct ((97 <=? c) && (c <=? 122)) eqn:L.
    + apply andb_prop in L as [L1 L2]. apply N.leb_le in L1, L2.
      replace ((97 <=? c - 32) && (c - 32 <=? 122)) with false; [reflexivity|].
      symmetry. apply andb_false_iff. left. apply N.leb_gt. lia.
    + rewrite L. reflexivity.
Qed.

Lemma swap_dot0 c : (swapcase c =? DOT0) = (c =? DOT0).
Proof.
  unfold swapcase, DOT0.
  destruct ((65 <=? c) && (c <=? 90)) eqn:U.
  - apply andb_prop in U as [U1 U2]. apply N.leb_le in U1, U2.
    replace (c + 32 =? 1114112) with false by (symmetry; apply N.eqb_neq; lia).
    symmetry; apply N.eqb_neq; lia.
  - destruct ((97 <=? c) && (c <=? 122)) eqn:L; [|reflexivity].
    apply andb_prop in L as [L1 L2]. apply N.leb_le in L1, L2.
    replace (c - 32 =? 1114112) with false by (symmetry; apply N.eqb_neq; lia).
    symmetry; apply N.eqb_neq; lia.
Qed.

Lemma cset_mem_swap s c : cset_mem true s (swapcase c) = cset_mem true s c.
Proof. unfold cset_mem. rewrite swap_dot0, lower_swap, upper_swap. reflexivity. Qed.

Lemma chr_mem_swap w c : chr_mem true w (swapcase c) = chr_mem true w c.
Proof. unfold chr_mem, fold_ci. rewrite swap_dot0, lower_swap. reflexivity. Qed.

Lemma nullable_swap r : forall c, nullable (Some (swapcase c)) r = nullable (Some c) r.
Proof.
  induction r; intros c0; cbn [nullable]; rewrite ?IHr1, ?IHr2, ?IHr; try reflexivity.
  rewrite swap_dot0. reflexivity.
Qed.

Lemma deriv_swap r : forall c, deriv true (swapcase c) r = deriv true c r.
Proof.
  induction r; intros c0; cbn [deriv]; rewrite ?IHr1, ?IHr2, ?IHr, ?cset_mem_swap, ?chr_mem_swap, ?nullable_swap;
    reflexivity.
Qed.

Theorem rx_match_swapcase n : forall r, rx_match true r (map swapcase n) = rx_match true r n.
Proof.
  induction n as [|c n IH]; intros r; cbn [map rx_match]; [reflexivity|].
  rewrite deriv_swap. apply IH.
Qed.

Open Scope Z_scope.
Lemma glob_realpath_never_win P f : plat_windows P = false -> Z.testbit f 10 = true ->
  Z.testbit (glob_flag_transform P f) 5 = true /\ Z.testbit (glob_flag_transform P f) 16 = false.
Proof.
  intros HP H10. destruct (glob_transform_force P f HP) as [A [B C]]. split; [exact A|].
  rewrite B, H10. cbn [negb]. apply andb_false_r.
Qed.

(* ---- pathlib: the platform rules are fixed by the path class (translated _translate_flags) ---- *)
Ltac bsimp := rewrite ?andb_false_r, ?andb_true_r, ?orb_false_r, ?orb_true_r; cbn [andb orb negb].

Lemma pathlib_posix_class P f : os_nt P = false ->
  exists f', pathlib_translate_flags P false true f = Some f' /\
             Z.testbit f' 17 = true /\ Z.testbit f' 16 = false /\ Z.testbit f' 5 = true.
Proof.
  intros HN. unfold pathlib_translate_flags. rewrite HN. bits. bsimp.
  destruct (Z.testbit f 10); cbn [andb orb]; bits; bsimp;
    (eexists; split; [reflexivity|]; repeat split; bits; bsimp; reflexivity).
Qed.

Lemma pathlib_windows_class P f : os_nt P = false ->
  (Z.testbit f 10 = true -> pathlib_translate_flags P true false f = None) /\
  (Z.testbit f 10 = false -> exists f', pathlib_translate_flags P true false f = Some f' /\
                                        Z.testbit f' 16 = true /\ Z.testbit f' 17 = false /\ Z.testbit f' 5 = true).
Proof.
  intros HN. unfold pathlib_translate_flags. rewrite HN. bits. bsimp. split; intros H10; rewrite H10; cbn [andb orb]; bits; bsimp.
  - reflexivity.
  - eexists. split; [reflexivity|]. repeat split; bits; bsimp; reflexivity.
Qed.

(* ---- WcMatch._parse_flags / _compile_wildcard (translated): forced flags ---- *)
Lemma wcmatch_forced_flags P f : plat_windows P = false ->
  let '(fl, follow, hidden, recursive, dirp, filep, mb) := wcmatch_parse_flags P f in
  Z.testbit fl 3 = true /\ Z.testbit fl 6 = true /\ Z.testbit fl 15 = true /\ Z.testbit fl 12 = true /\
  Z.testbit fl 13 = false /\ Z.testbit fl 16 = false /\
  follow = Z.testbit f 26 /\ hidden = Z.testbit f 27 /\ recursive = Z.testbit f 28 /\
  dirp = Z.testbit f 24 /\ filep = Z.testbit f 25 /\ mb = Z.testbit f 13.
Proof.
  intros HP. unfold wcmatch_parse_flags. rewrite HP.
  repeat split; bits; bsimp; try reflexivity;
    rewrite ?(cond_bit _ 26), ?(cond_bit _ 27), ?(cond_bit _ 28), ?(cond_bit _ 24), ?(cond_bit _ 25), ?(cond_bit _ 13) by lia;
    bits; bsimp; try reflexivity; try btauto.
Qed.

Lemma wcmatch_path_flags sflags mb : 
  Z.testbit (wcmatch_wildcard_flags sflags mb true) 5 = true /\
  Z.testbit (wcmatch_wildcard_flags sflags mb true) 33 = true /\
  Z.testbit (wcmatch_wildcard_flags sflags mb true) 13 = (Z.testbit sflags 13 || mb) /\
  wcmatch_wildcard_flags sflags mb false = sflags.
Proof.
  unfold wcmatch_wildcard_flags. destruct mb; repeat split; bits; bsimp; reflexivity.
Qed.
