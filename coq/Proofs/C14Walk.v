(* The per-entry decisions of WcMatch (_valid_file / _valid_folder / compare_directory, translated from the source on
   every run into Gen/WalkFuns.v) equal the documented rule, for every configuration, matcher, hidden test and hook:
     a file is taken      iff  the file pattern matches its name (its root-relative path under FILEPATHNAME)
                               and (HIDDEN or it is not hidden) and on_validate_file agrees;
     a folder is entered  iff  RECURSIVE, the exclude pattern (if any) does not match its name (root-relative path
                               with a trailing separator under DIRPATHNAME), (HIDDEN or not hidden) and
                               on_validate_directory agrees. *)
From WC Require Import Str.
From WC.Gen Require Import WalkFuns.

Section Rules.
  Variables (has_file_check has_folder_exclude show_hidden recursive file_pathname dir_pathname : bool).
  Variables (file_match folder_exclude_match is_hidden : str -> bool) (on_validate_file on_validate_directory : str -> str -> bool).
  Variables (path_join : str -> str -> str) (strip_base add_sep : str -> str).

  Notation vfile := (valid_file has_file_check show_hidden file_pathname file_match is_hidden on_validate_file path_join strip_base).
  Notation vfolder := (valid_folder has_folder_exclude show_hidden recursive dir_pathname folder_exclude_match is_hidden
                                     on_validate_directory path_join strip_base add_sep).

  Lemma valid_file_rule base name :
    vfile base name =
    has_file_check && file_match (if file_pathname then strip_base (path_join base name) else name) &&
    (show_hidden || negb (is_hidden (path_join base name))) && on_validate_file base name.
  Proof.
    unfold valid_file, compare_file. cbv zeta.
    destruct has_file_check, show_hidden, (file_match _), (is_hidden _), (on_validate_file _ _); reflexivity.
  Qed.

  Lemma valid_folder_rule base name :
    vfolder base name =
    recursive &&
    negb (has_folder_exclude &&
          folder_exclude_match (let d := if dir_pathname then strip_base (path_join base name) else name in
                                if dir_pathname then add_sep d else d)) &&
    (show_hidden || negb (is_hidden (path_join base name))) && on_validate_directory base name.
  Proof.
    unfold valid_folder, compare_directory. cbv zeta.
    destruct recursive, has_folder_exclude, show_hidden, (folder_exclude_match _), (is_hidden _), (on_validate_directory _ _); reflexivity.
  Qed.
End Rules.
