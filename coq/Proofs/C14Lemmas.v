(* C14: WcMatch returns exactly the files a filtered directory walk selects; skipped = visited - returned. *)
From WC Require Import Str Glob WcMatchM.
From WC.Proofs Require Import C15Lemmas.
From Coq Require Import Lia.
Open Scope nat_scope.

Section S.
  Variable listing : str -> option (list str * list str).
  Variable islink : str -> bool.
  Variable followlinks : bool.
  Variable vfolder : str -> str -> bool * bool.
  Variable vfile : str -> str -> fres * bool.
  Variable match_kill skip_kill : str -> str -> bool.

  (* ---- the spec: which directories are entered, in order, and which of their files are selected ---- *)
  Definition dir_ok (base d : str) : bool := fst (vfolder base d).
  Definition file_ok (base n : str) : bool := match fst (vfile base n) with FValid => true | _ => false end.

  Fixpoint reach (fuel : nat) (base : str) : list (str * list str) :=
    match fuel with
    | O => []
    | S f =>
      match listing base with
      | None => []
      | Some (dirs, files) =>
        (base, files) ::
        flat_map (fun d => if followlinks || negb (islink (pjoin base d)) then reach f (pjoin base d) else [])
                 (filter (dir_ok base) dirs)
      end
    end.
  Definition selected (fuel : nat) (root : str) : list (str * str) :=
    flat_map (fun bf => map (pair (fst bf)) (filter (file_ok (fst bf)) (snd bf))) (reach fuel root).
  Definition visited (fuel : nat) (root : str) : nat :=
    fold_right (fun bf acc => length (snd bf) + acc) 0 (reach fuel root).

  Notation walkC := (walk listing islink followlinks (vfolder0 vfolder) (vfile0 vfile) nokill nokill).
  Notation filesC := (files_loop (vfile0 vfile) nokill nokill).
  Notation dirsC := (dirs_loop (vfolder0 vfolder)).

  Lemma dirsC_filter base ds : forall c, w_abort c = false -> dirsC base ds c = (filter (dir_ok base) ds, c).
  Proof.
    induction ds as [|n ds IH]; intros c Hc; cbn [dirs_loop filter]; [reflexivity|].
    rewrite vfolder0_eq. rewrite set_abort_false, Hc, (IH c Hc). unfold dir_ok. destruct (fst (vfolder base n)); reflexivity.
  Qed.

  Lemma filesC_sel base fs : forall c, w_abort c = false ->
    w_abort (filesC base fs c) = false /\
    w_out (filesC base fs c) = w_out c ++ map (pair base) (filter (file_ok base) fs) /\
    w_visited (filesC base fs c) = w_visited c + length fs /\
    w_skipped (filesC base fs c) + length (w_out (filesC base fs c)) = w_skipped c + length (w_out c) + length fs.
  Proof.
    induction fs as [|n fs IH]; intros c Hc.
    - cbn [files_loop filter map length]. rewrite app_nil_r. repeat split; [exact Hc|lia|lia].
    - rewrite (filesC_step vfile) by exact Hc.
      assert (Ha : w_abort (after_file base n (fst (vfile base n)) c) = false) by (unfold after_file; destruct (fst (vfile base n)); exact Hc).
      destruct (IH _ Ha) as [A [B [C D]]]. split; [exact A|]. rewrite B, C. rewrite B in D.
      unfold after_file, file_ok in *. cbn [filter map length].
      destruct (fst (vfile base n)); cbn [w_out w_visited w_skipped map] in *; rewrite ?app_length in *; cbn [length] in *;
        (split; [rewrite <- ?app_assoc; reflexivity|]); split; lia.
  Qed.

  (* the uninterrupted walk yields exactly the selected files, in walk order; counters add up *)
  Theorem walkC_exact fuel : forall base c, w_abort c = false ->
    w_abort (walkC fuel base c) = false /\
    w_out (walkC fuel base c) = w_out c ++ selected fuel base /\
    w_visited (walkC fuel base c) = w_visited c + visited fuel base /\
    w_skipped (walkC fuel base c) + length (w_out (walkC fuel base c)) =
      w_skipped c + length (w_out c) + visited fuel base.
  Proof.
    induction fuel as [|f IH]; intros base c Hc.
    - cbn [walk]. unfold selected, visited. cbn. rewrite app_nil_r. repeat split; [exact Hc|lia|lia].
    - cbn [walk]. unfold selected, visited. cbn [reach].
      destruct (listing base) as [[dirs files]|].
      + rewrite Hc, (dirsC_filter base dirs c Hc). rewrite Hc.
        destruct (filesC_sel base files c Hc) as [F1 [F2 [F3 F4]]].
        set (s2 := filesC base files c) in *.
        cbn [flat_map fold_right fst snd].
        generalize (filter (dir_ok base) dirs) as kept.
        assert (G : forall kept s, w_abort s = false ->
          let r := fold_left (fun s d => if w_abort s then s else
                                if followlinks || negb (islink (pjoin base d)) then walkC f (pjoin base d) s else s) kept s in
          let sub := flat_map (fun d => if followlinks || negb (islink (pjoin base d)) then reach f (pjoin base d) else []) kept in
          w_abort r = false /\
          w_out r = w_out s ++ flat_map (fun bf => map (pair (fst bf)) (filter (file_ok (fst bf)) (snd bf))) sub /\
          w_visited r = w_visited s + fold_right (fun bf acc => length (snd bf) + acc) 0 sub /\
          w_skipped r + length (w_out r) = w_skipped s + length (w_out s) + fold_right (fun bf acc => length (snd bf) + acc) 0 sub).
        { induction kept as [|d kept IHk]; intros s Hs; cbn [fold_left flat_map fold_right].
          - rewrite app_nil_r. repeat split; [exact Hs|lia|lia].
          - rewrite Hs. destruct (followlinks || negb (islink (pjoin base d))).
            + destruct (IH (pjoin base d) s Hs) as [A [B [C D]]].
              destruct (IHk _ A) as [A' [B' [C' D']]]. cbn zeta in *.
              split; [exact A'|]. rewrite B', B, C', C. rewrite B', B in D'. rewrite B in D.
              rewrite flat_map_app. unfold selected, visited in *.
              rewrite fold_right_app.
              assert (Hfr : forall l a, fold_right (fun (bf : str * list str) acc => length (snd bf) + acc) a l =
                                        fold_right (fun (bf : str * list str) acc => length (snd bf) + acc) 0 l + a).
              { induction l as [|x l IHl]; intros a; cbn [fold_right]; [reflexivity|]. rewrite IHl. lia. }
              repeat match goal with
                     | |- context [fold_right ?F (fold_right ?F 0 ?l2) ?l1] => rewrite (Hfr l1 (fold_right F 0 l2))
                     end.
              split; [rewrite <- app_assoc; reflexivity|].
              rewrite !app_length in *.
              repeat match goal with
                     | |- context [fold_right ?F 0 ?l] => let v := fresh "v" in set (v := fold_right F 0 l) in *
                     | |- context [Datatypes.length (flat_map ?F ?l)] => let v := fresh "n" in set (v := Datatypes.length (flat_map F l)) in *
                     end.
              split; lia.
            + cbn [app]. apply IHk. exact Hs. }
        intros kept. destruct (G kept s2 F1) as [A [B [C D]]]. cbn zeta in *.
        split; [exact A|]. rewrite B, F2, C, F3. rewrite B, F2 in D.
        split; [rewrite <- app_assoc; reflexivity|]. split; [lia|]. rewrite !app_length in *. rewrite F2, app_length in F4. lia.
      + cbn. rewrite app_nil_r. repeat split; [exact Hc|lia|lia].
  Qed.

  Theorem match_exact fuel root :
    w_out (imatch listing islink followlinks (vfolder0 vfolder) (vfile0 vfile) nokill nokill fuel root false) = selected fuel root.
  Proof.
    unfold imatch. set (st0 := {| w_abort := false; w_skipped := 0; w_visited := 0; w_out := [] |}).
    destruct (walkC_exact fuel root st0 eq_refl) as [_ [B _]]. exact B.
  Qed.

  Theorem skipped_is_visited_minus_returned fuel root :
    let r := imatch listing islink followlinks (vfolder0 vfolder) (vfile0 vfile) nokill nokill fuel root false in
    w_skipped r + length (w_out r) = visited fuel root /\ w_visited r = visited fuel root.
  Proof.
    unfold imatch. set (st0 := {| w_abort := false; w_skipped := 0; w_visited := 0; w_out := [] |}).
    destruct (walkC_exact fuel root st0 eq_refl) as [_ [_ [C D]]]. cbn in *. split; [exact D|exact C].
  Qed.
End S.
