From WC Require Import Str WcParse WcSplit Expand.
From WC.Gen Require Import Consts FlagFuns.
From Coq Require Import Lia ZifyBool.
From WC.Proofs Require Import ExpandLemmas.
Import Mwcparse.
Open Scope Z_scope.

Lemma defaults_ok :
  PATTERN_LIMIT = 1000 /\ Forall (fun e => snd e = PATTERN_LIMIT) Limits.limit_defaults
  /\ (20 <= length Limits.limit_defaults)%nat.
Proof.
  split; [reflexivity|]. split.
  - repeat first [apply Forall_nil | apply Forall_cons; [reflexivity|]].
  - vm_compute. repeat constructor.
Qed.

(* brace oracle for the witness: {1..10} expands to ten strings unless the limit is positive and < 10 *)
Definition w_brace (p : str) (l : Z) : option (list str) :=
  if str_eqb p (S_ "{1..10}") then
    if (0 <? l) && (l <? 10) then None
    else Some (map S_ ["1";"2";"3";"4";"5";"6";"7";"8";"9";"10"]%string)
  else Some [p].

Lemma exclude_budget_fixed :
  pattern_lists linux w_brace (fun _ p => p) (fun _ _ p => Some p) (fun _ p => inl p) true false BRACE 3
                [S_ "{1..10}"] (Some [S_ "x"; S_ "y"; S_ "z"]) = inr LLimit.
Proof. vm_compute. reflexivity. Qed.

(* the unbounded expansion behind [w_brace], and the contract the pass-direction theorem asks of a brace oracle *)
Definition w_full (p : str) : list str :=
  if str_eqb p (S_ "{1..10}") then map S_ ["1";"2";"3";"4";"5";"6";"7";"8";"9";"10"]%string else [p].

Lemma w_brace_contract : forall p lim, 0 < lim -> Z.of_nat (length (w_full p)) <= lim -> w_brace p lim = Some (w_full p).
Proof.
  intros p lim Hl Hn. unfold w_brace, w_full in *. destruct (str_eqb p (S_ "{1..10}")); [|reflexivity].
  cbn [length map] in Hn. replace (lim <? 10) with false by lia. rewrite Bool.andb_false_r. reflexivity.
Qed.

(* premises of the pass direction are satisfiable: ten expansions, two compiled exclusions, limit 12 *)
Lemma pass_premise_example :
  Z.of_nat (length [S_ "x"; S_ "y"]) +
  total_items linux (fun _ p => p) (fun _ _ p => Some p) w_full (core_flags true BRACE)
              (is_unix_style linux (core_flags true BRACE)) [S_ "{1..10}"] <= 12
  /\ list_core linux w_brace (fun _ p => p) (fun _ _ p => Some p) (fun _ p => inl p) true false BRACE 12
               [S_ "{1..10}"] [S_ "x"; S_ "y"] <> inr LLimit.
Proof. split; [vm_compute; discriminate|vm_compute; discriminate]. Qed.
