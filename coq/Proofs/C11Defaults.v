From WC Require Import Str WcParse WcSplit Expand.
From WC.Gen Require Import Consts FlagFuns.
From Coq Require Import Lia.
Import Mwcparse.
Open Scope Z_scope.

Lemma defaults_ok :
  PATTERN_LIMIT = 1000 /\ Forall (fun e => snd e = PATTERN_LIMIT) Limits.limit_defaults
  /\ (20 <= length Limits.limit_defaults)%nat.
Proof.
  split; [reflexivity|]. split.
  - repeat first [apply Forall_nil | apply Forall_cons; [reflexivity|]].
  - vm_compute. repeat constructor.
Qed.

(* brace oracle for the witness: {1..10} expands to ten strings unless the limit is positive and < 10 *)
Definition w_brace (p : str) (l : Z) : option (list str) :=
  if str_eqb p (S_ "{1..10}") then
    if (0 <? l) && (l <? 10) then None
    else Some (map S_ ["1";"2";"3";"4";"5";"6";"7";"8";"9";"10"]%string)
  else Some [p].

Lemma exclude_budget_fixed :
  pattern_lists linux w_brace (fun _ p => p) (fun _ _ p => Some p) (fun _ p => inl p) true false BRACE 3
                [S_ "{1..10}"] (Some [S_ "x"; S_ "y"; S_ "z"]) = inr LLimit.
Proof. vm_compute. reflexivity. Qed.
