From WC Require Import Str Spec WcParse WcSplit Expand.
From WC.Gen Require Import Consts FlagFuns.
From WC.Proofs Require Import Bits.
From Coq Require Import Lia.
Import Mwcparse.

Lemma cset_dot0_false ci s : cset_mem ci s DOT0 = false.
Proof. unfold cset_mem. rewrite N.eqb_refl. reflexivity. Qed.

Lemma spec_wild_no_dot0 : forall ci path neg items,
  rx_match ci (den_pat false path (PBr neg items)) [DOT0] = false
  /\ rx_match ci (den_pat false path PQm) [DOT0] = false
  /\ rx_match ci (den_pat false path PStar) [DOT0] = false.
Proof.
  intros ci path neg items. split; [|split].
  - destruct path; cbn [den_pat restrict rx_match deriv]; rewrite !cset_dot0_false; reflexivity.
  - cbn [den_pat rx_match deriv]. rewrite cset_dot0_false. reflexivity.
  - cbn [den_pat rstar rx_match deriv nullable mkcat]. rewrite cset_dot0_false. reflexivity.
Qed.

Open Scope Z_scope.

(* Exclusion patterns are always handed to the single-pattern parser with the DOTMATCH bit set.  Stated
   extensionally: two parsers that agree on all flag words with bit 6 (DOTMATCH) set produce the same exclusion
   regexes in the list loop, whatever they do without DOTMATCH -- provided the inclusion patterns do not make
   one of them fail. *)
Section Forced.
  Variables parse1 parse2 : Z -> str -> str + perr.
  Hypothesis agree : forall f p, Z.testbit f 6 = true -> parse1 f p = parse2 f p.
  Variable pm : Z -> Z.
  Hypothesis pm_keeps : forall f, Z.testbit f 6 = true -> Z.testbit (pm f) 6 = true.

  Lemma items_loop_neg_same fl limit items : forall st1 st2 r1 r2,
      l_neg st1 = l_neg st2 -> l_seen st1 = l_seen st2 -> l_total st1 = l_total st2 ->
      items_loop parse1 fl limit pm items st1 = inl r1 ->
      items_loop parse2 fl limit pm items st2 = inl r2 ->
      l_neg r1 = l_neg r2 /\ l_seen r1 = l_seen r2 /\ l_total r1 = l_total r2.
  Proof.
    induction items as [|e r IH]; intros st1 st2 r1 r2 Hn Hs Ht H1 H2; cbn [items_loop] in H1, H2.
    - injection H1 as <-. injection H2 as <-. auto.
    - rewrite <- Ht, <- Hs in H2.
      destruct ((0 <? limit) && (limit <? l_total st1 + 1)); [discriminate|].
      destruct (mem e (l_seen st1)).
      + eapply IH; [| | |exact H1|exact H2]; cbn; congruence.
      + destruct (is_negative fl e).
        * rewrite <- (agree _ (tl e)) in H2
            by (apply pm_keeps; apply testbit_lor_DOTMATCH).
          destruct (parse1 _ (tl e)); [|discriminate].
          eapply IH; [| | |exact H1|exact H2]; cbn; congruence.
        * destruct (parse1 (pm fl) e); [|discriminate]. destruct (parse2 (pm fl) e); [|discriminate].
          eapply IH; [| | |exact H1|exact H2]; cbn; congruence.
  Qed.
End Forced.
