(* C01, the flat fragment, end to end inside Coq.

   For patterns made of literal characters, escaped characters, `?`, `*` and simple bracket expressions `[abc]` / `[!abc]`
   over plain members (no ranges, classes, escapes, set operators; no groups), fnmatch mode,
   Unix rules, DOTMATCH on or off:
     (1) the parser model's output is, character for character, the printed form of a regular expression [emit ts]
         built from the token list by a three-line function;
     (2) under a standard semantics of that regular-expression fragment (concatenation, lazy star, `.` with the DOTALL
         flag, one-character classes, negative and positive look-ahead) [emit ts] matches a name exactly when the
         documented meaning [Den] holds: `?` is any one character, `*` any run of characters, an escaped character
         itself - except that a name's leading `.` is matched by a written `.` only (unless DOTMATCH) and a pattern
         that starts with `*` needs a non-empty name.
   Both hold for every token list and every name.  What stays trusted: that CPython's `re` implements this semantics
   for this fragment, and the text correspondence between the parser model and the Python parser. *)
From WC Require Import Str WcParse.
From WC.Gen Require Import Consts FlagFuns.
From Coq Require Import Lia.
Import Mwcparse.
Open Scope N_scope.

(* ---- a regular-expression fragment and its printed form ---- *)
Inductive re : Type :=
| Chr (c : ch)                 (* a literal character, printed re.escape()d *)
| Any                          (* `.` under (?s) *)
| SetOf (l : list ch)          (* `[...]` of plain characters *)
| NSetOf (l : list ch)         (* `[^...]` *)
| StarLazy (r : re)            (* r*? *)
| NLook (r : re)               (* (?!r) *)
| PLook (r : re).              (* (?=r) *)

Fixpoint print1 (r : re) : str :=
  match r with
  | Chr c => re_escape_ch c
  | Any => S_ "."
  | SetOf l => S_ "[" ++ l ++ S_ "]"
  | NSetOf l => S_ "[^" ++ l ++ S_ "]"
  | StarLazy r => print1 r ++ S_ "*?"
  | NLook r => S_ "(?!" ++ print1 r ++ S_ ")"
  | PLook r => S_ "(?=" ++ print1 r ++ S_ ")"
  end.
Definition print (rs : list re) : str := flat_map print1 rs.

(* ---- semantics: [M r s rest] = r can consume exactly s when rest follows ---- *)
Inductive star (P : str -> str -> Prop) : str -> str -> Prop :=
| star_nil rest : star P [] rest
| star_step s1 s2 rest : P s1 (s2 ++ rest) -> star P s2 rest -> star P (s1 ++ s2) rest.

Fixpoint M (r : re) (s rest : str) : Prop :=
  match r with
  | Chr c => s = [c]
  | Any => exists x, s = [x]
  | SetOf l => exists x, s = [x] /\ In x l
  | NSetOf l => exists x, s = [x] /\ ~ In x l
  | StarLazy a => star (M a) s rest
  | NLook a => s = [] /\ ~ (exists s' t, rest = s' ++ t /\ M a s' t)
  | PLook a => s = [] /\ (exists s' t, rest = s' ++ t /\ M a s' t)
  end.

(* a sequence of atoms; the whole regex is anchored at both ends: [Mseq rs n []] *)
Fixpoint Mseq (rs : list re) (s rest : str) : Prop :=
  match rs with
  | [] => s = []
  | r :: rs' => exists s1 s2, s = s1 ++ s2 /\ M r s1 (s2 ++ rest) /\ Mseq rs' s2 rest
  end.

(* ---- flat patterns ---- *)
Inductive tok := TLit (c : ch) | TEsc (c : ch) | TQ | TStar | TBr (neg : bool) (l : list ch).

Definition unparse1 (t : tok) : str :=
  match t with
  | TLit c => [c] | TEsc c => [92; c] | TQ => [63] | TStar => [42]
  | TBr neg l => [91] ++ (if neg then [33] else []) ++ l ++ [93]
  end.
Definition unparse (ts : list tok) : str := flat_map unparse1 ts.

(* characters a TLit may carry: anything that is not one of the four active symbols of this fragment *)
Definition plain (c : ch) : bool := negb (ch_in c [42; 63; 91; 92]).
(* characters a TEsc may carry: not `/`, `.`, `\` handled separately by _references; kept to the common case *)
Definition escapable (c : ch) : bool := negb (ch_in c [47; 46]).
(* set members that are simply themselves inside a bracket *)
Definition setplain (c : ch) : bool := negb (ch_in c [93; 45; 91; 92; 47; 33; 94; 38; 124; 126; 35]).

Fixpoint wf (ts : list tok) : bool :=
  match ts with
  | [] => true
  | TLit c :: r => plain c && wf r
  | TEsc c :: r => escapable c && wf r
  | TQ :: r => wf r
  | TStar :: r => match r with TStar :: _ => false | _ => wf r end
  | TBr neg l :: r => forallb setplain l && negb (match l with [] => true | _ => false end) && wf r
  end.

Definition lit_re (c : ch) : re := if c =? 47 then SetOf [47] else Chr c.

(* the regex the parser builds: [first] = still at the start of the name *)
Fixpoint emit (dot first : bool) (ts : list tok) : list re :=
  match ts with
  | [] => []
  | TLit c :: r => lit_re c :: emit dot false r
  | TEsc c :: r => Chr c :: emit dot false r
  | TQ :: r => (if first && negb dot then [NLook (SetOf [46])] else []) ++ Any :: emit dot false r
  | TStar :: r => (if first then [PLook Any] else []) ++ (if first && negb dot then [NLook (SetOf [46])] else []) ++
                  StarLazy Any :: emit dot false r
  | TBr neg l :: r => (if first && negb dot then [NLook (SetOf [46])] else []) ++ (if neg then NSetOf l else SetOf l) :: emit dot false r
  end.

(* ---- the documented meaning ---- *)
Fixpoint Den (dot first : bool) (ts : list tok) (n : str) : Prop :=
  match ts with
  | [] => n = []
  | TLit c :: r => exists n', n = c :: n' /\ Den dot false r n'
  | TEsc c :: r => exists n', n = c :: n' /\ Den dot false r n'
  | TQ :: r => exists x n', n = x :: n' /\ (first = true -> dot = false -> x <> 46) /\ Den dot false r n'
  | TStar :: r => exists s n', n = s ++ n' /\ (first = true -> n <> []) /\
                               (first = true -> dot = false -> forall y, n <> 46 :: y) /\ Den dot false r n'
  | TBr neg l :: r => exists x n', n = x :: n' /\ (if neg then ~ In x l else In x l) /\
                                   (first = true -> dot = false -> x <> 46) /\ Den dot false r n'
  end.

(* ---- (2) semantics of the emitted regex = documented meaning ---- *)
Lemma star_any_all : forall s rest, star (M Any) s rest.
Proof.
  induction s as [|x s IH]; intros rest; [constructor|].
  change (x :: s) with ([x] ++ s). apply star_step; [exists x; reflexivity|apply IH].
Qed.

Lemma nlook_dot rest : (~ (exists s' t, rest = s' ++ t /\ M (SetOf [46]) s' t)) <-> (forall y, rest <> 46 :: y).
Proof.
  split.
  - intros H y E. apply H. exists [46], y. split; [exact E|]. exists 46. split; [reflexivity|left; reflexivity].
  - intros H [s' [t [E [x [Es [Hx|[]]]]]]]. subst. apply (H t). reflexivity.
Qed.

Lemma plook_any rest : (exists s' t, rest = s' ++ t /\ M Any s' t) <-> rest <> [].
Proof.
  split.
  - intros [s' [t [E [x Ex]]]] H. subst. discriminate.
  - intros H. destruct rest as [|x r]; [contradiction|]. exists [x], r. split; [reflexivity|exists x; reflexivity].
Qed.

Lemma lit_re_M c s rest : M (lit_re c) s rest <-> s = [c].
Proof.
  unfold lit_re. destruct (N.eqb_spec c 47) as [->|H]; cbn.
  - split; [intros [x [E [Hx|[]]]]; subst; reflexivity|intros ->; exists 47; split; [reflexivity|left; reflexivity]].
  - reflexivity.
Qed.

(* the leading-dot guard in front of a one-character atom *)
Lemma guard_one dot first (P : ch -> Prop) (a : re) rs n :
  (forall s rest, M a s rest <-> exists x, s = [x] /\ P x) ->
  (Mseq ((if first && negb dot then [NLook (SetOf [46])] else []) ++ a :: rs) n [] <->
   exists x n', n = x :: n' /\ P x /\ (first = true -> dot = false -> x <> 46) /\ Mseq rs n' []).
Proof.
  intros Ha. destruct (first && negb dot) eqn:G; cbn [app Mseq].
  - apply andb_true_iff in G. destruct G as [-> G]. apply negb_true_iff in G. subst dot. split.
    + intros [s1 [s2 [E [HG [s3 [s4 [E2 [H1 H2]]]]]]]]. cbn [M] in HG. destruct HG as [-> HN]. apply Ha in H1. destruct H1 as [x [-> Px]].
      cbn [app] in *. subst. exists x, s4. split; [reflexivity|]. split; [exact Px|]. split; [|exact H2].
      intros _ _ ->. apply (proj1 (nlook_dot _) HN s4). rewrite app_nil_r. reflexivity.
    + intros [x [n' [E [Px [Hx H]]]]]. subst. exists [], (x :: n'). split; [reflexivity|]. split.
      * cbn [M]. split; [reflexivity|]. apply nlook_dot. intros y Ey. rewrite app_nil_r in Ey. inversion Ey; subst. apply Hx; reflexivity.
      * exists [x], n'. split; [reflexivity|]. split; [apply Ha; exists x; split; [reflexivity|exact Px]|exact H].
  - split.
    + intros [s1 [s2 [E [H1 H2]]]]. apply Ha in H1. destruct H1 as [x [-> Px]]. subst. exists x, s2. split; [reflexivity|]. split; [exact Px|].
      split; [|exact H2]. intros -> ->. discriminate.
    + intros [x [n' [E [Px [_ H]]]]]. subst. exists [x], n'. split; [reflexivity|]. split; [apply Ha; exists x; split; [reflexivity|exact Px]|exact H].
Qed.

Theorem emit_sound_complete dot : forall ts first n,
  Mseq (emit dot first ts) n [] <-> Den dot first ts n.
Proof.
  induction ts as [|t ts IH]; intros first n.
  - cbn. reflexivity.
  - destruct t as [c|c| | |neg l].
    + cbn [emit Mseq Den]. split.
      * intros [s1 [s2 [E [H1 H2]]]]. apply lit_re_M in H1. subst. exists s2. split; [reflexivity|apply IH; exact H2].
      * intros [n' [E H]]. subst. exists [c], n'. split; [reflexivity|]. split; [apply lit_re_M; reflexivity|apply IH; exact H].
    + cbn [emit Mseq Den M]. split.
      * intros [s1 [s2 [E [H1 H2]]]]. subst. exists s2. split; [reflexivity|apply IH; exact H2].
      * intros [n' [E H]]. subst. exists [c], n'. split; [reflexivity|]. split; [reflexivity|apply IH; exact H].
    + cbn [emit Den]. destruct (first && negb dot) eqn:G; cbn [app Mseq M].
      * apply andb_true_iff in G. destruct G as [-> G]. apply negb_true_iff in G. subst dot. split.
        -- intros [s1 [s2 [E [[-> HN] [s3 [s4 [E2 [[x ->] H2]]]]]]]]. cbn [app] in *. subst.
           exists x, s4. split; [reflexivity|]. split.
           ++ intros _ _ ->. apply (proj1 (nlook_dot _) HN s4). rewrite app_nil_r. reflexivity.
           ++ apply IH; exact H2.
        -- intros [x [n' [E [Hx H]]]]. subst. exists [], (x :: n'). split; [reflexivity|]. split.
           ++ split; [reflexivity|]. apply nlook_dot. intros y Ey. rewrite app_nil_r in Ey. inversion Ey; subst. apply Hx; reflexivity.
           ++ exists [x], n'. split; [reflexivity|]. split; [exists x; reflexivity|apply IH; exact H].
      * split.
        -- intros [s1 [s2 [E [[x ->] H2]]]]. subst. exists x, s2. split; [reflexivity|]. split.
           ++ intros -> ->. discriminate.
           ++ apply IH; exact H2.
        -- intros [x [n' [E [_ H]]]]. subst. exists [x], n'. split; [reflexivity|]. split; [exists x; reflexivity|apply IH; exact H].
    + cbn [emit Den].
      assert (Core : forall n0, (exists s1 s2, n0 = s1 ++ s2 /\ M (StarLazy Any) s1 (s2 ++ []) /\ Mseq (emit dot false ts) s2 []) <->
                                (exists s n', n0 = s ++ n' /\ Den dot false ts n')).
      { intros n0. split.
        - intros [s1 [s2 [E [_ H]]]]. exists s1, s2. split; [exact E|apply IH; exact H].
        - intros [s [n' [E H]]]. exists s, n'. split; [exact E|]. split; [apply star_any_all|apply IH; exact H]. }
      destruct first; cbn [andb app].
      * destruct dot; cbn [negb app Mseq].
        -- split.
           ++ intros [s1 [s2 [E [[-> HP] H]]]]. cbn [app] in E. subst s2. apply Core in H. destruct H as [s [n' [E H]]].
              exists s, n'. split; [exact E|]. split; [|split; [intros _ X; discriminate|exact H]].
              intros _. apply plook_any in HP. rewrite app_nil_r in HP. exact HP.
           ++ intros [s [n' [E [Hne [_ H]]]]]. exists [], n. split; [reflexivity|]. split.
              ** split; [reflexivity|]. apply plook_any. rewrite app_nil_r. apply Hne. reflexivity.
              ** apply Core. exists s, n'. split; [exact E|exact H].
        -- split.
           ++ intros [s1 [s2 [E [[-> HP] [s3 [s4 [E2 [[-> HN] H]]]]]]]]. cbn [app] in *. subst. apply Core in H. destruct H as [s [n' [E H]]].
              exists s, n'. split; [exact E|]. apply plook_any in HP. rewrite app_nil_r in HP. split; [intros _; exact HP|]. split; [|exact H].
              intros _ _ y Ey. apply (proj1 (nlook_dot _) HN y). rewrite app_nil_r. exact Ey.
           ++ intros [s [n' [E [Hne [Hd H]]]]]. exists [], n. split; [reflexivity|]. split.
              ** split; [reflexivity|]. apply plook_any. rewrite app_nil_r. apply Hne. reflexivity.
              ** exists [], n. split; [reflexivity|]. split.
                 --- split; [reflexivity|]. apply nlook_dot. intros y Ey. rewrite app_nil_r in Ey. apply (Hd eq_refl eq_refl y Ey).
                 --- apply Core. exists s, n'. split; [exact E|exact H].
      * cbn [Mseq]. split.
        -- intros H. apply Core in H. destruct H as [s [n' [E H]]]. exists s, n'. split; [exact E|]. split; [discriminate|]. split; [discriminate|exact H].
        -- intros [s [n' [E [_ [_ H]]]]]. apply Core. exists s, n'. split; [exact E|exact H].
    + cbn [emit Den].
      rewrite (guard_one dot first (fun x => if neg then ~ In x l else In x l) (if neg then NSetOf l else SetOf l) (emit dot false ts) n).
      * split; intros [x [n' [E [A [B C]]]]]; exists x, n'; (split; [exact E|]); (split; [exact A|]); (split; [exact B|]); apply IH; exact C.
      * intros s rest. destruct neg; cbn [M]; reflexivity.
Qed.


(* C03 on this fragment: without DOTMATCH a name starting with `.` is matched only by a pattern starting with a written `.` *)
Lemma flat_leading_dot : forall ts n',
  Den false true ts (46%N :: n') -> exists c r, (ts = TLit c :: r \/ ts = TEsc c :: r) /\ c = 46%N.
Proof.
  intros ts n'. destruct ts as [|t r]; cbn [Den]; [discriminate|]. destruct t as [c|c| | |neg l].
  - intros [s0 [E _]]. inversion E; subst. exists 46%N, r. split; [left; reflexivity|reflexivity].
  - intros [s0 [E _]]. inversion E; subst. exists 46%N, r. split; [right; reflexivity|reflexivity].
  - intros [x [s0 [E [Hf _]]]]. inversion E; subst. exfalso. apply (Hf eq_refl eq_refl). reflexivity.
  - intros [a [s0 [E [_ [Hd _]]]]]. exfalso. apply (Hd eq_refl eq_refl n'). reflexivity.
  - intros [x [s0 [E [_ [Hf _]]]]]. inversion E; subst. exfalso. apply (Hf eq_refl eq_refl). reflexivity.
Qed.

(* ---- (1) the parser model prints exactly [emit] ---- *)
From WC.Proofs Require Import C09Parse.
Open Scope Z_scope.

Definition inv2 (first : bool) (st : pst) : Prop :=
  dir_start st = false /\ inv_ext st = 0 /\ globstar st = false /\ after_start st = first.

Lemma inv2_inv first st : inv2 first st -> inv st.
Proof. intros [A [B _]]. split; assumption. Qed.

Lemma inv2_update first st : inv2 first st -> inv2 false (update_dir_state st).
Proof.
  intros [A [B [C D]]]. unfold update_dir_state. rewrite A. cbn [andb negb].
  destruct (after_start st) eqn:E; repeat split; cbn; auto.
Qed.

Lemma inv2_update_reset first st : inv2 first st -> inv2 false (update_dir_state (reset_dir_track st)).
Proof. intros [A [B [C D]]]. unfold update_dir_state, reset_dir_track. cbn. repeat split; cbn; auto. Qed.

Lemma jrev_cons x cur : jrev (T x :: cur) = jrev cur ++ x.
Proof. unfold jrev. cbn [rev map]. rewrite map_app, concat_app. cbn. rewrite app_nil_r. reflexivity. Qed.

Lemma skip_stars_nostar r i : (match r with c :: _ => negb (N.eqb c 42) | [] => true end) = true ->
  skip_stars r i = {| idx := i; rest := r |}.
Proof. destruct r as [|c r]; intros H; [reflexivity|]. cbn. unfold cSTAR. apply negb_true_iff in H. rewrite H. reflexivity. Qed.

(* ---- bracket expressions over plain members: what the `_sequence` model returns ---- *)
Lemma setplain_facts c : setplain c = true ->
  N.eqb c cRB = false /\ N.eqb c cMINUS = false /\ N.eqb c cLB = false /\ N.eqb c cBS = false /\ N.eqb c cSL = false /\
  N.eqb c cEX = false /\ N.eqb c cHAT = false /\ ch_in c set_operators = false /\ N.eqb c 35 = false.
Proof.
  unfold setplain, ch_in. cbn [existsb]. rewrite !orb_false_r. intros H. apply negb_true_iff in H.
  repeat (apply orb_false_iff in H; destruct H as [? H]).
  unfold cRB, cMINUS, cLB, cBS, cSL, cEX, cHAT, set_operators, Sets.SET_OPERATORS. cbn [existsb].
  repeat split; try assumption. rewrite !orb_false_r.
  repeat (apply orb_false_iff; split); assumption.
Qed.

Section BrText.
  Variable cf : cfg.
  Hypothesis Hpath : c_pathname cf = false.

  (* the `while c != ']'` loop over plain members: they are appended one by one *)
  Lemma seq_loop_plain : forall l fuel st c i r result eh,
    forallb setplain (c :: l) = true -> (length l + 1 < fuel)%nat ->
    seq_loop fuel cf st c {| idx := i; rest := l ++ 93%N :: r |} result 0 eh false false =
    Ok (rev (map (fun x => [x]) (c :: l)) ++ result, {| idx := i + Z.of_nat (length l) + 1; rest := r |}, false).
  Proof.
    induction l as [|d l IH]; intros fuel st c i r result eh Hp Hf.
    - destruct fuel as [|[|f]]; try (cbn in Hf; lia).
      cbn [forallb] in Hp. apply andb_true_iff in Hp. destruct Hp as [Hc _].
      destruct (setplain_facts c Hc) as [A [B [C [D [E [_ [_ [F F35]]]]]]]].
      cbn [seq_loop]. rewrite A, B, C, D, E, F, F35. cbn [andb negb Z.eqb next rest idx app].
      cbn [seq_loop]. change (N.eqb 93%N cRB) with true. cbv iota. cbn [length Z.of_nat map rev app]. replace (i + 0 + 1) with (i + 1) by lia. reflexivity.
    - destruct fuel as [|f]; [cbn in Hf; lia|].
      pose proof Hp as Hp0. cbn [forallb] in Hp. apply andb_true_iff in Hp. destruct Hp as [Hc Hl].
      destruct (setplain_facts c Hc) as [A [B [C [D [E [_ [_ [F F35]]]]]]]].
      cbn [seq_loop]. rewrite A, B, C, D, E, F, F35. cbn [andb negb Z.eqb next rest idx app].
      pose proof (IH f st d (i + 1) r ([c] :: result) eh Hl ltac:(cbn [length] in Hf; lia)) as Q. eapply eq_trans; [exact Q|].
      cbn [map rev length]. rewrite <- !app_assoc. cbn [app]. rewrite Nat2Z.inj_succ.
      replace (i + 1 + Z.of_nat (length l) + 1) with (i + Z.succ (Z.of_nat (length l)) + 1) by lia. reflexivity.
  Qed.

  Definition br_text (neg : bool) (l : list ch) : str := S_ "[" ++ (if neg then S_ "^" else []) ++ l ++ S_ "]".

  Lemma concat_singletons (l : list ch) : concat (map (fun x => [x]) l) = l.
  Proof. induction l as [|x l IH]; [reflexivity|]. cbn. rewrite IH. reflexivity. Qed.

  Lemma concat_rev_build (l : list ch) (pre : list str) :
    concat (rev ([cRB] :: rev (map (fun x => [x]) l) ++ pre)) = concat (rev pre) ++ l ++ [cRB].
  Proof.
    cbn [rev]. rewrite rev_app_distr, rev_involutive. rewrite !concat_app. rewrite concat_singletons. cbn [concat].
    rewrite app_nil_r, <- app_assoc. reflexivity.
  Qed.

  Lemma sequence_plain st i (neg : bool) (l : list ch) r :
    forallb setplain l = true -> l <> [] ->
    sequence cf st {| idx := i; rest := (if neg then [33%N] else []) ++ l ++ 93%N :: r |} =
    Ok ((if after_start st then (if negb (c_dot cf) then Frag.u_NO_DOT else []) else []) ++ br_text neg l,
        (if after_start st then reset_dir_track st else st),
        {| idx := i + (if neg then 1 else 0) + Z.of_nat (length l) + 1; rest := r |}).
  Proof.
    intros Hp Hne. destruct l as [|c l]; [contradiction|].
    pose proof Hp as Hp0. cbn [forallb] in Hp. apply andb_true_iff in Hp. destruct Hp as [Hc Hl].
    destruct (setplain_facts c Hc) as [A [B [C [D [E [F [G _]]]]]]].
    unfold sequence. destruct neg; cbn [app next rest idx].
    - change (N.eqb 33%N cEX) with true. cbn [orb]. cbn [next rest idx].
      rewrite C, B, A. cbn [orb rest].
      pose proof (seq_loop_plain l (S (length (l ++ 93%N :: r))) st c (i + 1 + 1) r [[cHAT]; [cLB]] (-1) Hp0
                   ltac:(rewrite app_length; cbn [length]; lia)) as Q.
      match goal with |- context [seq_loop ?a ?b ?c0 ?d ?e ?f0 ?g ?h ?i0 ?j] =>
        replace (seq_loop a b c0 d e f0 g h i0 j) with
          (@Ok (list str * iter * bool) (rev (map (fun x => [x]) (c :: l)) ++ [[cHAT]; [cLB]], {| idx := i + 1 + 1 + Z.of_nat (length l) + 1; rest := r |}, false))
          by (symmetry; exact Q) end.
      rewrite Hpath. cbn [orb]. rewrite concat_rev_build.
      unfold restrict_sequence. rewrite Hpath.
      destruct (after_start st); cbn [andb]; [destruct (c_dot cf); cbn [negb]|];
        match goal with |- Ok (_, _, {| idx := ?x; rest := _ |}) = Ok (_, _, {| idx := ?y; rest := _ |}) =>
          replace x with y by (cbn [length]; rewrite ?Nat2Z.inj_succ; lia); reflexivity end.
    - rewrite F, G. cbn [orb]. rewrite C, B, A. cbn [orb rest].
      pose proof (seq_loop_plain l (S (length (l ++ 93%N :: r))) st c (i + 1) r [[cLB]] (-1) Hp0
                   ltac:(rewrite app_length; cbn [length]; lia)) as Q.
      match goal with |- context [seq_loop ?a ?b ?c0 ?d ?e ?f0 ?g ?h ?i0 ?j] =>
        replace (seq_loop a b c0 d e f0 g h i0 j) with
          (@Ok (list str * iter * bool) (rev (map (fun x => [x]) (c :: l)) ++ [[cLB]], {| idx := i + 1 + Z.of_nat (length l) + 1; rest := r |}, false))
          by (symmetry; exact Q) end.
      rewrite Hpath. cbn [orb]. rewrite concat_rev_build.
      unfold restrict_sequence. rewrite Hpath.
      destruct (after_start st); cbn [andb]; [destruct (c_dot cf); cbn [negb]|];
        match goal with |- Ok (_, _, {| idx := ?x; rest := _ |}) = Ok (_, _, {| idx := ?y; rest := _ |}) =>
          replace x with y by (cbn [length]; rewrite ?Nat2Z.inj_succ; lia); reflexivity end.
  Qed.
End BrText.

Section Flat.
  Variable cf : cfg.
  Hypothesis Hpath : c_pathname cf = false.
  Hypothesis Hext : c_extend cf = false.
  Hypothesis Habort : c_bslash_abort cf = false.
  Hypothesis Hunix : c_unix cf = true.
  Hypothesis Hsep : c_sep cf = S_ "[/]".
  Hypothesis Hneed : c_need_char cf = Frag.u_NEED_CHAR.

  Definition star_text (st : pst) : str :=
    (if after_start st then Frag.u_NEED_CHAR else []) ++
    (if after_start st && negb (c_dot cf) then Frag.u_NO_DOT else []) ++ Frag.u_STAR.

  Lemma handle_star_flat st i r cur :
    globstar st = false -> (match r with c :: _ => negb (N.eqb c 42) | [] => true end) = true ->
    handle_star cf st {| idx := i; rest := r |} cur =
    (reset_dir_track st, {| idx := i; rest := r |}, T (star_text st) :: cur).
  Proof.
    intros Hg Hr. unfold handle_star, star_text. rewrite Hpath, Hg, Hneed. rewrite andb_false_r. cbn [andb].
    destruct (after_start st) eqn:Ea; destruct (c_dot cf) eqn:Ed; cbn [andb negb app];
      cbn [str_eqb]; rewrite ?skip_stars_nostar by exact Hr; reflexivity.
  Qed.

  Lemma step_lit f st i c r cur :
    plain c = true ->
    root_loop (S f) cf st {| idx := i; rest := c :: r |} cur =
    root_loop f cf (update_dir_state st) {| idx := i + 1; rest := r |} (T (print1 (lit_re c)) :: cur).
  Proof.
    intros Hp. cbn [root_loop next rest idx]. rewrite Hext. cbn [andb].
    unfold plain, ch_in in Hp. cbn [existsb] in Hp. rewrite !orb_false_r in Hp.
    apply negb_true_iff in Hp. apply orb_false_iff in Hp. destruct Hp as [H42 Hp].
    apply orb_false_iff in Hp. destruct Hp as [H63 Hp]. apply orb_false_iff in Hp. destruct Hp as [H91 H92].
    unfold lit_re.
    destruct (N.eqb_spec c cDOT) as [->|Hd].
    - unfold handle_dot. rewrite Hpath, andb_false_r. cbn [andb]. reflexivity.
    - unfold cSTAR, cQM, cBS, cLB. rewrite H42, H63.
      change cSL with 47%N. destruct (N.eqb_spec c 47) as [->|H47].
      + rewrite Hpath, Hsep. reflexivity.
      + rewrite H92, H91. reflexivity.
  Qed.

  Lemma step_q f st i r cur :
    root_loop (S f) cf st {| idx := i; rest := 63%N :: r |} cur =
    root_loop f cf (update_dir_state (reset_dir_track st)) {| idx := i + 1; rest := r |}
              (T ((if after_start st && negb (c_dot cf) then Frag.u_NO_DOT else []) ++ Frag.u_QMARK) :: cur).
  Proof.
    cbn [root_loop next rest idx]. rewrite Hext. cbn [andb].
    change (N.eqb 63%N cDOT) with false. change (N.eqb 63%N cSTAR) with false. change (N.eqb 63%N cQM) with true. cbv iota.
    unfold restrict_sequence. rewrite Hpath. reflexivity.
  Qed.

  Lemma step_star f st i r cur :
    globstar st = false -> (match r with c :: _ => negb (N.eqb c 42) | [] => true end) = true ->
    root_loop (S f) cf st {| idx := i; rest := 42%N :: r |} cur =
    root_loop f cf (update_dir_state (reset_dir_track st)) {| idx := i + 1; rest := r |} (T (star_text st) :: cur).
  Proof.
    intros Hg Hr. cbn [root_loop next rest idx]. rewrite Hext. cbn [andb].
    change (N.eqb 42%N cDOT) with false. change (N.eqb 42%N cSTAR) with true. cbv iota.
    rewrite handle_star_flat by assumption. reflexivity.
  Qed.

  Lemma step_br f st i (neg : bool) (l : list ch) r cur :
    forallb setplain l = true -> l <> [] ->
    root_loop (S f) cf st {| idx := i; rest := 91%N :: (if neg then [33%N] else []) ++ l ++ 93%N :: r |} cur =
    root_loop f cf (update_dir_state (if after_start st then reset_dir_track st else st))
              {| idx := i + 1 + (if neg then 1 else 0) + Z.of_nat (length l) + 1; rest := r |}
              (T ((if after_start st then (if negb (c_dot cf) then Frag.u_NO_DOT else []) else []) ++ br_text neg l) :: cur).
  Proof.
    intros Hp Hne. cbn [root_loop next rest idx]. rewrite Hext. cbn [andb].
    change (N.eqb 91%N cDOT) with false. change (N.eqb 91%N cSTAR) with false. change (N.eqb 91%N cQM) with false.
    change (N.eqb 91%N cSL) with false. change (N.eqb 91%N cBS) with false. change (N.eqb 91%N cLB) with true. cbv iota.
    rewrite (sequence_plain cf Hpath st (i + 1) neg l r Hp Hne). reflexivity.
  Qed.

  Lemma inv2_after_br first st : inv2 first st -> inv2 false (update_dir_state (if after_start st then reset_dir_track st else st)).
  Proof.
    intros I2. destruct (after_start st) eqn:E; [eapply inv2_update_reset; exact I2|].
    destruct I2 as [A [B [C D]]]. unfold update_dir_state. rewrite A, E. cbn. repeat split; auto.
  Qed.

  Lemma unparse_head_not_star t ts : wf (t :: ts) = true -> t <> TStar ->
    (match unparse (t :: ts) with c :: _ => negb (N.eqb c 42) | [] => true end) = true.
  Proof.
    intros W Ht. destruct t as [c|c| | |neg l]; cbn in *; try reflexivity; [|contradiction].
    apply andb_true_iff in W. destruct W as [W _]. unfold plain, ch_in in W. cbn [existsb] in W.
    apply negb_true_iff in W. apply orb_false_iff in W. destruct W as [W _]. rewrite W. reflexivity.
  Qed.

  Lemma root_loop_flat : forall ts fuel st i cur first,
    wf ts = true -> (length (unparse ts) < fuel)%nat -> inv2 first st ->
    exists st' cur', root_loop fuel cf st {| idx := i; rest := unparse ts |} cur = Ok (st', cur') /\
                     jrev cur' = jrev cur ++ print (emit (c_dot cf) first ts) /\ inv st'.
  Proof.
    induction ts as [|t ts IH]; intros fuel st i cur first W Hf I2.
    - destruct fuel as [|f]; [cbn in Hf; lia|]. exists st, cur. split; [reflexivity|]. split; [cbn; rewrite app_nil_r; reflexivity|].
      eapply inv2_inv; exact I2.
    - destruct fuel as [|f]; [lia|].
      change (unparse (t :: ts)) with (unparse1 t ++ unparse ts) in *. rewrite app_length in Hf.
      destruct t as [c|c| | |neg l].
      + cbn [unparse1 app length] in *. cbn [wf] in W. apply andb_true_iff in W. destruct W as [Wc W].
        rewrite step_lit by exact Wc.
        destruct (IH f (update_dir_state st) (i + 1) (T (print1 (lit_re c)) :: cur) false W ltac:(lia) (inv2_update _ _ I2))
          as [st' [cur' [E [J K]]]].
        exists st', cur'. split; [exact E|]. split; [|exact K].
        rewrite J, jrev_cons. cbn [emit print flat_map]. rewrite <- app_assoc. reflexivity.
      + cbn [unparse1 app length] in *. cbn [wf] in W. apply andb_true_iff in W. destruct W as [Wc W].
        unfold escapable, ch_in in Wc. cbn [existsb] in Wc. apply negb_true_iff in Wc. apply orb_false_iff in Wc.
        destruct Wc as [W47 Wc]. apply orb_false_iff in Wc. destruct Wc as [W46 _].
        rewrite (step_escaped cf Habort Hunix f st i c (unparse ts) cur (inv2_inv _ _ I2))
          by (intros ->; discriminate).
        destruct f as [|f']; [lia|].
        destruct (IH (S f') (update_dir_state st) (i + 1 + 1) (T (re_escape_ch c) :: cur) false W ltac:(lia) (inv2_update _ _ I2))
          as [st' [cur' [E [J K]]]].
        exists st', cur'. split; [exact E|]. split; [|exact K].
        rewrite J, jrev_cons. cbn [emit print flat_map print1]. rewrite <- app_assoc. reflexivity.
      + cbn [unparse1 app length] in *. cbn [wf] in W.
        rewrite step_q.
        destruct (IH f (update_dir_state (reset_dir_track st)) (i + 1)
                     (T ((if after_start st && negb (c_dot cf) then Frag.u_NO_DOT else []) ++ Frag.u_QMARK) :: cur)
                     false W ltac:(lia) (inv2_update_reset _ _ I2))
          as [st' [cur' [E [J K]]]].
        exists st', cur'. split; [exact E|]. split; [|exact K].
        rewrite J, jrev_cons. destruct I2 as [_ [_ [_ Ha]]]. rewrite Ha. cbn [emit print].
        destruct (first && negb (c_dot cf)); cbn [app flat_map print1]; rewrite <- ?app_assoc; reflexivity.
      + cbn [unparse1 app length] in *.
        assert (W' : wf ts = true /\ (match unparse ts with c :: _ => negb (N.eqb c 42) | [] => true end) = true).
        { cbn [wf] in W. destruct ts as [|t2 ts2]; [split; reflexivity|].
          destruct t2 as [c2|c2| | |neg2 l2]; try discriminate; (split; [exact W|apply unparse_head_not_star; [exact W|discriminate]]). }
        destruct W' as [W' Hh].
        rewrite step_star; [|apply I2|exact Hh].
        destruct (IH f (update_dir_state (reset_dir_track st)) (i + 1) (T (star_text st) :: cur)
                     false W' ltac:(lia) (inv2_update_reset _ _ I2))
          as [st' [cur' [E [J K]]]].
        exists st', cur'. split; [exact E|]. split; [|exact K].
        rewrite J, jrev_cons. destruct I2 as [_ [_ [_ Ha]]]. unfold star_text. rewrite Ha. cbn [emit print].
        destruct first; cbn [andb]; destruct (c_dot cf); cbn [negb app flat_map print1]; rewrite <- ?app_assoc; reflexivity.
      + cbn [wf] in W. apply andb_true_iff in W. destruct W as [W W']. apply andb_true_iff in W. destruct W as [Wl Wn].
        assert (Hne : l <> []) by (destruct l; [discriminate|discriminate]).
        cbn [unparse1] in *. rewrite <- !app_assoc. cbn [app].
        pose proof (step_br f st i neg l (unparse ts) cur Wl Hne) as Q.
        assert (HL : (length l + 2 <= length ([91%N] ++ (if neg then [33%N] else []) ++ l ++ [93%N]))%nat).
        { rewrite !app_length. cbn [length]. lia. }
        destruct (IH f (update_dir_state (if after_start st then reset_dir_track st else st))
                     (i + 1 + (if neg then 1 else 0) + Z.of_nat (length l) + 1)
                     (T ((if after_start st then (if negb (c_dot cf) then Frag.u_NO_DOT else []) else []) ++ br_text neg l) :: cur)
                     false W' ltac:(lia) (inv2_after_br _ _ I2))
          as [st' [cur' [E [J K]]]].
        exists st', cur'. split; [eapply eq_trans; [exact Q|exact E]|]. split; [|exact K].
        rewrite J, jrev_cons. destruct I2 as [_ [_ [_ Ha]]]. rewrite Ha. cbn [emit print].
        destruct first; cbn [andb]; destruct (c_dot cf); destruct neg; cbn [negb app flat_map print1]; rewrite <- ?app_assoc; reflexivity.
  Qed.
End Flat.

Lemma unparse_not_lone_bs ts : wf ts = true -> str_eqb (unparse ts) [cBS] = false.
Proof.
  destruct ts as [|t ts]; [reflexivity|]. intros W. destruct t as [c|c| | |neg l]; cbn [unparse flat_map unparse1 app].
  - cbn [wf] in W. apply andb_true_iff in W. destruct W as [W _]. unfold plain, ch_in in W. cbn [existsb] in W.
    rewrite !orb_false_r in W. apply negb_true_iff in W. apply orb_false_iff in W. destruct W as [_ W].
    apply orb_false_iff in W. destruct W as [_ W]. apply orb_false_iff in W. destruct W as [_ W].
    unfold str_eqb, cBS. cbn. rewrite W. reflexivity.
  - unfold str_eqb. cbn. destruct (flat_map unparse1 ts); reflexivity.
  - reflexivity.
  - reflexivity.
  - reflexivity.
Qed.

Lemma unparse_cons t ts : exists d r, unparse (t :: ts) = d :: r.
Proof. destruct t; cbn; eexists; eexists; reflexivity. Qed.

Theorem wcparse_flat flags isb ts :
  wf ts = true ->
  has flags PATHNAME = false -> is_unix_style linux flags = true -> has flags EXTMATCH = false ->
  has flags u_ANCHOR = false -> has flags MATCHBASE = false -> has flags u_EXTMATCHBASE = false ->
  has flags u_TRANSLATE = false ->
  wcparse linux flags isb (unparse ts) =
  inl (S_ "^(?s" ++ (if get_case linux flags then [] else S_ "i") ++ S_ ":" ++
       print (emit (has flags DOTMATCH) true ts) ++ S_ ")$").
Proof.
  intros W Hp Hu Hx Ha Hm He Ht. unfold wcparse.
  destruct (mk_cfg linux flags isb) as [cf st] eqn:E.
  assert (Ecf : cf = fst (mk_cfg linux flags isb)) by (rewrite E; reflexivity).
  assert (Est : st = snd (mk_cfg linux flags isb)) by (rewrite E; reflexivity).
  assert (Hpath : c_pathname cf = false) by (rewrite Ecf; exact Hp).
  assert (Hunix : c_unix cf = true) by (rewrite Ecf; exact Hu).
  assert (Hext : c_extend cf = false) by (rewrite Ecf; exact Hx).
  assert (Hdot : c_dot cf = has flags DOTMATCH) by (rewrite Ecf; reflexivity).
  assert (Habort : c_bslash_abort cf = false) by (rewrite Ecf; unfold mk_cfg; cbn [fst c_bslash_abort]; rewrite Hu; reflexivity).
  assert (Hwd : c_windrive cf = false) by (rewrite Ecf; unfold mk_cfg; cbn [fst c_windrive]; rewrite Hu; reflexivity).
  assert (Hanchor : c_anchor cf = false) by (rewrite Ecf; exact Ha).
  assert (Hcap : c_capture cf = false) by (rewrite Ecf; exact Ht).
  assert (Hreal : c_realpath cf = false) by (rewrite Ecf; unfold mk_cfg; cbn [fst c_realpath]; rewrite Hp; apply andb_false_r).
  assert (Hcs : c_cs cf = get_case linux flags) by (rewrite Ecf; reflexivity).
  assert (Hsep : c_sep cf = S_ "[/]") by (rewrite Ecf; unfold mk_cfg; cbn [fst c_sep]; rewrite Hu; reflexivity).
  assert (Hneed : c_need_char cf = Frag.u_NEED_CHAR) by (rewrite Ecf; unfold mk_cfg; cbn [fst c_need_char]; rewrite Hp; reflexivity).
  assert (Hmb : matchbase st = false) by (rewrite Est; exact Hm).
  assert (Hemb : extmatchbase st = false) by (rewrite Est; exact He).
  assert (Hgs : globstar st = false) by (rewrite Est; unfold mk_cfg; cbn [snd globstar]; rewrite Hp; reflexivity).
  assert (Hds : dir_start st = false /\ inv_ext st = 0) by (rewrite Est; split; reflexivity).
  unfold wcparse_cf. rewrite Hanchor, Hmb, Hemb. cbn [orb].
  rewrite (unparse_not_lone_bs ts W).
  destruct ts as [|t ts].
  - cbn [unparse flat_map emit print]. rewrite Hcap, Hcs. reflexivity.
  - destruct (unparse_cons t ts) as [d [r Er]].
    remember (unparse (t :: ts)) as p eqn:Ep. rewrite Er. rewrite <- Er.
    unfold root. rewrite Hwd, Hpath, Hreal. cbn [andb negb]. rewrite andb_false_r.
    assert (I2 : inv2 true (set_after_start st)) by (destruct Hds; repeat split; cbn; auto).
    destruct (root_loop_flat cf Hpath Hext Habort Hunix Hsep Hneed (t :: ts) (fuel_for p) (set_after_start st) 0 [T []] true W) as [st' [cur' [Eq [J [Hd' Hi']]]]].
    { rewrite <- Ep. unfold fuel_for. lia. }
    { exact I2. }
    rewrite <- Ep in Eq. rewrite Eq.
    unfold clean_up_inverse. rewrite Hi'. cbn [Z.eqb]. rewrite Hcap, Hcs, J, Hdot.
    destruct (matchbase st' || extmatchbase st'); reflexivity.
Qed.

(* both halves together: the regex text the parser model produces for a flat pattern is the printed form of a regular
   expression whose language is the documented one *)
Theorem C01_flat_language flags isb ts :
  wf ts = true ->
  has flags PATHNAME = false -> is_unix_style linux flags = true -> has flags EXTMATCH = false ->
  has flags u_ANCHOR = false -> has flags MATCHBASE = false -> has flags u_EXTMATCHBASE = false ->
  has flags u_TRANSLATE = false ->
  exists rs,
    wcparse linux flags isb (unparse ts) =
      inl (S_ "^(?s" ++ (if get_case linux flags then [] else S_ "i") ++ S_ ":" ++ print rs ++ S_ ")$") /\
    forall n, Mseq rs n [] <-> Den (has flags DOTMATCH) true ts n.
Proof.
  intros. exists (emit (has flags DOTMATCH) true ts). split; [apply wcparse_flat; assumption|].
  intros n. apply emit_sound_complete.
Qed.

(* non-vacuity: concrete instances, computed / checked *)
Example flat_example_text :
  wcparse linux 0 false (unparse [TStar; TLit 46%N; TQ; TEsc 42%N; TLit 47%N]) = inl (S_ "^(?s:(?=.)(?![.]).*?\..\*[/])$").
Proof. vm_compute. reflexivity. Qed.

Example flat_example_den : Den false true [TStar; TLit 46%N; TQ] (S_ "ab.c") /\ ~ Den false true [TStar; TLit 46%N; TQ] (S_ ".b.c").
Proof.
  split.
  - exists (S_ "ab"), (S_ ".c"). split; [reflexivity|]. split; [discriminate|]. split; [intros _ _ y H; discriminate|].
    exists (S_ "c"). split; [reflexivity|]. exists 99%N, []. split; [reflexivity|]. split; [discriminate|reflexivity].
  - intros [s [n' [E [_ [Hd _]]]]]. apply (Hd eq_refl eq_refl (S_ "b.c")). reflexivity.
Qed.

Example flat_bracket_example_text :
  wcparse linux 0 false (unparse [TBr true [97%N; 98%N]; TStar; TBr false [120%N]; TLit 46%N]) =
  inl (S_ "^(?s:(?![.])[^ab].*?[x]\.)$").
Proof. vm_compute. reflexivity. Qed.
