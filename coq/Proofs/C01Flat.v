(* C01, the flat fragment, end to end inside Coq.

   For patterns made of literal characters, escaped characters, `?` and `*` (no brackets, no groups), fnmatch mode,
   Unix rules, DOTMATCH on or off:
     (1) the parser model's output is, character for character, the printed form of a regular expression [emit ts]
         built from the token list by a three-line function;
     (2) under a standard semantics of that regular-expression fragment (concatenation, lazy star, `.` with the DOTALL
         flag, one-character classes, negative and positive look-ahead) [emit ts] matches a name exactly when the
         documented meaning [Den] holds: `?` is any one character, `*` any run of characters, an escaped character
         itself - except that a name's leading `.` is matched by a written `.` only (unless DOTMATCH) and a pattern
         that starts with `*` needs a non-empty name.
   Both hold for every token list and every name.  What stays trusted: that CPython's `re` implements this semantics
   for this fragment, and the text correspondence between the parser model and the Python parser. *)
From WC Require Import Str WcParse.
From WC.Gen Require Import Consts FlagFuns.
From Coq Require Import Lia.
Import Mwcparse.
Open Scope N_scope.

(* ---- a regular-expression fragment and its printed form ---- *)
Inductive re : Type :=
| Chr (c : ch)                 (* a literal character, printed re.escape()d *)
| Any                          (* `.` under (?s) *)
| SetOf (l : list ch)          (* `[...]` of plain characters *)
| StarLazy (r : re)            (* r*? *)
| NLook (r : re)               (* (?!r) *)
| PLook (r : re).              (* (?=r) *)

Fixpoint print1 (r : re) : str :=
  match r with
  | Chr c => re_escape_ch c
  | Any => S_ "."
  | SetOf l => S_ "[" ++ l ++ S_ "]"
  | StarLazy r => print1 r ++ S_ "*?"
  | NLook r => S_ "(?!" ++ print1 r ++ S_ ")"
  | PLook r => S_ "(?=" ++ print1 r ++ S_ ")"
  end.
Definition print (rs : list re) : str := flat_map print1 rs.

(* ---- semantics: [M r s rest] = r can consume exactly s when rest follows ---- *)
Inductive star (P : str -> str -> Prop) : str -> str -> Prop :=
| star_nil rest : star P [] rest
| star_step s1 s2 rest : P s1 (s2 ++ rest) -> star P s2 rest -> star P (s1 ++ s2) rest.

Fixpoint M (r : re) (s rest : str) : Prop :=
  match r with
  | Chr c => s = [c]
  | Any => exists x, s = [x]
  | SetOf l => exists x, s = [x] /\ In x l
  | StarLazy a => star (M a) s rest
  | NLook a => s = [] /\ ~ (exists s' t, rest = s' ++ t /\ M a s' t)
  | PLook a => s = [] /\ (exists s' t, rest = s' ++ t /\ M a s' t)
  end.

(* a sequence of atoms; the whole regex is anchored at both ends: [Mseq rs n []] *)
Fixpoint Mseq (rs : list re) (s rest : str) : Prop :=
  match rs with
  | [] => s = []
  | r :: rs' => exists s1 s2, s = s1 ++ s2 /\ M r s1 (s2 ++ rest) /\ Mseq rs' s2 rest
  end.

(* ---- flat patterns ---- *)
Inductive tok := TLit (c : ch) | TEsc (c : ch) | TQ | TStar.

Definition unparse1 (t : tok) : str :=
  match t with TLit c => [c] | TEsc c => [92; c] | TQ => [63] | TStar => [42] end.
Definition unparse (ts : list tok) : str := flat_map unparse1 ts.

(* characters a TLit may carry: anything that is not one of the four active symbols of this fragment *)
Definition plain (c : ch) : bool := negb (ch_in c [42; 63; 91; 92]).
(* characters a TEsc may carry: not `/`, `.`, `\` handled separately by _references; kept to the common case *)
Definition escapable (c : ch) : bool := negb (ch_in c [47; 46]).

Fixpoint wf (ts : list tok) : bool :=
  match ts with
  | [] => true
  | TLit c :: r => plain c && wf r
  | TEsc c :: r => escapable c && wf r
  | TQ :: r => wf r
  | TStar :: r => match r with TStar :: _ => false | _ => wf r end
  end.

Definition lit_re (c : ch) : re := if c =? 47 then SetOf [47] else Chr c.

(* the regex the parser builds: [first] = still at the start of the name *)
Fixpoint emit (dot first : bool) (ts : list tok) : list re :=
  match ts with
  | [] => []
  | TLit c :: r => lit_re c :: emit dot false r
  | TEsc c :: r => Chr c :: emit dot false r
  | TQ :: r => (if first && negb dot then [NLook (SetOf [46])] else []) ++ Any :: emit dot false r
  | TStar :: r => (if first then [PLook Any] else []) ++ (if first && negb dot then [NLook (SetOf [46])] else []) ++
                  StarLazy Any :: emit dot false r
  end.

(* ---- the documented meaning ---- *)
Fixpoint Den (dot first : bool) (ts : list tok) (n : str) : Prop :=
  match ts with
  | [] => n = []
  | TLit c :: r => exists n', n = c :: n' /\ Den dot false r n'
  | TEsc c :: r => exists n', n = c :: n' /\ Den dot false r n'
  | TQ :: r => exists x n', n = x :: n' /\ (first = true -> dot = false -> x <> 46) /\ Den dot false r n'
  | TStar :: r => exists s n', n = s ++ n' /\ (first = true -> n <> []) /\
                               (first = true -> dot = false -> forall y, n <> 46 :: y) /\ Den dot false r n'
  end.

(* ---- (2) semantics of the emitted regex = documented meaning ---- *)
Lemma star_any_all : forall s rest, star (M Any) s rest.
Proof.
  induction s as [|x s IH]; intros rest; [constructor|].
  change (x :: s) with ([x] ++ s). apply star_step; [exists x; reflexivity|apply IH].
Qed.

Lemma nlook_dot rest : (~ (exists s' t, rest = s' ++ t /\ M (SetOf [46]) s' t)) <-> (forall y, rest <> 46 :: y).
Proof.
  split.
  - intros H y E. apply H. exists [46], y. split; [exact E|]. exists 46. split; [reflexivity|left; reflexivity].
  - intros H [s' [t [E [x [Es [Hx|[]]]]]]]. subst. apply (H t). reflexivity.
Qed.

Lemma plook_any rest : (exists s' t, rest = s' ++ t /\ M Any s' t) <-> rest <> [].
Proof.
  split.
  - intros [s' [t [E [x Ex]]]] H. subst. discriminate.
  - intros H. destruct rest as [|x r]; [contradiction|]. exists [x], r. split; [reflexivity|exists x; reflexivity].
Qed.

Lemma lit_re_M c s rest : M (lit_re c) s rest <-> s = [c].
Proof.
  unfold lit_re. destruct (N.eqb_spec c 47) as [->|H]; cbn.
  - split; [intros [x [E [Hx|[]]]]; subst; reflexivity|intros ->; exists 47; split; [reflexivity|left; reflexivity]].
  - reflexivity.
Qed.

Theorem emit_sound_complete dot : forall ts first n,
  Mseq (emit dot first ts) n [] <-> Den dot first ts n.
Proof.
  induction ts as [|t ts IH]; intros first n.
  - cbn. reflexivity.
  - destruct t as [c|c| |].
    + cbn [emit Mseq Den]. split.
      * intros [s1 [s2 [E [H1 H2]]]]. apply lit_re_M in H1. subst. exists s2. split; [reflexivity|apply IH; exact H2].
      * intros [n' [E H]]. subst. exists [c], n'. split; [reflexivity|]. split; [apply lit_re_M; reflexivity|apply IH; exact H].
    + cbn [emit Mseq Den M]. split.
      * intros [s1 [s2 [E [H1 H2]]]]. subst. exists s2. split; [reflexivity|apply IH; exact H2].
      * intros [n' [E H]]. subst. exists [c], n'. split; [reflexivity|]. split; [reflexivity|apply IH; exact H].
    + cbn [emit Den]. destruct (first && negb dot) eqn:G; cbn [app Mseq M].
      * apply andb_true_iff in G. destruct G as [-> G]. apply negb_true_iff in G. subst dot. split.
        -- intros [s1 [s2 [E [[-> HN] [s3 [s4 [E2 [[x ->] H2]]]]]]]]. cbn [app] in *. subst.
           exists x, s4. split; [reflexivity|]. split.
           ++ intros _ _ ->. apply (proj1 (nlook_dot _) HN s4). rewrite app_nil_r. reflexivity.
           ++ apply IH; exact H2.
        -- intros [x [n' [E [Hx H]]]]. subst. exists [], (x :: n'). split; [reflexivity|]. split.
           ++ split; [reflexivity|]. apply nlook_dot. intros y Ey. rewrite app_nil_r in Ey. inversion Ey; subst. apply Hx; reflexivity.
           ++ exists [x], n'. split; [reflexivity|]. split; [exists x; reflexivity|apply IH; exact H].
      * split.
        -- intros [s1 [s2 [E [[x ->] H2]]]]. subst. exists x, s2. split; [reflexivity|]. split.
           ++ intros -> ->. discriminate.
           ++ apply IH; exact H2.
        -- intros [x [n' [E [_ H]]]]. subst. exists [x], n'. split; [reflexivity|]. split; [exists x; reflexivity|apply IH; exact H].
    + cbn [emit Den].
      assert (Core : forall n0, (exists s1 s2, n0 = s1 ++ s2 /\ M (StarLazy Any) s1 (s2 ++ []) /\ Mseq (emit dot false ts) s2 []) <->
                                (exists s n', n0 = s ++ n' /\ Den dot false ts n')).
      { intros n0. split.
        - intros [s1 [s2 [E [_ H]]]]. exists s1, s2. split; [exact E|apply IH; exact H].
        - intros [s [n' [E H]]]. exists s, n'. split; [exact E|]. split; [apply star_any_all|apply IH; exact H]. }
      destruct first; cbn [andb app].
      * destruct dot; cbn [negb app Mseq].
        -- split.
           ++ intros [s1 [s2 [E [[-> HP] H]]]]. cbn [app] in E. subst s2. apply Core in H. destruct H as [s [n' [E H]]].
              exists s, n'. split; [exact E|]. split; [|split; [intros _ X; discriminate|exact H]].
              intros _. apply plook_any in HP. rewrite app_nil_r in HP. exact HP.
           ++ intros [s [n' [E [Hne [_ H]]]]]. exists [], n. split; [reflexivity|]. split.
              ** split; [reflexivity|]. apply plook_any. rewrite app_nil_r. apply Hne. reflexivity.
              ** apply Core. exists s, n'. split; [exact E|exact H].
        -- split.
           ++ intros [s1 [s2 [E [[-> HP] [s3 [s4 [E2 [[-> HN] H]]]]]]]]. cbn [app] in *. subst. apply Core in H. destruct H as [s [n' [E H]]].
              exists s, n'. split; [exact E|]. apply plook_any in HP. rewrite app_nil_r in HP. split; [intros _; exact HP|]. split; [|exact H].
              intros _ _ y Ey. apply (proj1 (nlook_dot _) HN y). rewrite app_nil_r. exact Ey.
           ++ intros [s [n' [E [Hne [Hd H]]]]]. exists [], n. split; [reflexivity|]. split.
              ** split; [reflexivity|]. apply plook_any. rewrite app_nil_r. apply Hne. reflexivity.
              ** exists [], n. split; [reflexivity|]. split.
                 --- split; [reflexivity|]. apply nlook_dot. intros y Ey. rewrite app_nil_r in Ey. apply (Hd eq_refl eq_refl y Ey).
                 --- apply Core. exists s, n'. split; [exact E|exact H].
      * cbn [Mseq]. split.
        -- intros H. apply Core in H. destruct H as [s [n' [E H]]]. exists s, n'. split; [exact E|]. split; [discriminate|]. split; [discriminate|exact H].
        -- intros [s [n' [E [_ [_ H]]]]]. apply Core. exists s, n'. split; [exact E|exact H].
Qed.


(* C03 on this fragment: without DOTMATCH a name starting with `.` is matched only by a pattern starting with a written `.` *)
Lemma flat_leading_dot : forall ts n',
  Den false true ts (46%N :: n') -> exists c r, (ts = TLit c :: r \/ ts = TEsc c :: r) /\ c = 46%N.
Proof.
  intros ts n'. destruct ts as [|t r]; cbn [Den]; [discriminate|]. destruct t as [c|c| |].
  - intros [s0 [E _]]. inversion E; subst. exists 46%N, r. split; [left; reflexivity|reflexivity].
  - intros [s0 [E _]]. inversion E; subst. exists 46%N, r. split; [right; reflexivity|reflexivity].
  - intros [x [s0 [E [Hf _]]]]. inversion E; subst. exfalso. apply (Hf eq_refl eq_refl). reflexivity.
  - intros [a [s0 [E [_ [Hd _]]]]]. exfalso. apply (Hd eq_refl eq_refl n'). reflexivity.
Qed.

(* ---- (1) the parser model prints exactly [emit] ---- *)
From WC.Proofs Require Import C09Parse.
Open Scope Z_scope.

Definition inv2 (first : bool) (st : pst) : Prop :=
  dir_start st = false /\ inv_ext st = 0 /\ globstar st = false /\ after_start st = first.

Lemma inv2_inv first st : inv2 first st -> inv st.
Proof. intros [A [B _]]. split; assumption. Qed.

Lemma inv2_update first st : inv2 first st -> inv2 false (update_dir_state st).
Proof.
  intros [A [B [C D]]]. unfold update_dir_state. rewrite A. cbn [andb negb].
  destruct (after_start st) eqn:E; repeat split; cbn; auto.
Qed.

Lemma inv2_update_reset first st : inv2 first st -> inv2 false (update_dir_state (reset_dir_track st)).
Proof. intros [A [B [C D]]]. unfold update_dir_state, reset_dir_track. cbn. repeat split; cbn; auto. Qed.

Lemma jrev_cons x cur : jrev (T x :: cur) = jrev cur ++ x.
Proof. unfold jrev. cbn [rev map]. rewrite map_app, concat_app. cbn. rewrite app_nil_r. reflexivity. Qed.

Lemma skip_stars_nostar r i : (match r with c :: _ => negb (N.eqb c 42) | [] => true end) = true ->
  skip_stars r i = {| idx := i; rest := r |}.
Proof. destruct r as [|c r]; intros H; [reflexivity|]. cbn. unfold cSTAR. apply negb_true_iff in H. rewrite H. reflexivity. Qed.

Section Flat.
  Variable cf : cfg.
  Hypothesis Hpath : c_pathname cf = false.
  Hypothesis Hext : c_extend cf = false.
  Hypothesis Habort : c_bslash_abort cf = false.
  Hypothesis Hunix : c_unix cf = true.
  Hypothesis Hsep : c_sep cf = S_ "[/]".
  Hypothesis Hneed : c_need_char cf = Frag.u_NEED_CHAR.

  Definition star_text (st : pst) : str :=
    (if after_start st then Frag.u_NEED_CHAR else []) ++
    (if after_start st && negb (c_dot cf) then Frag.u_NO_DOT else []) ++ Frag.u_STAR.

  Lemma handle_star_flat st i r cur :
    globstar st = false -> (match r with c :: _ => negb (N.eqb c 42) | [] => true end) = true ->
    handle_star cf st {| idx := i; rest := r |} cur =
    (reset_dir_track st, {| idx := i; rest := r |}, T (star_text st) :: cur).
  Proof.
    intros Hg Hr. unfold handle_star, star_text. rewrite Hpath, Hg, Hneed. rewrite andb_false_r. cbn [andb].
    destruct (after_start st) eqn:Ea; destruct (c_dot cf) eqn:Ed; cbn [andb negb app];
      cbn [str_eqb]; rewrite ?skip_stars_nostar by exact Hr; reflexivity.
  Qed.

  Lemma step_lit f st i c r cur :
    plain c = true ->
    root_loop (S f) cf st {| idx := i; rest := c :: r |} cur =
    root_loop f cf (update_dir_state st) {| idx := i + 1; rest := r |} (T (print1 (lit_re c)) :: cur).
  Proof.
    intros Hp. cbn [root_loop next rest idx]. rewrite Hext. cbn [andb].
    unfold plain, ch_in in Hp. cbn [existsb] in Hp. rewrite !orb_false_r in Hp.
    apply negb_true_iff in Hp. apply orb_false_iff in Hp. destruct Hp as [H42 Hp].
    apply orb_false_iff in Hp. destruct Hp as [H63 Hp]. apply orb_false_iff in Hp. destruct Hp as [H91 H92].
    unfold lit_re.
    destruct (N.eqb_spec c cDOT) as [->|Hd].
    - unfold handle_dot. rewrite Hpath, andb_false_r. cbn [andb]. reflexivity.
    - unfold cSTAR, cQM, cBS, cLB. rewrite H42, H63.
      change cSL with 47%N. destruct (N.eqb_spec c 47) as [->|H47].
      + rewrite Hpath, Hsep. reflexivity.
      + rewrite H92, H91. reflexivity.
  Qed.

  Lemma step_q f st i r cur :
    root_loop (S f) cf st {| idx := i; rest := 63%N :: r |} cur =
    root_loop f cf (update_dir_state (reset_dir_track st)) {| idx := i + 1; rest := r |}
              (T ((if after_start st && negb (c_dot cf) then Frag.u_NO_DOT else []) ++ Frag.u_QMARK) :: cur).
  Proof.
    cbn [root_loop next rest idx]. rewrite Hext. cbn [andb].
    change (N.eqb 63%N cDOT) with false. change (N.eqb 63%N cSTAR) with false. change (N.eqb 63%N cQM) with true. cbv iota.
    unfold restrict_sequence. rewrite Hpath. reflexivity.
  Qed.

  Lemma step_star f st i r cur :
    globstar st = false -> (match r with c :: _ => negb (N.eqb c 42) | [] => true end) = true ->
    root_loop (S f) cf st {| idx := i; rest := 42%N :: r |} cur =
    root_loop f cf (update_dir_state (reset_dir_track st)) {| idx := i + 1; rest := r |} (T (star_text st) :: cur).
  Proof.
    intros Hg Hr. cbn [root_loop next rest idx]. rewrite Hext. cbn [andb].
    change (N.eqb 42%N cDOT) with false. change (N.eqb 42%N cSTAR) with true. cbv iota.
    rewrite handle_star_flat by assumption. reflexivity.
  Qed.

  Lemma unparse_head_not_star t ts : wf (t :: ts) = true -> t <> TStar ->
    (match unparse (t :: ts) with c :: _ => negb (N.eqb c 42) | [] => true end) = true.
  Proof.
    intros W Ht. destruct t as [c|c| |]; cbn in *; try reflexivity; [|contradiction].
    apply andb_true_iff in W. destruct W as [W _]. unfold plain, ch_in in W. cbn [existsb] in W.
    apply negb_true_iff in W. apply orb_false_iff in W. destruct W as [W _]. rewrite W. reflexivity.
  Qed.

  Lemma root_loop_flat : forall ts fuel st i cur first,
    wf ts = true -> (length (unparse ts) < fuel)%nat -> inv2 first st ->
    exists st' cur', root_loop fuel cf st {| idx := i; rest := unparse ts |} cur = Ok (st', cur') /\
                     jrev cur' = jrev cur ++ print (emit (c_dot cf) first ts) /\ inv st'.
  Proof.
    induction ts as [|t ts IH]; intros fuel st i cur first W Hf I2.
    - destruct fuel as [|f]; [cbn in Hf; lia|]. exists st, cur. split; [reflexivity|]. split; [cbn; rewrite app_nil_r; reflexivity|].
      eapply inv2_inv; exact I2.
    - destruct fuel as [|f]; [lia|].
      change (unparse (t :: ts)) with (unparse1 t ++ unparse ts) in *. rewrite app_length in Hf.
      destruct t as [c|c| |].
      + cbn [unparse1 app length] in *. cbn [wf] in W. apply andb_true_iff in W. destruct W as [Wc W].
        rewrite step_lit by exact Wc.
        destruct (IH f (update_dir_state st) (i + 1) (T (print1 (lit_re c)) :: cur) false W ltac:(lia) (inv2_update _ _ I2))
          as [st' [cur' [E [J K]]]].
        exists st', cur'. split; [exact E|]. split; [|exact K].
        rewrite J, jrev_cons. cbn [emit print flat_map]. rewrite <- app_assoc. reflexivity.
      + cbn [unparse1 app length] in *. cbn [wf] in W. apply andb_true_iff in W. destruct W as [Wc W].
        unfold escapable, ch_in in Wc. cbn [existsb] in Wc. apply negb_true_iff in Wc. apply orb_false_iff in Wc.
        destruct Wc as [W47 Wc]. apply orb_false_iff in Wc. destruct Wc as [W46 _].
        rewrite (step_escaped cf Habort Hunix f st i c (unparse ts) cur (inv2_inv _ _ I2))
          by (intros ->; discriminate).
        destruct f as [|f']; [lia|].
        destruct (IH (S f') (update_dir_state st) (i + 1 + 1) (T (re_escape_ch c) :: cur) false W ltac:(lia) (inv2_update _ _ I2))
          as [st' [cur' [E [J K]]]].
        exists st', cur'. split; [exact E|]. split; [|exact K].
        rewrite J, jrev_cons. cbn [emit print flat_map print1]. rewrite <- app_assoc. reflexivity.
      + cbn [unparse1 app length] in *. cbn [wf] in W.
        rewrite step_q.
        destruct (IH f (update_dir_state (reset_dir_track st)) (i + 1)
                     (T ((if after_start st && negb (c_dot cf) then Frag.u_NO_DOT else []) ++ Frag.u_QMARK) :: cur)
                     false W ltac:(lia) (inv2_update_reset _ _ I2))
          as [st' [cur' [E [J K]]]].
        exists st', cur'. split; [exact E|]. split; [|exact K].
        rewrite J, jrev_cons. destruct I2 as [_ [_ [_ Ha]]]. rewrite Ha. cbn [emit print].
        destruct (first && negb (c_dot cf)); cbn [app flat_map print1]; rewrite <- ?app_assoc; reflexivity.
      + cbn [unparse1 app length] in *.
        assert (W' : wf ts = true /\ (match unparse ts with c :: _ => negb (N.eqb c 42) | [] => true end) = true).
        { cbn [wf] in W. destruct ts as [|t2 ts2]; [split; reflexivity|].
          destruct t2 as [c2|c2| |]; try discriminate; (split; [exact W|apply unparse_head_not_star; [exact W|discriminate]]). }
        destruct W' as [W' Hh].
        rewrite step_star; [|apply I2|exact Hh].
        destruct (IH f (update_dir_state (reset_dir_track st)) (i + 1) (T (star_text st) :: cur)
                     false W' ltac:(lia) (inv2_update_reset _ _ I2))
          as [st' [cur' [E [J K]]]].
        exists st', cur'. split; [exact E|]. split; [|exact K].
        rewrite J, jrev_cons. destruct I2 as [_ [_ [_ Ha]]]. unfold star_text. rewrite Ha. cbn [emit print].
        destruct first; cbn [andb]; destruct (c_dot cf); cbn [negb app flat_map print1]; rewrite <- ?app_assoc; reflexivity.
  Qed.
End Flat.

Lemma unparse_not_lone_bs ts : wf ts = true -> str_eqb (unparse ts) [cBS] = false.
Proof.
  destruct ts as [|t ts]; [reflexivity|]. intros W. destruct t as [c|c| |]; cbn [unparse flat_map unparse1 app].
  - cbn [wf] in W. apply andb_true_iff in W. destruct W as [W _]. unfold plain, ch_in in W. cbn [existsb] in W.
    rewrite !orb_false_r in W. apply negb_true_iff in W. apply orb_false_iff in W. destruct W as [_ W].
    apply orb_false_iff in W. destruct W as [_ W]. apply orb_false_iff in W. destruct W as [_ W].
    unfold str_eqb, cBS. cbn. rewrite W. reflexivity.
  - unfold str_eqb. cbn. destruct (flat_map unparse1 ts); reflexivity.
  - reflexivity.
  - reflexivity.
Qed.

Lemma unparse_cons t ts : exists d r, unparse (t :: ts) = d :: r.
Proof. destruct t; cbn; eexists; eexists; reflexivity. Qed.

Theorem wcparse_flat flags isb ts :
  wf ts = true ->
  has flags PATHNAME = false -> is_unix_style linux flags = true -> has flags EXTMATCH = false ->
  has flags u_ANCHOR = false -> has flags MATCHBASE = false -> has flags u_EXTMATCHBASE = false ->
  has flags u_TRANSLATE = false ->
  wcparse linux flags isb (unparse ts) =
  inl (S_ "^(?s" ++ (if get_case linux flags then [] else S_ "i") ++ S_ ":" ++
       print (emit (has flags DOTMATCH) true ts) ++ S_ ")$").
Proof.
  intros W Hp Hu Hx Ha Hm He Ht. unfold wcparse.
  destruct (mk_cfg linux flags isb) as [cf st] eqn:E.
  assert (Ecf : cf = fst (mk_cfg linux flags isb)) by (rewrite E; reflexivity).
  assert (Est : st = snd (mk_cfg linux flags isb)) by (rewrite E; reflexivity).
  assert (Hpath : c_pathname cf = false) by (rewrite Ecf; exact Hp).
  assert (Hunix : c_unix cf = true) by (rewrite Ecf; exact Hu).
  assert (Hext : c_extend cf = false) by (rewrite Ecf; exact Hx).
  assert (Hdot : c_dot cf = has flags DOTMATCH) by (rewrite Ecf; reflexivity).
  assert (Habort : c_bslash_abort cf = false) by (rewrite Ecf; unfold mk_cfg; cbn [fst c_bslash_abort]; rewrite Hu; reflexivity).
  assert (Hwd : c_windrive cf = false) by (rewrite Ecf; unfold mk_cfg; cbn [fst c_windrive]; rewrite Hu; reflexivity).
  assert (Hanchor : c_anchor cf = false) by (rewrite Ecf; exact Ha).
  assert (Hcap : c_capture cf = false) by (rewrite Ecf; exact Ht).
  assert (Hreal : c_realpath cf = false) by (rewrite Ecf; unfold mk_cfg; cbn [fst c_realpath]; rewrite Hp; apply andb_false_r).
  assert (Hcs : c_cs cf = get_case linux flags) by (rewrite Ecf; reflexivity).
  assert (Hsep : c_sep cf = S_ "[/]") by (rewrite Ecf; unfold mk_cfg; cbn [fst c_sep]; rewrite Hu; reflexivity).
  assert (Hneed : c_need_char cf = Frag.u_NEED_CHAR) by (rewrite Ecf; unfold mk_cfg; cbn [fst c_need_char]; rewrite Hp; reflexivity).
  assert (Hmb : matchbase st = false) by (rewrite Est; exact Hm).
  assert (Hemb : extmatchbase st = false) by (rewrite Est; exact He).
  assert (Hgs : globstar st = false) by (rewrite Est; unfold mk_cfg; cbn [snd globstar]; rewrite Hp; reflexivity).
  assert (Hds : dir_start st = false /\ inv_ext st = 0) by (rewrite Est; split; reflexivity).
  unfold wcparse_cf. rewrite Hanchor, Hmb, Hemb. cbn [orb].
  rewrite (unparse_not_lone_bs ts W).
  destruct ts as [|t ts].
  - cbn [unparse flat_map emit print]. rewrite Hcap, Hcs. reflexivity.
  - destruct (unparse_cons t ts) as [d [r Er]].
    remember (unparse (t :: ts)) as p eqn:Ep. rewrite Er. rewrite <- Er.
    unfold root. rewrite Hwd, Hpath, Hreal. cbn [andb negb]. rewrite andb_false_r.
    assert (I2 : inv2 true (set_after_start st)) by (destruct Hds; repeat split; cbn; auto).
    destruct (root_loop_flat cf Hpath Hext Habort Hunix Hsep Hneed (t :: ts) (fuel_for p) (set_after_start st) 0 [T []] true W) as [st' [cur' [Eq [J [Hd' Hi']]]]].
    { rewrite <- Ep. unfold fuel_for. lia. }
    { exact I2. }
    rewrite <- Ep in Eq. rewrite Eq.
    unfold clean_up_inverse. rewrite Hi'. cbn [Z.eqb]. rewrite Hcap, Hcs, J, Hdot.
    destruct (matchbase st' || extmatchbase st'); reflexivity.
Qed.

(* both halves together: the regex text the parser model produces for a flat pattern is the printed form of a regular
   expression whose language is the documented one *)
Theorem C01_flat_language flags isb ts :
  wf ts = true ->
  has flags PATHNAME = false -> is_unix_style linux flags = true -> has flags EXTMATCH = false ->
  has flags u_ANCHOR = false -> has flags MATCHBASE = false -> has flags u_EXTMATCHBASE = false ->
  has flags u_TRANSLATE = false ->
  exists rs,
    wcparse linux flags isb (unparse ts) =
      inl (S_ "^(?s" ++ (if get_case linux flags then [] else S_ "i") ++ S_ ":" ++ print rs ++ S_ ")$") /\
    forall n, Mseq rs n [] <-> Den (has flags DOTMATCH) true ts n.
Proof.
  intros. exists (emit (has flags DOTMATCH) true ts). split; [apply wcparse_flat; assumption|].
  intros n. apply emit_sound_complete.
Qed.

(* non-vacuity: concrete instances, computed / checked *)
Example flat_example_text :
  wcparse linux 0 false (unparse [TStar; TLit 46%N; TQ; TEsc 42%N; TLit 47%N]) = inl (S_ "^(?s:(?=.)(?![.]).*?\..\*[/])$").
Proof. vm_compute. reflexivity. Qed.

Example flat_example_den : Den false true [TStar; TLit 46%N; TQ] (S_ "ab.c") /\ ~ Den false true [TStar; TLit 46%N; TQ] (S_ ".b.c").
Proof.
  split.
  - exists (S_ "ab"), (S_ ".c"). split; [reflexivity|]. split; [discriminate|]. split; [intros _ _ y H; discriminate|].
    exists (S_ "c"). split; [reflexivity|]. exists 99%N, []. split; [reflexivity|]. split; [discriminate|reflexivity].
  - intros [s [n' [E [_ [Hd _]]]]]. apply (Hd eq_refl eq_refl (S_ "b.c")). reflexivity.
Qed.
