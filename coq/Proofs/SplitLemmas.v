(* WcSplit: for every pattern and flag word the pieces are exactly the text between the `|` characters the scanner
   selected: every cut position holds a `|`, positions increase, and joining the pieces with `|` restores the
   pattern.  (Which `|` are selected is the scanner's business - groups, brackets, escapes; that nothing is lost,
   duplicated or re-ordered is proved here for all inputs.) *)
From WC Require Import Str WcParse WcSplit.
From WC.Gen Require Import Consts FlagFuns.
From Coq Require Import Lia.
Open Scope nat_scope.

Section Split.
  Variable p : str.
  Variable cf : scfg.

  Definition wf (it : sit) : Prop := srest it = drop (sidx it) p.

  Lemma drop_cons : forall k (q : str) c r, drop k q = c :: r -> drop (S k) q = r /\ nth_error q k = Some c.
  Proof.
    induction k as [|k IH]; intros q c r H.
    - destruct q as [|d q]; cbn in H; [discriminate|]. inversion H; subst. split; reflexivity.
    - destruct q as [|d q]; cbn in H; [discriminate|]. apply IH in H. exact H.
  Qed.

  Lemma drop_drop : forall a (q : str) b, drop a (drop b q) = drop (b + a) q.
  Proof.
    intros a q b. revert q. induction b as [|b IH]; intros q; [reflexivity|].
    destruct q as [|d q]; cbn [drop plus]; [destruct a; reflexivity|apply IH].
  Qed.

  Lemma snext_wf it c it1 :
    wf it -> snext it = Some (c, it1) -> wf it1 /\ sidx it1 = S (sidx it) /\ nth_error p (sidx it) = Some c.
  Proof.
    unfold wf, snext. intros W H. destruct (srest it) as [|d r] eqn:E; [discriminate|].
    inversion H; subst; clear H. cbn [srest sidx]. symmetry in W. apply drop_cons in W. destruct W as [W1 W2].
    repeat split; auto.
  Qed.

  Definition good (lo : nat) (it' : sit) : Prop := wf it' /\ lo <= sidx it'.

  Lemma good_weaken lo lo' it : good lo' it -> lo <= lo' -> good lo it.
  Proof. intros [W L] H. split; [exact W|lia]. Qed.

  Lemma s_references_good it sq it1 :
    wf it -> s_references cf it sq = Some (inl it1) -> good (sidx it) it1.
  Proof.
    intros W H. unfold s_references in H. destruct (snext it) as [[c it0]|] eqn:E; [|discriminate].
    destruct (snext_wf _ _ _ W E) as [W0 [S0 _]].
    assert (G : good (sidx it) it0) by (split; [exact W0|lia]).
    destruct (N.eqb c cBS).
    - destruct (sq && s_bslash_abort cf); inversion H; subst; exact G.
    - destruct (N.eqb c cSL).
      + destruct (sq && s_pathname cf); inversion H; subst; exact G.
      + inversion H; subst; exact G.
  Qed.

  Lemma s_posix_good it : wf it -> good (sidx it) (s_posix it).
  Proof.
    intros W. unfold s_posix. destruct (posix_find Posix.table_u (srest it)) as [[txt n]|].
    - split; [|cbn; lia]. unfold wf. cbn [srest sidx]. rewrite W. apply drop_drop.
    - split; [exact W|lia].
  Qed.

  Lemma s_seq_loop_good : forall fuel c it it',
    wf it -> s_seq_loop fuel cf c it = Some it' -> good (sidx it) it'.
  Proof.
    induction fuel as [|f IH]; intros c it it' W H; [discriminate|].
    cbn [s_seq_loop] in H.
    destruct (N.eqb c cRB). { inversion H; subst. split; [exact W|lia]. }
    set (after := if N.eqb c cLB then Some (s_posix it)
                  else if N.eqb c cBS then match s_references cf it true with Some (inl it1) => Some it1 | _ => None end
                  else if N.eqb c cSL then (if s_pathname cf then None else Some it) else Some it) in H.
    assert (GA : forall a, after = Some a -> good (sidx it) a).
    { intros a Ha. unfold after in Ha. destruct (N.eqb c cLB); [inversion Ha; subst; apply s_posix_good; exact W|]. destruct (N.eqb c cBS).
      - destruct (s_references cf it true) as [[it1|]|] eqn:R; try discriminate. inversion Ha; subst.
        eapply s_references_good; eauto.
      - destruct (N.eqb c cSL).
        + destruct (s_pathname cf); [discriminate|]. inversion Ha; subst. split; [exact W|lia].
        + inversion Ha; subst. split; [exact W|lia]. }
    destruct after as [a|]; [|discriminate]. destruct (GA a eq_refl) as [Wa La].
    destruct (snext a) as [[c' it2]|] eqn:E; [|discriminate].
    destruct (snext_wf _ _ _ Wa E) as [W2 [S2 _]].
    apply IH in H; [|exact W2]. eapply good_weaken; [exact H|lia].
  Qed.

  Lemma s_sequence_good it it' : wf it -> s_sequence cf it = Some it' -> good (sidx it) it'.
  Proof.
    intros W H. unfold s_sequence in H.
    destruct (snext it) as [[c0 it0]|] eqn:E0; [|discriminate].
    destruct (snext_wf _ _ _ W E0) as [W0 [S0 _]].
    assert (G1 : forall c1 it1, (if N.eqb c0 cEX || N.eqb c0 cHAT then snext it0 else Some (c0, it0)) = Some (c1, it1) -> good (sidx it) it1).
    { intros c1 it1 H1. destruct (N.eqb c0 cEX || N.eqb c0 cHAT).
      - destruct (snext_wf _ _ _ W0 H1) as [W1 [S1 _]]. split; [exact W1|lia].
      - inversion H1; subst. split; [exact W0|lia]. }
    destruct (if N.eqb c0 cEX || N.eqb c0 cHAT then snext it0 else Some (c0, it0)) as [[c1 it1]|]; [|discriminate].
    destruct (G1 c1 it1 eq_refl) as [W1 L1].
    assert (G2 : forall c2 it2, (if N.eqb c1 cLB then snext (s_posix it1)
                                 else if N.eqb c1 cMINUS || N.eqb c1 cRB then snext it1 else Some (c1, it1)) = Some (c2, it2) ->
                                good (sidx it) it2).
    { intros c2 it2 H2. destruct (N.eqb c1 cLB).
      - destruct (s_posix_good it1 W1) as [Wp Lp]. destruct (snext_wf _ _ _ Wp H2) as [W2 [S2 _]]. split; [exact W2|lia].
      - destruct (N.eqb c1 cMINUS || N.eqb c1 cRB).
        + destruct (snext_wf _ _ _ W1 H2) as [W2 [S2 _]]. split; [exact W2|lia].
        + inversion H2; subst. split; [exact W1|lia]. }
    destruct (if N.eqb c1 cLB then snext (s_posix it1)
              else if N.eqb c1 cMINUS || N.eqb c1 cRB then snext it1 else Some (c1, it1)) as [[c2 it2]|]; [|discriminate].
    destruct (G2 c2 it2 eq_refl) as [W2 L2].
    apply s_seq_loop_good in H; [|exact W2]. eapply good_weaken; [exact H|lia].
  Qed.

  (* the extended-list scanner: whatever it returns (success, or a rewind) is a position of p not before [lo] *)
  Lemma s_ext_good : forall fuel,
    (forall lo it b it', wf it -> lo <= sidx it -> s_ext fuel cf it = (b, it') -> good lo it') /\
    (forall lo it back b it', wf it -> wf back -> lo <= sidx it -> lo <= sidx back ->
                              s_ext_loop fuel cf it back = (b, it') -> good lo it').
  Proof.
    induction fuel as [|f [IHe IHl]].
    - split.
      + intros lo it b it' W L H. cbn in H. inversion H; subst. split; assumption.
      + intros lo it back b it' W Wb L Lb H. cbn in H. inversion H; subst. split; assumption.
    - split.
      + intros lo it b it' W L H. cbn [s_ext] in H.
        destruct (snext it) as [[c it1]|] eqn:E.
        * destruct (snext_wf _ _ _ W E) as [W1 [S1 _]].
          destruct (negb (N.eqb c cLP)).
          -- inversion H; subst. split; assumption.
          -- eapply IHl; [exact W1|exact W| |exact L|exact H]. lia.
        * inversion H; subst. split; assumption.
      + intros lo it back b it' W Wb L Lb H. cbn [s_ext_loop] in H.
        destruct (snext it) as [[c it1]|] eqn:E; [|inversion H; subst; split; assumption].
        destruct (snext_wf _ _ _ W E) as [W1 [S1 _]].
        assert (L1 : lo <= sidx it1) by lia.
        assert (GN : forall b0 itn, (if s_extend cf && ch_in c ext_types then s_ext f cf it1 else (false, it1)) = (b0, itn) -> good lo itn).
        { intros b0 itn Hn. destruct (s_extend cf && ch_in c ext_types).
          - eapply IHe; [exact W1|exact L1|exact Hn].
          - inversion Hn; subst. split; assumption. }
        destruct (if s_extend cf && ch_in c ext_types then s_ext f cf it1 else (false, it1)) as [b0 itn].
        destruct (GN b0 itn eq_refl) as [Wn Ln].
        destruct b0.
        * eapply IHl; [exact Wn|exact Wb|exact Ln|exact Lb|exact H].
        * assert (GO : forall itx back', wf itx -> wf back' -> lo <= sidx itx -> lo <= sidx back' ->
                       (if N.eqb c cRP then (true, itx) else s_ext_loop f cf itx back') = (b, it') -> good lo it').
          { intros itx back' Wx Wb' Lx Lb' Hg. destruct (N.eqb c cRP).
            - inversion Hg; subst. split; assumption.
            - eapply IHl; [exact Wx|exact Wb'|exact Lx|exact Lb'|exact Hg]. }
          destruct (N.eqb c cBS).
          -- destruct (s_references cf itn false) as [[it2|u]|] eqn:R.
             ++ destruct (s_references_good _ _ _ Wn R) as [W2 L2]. eapply GO; [exact W2|exact Wb| |exact Lb|exact H]. lia.
             ++ eapply GO; [exact Wn|exact Wb|exact Ln|exact Lb|exact H].
             ++ eapply GO; [exact Wn|exact Wb|exact Ln|exact Lb|exact H].
          -- destruct (N.eqb c cLB).
             ++ destruct (s_sequence cf itn) as [it2|] eqn:Sq.
                ** destruct (s_sequence_good _ _ Wn Sq) as [W2 L2]. eapply GO; [exact W2|exact Wb| |exact Lb|exact H]. lia.
                ** eapply GO; [exact Wn|exact Wb|exact Ln|exact Lb|exact H].
             ++ eapply GO; [exact Wn|exact Wb|exact Ln|exact Lb|exact H].
  Qed.

  (* ---- the split loop ---- *)
  Fixpoint cuts_ok (lo : nat) (cuts : list nat) : Prop :=
    match cuts with
    | [] => True
    | c :: cs => lo <= c /\ nth_error p c = Some cBAR /\ cuts_ok (S c) cs
    end.

  Lemma cuts_ok_weaken : forall cuts lo lo', cuts_ok lo' cuts -> lo <= lo' -> cuts_ok lo cuts.
  Proof. destruct cuts as [|c cs]; intros lo lo' H L; [exact I|]. destruct H as [H1 [H2 H3]]. repeat split; auto. lia. Qed.

  Lemma split_loop_acc : forall fuel it acc,
    s_split_loop fuel cf it acc = rev acc ++ s_split_loop fuel cf it [].
  Proof.
    induction fuel as [|f IH]; intros it acc; cbn [s_split_loop]; [rewrite app_nil_r; reflexivity|].
    destruct (snext it) as [[c it1]|]; [|rewrite app_nil_r; reflexivity].
    destruct (if s_extend cf && ch_in c ext_types then s_ext f cf it1 else (false, it1)) as [[|] itn].
    - apply IH.
    - destruct (N.eqb c cBAR).
      + rewrite (IH itn (sidx it :: acc)), (IH itn [sidx it]). cbn [rev app]. rewrite <- app_assoc. reflexivity.
      + destruct (N.eqb c cBS).
        * destruct (s_references cf itn false) as [[it2|u]|]; apply IH.
        * destruct (N.eqb c cLB); [destruct (s_sequence cf itn)|]; apply IH.
  Qed.

  Lemma split_loop_ok : forall fuel it lo, wf it -> lo <= sidx it -> cuts_ok lo (s_split_loop fuel cf it []).
  Proof.
    induction fuel as [|f IH]; intros it lo W L; cbn [s_split_loop]; [exact I|].
    destruct (snext it) as [[c it1]|] eqn:E; [|exact I].
    destruct (snext_wf _ _ _ W E) as [W1 [S1 Nth]].
    assert (GN : forall b0 itn, (if s_extend cf && ch_in c ext_types then s_ext f cf it1 else (false, it1)) = (b0, itn) -> good (S (sidx it)) itn).
    { intros b0 itn Hn. destruct (s_extend cf && ch_in c ext_types).
      - destruct (s_ext_good f) as [He _]. eapply He; [exact W1| |exact Hn]. lia.
      - inversion Hn; subst. split; [exact W1|lia]. }
    destruct (if s_extend cf && ch_in c ext_types then s_ext f cf it1 else (false, it1)) as [b0 itn].
    destruct (GN b0 itn eq_refl) as [Wn Ln].
    destruct b0.
    - apply IH; [exact Wn|lia].
    - destruct (N.eqb_spec c cBAR) as [->|_].
      + rewrite split_loop_acc. cbn [rev app]. repeat split; [exact L|exact Nth|]. apply IH; [exact Wn|exact Ln].
      + destruct (N.eqb c cBS).
        * destruct (s_references cf itn false) as [[it2|u]|] eqn:R.
          -- destruct (s_references_good _ _ _ Wn R) as [W2 L2]. apply IH; [exact W2|lia].
          -- apply IH; [exact Wn|lia].
          -- apply IH; [exact Wn|lia].
        * destruct (N.eqb c cLB).
          -- destruct (s_sequence cf itn) as [it2|] eqn:Sq.
             ++ destruct (s_sequence_good _ _ Wn Sq) as [W2 L2]. apply IH; [exact W2|lia].
             ++ apply IH; [exact Wn|lia].
          -- apply IH; [exact Wn|lia].
  Qed.

  (* ---- cutting at `|` positions and joining with `|` are inverse ---- *)
  Lemma cut_nonempty : forall cuts start, cut p start cuts <> [].
  Proof. destruct cuts; intros start; cbn; discriminate. Qed.

  Lemma take_drop_bar : forall k (q : str), nth_error q k = Some cBAR -> take k q ++ [cBAR] ++ drop (S k) q = q.
  Proof.
    induction k as [|k IH]; intros q H; destruct q as [|d q]; cbn in H; try discriminate.
    - inversion H; subst. reflexivity.
    - cbn [take drop app]. f_equal. apply IH. exact H.
  Qed.

  Lemma nth_error_drop : forall s (q : str) k, nth_error (drop s q) k = nth_error q (s + k).
  Proof.
    induction s as [|s IH]; intros q k; [reflexivity|]. destruct q as [|d q]; cbn [drop].
    - destruct k; reflexivity.
    - apply IH.
  Qed.

  Lemma join_with_cons (sep a : str) (l : list str) : l <> [] -> join_with sep (a :: l) = a ++ sep ++ join_with sep l.
  Proof. destruct l; [contradiction|reflexivity]. Qed.

  Lemma join_cut : forall cuts start, cuts_ok start cuts -> join_with [cBAR] (cut p start cuts) = drop start p.
  Proof.
    induction cuts as [|c cs IH]; intros start H; [reflexivity|].
    destruct H as [L [Nth Hcs]]. cbn [cut].
    rewrite join_with_cons by apply cut_nonempty. rewrite (IH (S c) Hcs).
    assert (Nd : nth_error (drop start p) (c - start) = Some cBAR).
    { rewrite nth_error_drop. replace (start + (c - start)) with c by lia. exact Nth. }
    pose proof (take_drop_bar _ _ Nd) as TD. rewrite drop_drop in TD.
    replace (start + S (c - start)) with (S c) in TD by lia. exact TD.
  Qed.
End Split.

Theorem wcsplit_join P flags p : join_with [cBAR] (wcsplit P flags p) = p.
Proof.
  unfold wcsplit. rewrite join_cut; [reflexivity|].
  apply split_loop_ok; [reflexivity|cbn; lia].
Qed.

Theorem wcsplit_cuts P flags p :
  exists cuts, wcsplit P flags p = cut p 0 cuts /\ cuts_ok p 0 cuts.
Proof.
  eexists. split; [reflexivity|]. apply split_loop_ok; [reflexivity|cbn; lia].
Qed.
