(* GENERATED ONCE by tools/mkpinned.py (committed snapshot; not regenerated at check time). *)
From Coq Require Import List NArith String.
Import ListNotations.
From WC.Gen Require Import Consts.

Lemma pin_wcmatch_RE_MOUNT_0 : ReSrc.wcmatch_RE_MOUNT_0 = [47]%N.
Proof. reflexivity. Qed.
Lemma pin_wcmatch_RE_MOUNT_1 : ReSrc.wcmatch_RE_MOUNT_1 = [47]%N.
Proof. reflexivity. Qed.
Lemma pin_wcmatch_RE_SPLIT_0 : ReSrc.wcmatch_RE_SPLIT_0 = [47]%N.
Proof. reflexivity. Qed.
Lemma pin_wcmatch_RE_SPLIT_1 : ReSrc.wcmatch_RE_SPLIT_1 = [47]%N.
Proof. reflexivity. Qed.
Lemma pin_wcmatch_RE_WIN_MOUNT_0 : ReSrc.wcmatch_RE_WIN_MOUNT_0 = [92; 92; 124; 47; 124; 91; 97; 45; 122; 93; 58; 40; 63; 58; 92; 92; 124; 47; 124; 36; 41]%N.
Proof. reflexivity. Qed.
Lemma pin_wcmatch_RE_WIN_MOUNT_1 : ReSrc.wcmatch_RE_WIN_MOUNT_1 = [92; 92; 124; 47; 124; 91; 97; 45; 122; 93; 58; 40; 63; 58; 92; 92; 124; 47; 124; 36; 41]%N.
Proof. reflexivity. Qed.
Lemma pin_wcmatch_RE_WIN_SPLIT_0 : ReSrc.wcmatch_RE_WIN_SPLIT_0 = [92; 92; 124; 47]%N.
Proof. reflexivity. Qed.
Lemma pin_wcmatch_RE_WIN_SPLIT_1 : ReSrc.wcmatch_RE_WIN_SPLIT_1 = [92; 92; 124; 47]%N.
Proof. reflexivity. Qed.
Lemma pin_wcmatch_RE_MOUNT_0_flags : ReSrc.wcmatch_RE_MOUNT_0_flags = ""%string.
Proof. reflexivity. Qed.
Lemma pin_wcmatch_RE_MOUNT_1_flags : ReSrc.wcmatch_RE_MOUNT_1_flags = ""%string.
Proof. reflexivity. Qed.
Lemma pin_wcmatch_RE_SPLIT_0_flags : ReSrc.wcmatch_RE_SPLIT_0_flags = ""%string.
Proof. reflexivity. Qed.
Lemma pin_wcmatch_RE_SPLIT_1_flags : ReSrc.wcmatch_RE_SPLIT_1_flags = ""%string.
Proof. reflexivity. Qed.
Lemma pin_wcmatch_RE_WIN_MOUNT_0_flags : ReSrc.wcmatch_RE_WIN_MOUNT_0_flags = "re.I"%string.
Proof. reflexivity. Qed.
Lemma pin_wcmatch_RE_WIN_MOUNT_1_flags : ReSrc.wcmatch_RE_WIN_MOUNT_1_flags = "re.I"%string.
Proof. reflexivity. Qed.
Lemma pin_wcmatch_RE_WIN_SPLIT_0_flags : ReSrc.wcmatch_RE_WIN_SPLIT_0_flags = ""%string.
Proof. reflexivity. Qed.
Lemma pin_wcmatch_RE_WIN_SPLIT_1_flags : ReSrc.wcmatch_RE_WIN_SPLIT_1_flags = ""%string.
Proof. reflexivity. Qed.
