(* C15: a WcMatch object can be killed at any point with prefix-exact results. *)
From WC Require Import Str Glob WcMatchM.
From Coq Require Import Lia.

Definition prefix {A} (a b : list A) : Prop := exists t, b = a ++ t.
Lemma prefix_refl {A} (a : list A) : prefix a a. Proof. exists []. symmetry. apply app_nil_r. Qed.
Lemma prefix_trans {A} (a b c : list A) : prefix a b -> prefix b c -> prefix a c.
Proof. intros [t1 ->] [t2 ->]. exists (t1 ++ t2). symmetry. apply app_assoc. Qed.
Lemma prefix_app {A} (a t : list A) : prefix a (a ++ t). Proof. exists t. reflexivity. Qed.

Section K.
  Variable listing : str -> option (list str * list str).
  Variable islink : str -> bool.
  Variable followlinks : bool.
  Variable vfolder : str -> str -> bool * bool.
  Variable vfile : str -> str -> fres * bool.
  Variable match_kill skip_kill : str -> str -> bool.

  (* the same hooks with every kill request erased: the uninterrupted run *)
  Definition vfolder0 b n := (fst (vfolder b n), false).
  Definition vfile0 b n := (fst (vfile b n), false).
  Definition nokill (_ _ : str) := false.

  Notation walkK := (walk listing islink followlinks vfolder vfile match_kill skip_kill).
  Notation walkC := (walk listing islink followlinks vfolder0 vfile0 nokill nokill).
  Notation filesK := (files_loop vfile match_kill skip_kill).
  Notation filesC := (files_loop vfile0 nokill nokill).
  Notation dirsK := (dirs_loop vfolder).
  Notation dirsC := (dirs_loop vfolder0).

  Lemma vfolder0_eq b n : vfolder0 b n = (fst (vfolder b n), false). Proof. reflexivity. Qed.
  Lemma vfile0_eq b n : vfile0 b n = (fst (vfile b n), false). Proof. reflexivity. Qed.
  Lemma nokill_eq b n : nokill b n = false. Proof. reflexivity. Qed.

  Lemma set_abort_false st : set_abort st false = st.
  Proof. destruct st. unfold set_abort. cbn. rewrite orb_false_r. reflexivity. Qed.

  (* the uninterrupted run never sets the flag and only appends *)
  Definition after_file (base n : str) (r : fres) (c : wst) : wst :=
    match r with
    | FValid => {| w_abort := w_abort c; w_skipped := w_skipped c; w_visited := S (w_visited c); w_out := w_out c ++ [(base, n)] |}
    | _ => {| w_abort := w_abort c; w_skipped := S (w_skipped c); w_visited := S (w_visited c); w_out := w_out c |}
    end.

  Lemma filesC_step base n fs c : w_abort c = false ->
    filesC base (n :: fs) c = filesC base fs (after_file base n (fst (vfile base n)) c).
  Proof.
    intros Hc. destruct c as [a sk vi o]. cbn in Hc. subst a. cbn [files_loop]. unfold vfile0, nokill, set_abort, after_file.
    destruct (fst (vfile base n)); reflexivity.
  Qed.

  Lemma filesC_mono base fs : forall c, w_abort c = false ->
    w_abort (filesC base fs c) = false /\ prefix (w_out c) (w_out (filesC base fs c)).
  Proof.
    induction fs as [|n fs IH]; intros c Hc; [cbn [files_loop]; split; [exact Hc|apply prefix_refl]|].
    rewrite filesC_step by exact Hc.
    assert (Ha : w_abort (after_file base n (fst (vfile base n)) c) = false) by (unfold after_file; destruct (fst (vfile base n)); exact Hc).
    destruct (IH _ Ha) as [A B]. split; [exact A|].
    eapply prefix_trans; [|exact B]. unfold after_file. destruct (fst (vfile base n)); cbn [w_out]; [apply prefix_app|apply prefix_refl|apply prefix_refl].
  Qed.

  Lemma dirsC_out base ds : forall c, w_abort c = false ->
    w_abort (snd (dirsC base ds c)) = false /\ w_out (snd (dirsC base ds c)) = w_out c.
  Proof.
    induction ds as [|n ds IH]; intros c Hc; cbn [dirs_loop]; [split; [exact Hc|reflexivity]|].
    rewrite vfolder0_eq. rewrite set_abort_false. rewrite Hc.
    destruct (dirsC base ds c) as [kept st2] eqn:E. specialize (IH c Hc). rewrite E in IH. cbn [snd] in *. exact IH.
  Qed.

  Lemma walkC_mono fuel : forall base c, w_abort c = false ->
    w_abort (walkC fuel base c) = false /\ prefix (w_out c) (w_out (walkC fuel base c)).
  Proof.
    induction fuel as [|f IH]; intros base c Hc; cbn [walk]; [split; [exact Hc|apply prefix_refl]|].
    destruct (listing base) as [[dirs files]|]; [|split; [exact Hc|apply prefix_refl]].
    rewrite Hc. destruct (dirsC base dirs c) as [kept st1] eqn:Ed.
    pose proof (dirsC_out base dirs c Hc) as [D1 D2]. rewrite Ed in D1, D2. cbn [snd] in D1, D2.
    rewrite D1.
    destruct (filesC_mono base files st1 D1) as [F1 F2]. rewrite D2 in F2.
    set (s2 := filesC base files st1) in *.
    assert (G : forall l s, w_abort s = false ->
              w_abort (fold_left (fun s d => if w_abort s then s else
                                    if followlinks || negb (islink (pjoin base d)) then walkC f (pjoin base d) s else s) l s) = false /\
              prefix (w_out s) (w_out (fold_left (fun s d => if w_abort s then s else
                                    if followlinks || negb (islink (pjoin base d)) then walkC f (pjoin base d) s else s) l s))).
    { induction l as [|d l IHl]; intros s Hs; cbn [fold_left]; [split; [exact Hs|apply prefix_refl]|].
      rewrite Hs. destruct (followlinks || negb (islink (pjoin base d))).
      - destruct (IH (pjoin base d) s Hs) as [A B]. destruct (IHl _ A) as [A' B']. split; [exact A'|eapply prefix_trans; eassumption].
      - apply IHl. exact Hs. }
    destruct (G kept s2 F1) as [A B]. split; [exact A|eapply prefix_trans; eassumption].
  Qed.

  (* once the flag is set, a walk yields nothing more *)
  Lemma walkK_aborted fuel base s : w_abort s = true -> walkK fuel base s = s.
  Proof. destruct fuel; cbn [walk]; [reflexivity|]. intros H. destruct (listing base) as [[? ?]|]; [rewrite H|]; reflexivity. Qed.

  Lemma foldK_aborted base f l : forall s, w_abort s = true ->
    fold_left (fun s d => if w_abort s then s else
                 if followlinks || negb (islink (pjoin base d)) then walkK f (pjoin base d) s else s) l s = s.
  Proof. induction l as [|d l IH]; intros s H; cbn [fold_left]; [reflexivity|]. rewrite H. apply IH. exact H. Qed.

  (* the relation between the killed run and the uninterrupted run *)
  Definition R (s c : wst) : Prop :=
    w_abort c = false /\ ((w_abort s = false /\ s = c) \/ (w_abort s = true /\ prefix (w_out s) (w_out c))).

  (* file loop started from states with equal outputs: the killed run's output is a prefix *)
  Lemma files_rel base fs : forall s c, w_abort c = false -> w_out s = w_out c ->
    (w_abort s = false -> s = c) ->
    R (filesK base fs s) (filesC base fs c).
  Proof.
    induction fs as [|n fs IH]; intros s c Hc Ho Heq.
    - cbn [files_loop]. split; [exact Hc|]. destruct (w_abort s) eqn:Ea; [right; split; [reflexivity|rewrite Ho; apply prefix_refl]|left; split; [reflexivity|apply Heq; reflexivity]].
    - rewrite filesC_step by exact Hc. cbn [files_loop].
      destruct (vfile base n) as [r k1]. cbn [fst].
      set (cC := after_file base n r c).
      assert (HcC : w_abort cC = false) by (unfold cC, after_file; destruct r; exact Hc).
      match goal with |- R (if w_abort ?t then _ else _) _ => set (sK := t) end.
      assert (HoK : w_out sK = w_out cC).
      { unfold sK, cC, after_file, set_abort. destruct r; cbn [w_out]; rewrite Ho; reflexivity. }
      destruct (w_abort sK) eqn:Ea.
      + destruct (filesC_mono base fs cC HcC) as [A B]. split; [exact A|]. right. split; [exact Ea|]. rewrite HoK. exact B.
      + apply IH; [exact HcC|exact HoK|]. intros _.
        assert (Es : w_abort s = false /\ k1 = false).
        { unfold sK, set_abort in Ea. destruct r; cbn [w_abort] in Ea;
            apply orb_false_elim in Ea as [Ea1 _]; apply orb_false_elim in Ea1 as [Ea1 Ea2]; split; assumption. }
        destruct Es as [Es1 ->]. specialize (Heq Es1). subst s.
        unfold sK, cC, after_file, set_abort in *. destruct r; cbn [w_abort w_skipped w_visited w_out] in *;
          rewrite Hc in *; cbn [orb] in *; rewrite Ea; reflexivity.
  Qed.

  (* folder loop from equal states: outputs untouched; if no kill happened the two loops agree completely *)
  Lemma dirs_rel base ds : forall c, w_abort c = false ->
    w_out (snd (dirsK base ds c)) = w_out c /\
    (w_abort (snd (dirsK base ds c)) = false -> dirsK base ds c = dirsC base ds c).
  Proof.
    induction ds as [|n ds IH]; intros c Hc; cbn [dirs_loop]; [split; reflexivity|].
    rewrite vfolder0_eq. rewrite set_abort_false. destruct (vfolder base n) as [valid k]. cbn [fst].
    destruct k.
    - replace (w_abort (set_abort c true)) with true by (unfold set_abort; cbn; rewrite orb_true_r; reflexivity).
      cbn [snd]. split; [reflexivity|]. unfold set_abort. cbn. rewrite orb_true_r. discriminate.
    - rewrite set_abort_false, Hc. destruct (dirsK base ds c) as [kK sK] eqn:EK. destruct (dirsC base ds c) as [kC sC] eqn:EC.
      destruct (IH c Hc) as [A B]. rewrite EK in A. rewrite EK, EC in B. cbn [snd] in *. split; [exact A|].
      intros H. specialize (B H). injection B as -> ->. reflexivity.
  Qed.

  Theorem walk_rel fuel : forall base s c, R s c -> R (walkK fuel base s) (walkC fuel base c).
  Proof.
    induction fuel as [|f IH]; intros base s c [Hc HR]; [cbn [walk]; split; assumption|].
    destruct HR as [[Hs ->]|[Hs Hp]].
    - (* both running, equal states *)
      cbn [walk].
      destruct (listing base) as [[dirs files]|]; [|split; [exact Hc|left; split; [exact Hs|reflexivity]]].
      rewrite Hc. destruct (dirsK base dirs c) as [kK s1] eqn:EK. destruct (dirsC base dirs c) as [kC c1] eqn:EC.
      destruct (dirs_rel base dirs c Hc) as [D1 D2]. rewrite EK in D1, D2. cbn [snd] in D1, D2.
      pose proof (dirsC_out base dirs c Hc) as [C1 C2]. rewrite EC in C1, C2. cbn [snd] in C1, C2.
      rewrite C1.
      destruct (w_abort s1) eqn:Ea1.
      + (* killed during folder validation: the files of this directory are not started, the kept list is irrelevant *)
        rewrite foldK_aborted by exact Ea1.
        destruct (filesC_mono base files c1 C1) as [F1 F2].
        assert (G : forall l cs, w_abort cs = false ->
                  w_abort (fold_left (fun s d => if w_abort s then s else
                               if followlinks || negb (islink (pjoin base d)) then walkC f (pjoin base d) s else s) l cs) = false /\
                  prefix (w_out cs) (w_out (fold_left (fun s d => if w_abort s then s else
                               if followlinks || negb (islink (pjoin base d)) then walkC f (pjoin base d) s else s) l cs))).
        { induction l as [|d l IHl]; intros cs Hcs; cbn [fold_left]; [split; [exact Hcs|apply prefix_refl]|].
          rewrite Hcs. destruct (followlinks || negb (islink (pjoin base d))).
          - destruct (walkC_mono f (pjoin base d) cs Hcs) as [A B]. destruct (IHl _ A) as [A' B']. split; [exact A'|eapply prefix_trans; eassumption].
          - apply IHl. exact Hcs. }
        destruct (G kC _ F1) as [A B]. split; [exact A|]. right. split; [exact Ea1|].
        rewrite D1, <- C2. eapply prefix_trans; eassumption.
      + (* no kill during folder validation: same kept list *)
        specialize (D2 eq_refl). rewrite EC in D2. injection D2 as -> ->.
        assert (Hrel : R (filesK base files c1) (filesC base files c1)).
        { apply files_rel; [exact C1|reflexivity|reflexivity]. }
        assert (G : forall l s' c', R s' c' ->
                  R (fold_left (fun s d => if w_abort s then s else
                               if followlinks || negb (islink (pjoin base d)) then walkK f (pjoin base d) s else s) l s')
                    (fold_left (fun s d => if w_abort s then s else
                               if followlinks || negb (islink (pjoin base d)) then walkC f (pjoin base d) s else s) l c')).
        { induction l as [|d l IHl]; intros s' c' HR'; cbn [fold_left]; [exact HR'|].
          destruct HR' as [Hc' HR']. rewrite Hc'. destruct HR' as [[Hs' ->]|[Hs' Hp']].
          - rewrite Hc'. destruct (followlinks || negb (islink (pjoin base d))).
            + apply IHl. apply IH. split; [exact Hc'|left; split; [exact Hc'|reflexivity]].
            + apply IHl. split; [exact Hc'|left; split; [exact Hc'|reflexivity]].
          - rewrite Hs'. destruct (followlinks || negb (islink (pjoin base d))).
            + destruct (walkC_mono f (pjoin base d) c' Hc') as [A B]. apply IHl. split; [exact A|right; split; [exact Hs'|eapply prefix_trans; eassumption]].
            + apply IHl. split; [exact Hc'|right; split; [exact Hs'|exact Hp']]. }
        apply G. exact Hrel.
    - (* already killed *)
      rewrite walkK_aborted by exact Hs.
      destruct (walkC_mono (S f) base c Hc) as [A B].
      split; [exact A|right; split; [exact Hs|eapply prefix_trans; eassumption]].
  Qed.

  (* C15: whatever hooks call kill() and whenever, the yielded sequence is a prefix of the uninterrupted one *)
  Theorem killed_run_is_prefix fuel root :
    prefix (w_out (imatch listing islink followlinks vfolder vfile match_kill skip_kill fuel root false))
           (w_out (imatch listing islink followlinks vfolder0 vfile0 nokill nokill fuel root false)).
  Proof.
    unfold imatch.
    set (st0 := {| w_abort := false; w_skipped := 0; w_visited := 0; w_out := [] |}).
    assert (R0 : R st0 st0) by (split; [reflexivity|left; split; reflexivity]).
    destruct (walk_rel fuel root st0 st0 R0) as [_ [[_ ->]|[_ H]]]; [apply prefix_refl|exact H].
  Qed.

  (* a kill() issued while the folders of a directory are being filtered: none of its files is started and no
     directory below it is visited - the run yields nothing further *)
  Theorem kill_in_folder_phase_stops f base dirs files st :
    listing base = Some (dirs, files) -> w_abort st = false ->
    w_abort (snd (dirsK base dirs st)) = true ->
    w_out (walkK (S f) base st) = w_out st /\ w_abort (walkK (S f) base st) = true.
  Proof.
    intros HL Hs Hk. cbn [walk]. rewrite HL, Hs.
    destruct (dirs_rel base dirs st Hs) as [D1 _].
    destruct (dirsK base dirs st) as [kK s1]. cbn [snd] in *. rewrite Hk.
    rewrite foldK_aborted by exact Hk. split; assumption.
  Qed.

  (* the state after one file has been handled (validation, on_match or on_skip/on_error, any kill() they issue) *)
  Definition file_step (base n : str) (st : wst) : wst :=
    let '(r, k1) := vfile base n in
    let st1 := set_abort st k1 in
    match r with
    | FValid => set_abort {| w_abort := w_abort st1; w_skipped := w_skipped st1; w_visited := S (w_visited st1);
                             w_out := w_out st1 ++ [(base, n)] |} (match_kill base n)
    | _ => set_abort {| w_abort := w_abort st1; w_skipped := S (w_skipped st1); w_visited := S (w_visited st1);
                        w_out := w_out st1 |} (skip_kill base n)
    end.

  (* a kill() issued while file n is being handled: the files after n are not touched *)
  Theorem kill_in_file_phase_stops base n fs st :
    w_abort (file_step base n st) = true -> filesK base (n :: fs) st = file_step base n st.
  Proof.
    unfold file_step. cbn [files_loop]. destruct (vfile base n) as [r k1]. intros H. rewrite H. reflexivity.
  Qed.

  (* ... and otherwise the loop goes on with the next file *)
  Theorem file_phase_continues base n fs st :
    w_abort (file_step base n st) = false -> filesK base (n :: fs) st = filesK base fs (file_step base n st).
  Proof.
    unfold file_step. cbn [files_loop]. destruct (vfile base n) as [r k1]. intros H. rewrite H. reflexivity.
  Qed.

  (* the object stays aborted: a run started with the flag set yields nothing *)
  Theorem aborted_run_is_empty fuel root :
    w_out (imatch listing islink followlinks vfolder vfile match_kill skip_kill fuel root true) = [].
  Proof. unfold imatch. rewrite walkK_aborted; reflexivity. Qed.
End K.
