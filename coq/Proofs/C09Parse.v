(* C09, parser side: in fnmatch mode (no PATHNAME, Unix rules) the regex text the parser model produces for
   escape(s) is the *literal* regex of s - every character re.escape()d, `/` written as the class `[/]` - for every
   string s and every state the loop can be in.  No wildcard, group, bracket or negation fragment is ever emitted. *)
From WC Require Import Str WcParse Escape.
From WC.Gen Require Import Consts FlagFuns.
From Coq Require Import Lia.
Import Mwcparse.
Open Scope Z_scope.

Definition lit_ch (cf : cfg) (c : ch) : str := if N.eqb c 47 then c_sep cf else re_escape_ch c.
Definition lits (cf : cfg) (s : str) (cur : list item) : list item := rev (map (fun c => T (lit_ch cf c)) s) ++ cur.
Definition lit_text (cf : cfg) (s : str) : str := flat_map (lit_ch cf) s.

Definition head_ok (r : str) : bool := match r with c :: _ => negb (N.eqb c 40) | [] => true end.

Lemma escape_head_ok b s : head_ok (escape b s) = true.
Proof.
  destruct s as [|c s]; [reflexivity|]. unfold escape. cbn [flat_map]. unfold escape_ch.
  destruct (N.eqb_spec c 92) as [->|H92]; [reflexivity|].
  destruct (ch_in c (if b then Sets.RE_MAGIC_ESCAPE_class_b else Sets.RE_MAGIC_ESCAPE_class_s)) eqn:E; [reflexivity|].
  cbn [app head_ok]. destruct (N.eqb_spec c 40) as [->|]; [|reflexivity].
  destruct b; vm_compute in E; discriminate.
Qed.

Definition inv (st : pst) : Prop := dir_start st = false /\ inv_ext st = 0.

Lemma inv_update st : inv st -> inv (update_dir_state st).
Proof.
  intros [H1 H2]. unfold update_dir_state. rewrite H1. cbn [andb negb].
  destruct (after_start st); split; cbn; auto.
Qed.

(* a group attempt whose next character is not `(` fails and restores everything the loop looks at *)
Lemma ext_fail f cf st ty it cur rd :
  head_ok (rest it) = true -> inv st ->
  exists st', ext (S f) cf st ty it cur rd = Ok (false, st', it, cur) /\ inv st'.
Proof.
  intros Hh [Hd Hi]. cbn [ext]. unfold next.
  destruct (rest it) as [|c r] eqn:Er.
  - eexists; split; [reflexivity|]. split; cbn.
    + destruct (in_list st), (inv_nest st), rd; cbn; assumption.
    + destruct (in_list st), (inv_nest st), rd; cbn; assumption.
  - cbn [head_ok] in Hh. unfold cLP. rewrite Hh.
    eexists; split; [reflexivity|]. split; cbn.
    + destruct (in_list st), (inv_nest st), rd; cbn; assumption.
    + destruct (in_list st), (inv_nest st), rd; cbn; assumption.
Qed.

Section Root.
  Variable cf : cfg.
  Hypothesis Hpath : c_pathname cf = false.
  Hypothesis Habort : c_bslash_abort cf = false.
  Hypothesis Hunix : c_unix cf = true.

  Lemma re_escape_bs : re_escape_ch 92%N = S_ "\\".
  Proof. reflexivity. Qed.

  (* `\c` with c neither `/` nor `.` : one literal item *)
  Lemma step_escaped f st i c r cur :
    inv st -> c <> 47%N -> c <> 46%N ->
    root_loop (S f) cf st {| idx := i; rest := 92%N :: c :: r |} cur =
    root_loop f cf (update_dir_state st) {| idx := i + 1 + 1; rest := r |} (T (re_escape_ch c) :: cur).
  Proof.
    intros [Hd Hi] H47 H46.
    cbn [root_loop next rest idx].
    replace (ch_in 92%N ext_types) with false by reflexivity. rewrite andb_false_r.
    change (N.eqb 92%N cDOT) with false. change (N.eqb 92%N cSTAR) with false. change (N.eqb 92%N cQM) with false.
    change (N.eqb 92%N cSL) with false. change (N.eqb 92%N cBS) with true. cbv iota.
    unfold references. cbn [next rest idx].
    destruct (N.eqb_spec c cBS) as [->|Hbs].
    - rewrite Habort, Hunix. rewrite andb_false_r. cbn [negb]. rewrite Hd. rewrite <- re_escape_bs. reflexivity.
    - destruct (N.eqb_spec c cSL) as [->|_]; [exfalso; apply H47; reflexivity|].
      destruct (N.eqb_spec c cDOT) as [->|_]; [exfalso; apply H46; reflexivity|].
      rewrite Hd. reflexivity.
  Qed.

  (* a plain character that is none of `* ? [ \` : one literal item (a `+(`-style group cannot start here because
     the next character is not `(`) *)
  Lemma step_plain f st i c r cur :
    inv st -> c <> 42%N -> c <> 63%N -> c <> 91%N -> c <> 92%N -> head_ok r = true ->
    exists st', inv st' /\ root_loop (S (S f)) cf st {| idx := i; rest := c :: r |} cur =
      root_loop (S f) cf (update_dir_state st') {| idx := i + 1; rest := r |} (T (lit_ch cf c) :: cur).
  Proof.
    intros Hinv H42 H63 H91 H92 Hh.
    cbn [root_loop next rest idx].
    assert (Hrest : forall st0, inv st0 ->
      (if N.eqb c cDOT then root_loop (S f) cf (update_dir_state st0) {| idx := i + 1; rest := r |} (T (handle_dot cf st0 {| idx := i + 1; rest := r |}) :: cur)
       else if N.eqb c cSTAR then
         let '(st', it', cur') := handle_star cf st0 {| idx := i + 1; rest := r |} cur in root_loop (S f) cf (update_dir_state st') it' cur'
       else if N.eqb c cQM then
         let '(g, st') := restrict_sequence cf st0 in root_loop (S f) cf (update_dir_state st') {| idx := i + 1; rest := r |} (T (g ++ Frag.u_QMARK) :: cur)
       else if N.eqb c cSL then
         if c_pathname cf then
           let st1 := set_start_dir st0 in
           let '(st2, cur1) := clean_up_inverse cf st1 cur false in
           let it2 := consume_path_sep cf {| idx := i + 1; rest := r |} in
           root_loop (S f) cf (update_dir_state (set_matchbase st2 false)) it2 (T (c_sep cf ++ Frag.u_ONE_OR_MORE) :: cur1)
         else root_loop (S f) cf (update_dir_state st0) {| idx := i + 1; rest := r |} (T (c_sep cf) :: cur)
       else if N.eqb c cBS then
         match references cf st0 {| idx := i + 1; rest := r |} false with
         | RVal v st' it' =>
             if dir_start st' then
               let '(st2, cur1) := clean_up_inverse cf st' cur false in
               let it2 := consume_path_sep cf it' in
               root_loop (S f) cf (update_dir_state (set_matchbase st2 false)) it2 (T v :: cur1)
             else root_loop (S f) cf (update_dir_state st') it' (T v :: cur)
         | RDot itd => root_loop (S f) cf st0 itd cur
         | RStop => root_loop (S f) cf (update_dir_state st0) {| idx := i + 1; rest := r |} cur
         | RPath => root_loop (S f) cf (update_dir_state st0) {| idx := i + 1; rest := r |} cur
         end
       else if N.eqb c cLB then
         match sequence cf st0 {| idx := i + 1; rest := r |} with
         | Ok (v, st', it') => root_loop (S f) cf (update_dir_state st') it' (T v :: cur)
         | Stop => root_loop (S f) cf (update_dir_state st0) {| idx := i + 1; rest := r |} (T (re_escape_ch c) :: cur)
         | Fuel => Fuel
         end
       else root_loop (S f) cf (update_dir_state st0) {| idx := i + 1; rest := r |} (T (re_escape_ch c) :: cur)) =
      root_loop (S f) cf (update_dir_state st0) {| idx := i + 1; rest := r |} (T (lit_ch cf c) :: cur)).
    { intros st0 _. unfold lit_ch.
      destruct (N.eqb_spec c cDOT) as [->|_].
      - unfold handle_dot. rewrite Hpath. rewrite andb_false_r. cbn [andb]. reflexivity.
      - destruct (N.eqb_spec c cSTAR) as [->|_]; [exfalso; apply H42; reflexivity|].
        destruct (N.eqb_spec c cQM) as [->|_]; [exfalso; apply H63; reflexivity|].
        change cSL with 47%N.
        destruct (N.eqb_spec c 47) as [->|_].
        + rewrite Hpath. reflexivity.
        + destruct (N.eqb_spec c cBS) as [->|_]; [exfalso; apply H92; reflexivity|].
          destruct (N.eqb_spec c cLB) as [->|_]; [exfalso; apply H91; reflexivity|].
          reflexivity. }
    destruct (c_extend cf && ch_in c ext_types) eqn:Ex.
    - destruct (ext_fail f cf st c {| idx := i + 1; rest := r |} cur true Hh Hinv) as [st' [E Hinv']].
      rewrite E. exists st'. split; [exact Hinv'|]. apply Hrest. exact Hinv'.
    - exists st. split; [exact Hinv|]. apply Hrest. exact Hinv.
  Qed.

  Lemma lits_cons c s cur : lits cf s (T (lit_ch cf c) :: cur) = lits cf (c :: s) cur.
  Proof. unfold lits. cbn [map rev]. rewrite <- app_assoc. reflexivity. Qed.

  Lemma class_facts (b : bool) (c : N) :
    ch_in c (if b then Sets.RE_MAGIC_ESCAPE_class_b else Sets.RE_MAGIC_ESCAPE_class_s) = false ->
    c <> 42%N /\ c <> 63%N /\ c <> 91%N.
  Proof.
    intros E. repeat split; intros ->; destruct b; vm_compute in E; discriminate.
  Qed.
  Lemma class_facts2 (b : bool) (c : N) :
    ch_in c (if b then Sets.RE_MAGIC_ESCAPE_class_b else Sets.RE_MAGIC_ESCAPE_class_s) = true ->
    c <> 47%N /\ c <> 46%N.
  Proof.
    intros E. split; intros ->; destruct b; vm_compute in E; discriminate.
  Qed.

  Lemma root_loop_escaped (b : bool) : forall s fuel st i cur,
    (2 * length s < fuel)%nat -> inv st ->
    exists st', root_loop fuel cf st {| idx := i; rest := escape b s |} cur = Ok (st', lits cf s cur) /\ inv st'.
  Proof.
    induction s as [|c s IH]; intros fuel st i cur Hf Hinv.
    - destruct fuel as [|f]; [cbn in Hf; lia|]. exists st. split; [reflexivity|exact Hinv].
    - cbn [length] in Hf.
      destruct fuel as [|[|f]]; [lia|lia|].
      change (escape b (c :: s)) with (escape_ch b c ++ escape b s).
      rewrite <- lits_cons. unfold escape_ch.
      destruct (N.eqb_spec c 92) as [->|H92].
      + cbn [app]. rewrite step_escaped by (assumption || discriminate).
        apply IH; [lia|apply inv_update; exact Hinv].
      + destruct (ch_in c (if b then Sets.RE_MAGIC_ESCAPE_class_b else Sets.RE_MAGIC_ESCAPE_class_s)) eqn:E.
        * destruct (class_facts2 b c E) as [H47 H46]. cbn [app].
          rewrite step_escaped by assumption.
          replace (lit_ch cf c) with (re_escape_ch c)
            by (unfold lit_ch; destruct (N.eqb_spec c 47); [contradiction|reflexivity]).
          apply IH; [lia|apply inv_update; exact Hinv].
        * destruct (class_facts b c E) as [H42 [H63 H91]]. cbn [app].
          destruct (step_plain f st i c (escape b s) cur Hinv H42 H63 H91 H92 (escape_head_ok b s)) as [st' [Hinv' Eq]].
          rewrite Eq. apply IH; [lia|apply inv_update; exact Hinv'].
  Qed.
End Root.

(* ---- from the loop to parse(): the whole regex text ---- *)
Definition lit_ch0 (c : ch) : str := if N.eqb c 47 then S_ "[/]" else re_escape_ch c.

Lemma jrev_lits cf s : jrev (lits cf s [T []]) = lit_text cf s.
Proof.
  unfold jrev, lits, lit_text. rewrite rev_app_distr, rev_involutive. cbn [rev app map itext concat].
  induction s as [|c s IH]; [reflexivity|]. cbn [map itext concat flat_map]. rewrite IH. reflexivity.
Qed.

Lemma escape_length b s : (length s <= length (escape b s))%nat.
Proof.
  induction s as [|c s IH]; [cbn; lia|]. change (escape b (c :: s)) with (escape_ch b c ++ escape b s).
  rewrite app_length. cbn [length]. unfold escape_ch.
  destruct (N.eqb c 92); [cbn [length]; lia|].
  destruct (ch_in c _); cbn [length]; lia.
Qed.

Lemma escape_not_lone_bs b s : str_eqb (escape b s) [cBS] = false.
Proof.
  destruct s as [|c s]; [reflexivity|]. change (escape b (c :: s)) with (escape_ch b c ++ escape b s).
  unfold escape_ch. destruct (N.eqb_spec c 92) as [->|H92]; [reflexivity|].
  destruct (ch_in c _).
  - cbn [app]. unfold str_eqb. cbn. destruct (escape b s); reflexivity.
  - cbn [app]. unfold str_eqb, cBS. cbn. destruct (N.eqb_spec c 92); [contradiction|reflexivity].
Qed.

Lemma escape_cons b c s : exists d r, escape b (c :: s) = d :: r.
Proof.
  change (escape b (c :: s)) with (escape_ch b c ++ escape b s). unfold escape_ch.
  destruct (N.eqb c 92); [eexists; eexists; reflexivity|]. destruct (ch_in c _); eexists; eexists; reflexivity.
Qed.

Theorem wcparse_escape_literal flags isb s :
  has flags PATHNAME = false -> is_unix_style linux flags = true ->
  has flags u_ANCHOR = false -> has flags MATCHBASE = false -> has flags u_EXTMATCHBASE = false ->
  has flags u_TRANSLATE = false ->
  wcparse linux flags isb (escape isb s) =
  inl (S_ "^(?s" ++ (if get_case linux flags then [] else S_ "i") ++ S_ ":" ++ flat_map lit_ch0 s ++ S_ ")$").
Proof.
  intros Hp Hu Ha Hm He Ht. unfold wcparse.
  destruct (mk_cfg linux flags isb) as [cf st] eqn:E.
  assert (Ecf : cf = fst (mk_cfg linux flags isb)) by (rewrite E; reflexivity).
  assert (Est : st = snd (mk_cfg linux flags isb)) by (rewrite E; reflexivity).
  assert (Hpath : c_pathname cf = false) by (rewrite Ecf; exact Hp).
  assert (Hunix : c_unix cf = true) by (rewrite Ecf; exact Hu).
  assert (Habort : c_bslash_abort cf = false) by (rewrite Ecf; unfold mk_cfg; cbn [fst c_bslash_abort]; rewrite Hu; reflexivity).
  assert (Hwd : c_windrive cf = false) by (rewrite Ecf; unfold mk_cfg; cbn [fst c_windrive]; rewrite Hu; reflexivity).
  assert (Hanchor : c_anchor cf = false) by (rewrite Ecf; exact Ha).
  assert (Hcap : c_capture cf = false) by (rewrite Ecf; exact Ht).
  assert (Hreal : c_realpath cf = false) by (rewrite Ecf; unfold mk_cfg; cbn [fst c_realpath]; rewrite Hp; apply andb_false_r).
  assert (Hcs : c_cs cf = get_case linux flags) by (rewrite Ecf; reflexivity).
  assert (Hsep : c_sep cf = S_ "[/]") by (rewrite Ecf; unfold mk_cfg; cbn [fst c_sep]; rewrite Hu; reflexivity).
  assert (Hmb : matchbase st = false) by (rewrite Est; exact Hm).
  assert (Hemb : extmatchbase st = false) by (rewrite Est; exact He).
  assert (Hinv : inv st) by (rewrite Est; split; reflexivity).
  assert (Hlit : lit_text cf s = flat_map lit_ch0 s).
  { unfold lit_text. apply flat_map_ext. intros c. unfold lit_ch, lit_ch0. rewrite Hsep. reflexivity. }
  unfold wcparse_cf. rewrite Hanchor, Hmb, Hemb. cbn [orb].
  rewrite escape_not_lone_bs.
  destruct s as [|c s].
  - cbn [escape flat_map]. rewrite Hcap, Hcs. reflexivity.
  - destruct (escape_cons isb c s) as [d [r Er]].
    remember (escape isb (c :: s)) as p eqn:Ep. rewrite Er. rewrite <- Er.
    unfold root. rewrite Hwd, Hpath, Hreal. cbn [andb negb].
    rewrite andb_false_r.
    assert (Hinv0 : inv (set_after_start st)) by (destruct Hinv; split; cbn; auto).
    destruct (root_loop_escaped cf Hpath Habort Hunix isb (c :: s) (fuel_for p) (set_after_start st) 0 [T []]) as [st' [Eq [Hd' Hi']]].
    { unfold fuel_for. pose proof (escape_length isb (c :: s)). rewrite <- Ep in H. lia. }
    { exact Hinv0. }
    rewrite <- Ep in Eq. rewrite Eq.
    unfold clean_up_inverse. rewrite Hi'. cbn [Z.eqb].
    rewrite Hcap, Hcs.
    rewrite jrev_lits, Hlit. destruct (matchbase st' || extmatchbase st'); reflexivity.
Qed.

(* ---- every public fnmatch flag word (Unix rules in effect) meets the hypotheses ---- *)
From WC.Proofs Require Import Bits.

Lemma fnmatch_mask_clear f k :
  0 <= k -> Z.testbit 234207 k = false -> has (fnmatch_flag_transform linux f) (2 ^ k) = false.
Proof.
  intros Hk Hb. rewrite has_pow2 by assumption. unfold fnmatch_flag_transform.
  destruct (_ && _); rewrite Z.land_spec, Hb; apply andb_false_r.
Qed.

Theorem fnmatch_escape_literal f isb s :
  is_unix_style linux (fnmatch_flag_transform linux f) = true ->
  wcparse linux (fnmatch_flag_transform linux f) isb (escape isb s) =
  inl (S_ "^(?s" ++ (if get_case linux (fnmatch_flag_transform linux f) then [] else S_ "i") ++ S_ ":" ++
       flat_map lit_ch0 s ++ S_ ")$").
Proof.
  intros Hu. apply wcparse_escape_literal; try exact Hu.
  - change PATHNAME with (2 ^ 5). apply fnmatch_mask_clear; [lia|reflexivity].
  - change u_ANCHOR with (2 ^ 33). apply fnmatch_mask_clear; [lia|reflexivity].
  - change MATCHBASE with (2 ^ 13). apply fnmatch_mask_clear; [lia|reflexivity].
  - change u_EXTMATCHBASE with (2 ^ 34). apply fnmatch_mask_clear; [lia|reflexivity].
  - change u_TRANSLATE with (2 ^ 32). apply fnmatch_mask_clear; [lia|reflexivity].
Qed.

(* non-vacuity: a concrete instance, computed *)
Example escape_literal_example :
  wcparse linux (fnmatch_flag_transform linux (Z.lor EXTMATCH IGNORECASE)) false (escape false (S_ "a*+(b)/.[x]\"))
  = inl (S_ "^(?si:a\*\+\(b\)[/]\.\[x\]\\)$").
Proof. vm_compute. reflexivity. Qed.
