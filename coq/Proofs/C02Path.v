(* C02, flat path patterns, end to end inside Coq.

   Patterns: segments of literal characters, escaped characters, `?` and single `*`, joined by `/` (relative, no empty
   segment, no `**`), path mode (PATHNAME) under Unix rules, no NODOTDIR / REALPATH / MATCHBASE / EXTMATCH, DOTMATCH on
   or off.
     (1) the parser model's output is the printed form of a regular expression [emit_path segs];
     (2) under a standard semantics of that regex fragment, [emit_path segs] fully matches a name n (without line feeds)
         exactly when n splits into one piece per pattern segment, separated by non-empty runs of `/` and followed by
         any run of `/`, and every piece matches its segment by [DenSeg]:
           - no piece contains `/`: neither `?` nor `*` ever matches the separator;
           - `?` is one character, `*` any run of characters of the piece;
           - a segment that starts with a wildcard does not match the pieces `.` and `..`, nor the empty piece;
           - without DOTMATCH a segment-initial `?` does not match `.`, and the run a segment-initial `*` consumes does
             not start with `.` (the dot may still be matched by what follows the `*`: known finding
             C03-star-guard-inside-optional).
   Trusted: that CPython's `re` implements this semantics for this fragment (`$` is modelled as "end, or before a final
   line feed", which is why names with line feeds are excluded: known finding C02-dotdir-guard-newline). *)
From WC Require Import Str WcParse.
From WC.Gen Require Import Consts FlagFuns.
From WC.Proofs Require Import C01Flat.
From Coq Require Import Lia.
Import Mwcparse.
Open Scope N_scope.

Inductive rx : Type :=
| XEps
| XChr (c : ch)
| XAny
| XSet (l : list ch)          (* [l]   *)
| XNSet (l : list ch)         (* [^l]  *)
| XCat (a b : rx)
| XLazy (r : rx)              (* r*?   *)
| XPlus (r : rx)              (* r+    *)
| XOpt (r : rx)               (* (?:r)? *)
| XGrp (r : rx)               (* (?:r)  *)
| XRep12 (r : rx)             (* r{1,2} *)
| XAlt (a b : rx)             (* (?:a|b) *)
| XNLook (r : rx)             (* (?!r)  *)
| XPLook (r : rx)             (* (?=r)  *)
| XEol                        (* $      *)
| XBol                        (* ^      *)
| XAlt3 (a b c : rx)          (* (?:a|b|c) *)
| XAltC (a b : rx).           (* (a|b), capturing *)

Fixpoint xprint (r : rx) : str :=
  match r with
  | XEps => []
  | XChr c => re_escape_ch c
  | XAny => S_ "."
  | XSet l => S_ "[" ++ l ++ S_ "]"
  | XNSet l => S_ "[^" ++ l ++ S_ "]"
  | XCat a b => xprint a ++ xprint b
  | XLazy r => xprint r ++ S_ "*?"
  | XPlus r => xprint r ++ S_ "+"
  | XOpt r => S_ "(?:" ++ xprint r ++ S_ ")?"
  | XGrp r => S_ "(?:" ++ xprint r ++ S_ ")"
  | XRep12 r => xprint r ++ S_ "{1,2}"
  | XAlt a b => S_ "(?:" ++ xprint a ++ S_ "|" ++ xprint b ++ S_ ")"
  | XNLook r => S_ "(?!" ++ xprint r ++ S_ ")"
  | XPLook r => S_ "(?=" ++ xprint r ++ S_ ")"
  | XEol => S_ "$"
  | XBol => S_ "^"
  | XAlt3 a b c => S_ "(?:" ++ xprint a ++ S_ "|" ++ xprint b ++ S_ "|" ++ xprint c ++ S_ ")"
  | XAltC a b => S_ "(" ++ xprint a ++ S_ "|" ++ xprint b ++ S_ ")"
  end.

Fixpoint X (r : rx) (s rest : str) : Prop :=
  match r with
  | XEps => s = []
  | XChr c => s = [c]
  | XAny => exists x, s = [x]
  | XSet l => exists x, s = [x] /\ In x l
  | XNSet l => exists x, s = [x] /\ ~ In x l
  | XCat a b => exists s1 s2, s = s1 ++ s2 /\ X a s1 (s2 ++ rest) /\ X b s2 rest
  | XLazy a => star (X a) s rest
  | XPlus a => exists s1 s2, s = s1 ++ s2 /\ X a s1 (s2 ++ rest) /\ star (X a) s2 rest
  | XOpt a => s = [] \/ X a s rest
  | XGrp a => X a s rest
  | XRep12 a => X a s rest \/ exists s1 s2, s = s1 ++ s2 /\ X a s1 (s2 ++ rest) /\ X a s2 rest
  | XAlt a b => X a s rest \/ X b s rest
  | XNLook a => s = [] /\ ~ (exists s' t, rest = s' ++ t /\ X a s' t)
  | XPLook a => s = [] /\ (exists s' t, rest = s' ++ t /\ X a s' t)
  | XEol => s = [] /\ (rest = [] \/ rest = [10])
  | XBol => False            (* position-unaware semantics: only for regexes without `^` (see Xb below) *)
  | XAlt3 a b c => X a s rest \/ X b s rest \/ X c s rest
  | XAltC a b => X a s rest \/ X b s rest
  end.

(* ---- the fragments the parser uses in path mode ---- *)
Definition xNoDir : rx := XNLook (XCat (XGrp (XRep12 (XChr 46))) (XAlt XEol (XSet [47]))).
Definition xNoSlash : rx := XNLook (XSet [47]).
Definition xNoSlashDot : rx := XNLook (XSet [47; 46]).
Definition xPathStar : rx := XLazy (XNSet [47]).
Definition xNeedChar : rx := XPLook (XNSet [47]).
Definition xStarNoDot : rx := XOpt (XCat (XNLook (XChr 46)) xPathStar).
Definition xSep : rx := XPlus (XSet [47]).
Definition xTrail : rx := XLazy (XSet [47]).

(* one segment; [first] = at the start of the segment *)
Fixpoint emit_seg (dot first : bool) (ts : list tok) : rx :=
  match ts with
  | [] => XEps
  | TLit c :: r => XCat (XChr c) (emit_seg dot false r)
  | TEsc c :: r => XCat (XChr c) (emit_seg dot false r)
  | TQ :: r =>
      XCat (if first then XCat xNoDir (if dot then xNoSlash else xNoSlashDot) else xNoSlash) (XCat XAny (emit_seg dot false r))
  | TStar :: r =>
      XCat (if first then XCat xNeedChar (XCat xNoDir (if dot then xPathStar else xStarNoDot)) else xPathStar)
           (emit_seg dot false r)
  | TBr neg l :: r =>
      XCat (if first then XCat xNoDir (if dot then xNoSlash else xNoSlashDot) else xNoSlash)
           (XCat (if neg then XNSet l else XSet l) (emit_seg dot false r))
  end.

Fixpoint emit_path (dot : bool) (segs : list (list tok)) : rx :=
  match segs with
  | [] => xTrail
  | [s] => XCat (emit_seg dot true s) xTrail
  | s :: rest => XCat (emit_seg dot true s) (XCat xSep (emit_path dot rest))
  end.

(* ---- the documented meaning ---- *)
Definition dotdir (s : str) : Prop := s = [46] \/ s = [46; 46].

Fixpoint DenSeg (dot first : bool) (ts : list tok) (s : str) : Prop :=
  match ts with
  | [] => s = []
  | TLit c :: r => exists s', s = c :: s' /\ DenSeg dot false r s'
  | TEsc c :: r => exists s', s = c :: s' /\ DenSeg dot false r s'
  | TQ :: r => exists x s', s = x :: s' /\ x <> 47 /\
                            (first = true -> ~ dotdir s /\ (dot = false -> x <> 46)) /\ DenSeg dot false r s'
  | TStar :: r => exists a s', s = a ++ s' /\ ~ In 47 a /\
                               (first = true -> s <> [] /\ ~ dotdir s /\ (dot = false -> forall y, a <> 46 :: y)) /\
                               DenSeg dot false r s'
  | TBr neg l :: r => exists x s', s = x :: s' /\ x <> 47 /\ (if neg then ~ In x l else In x l) /\
                                   (first = true -> ~ dotdir s /\ (dot = false -> x <> 46)) /\ DenSeg dot false r s'
  end.

Definition slashes (s : str) : Prop := forall x, In x s -> x = 47.

Fixpoint DenPath (dot : bool) (segs : list (list tok)) (n : str) : Prop :=
  match segs with
  | [] => slashes n
  | [sg] => exists s t, n = s ++ t /\ ~ In 47 s /\ DenSeg dot true sg s /\ slashes t
  | sg :: rest => exists s sl n', n = s ++ sl ++ n' /\ ~ In 47 s /\ DenSeg dot true sg s /\
                                  sl <> [] /\ slashes sl /\ DenPath dot rest n'
  end.

(* ---- semantic lemmas about the fragments ---- *)
Definition seg_ok (rest : str) : Prop := rest = [] \/ exists r, rest = 47 :: r.
Definition nonl (s : str) : Prop := ~ In 10 s.

Lemma star_nset_iff s rest : star (X (XNSet [47])) s rest <-> ~ In 47 s.
Proof.
  split.
  - intros H. induction H as [|s1 s2 rest [x [-> Hx]] _ IH]; [cbn; tauto|].
    intros [H|H]; [subst; apply Hx; left; reflexivity|apply IH; exact H].
  - revert rest. induction s as [|x s IH]; intros rest H; [constructor|].
    change (x :: s) with ([x] ++ s). apply star_step.
    + exists x. split; [reflexivity|]. intros [E|[]]. apply H. left. symmetry. exact E.
    + apply IH. intros Hs. apply H. right. exact Hs.
Qed.

Lemma star_set_iff s rest : star (X (XSet [47])) s rest <-> slashes s.
Proof.
  split.
  - intros H. induction H as [|s1 s2 rest [x [-> [Hx|[]]]] _ IH]; [intros x []|].
    intros y [H|H]; [subst; reflexivity|apply IH; exact H].
  - revert rest. induction s as [|x s IH]; intros rest H; [constructor|].
    change (x :: s) with ([x] ++ s). apply star_step.
    + exists x. split; [reflexivity|]. left. symmetry. apply H. left. reflexivity.
    + apply IH. intros y Hy. apply H. right. exact Hy.
Qed.

(* the piece before the first separator is unique *)
Lemma piece_unique : forall (s d : str) r1 r2,
  ~ In 47 s -> ~ In 47 d -> seg_ok r1 -> seg_ok r2 -> s ++ r1 = d ++ r2 -> s = d.
Proof.
  induction s as [|x s IH]; intros d r1 r2 Hs Hd O1 O2 E.
  - destruct d as [|y d]; [reflexivity|]. cbn in E. destruct O1 as [->|[r ->]]; [discriminate|].
    inversion E; subst. exfalso. apply Hd. left. reflexivity.
  - destruct d as [|y d].
    + cbn in E. destruct O2 as [->|[r ->]]; [discriminate|]. inversion E; subst. exfalso. apply Hs. left. reflexivity.
    + cbn in E. inversion E; subst. f_equal. apply (IH d r1 r2);
        [intros H; apply Hs; right; exact H|intros H; apply Hd; right; exact H|exact O1|exact O2|assumption].
Qed.

Lemma rep12_dot (s : str) : (s = [46] \/ (exists s3 s4 : str, s = s3 ++ s4 /\ s3 = [46] /\ s4 = [46])) <-> dotdir s.
Proof.
  split.
  - intros [->|[s1 [s2 [-> [-> ->]]]]]; [left|right]; reflexivity.
  - intros [->| ->]; [left; reflexivity|right; exists [46], [46]; repeat split].
Qed.

Lemma nodir_iff s rest :
  ~ In 47 s -> seg_ok rest -> nonl (s ++ rest) -> (X xNoDir [] (s ++ rest) <-> ~ dotdir s).
Proof.
  intros Hs Ok Hn. unfold xNoDir. cbn [X]. split.
  - intros [_ H] Hd. apply H.
    exists s, rest. split; [reflexivity|]. exists s, []. split; [rewrite app_nil_r; reflexivity|]. split.
    + apply rep12_dot. exact Hd.
    + destruct Ok as [->|[r ->]].
      * left. split; [reflexivity|left; reflexivity].
      * (* the separator alternative consumes one character: shift it *)
        exfalso. apply H. exists (s ++ [47]), r. split; [rewrite <- app_assoc; reflexivity|].
        exists s, [47]. split; [reflexivity|]. split; [apply rep12_dot; exact Hd|]. right. exists 47. split; [reflexivity|left; reflexivity].
  - intros Hnd. split; [reflexivity|]. intros [s' [t [E [d [e [-> [Hd He]]]]]]].
    apply rep12_dot in Hd. apply Hnd.
    assert (Hd47 : ~ In 47 d) by (destruct Hd as [->| ->]; cbn; intuition discriminate).
    destruct He as [[-> Ht]|[x [-> [Hx|[]]]]].
    + rewrite app_nil_r in E. destruct Ht as [->| ->].
      * replace s with d; [exact Hd|]. symmetry. eapply (piece_unique s d rest []); eauto. left. reflexivity.
      * exfalso. apply Hn. rewrite E. apply in_or_app. right. left. reflexivity.
    + subst x. replace s with d; [exact Hd|]. symmetry. rewrite <- app_assoc in E.
      eapply (piece_unique s d rest ([47] ++ t)); eauto. right. exists t. reflexivity.
Qed.

Lemma noslash_iff s0 rest0 : X xNoSlash s0 rest0 <-> s0 = [] /\ (forall y, rest0 <> 47 :: y).
Proof.
  unfold xNoSlash. cbn [X]. split.
  - intros [-> H]. split; [reflexivity|]. intros y E. apply H. exists [47], y. split; [exact E|]. exists 47. split; [reflexivity|left; reflexivity].
  - intros [-> H]. split; [reflexivity|]. intros [s' [t [E [x [-> [Hx|[]]]]]]]. subst x. apply (H t). exact E.
Qed.

Lemma noslashdot_iff s0 rest0 : X xNoSlashDot s0 rest0 <-> s0 = [] /\ (forall y, rest0 <> 47 :: y /\ rest0 <> 46 :: y).
Proof.
  unfold xNoSlashDot. cbn [X]. split.
  - intros [-> H]. split; [reflexivity|]. intros y. split; intros E; apply H.
    + exists [47], y. split; [exact E|]. exists 47. split; [reflexivity|left; reflexivity].
    + exists [46], y. split; [exact E|]. exists 46. split; [reflexivity|right; left; reflexivity].
  - intros [-> H]. split; [reflexivity|]. intros [s' [t [E [x [-> [Hx|[Hx|[]]]]]]]]; subst x; destruct (H t) as [A B]; [apply A|apply B]; exact E.
Qed.

Lemma needchar_iff s0 rest0 : X xNeedChar s0 rest0 <-> s0 = [] /\ exists x r, rest0 = x :: r /\ x <> 47.
Proof.
  unfold xNeedChar. cbn [X]. split.
  - intros [-> [s' [t [E [x [-> Hx]]]]]]. split; [reflexivity|]. exists x, t. split; [exact E|]. intros ->. apply Hx. left. reflexivity.
  - intros [-> [x [r [E Hx]]]]. split; [reflexivity|]. exists [x], r. split; [exact E|]. exists x. split; [reflexivity|].
    intros [H|[]]. apply Hx. symmetry. exact H.
Qed.

Lemma starnodot_iff a rest0 : X xStarNoDot a rest0 <-> ~ In 47 a /\ (forall y, a <> 46 :: y).
Proof.
  unfold xStarNoDot. cbn [X]. split.
  - intros [->|[s1 [s2 [-> [[-> HN] HS]]]]].
    + split; [intros []|intros y; discriminate].
    + cbn [app]. fold xPathStar in HS. unfold xPathStar in HS. cbn [X] in HS. apply star_nset_iff in HS. split; [exact HS|].
      intros y ->. apply HN. exists [46], (y ++ rest0). split; reflexivity.
  - intros [H47 Hd]. destruct a as [|x a']; [left; reflexivity|]. right.
    exists [], (x :: a'). split; [reflexivity|]. split.
    + split; [reflexivity|]. intros [s' [t [E ->]]]. cbn in E. inversion E; subst. apply (Hd a'). reflexivity.
    + unfold xPathStar. cbn [X]. apply star_nset_iff. exact H47.
Qed.

(* well-formed path-mode segment: no `/` as a literal, nothing escaped that `_references` treats specially *)
Fixpoint pwf (ts : list tok) : bool :=
  match ts with
  | [] => true
  | TLit c :: r => plain c && negb (c =? 47) && pwf r
  | TEsc c :: r => escapable c && pwf r
  | TQ :: r => pwf r
  | TStar :: r => match r with TStar :: _ => false | _ => pwf r end
  | TBr neg l :: r => forallb setplain l && negb (match l with [] => true | _ => false end) && pwf r
  end.

Lemma pwf_tail t ts : pwf (t :: ts) = true -> pwf ts = true.
Proof.
  destruct t as [c|c| | |neg l]; cbn [pwf]; intros H.
  - apply andb_true_iff in H. apply H.
  - apply andb_true_iff in H. apply H.
  - exact H.
  - destruct ts as [|[c|c| | |neg l] ts']; try exact H; try discriminate.
  - apply andb_true_iff in H. apply H.
Qed.

Lemma notin_cons (x : ch) s : x <> 47 -> ~ In 47 s -> ~ In 47 (x :: s).
Proof. intros A B [H|H]; [apply A; exact H|apply B; exact H]. Qed.

Lemma notin_app (a b : str) : ~ In 47 a -> ~ In 47 b -> ~ In 47 (a ++ b).
Proof. intros A B H. apply in_app_or in H. destruct H; [apply A|apply B]; assumption. Qed.

Lemma nonl_tail (a b : str) : nonl (a ++ b) -> nonl b.
Proof. intros H X0. apply H. apply in_or_app. right. exact X0. Qed.

(* a guarded one-character atom (`?` or a bracket) at the head of a segment *)
Lemma seg_one_char (dot first : bool) (a E : rx) (P : ch -> Prop) (DE : str -> Prop) (s rest : str) :
  (forall s0 r0, X a s0 r0 <-> exists x, s0 = [x] /\ P x) ->
  seg_ok rest -> nonl (s ++ rest) ->
  (forall s4, nonl (s4 ++ rest) -> (X E s4 rest <-> (~ In 47 s4 /\ DE s4))) ->
  (X (XCat (if first then XCat xNoDir (if dot then xNoSlash else xNoSlashDot) else xNoSlash) (XCat a E)) s rest <->
   (~ In 47 s /\ exists x s', s = x :: s' /\ x <> 47 /\ P x /\ (first = true -> ~ dotdir s /\ (dot = false -> x <> 46)) /\ DE s')).
Proof.
  intros Ha Ok Hn HEiff. split.
  - intros H. cbn [X] in H. destruct H as [s1 [s2 [-> [HG [s3 [s4 [-> [HA HE]]]]]]]].
    apply Ha in HA. destruct HA as [x [-> Px]].
    assert (Hn4 : nonl (s4 ++ rest)).
    { intros X0. apply Hn. apply in_or_app. destruct (in_app_or _ _ _ X0) as [A|A]; [left|right; exact A].
      apply in_or_app. right. right. exact A. }
    apply (HEiff s4 Hn4) in HE. destruct HE as [H4 HD].
    destruct first.
    + destruct HG as [g1 [g2 [-> [HN HG2]]]].
      assert (g2 = [] /\ (forall y, ([x] ++ s4) ++ rest <> 47 :: y) /\ (dot = false -> forall y, ([x] ++ s4) ++ rest <> 46 :: y)).
      { destruct dot.
        - apply noslash_iff in HG2. destruct HG2 as [-> HG2]. split; [reflexivity|]. split; [exact HG2|discriminate].
        - apply noslashdot_iff in HG2. destruct HG2 as [-> HG2]. split; [reflexivity|]. split; [intros y; apply HG2|intros _ y; apply HG2]. }
      destruct H as [-> [Hx47 Hx46]].
      unfold xNoDir in HN. pose proof HN as HN'. cbn [X] in HN'. destruct HN' as [-> _]. cbn [app] in *.
      assert (Hs : ~ In 47 (x :: s4)).
      { apply notin_cons; [|exact H4]. intros ->. apply (Hx47 (s4 ++ rest)). reflexivity. }
      split; [exact Hs|]. exists x, s4. split; [reflexivity|]. split; [intros ->; apply (Hx47 (s4 ++ rest)); reflexivity|].
      split; [exact Px|]. split; [|exact HD]. intros _. split.
      * apply (nodir_iff (x :: s4) rest Hs Ok Hn). exact HN.
      * intros Hd ->. apply (Hx46 Hd (s4 ++ rest)). reflexivity.
    + apply noslash_iff in HG. destruct HG as [-> HG]. cbn [app] in *.
      assert (Hx : x <> 47) by (intros ->; apply (HG (s4 ++ rest)); reflexivity).
      split; [apply notin_cons; assumption|]. exists x, s4. split; [reflexivity|]. split; [exact Hx|]. split; [exact Px|]. split; [discriminate|exact HD].
  - intros [Hs [x [s' [-> [Hx [Px [Hf HD]]]]]]].
    assert (Hs' : ~ In 47 s') by (intros X0; apply Hs; right; exact X0).
    assert (HE : X E s' rest).
    { apply HEiff; [eapply (nonl_tail [x]); exact Hn|]. split; assumption. }
    cbn [X]. exists [], (x :: s'). split; [reflexivity|]. split.
    + destruct first.
      * destruct (Hf eq_refl) as [Hnd Hdot]. exists [], []. split; [reflexivity|]. split.
        -- apply (nodir_iff (x :: s') rest Hs Ok Hn). exact Hnd.
        -- destruct dot.
           ++ apply noslash_iff. split; [reflexivity|]. intros y E0. cbn in E0. inversion E0. contradiction.
           ++ apply noslashdot_iff. split; [reflexivity|]. intros y. split; intros E0; cbn in E0; inversion E0; [contradiction|].
              apply (Hdot eq_refl). assumption.
      * apply noslash_iff. split; [reflexivity|]. intros y E0. cbn in E0. inversion E0. contradiction.
    + exists [x], s'. split; [reflexivity|]. split; [apply Ha; exists x; split; [reflexivity|exact Px]|exact HE].
Qed.

Theorem seg_equiv dot : forall ts first s rest,
  pwf ts = true -> seg_ok rest -> nonl (s ++ rest) ->
  (X (emit_seg dot first ts) s rest <-> (~ In 47 s /\ DenSeg dot first ts s)).
Proof.
  induction ts as [|t ts IH]; intros first s rest W Ok Hn.
  - cbn. split; [intros ->; split; [intros []|reflexivity]|intros [_ ->]; reflexivity].
  - pose proof (pwf_tail _ _ W) as W'.
    destruct t as [c|c| | |neg l].
    + cbn [pwf] in W. apply andb_true_iff in W. destruct W as [W _]. apply andb_true_iff in W. destruct W as [_ Wc].
      apply negb_true_iff in Wc. apply N.eqb_neq in Wc.
      cbn [emit_seg X DenSeg]. split.
      * intros [s1 [s2 [-> [-> H]]]]. cbn [app] in *. apply IH in H; [|exact W'|exact Ok|eapply (nonl_tail [c]); exact Hn].
        destruct H as [H1 H2]. split; [apply notin_cons; assumption|]. exists s2. split; [reflexivity|exact H2].
      * intros [Hs [s' [-> H]]]. exists [c], s'. split; [reflexivity|]. split; [reflexivity|].
        apply IH; [exact W'|exact Ok|eapply (nonl_tail [c]); exact Hn|]. split; [intros X0; apply Hs; right; exact X0|exact H].
    + cbn [pwf] in W. apply andb_true_iff in W. destruct W as [Wc _].
      unfold escapable, ch_in in Wc. cbn [existsb] in Wc. apply negb_true_iff in Wc. apply orb_false_iff in Wc. destruct Wc as [Wc _].
      apply N.eqb_neq in Wc.
      cbn [emit_seg X DenSeg]. split.
      * intros [s1 [s2 [-> [-> H]]]]. cbn [app] in *. apply IH in H; [|exact W'|exact Ok|eapply (nonl_tail [c]); exact Hn].
        destruct H as [H1 H2]. split; [apply notin_cons; assumption|]. exists s2. split; [reflexivity|exact H2].
      * intros [Hs [s' [-> H]]]. exists [c], s'. split; [reflexivity|]. split; [reflexivity|].
        apply IH; [exact W'|exact Ok|eapply (nonl_tail [c]); exact Hn|]. split; [intros X0; apply Hs; right; exact X0|exact H].
    + (* ? *)
      cbn [emit_seg DenSeg]. split.
      * intros H. cbn [X] in H. destruct H as [s1 [s2 [-> [HG [s3 [s4 [-> [[x ->] HE]]]]]]]].
        assert (Hn4 : nonl (s4 ++ rest)).
        { intros X0. apply Hn. apply in_or_app. destruct (in_app_or _ _ _ X0) as [A|A]; [left|right; exact A].
          apply in_or_app. right. right. exact A. }
        apply IH in HE; [|exact W'|exact Ok|exact Hn4]. destruct HE as [H4 HD].
        destruct first.
        -- destruct HG as [g1 [g2 [-> [HN HG2]]]].
           assert (g2 = [] /\ (forall y, ([x] ++ s4) ++ rest <> 47 :: y) /\ (dot = false -> forall y, ([x] ++ s4) ++ rest <> 46 :: y)).
           { destruct dot.
             - apply noslash_iff in HG2. destruct HG2 as [-> HG2]. split; [reflexivity|]. split; [exact HG2|discriminate].
             - apply noslashdot_iff in HG2. destruct HG2 as [-> HG2]. split; [reflexivity|]. split; [intros y; apply HG2|intros _ y; apply HG2]. }
           destruct H as [-> [Hx47 Hx46]].
           unfold xNoDir in HN. pose proof HN as HN'. cbn [X] in HN'. destruct HN' as [-> _]. cbn [app] in *.
           assert (Hs : ~ In 47 (x :: s4)).
           { apply notin_cons; [|exact H4]. intros ->. apply (Hx47 (s4 ++ rest)). reflexivity. }
           split; [exact Hs|]. exists x, s4. split; [reflexivity|]. split; [intros ->; apply (Hx47 (s4 ++ rest)); reflexivity|].
           split; [|exact HD]. intros _. split.
           ++ apply (nodir_iff (x :: s4) rest Hs Ok Hn). exact HN.
           ++ intros Hd ->. apply (Hx46 Hd (s4 ++ rest)). reflexivity.
        -- apply noslash_iff in HG. destruct HG as [-> HG]. cbn [app] in *.
           assert (Hx : x <> 47) by (intros ->; apply (HG (s4 ++ rest)); reflexivity).
           split; [apply notin_cons; assumption|]. exists x, s4. split; [reflexivity|]. split; [exact Hx|]. split; [discriminate|exact HD].
      * intros [Hs [x [s' [-> [Hx [Hf HD]]]]]].
        assert (Hs' : ~ In 47 s') by (intros X0; apply Hs; right; exact X0).
        assert (HE : X (emit_seg dot false ts) s' rest).
        { apply IH; [exact W'|exact Ok|eapply (nonl_tail [x]); exact Hn|]. split; assumption. }
        cbn [X]. exists [], (x :: s'). split; [reflexivity|]. split.
        -- destruct first.
           ++ destruct (Hf eq_refl) as [Hnd Hdot]. exists [], []. split; [reflexivity|]. split.
              ** apply (nodir_iff (x :: s') rest Hs Ok Hn). exact Hnd.
              ** destruct dot.
                 --- apply noslash_iff. split; [reflexivity|]. intros y E. cbn in E. inversion E. contradiction.
                 --- apply noslashdot_iff. split; [reflexivity|]. intros y. split; intros E; cbn in E; inversion E; [contradiction|].
                     apply (Hdot eq_refl). assumption.
           ++ apply noslash_iff. split; [reflexivity|]. intros y E. cbn in E. inversion E. contradiction.
        -- exists [x], s'. split; [reflexivity|]. split; [exists x; reflexivity|exact HE].
    + (* * *)
      cbn [emit_seg DenSeg]. split.
      * intros H. cbn [X] in H. destruct H as [a [s' [-> [HS HE]]]].
        assert (Hn' : nonl (s' ++ rest)) by (rewrite <- app_assoc in Hn; eapply nonl_tail; exact Hn).
        apply IH in HE; [|exact W'|exact Ok|exact Hn']. destruct HE as [H4 HD].
        destruct first.
        -- destruct HS as [g1 [g2 [-> [HNC [g3 [g4 [-> [HN HP]]]]]]]].
           apply needchar_iff in HNC. destruct HNC as [-> [x [r [Ex Hx]]]].
           unfold xNoDir in HN. pose proof HN as HN'. cbn [X] in HN'. destruct HN' as [-> _]. cbn [app] in *.
           assert (Ha : ~ In 47 g4 /\ (dot = false -> forall y, g4 <> 46 :: y)).
           { destruct dot.
             - unfold xPathStar in HP. cbn [X] in HP. apply star_nset_iff in HP. split; [exact HP|discriminate].
             - apply starnodot_iff in HP. destruct HP as [A B]. split; [exact A|intros _; exact B]. }
           destruct Ha as [Ha Hadot].
           assert (Hs : ~ In 47 (g4 ++ s')) by (apply notin_app; assumption).
           split; [exact Hs|]. exists g4, s'. split; [reflexivity|]. split; [exact Ha|]. split; [|exact HD].
           intros _. split; [|split].
           ++ intros E0. apply app_eq_nil in E0. destruct E0 as [E1 E2]. rewrite E1, E2 in Ex. cbn [app] in Ex.
              destruct Ok as [->|[r0 ->]]; [discriminate|]. inversion Ex; subst. apply Hx. reflexivity.
           ++ rewrite <- app_assoc in Hn. rewrite app_assoc in Hn. apply (nodir_iff (g4 ++ s') rest Hs Ok Hn).
              rewrite <- app_assoc. exact HN.
           ++ exact Hadot.
        -- unfold xPathStar in HS. cbn [X] in HS. apply star_nset_iff in HS.
           split; [apply notin_app; assumption|]. exists a, s'. split; [reflexivity|]. split; [exact HS|]. split; [discriminate|exact HD].
      * intros [Hs [a [s' [-> [Ha [Hf HD]]]]]].
        assert (Hs' : ~ In 47 s') by (intros X0; apply Hs; apply in_or_app; right; exact X0).
        assert (Hn' : nonl (s' ++ rest)) by (rewrite <- app_assoc in Hn; eapply nonl_tail; exact Hn).
        assert (HE : X (emit_seg dot false ts) s' rest).
        { apply IH; [exact W'|exact Ok|exact Hn'|]. split; assumption. }
        cbn [X]. exists a, s'. split; [reflexivity|]. split; [|exact HE].
        destruct first.
        -- destruct (Hf eq_refl) as [Hne [Hnd Hdot]].
           exists [], a. split; [reflexivity|]. split.
           ++ apply needchar_iff. split; [reflexivity|].
              destruct (a ++ s') as [|x r] eqn:Eas; [contradiction|]. exists x, (r ++ rest). split.
              { cbn [app]. rewrite app_assoc, Eas. reflexivity. }
              intros ->. apply Hs. left. reflexivity.
           ++ exists [], a. split; [reflexivity|]. split.
              ** cbn [app]. rewrite app_assoc. apply (nodir_iff (a ++ s') rest Hs Ok Hn). exact Hnd.
              ** destruct dot.
                 --- unfold xPathStar. cbn [X]. apply star_nset_iff. exact Ha.
                 --- apply starnodot_iff. split; [exact Ha|apply Hdot; reflexivity].
        -- unfold xPathStar. cbn [X]. apply star_nset_iff. exact Ha.
    + (* bracket *)
      cbn [emit_seg DenSeg].
      rewrite (seg_one_char dot first (if neg then XNSet l else XSet l) (emit_seg dot false ts)
                            (fun x => if neg then ~ In x l else In x l) (DenSeg dot false ts) s rest).
      * reflexivity.
      * intros s0 r0. destruct neg; cbn [X]; reflexivity.
      * exact Ok.
      * exact Hn.
      * intros s4 Hn4. apply IH; [exact W'|exact Ok|exact Hn4].
Qed.

Lemma sep_iff sl rest : X xSep sl rest <-> sl <> [] /\ slashes sl.
Proof.
  unfold xSep. cbn [X]. split.
  - intros [s1 [s2 [-> [[x [-> [Hx|[]]]] H]]]]. subst x. apply star_set_iff in H. split; [discriminate|].
    intros y [E|E]; [symmetry; exact E|apply H; exact E].
  - intros [Hne Hs]. destruct sl as [|x sl']; [contradiction|]. exists [x], sl'. split; [reflexivity|]. split.
    + exists x. split; [reflexivity|]. left. symmetry. apply Hs. left. reflexivity.
    + apply star_set_iff. intros y Hy. apply Hs. right. exact Hy.
Qed.

Lemma slashes_seg_ok t : slashes t -> seg_ok t.
Proof. intros H. destruct t as [|x t']; [left; reflexivity|right]. exists t'. f_equal. apply H. left. reflexivity. Qed.

Theorem path_equiv dot : forall segs n,
  segs <> [] -> Forall (fun sg => pwf sg = true) segs -> nonl n ->
  (X (emit_path dot segs) n [] <-> DenPath dot segs n).
Proof.
  induction segs as [|sg segs IH]; intros n Hne W Hn; [contradiction|].
  inversion W as [|? ? Wsg Wrest]; subst.
  destruct segs as [|sg2 segs'].
  - cbn [emit_path DenPath X]. split.
    + intros [s [t [-> [HS HT]]]]. unfold xTrail in HT. cbn [X] in HT. apply star_set_iff in HT.
      rewrite app_nil_r in HS. apply seg_equiv in HS; [|exact Wsg|apply slashes_seg_ok; exact HT|exact Hn].
      destruct HS as [A B]. exists s, t. repeat split; assumption.
    + intros [s [t [-> [A [B HT]]]]]. exists s, t. split; [reflexivity|]. split.
      * rewrite app_nil_r. apply seg_equiv; [exact Wsg|apply slashes_seg_ok; exact HT|exact Hn|]. split; assumption.
      * unfold xTrail. cbn [X]. apply star_set_iff. exact HT.
  - assert (Hne2 : sg2 :: segs' <> []) by discriminate.
    change (emit_path dot (sg :: sg2 :: segs')) with (XCat (emit_seg dot true sg) (XCat xSep (emit_path dot (sg2 :: segs')))).
    change (DenPath dot (sg :: sg2 :: segs') n) with
      (exists s sl n', n = s ++ sl ++ n' /\ ~ In 47 s /\ DenSeg dot true sg s /\ sl <> [] /\ slashes sl /\ DenPath dot (sg2 :: segs') n').
    split.
    + intros H. cbn [X] in H. destruct H as [s [s2 [-> [HS [sl [n' [-> [HSep HP]]]]]]]].
      rewrite app_nil_r in HS, HSep. apply sep_iff in HSep. destruct HSep as [Hsl1 Hsl2].
      assert (Ok : seg_ok (sl ++ n')).
      { destruct sl as [|x sl']; [contradiction|]. right. exists (sl' ++ n'). cbn. f_equal. apply Hsl2. left. reflexivity. }
      apply seg_equiv in HS; [|exact Wsg|exact Ok|exact Hn]. destruct HS as [A B].
      assert (Hn' : nonl n') by (eapply nonl_tail; rewrite app_assoc in Hn; exact Hn).
      apply (IH n' Hne2 Wrest Hn') in HP.
      exists s, sl, n'. repeat split; assumption.
    + intros [s [sl [n' [-> [A [B [Hsl1 [Hsl2 HP]]]]]]]].
      assert (Ok : seg_ok (sl ++ n')).
      { destruct sl as [|x sl']; [contradiction|]. right. exists (sl' ++ n'). cbn. f_equal. apply Hsl2. left. reflexivity. }
      assert (Hn' : nonl n') by (eapply nonl_tail; rewrite app_assoc in Hn; exact Hn).
      cbn [X]. exists s, (sl ++ n'). split; [reflexivity|]. split.
      * rewrite app_nil_r. apply seg_equiv; [exact Wsg|exact Ok|exact Hn|]. split; assumption.
      * exists sl, n'. split; [reflexivity|]. split; [rewrite app_nil_r; apply sep_iff; split; assumption|].
        apply (IH n' Hne2 Wrest Hn'). exact HP.
Qed.

(* the headline consequence: neither `?` nor `*` ever matches the separator - every piece is separator-free and
   there is exactly one piece per pattern segment *)
Corollary wildcards_never_match_separator dot segs n :
  segs <> [] -> Forall (fun sg => pwf sg = true) segs -> nonl n -> X (emit_path dot segs) n [] ->
  exists pieces, length pieces = length segs /\ Forall (fun p => ~ In 47 p) pieces /\
                 Forall2 (DenSeg dot true) segs pieces.
Proof.
  intros Hne W Hn H. apply path_equiv in H; try assumption. clear Hn Hne.
  revert n W H. induction segs as [|sg segs IH]; intros n W H.
  - exists []. repeat split; constructor.
  - inversion W as [|? ? Wsg Wrest]; subst. destruct segs as [|sg2 segs'].
    + cbn [DenPath] in H. destruct H as [s [t [-> [A [B _]]]]]. exists [s]. repeat split; repeat constructor; assumption.
    + change (DenPath dot (sg :: sg2 :: segs') n) with
        (exists s sl n', n = s ++ sl ++ n' /\ ~ In 47 s /\ DenSeg dot true sg s /\ sl <> [] /\ slashes sl /\ DenPath dot (sg2 :: segs') n') in H.
      destruct H as [s [sl [n' [-> [A [B [_ [_ HP]]]]]]]].
      destruct (IH n' Wrest HP) as [ps [L [F1 F2]]]. exists (s :: ps). split; [cbn; rewrite L; reflexivity|].
      split; constructor; assumption.
Qed.

(* ==== (1) the parser model prints exactly [emit_path] ==== *)
From WC.Proofs Require Import C09Parse.
Open Scope Z_scope.

Definition inv3 (first : bool) (st : pst) : Prop :=
  dir_start st = false /\ inv_ext st = 0 /\ after_start st = first.
Lemma inv3_inv first st : inv3 first st -> inv st.
Proof. intros [A [B _]]. split; assumption. Qed.
Lemma inv3_update first st : inv3 first st -> inv3 false (update_dir_state st).
Proof.
  intros [A [B D]]. unfold update_dir_state. rewrite A. cbn [andb negb].
  destruct (after_start st) eqn:E; repeat split; cbn; auto.
Qed.
Lemma inv3_update_reset first st : inv3 first st -> inv3 false (update_dir_state (reset_dir_track st)).
Proof. intros [A [B D]]. unfold update_dir_state, reset_dir_track. cbn. repeat split; cbn; auto. Qed.

Definition same_mode (st' st : pst) : Prop := globstar st' = globstar st /\ in_list st' = in_list st.
Lemma same_mode_refl st : same_mode st st. Proof. split; reflexivity. Qed.
Lemma same_mode_upd st : same_mode (update_dir_state st) st.
Proof. unfold same_mode, update_dir_state. destruct (dir_start st && negb (after_start st)); [split; reflexivity|]. destruct (negb (dir_start st) && after_start st); split; reflexivity. Qed.
Lemma same_mode_upd_reset st : same_mode (update_dir_state (reset_dir_track st)) st.
Proof. split; reflexivity. Qed.
Lemma same_mode_trans a b c : same_mode a b -> same_mode b c -> same_mode a c.
Proof. intros [A1 A2] [B1 B2]. split; congruence. Qed.

(* what may follow a separator run: not a `/`, and not an escaped `\/` either (both are swallowed by consume_path_sep) *)
Definition nosep_head (r : str) : bool :=
  match r with
  | c :: r' => negb (N.eqb c 47) && negb (N.eqb c 92 && match r' with c2 :: _ => N.eqb c2 47 | [] => false end)
  | [] => true
  end.

Section PathText.
  Variable cf : cfg.
  Hypothesis Hpath : c_pathname cf = true.
  Hypothesis Hext : c_extend cf = false.
  Hypothesis Habort : c_bslash_abort cf = false.
  Hypothesis Hunix : c_unix cf = true.
  Hypothesis Hnodotdir : c_nodotdir cf = false.
  Hypothesis Hsep : c_sep cf = S_ "[/]".
  Hypothesis Hneed : c_need_char cf = xprint xNeedChar.
  Hypothesis Hnodir : c_no_dir cf = xprint xNoDir.
  Hypothesis Hseq : c_seq_path cf = xprint xNoSlash.
  Hypothesis Hseqdot : c_seq_path_dot cf = xprint xNoSlashDot.
  Hypothesis Hstar : c_path_star cf = xprint xPathStar.
  Hypothesis Hstar1 : c_path_star_dot1 cf = xprint xNoDir ++ xprint xPathStar.
  Hypothesis Hstar2 : c_path_star_dot2 cf = xprint xNoDir ++ xprint xStarNoDot.
  Hypothesis Hg1 : c_path_gstar_dot1 cf = S_ "(?:(?!(?:[/]|^)(?:\.{1,2})($|[/])).)*?".
  Hypothesis Hg2 : c_path_gstar_dot2 cf = S_ "(?:(?!(?:[/]|^)\.).)*?".
  Hypothesis Hgcap : c_gcapture cf = false.

  Definition pstar_text (st : pst) : str :=
    if after_start st
    then xprint xNeedChar ++ xprint xNoDir ++ (if c_dot cf then xprint xPathStar else xprint xStarNoDot)
    else xprint xPathStar.

  (* a single `*` (the next character is not another `*`): the same text whether or not GLOBSTAR is on *)
  Lemma handle_star_path st i r cur :
    (match r with c :: _ => negb (N.eqb c 42) | [] => true end) = true ->
    handle_star cf st {| idx := i; rest := r |} cur =
    (reset_dir_track st, {| idx := i; rest := r |}, T (pstar_text st) :: cur).
  Proof.
    intros Hr. unfold handle_star, pstar_text. rewrite Hpath, Hneed, Hstar, Hstar1, Hstar2, Hg1, Hg2, Hgcap.
    assert (Hn : next {| idx := i; rest := r |} = None \/
                 exists c i1, next {| idx := i; rest := r |} = Some (c, i1) /\ N.eqb c cSTAR = false).
    { unfold next. cbn [rest idx]. destruct r as [|c r']; [left; reflexivity|right]. exists c, {| idx := i + 1; rest := r' |}.
      split; [reflexivity|]. apply negb_true_iff in Hr. exact Hr. }
    destruct (after_start st) eqn:Ea; destruct (c_dot cf) eqn:Ed; destruct (globstar st); destruct (in_list st); cbn [andb negb];
      try (destruct Hn as [Hn|[c [i1 [Hn Hc]]]]; rewrite Hn; try rewrite Hc);
      cbn [andb negb]; rewrite ?skip_stars_nostar by exact Hr; reflexivity.
  Qed.

  Definition tail_ok (tail : str) : bool := match tail with [] => true | c :: _ => N.eqb c 47 || N.eqb c 92 end.

  Lemma pstep_lit f st i c r cur :
    plain c = true -> c <> 47%N ->
    root_loop (S f) cf st {| idx := i; rest := c :: r |} cur =
    root_loop f cf (update_dir_state st) {| idx := i + 1; rest := r |} (T (re_escape_ch c) :: cur).
  Proof.
    intros Hp H47. cbn [root_loop next rest idx]. rewrite Hext. cbn [andb].
    unfold plain, ch_in in Hp. cbn [existsb] in Hp. rewrite !orb_false_r in Hp.
    apply negb_true_iff in Hp. apply orb_false_iff in Hp. destruct Hp as [H42 Hp].
    apply orb_false_iff in Hp. destruct Hp as [H63 Hp]. apply orb_false_iff in Hp. destruct Hp as [H91 H92].
    destruct (N.eqb_spec c cDOT) as [->|Hd].
    - unfold handle_dot. rewrite Hnodotdir, andb_false_r. reflexivity.
    - unfold cSTAR, cQM, cBS, cLB. rewrite H42, H63.
      change cSL with 47%N. destruct (N.eqb_spec c 47) as [->|_]; [contradiction|].
      rewrite H92, H91. reflexivity.
  Qed.

  Definition pq_text (st : pst) : str :=
    (if after_start st then xprint xNoDir ++ (if c_dot cf then xprint xNoSlash else xprint xNoSlashDot) else xprint xNoSlash) ++ xprint XAny.

  Lemma pstep_q f st i r cur :
    root_loop (S f) cf st {| idx := i; rest := 63%N :: r |} cur =
    root_loop f cf (update_dir_state (reset_dir_track st)) {| idx := i + 1; rest := r |} (T (pq_text st) :: cur).
  Proof.
    cbn [root_loop next rest idx]. rewrite Hext. cbn [andb].
    change (N.eqb 63%N cDOT) with false. change (N.eqb 63%N cSTAR) with false. change (N.eqb 63%N cQM) with true. cbv iota.
    unfold restrict_sequence, pq_text. rewrite Hpath, Hnodir, Hseq, Hseqdot.
    destruct (after_start st); destruct (c_dot cf); cbn [andb negb]; rewrite <- ?app_assoc; reflexivity.
  Qed.

  Lemma pstep_star f st i r cur :
    (match r with c :: _ => negb (N.eqb c 42) | [] => true end) = true ->
    root_loop (S f) cf st {| idx := i; rest := 42%N :: r |} cur =
    root_loop f cf (update_dir_state (reset_dir_track st)) {| idx := i + 1; rest := r |} (T (pstar_text st) :: cur).
  Proof.
    intros Hr. cbn [root_loop next rest idx]. rewrite Hext. cbn [andb].
    change (N.eqb 42%N cDOT) with false. change (N.eqb 42%N cSTAR) with true. cbv iota.
    rewrite handle_star_path by assumption. reflexivity.
  Qed.

  (* brackets over plain members in path mode: the same guards as `?` *)
  Definition pbr_guard (st : pst) : str :=
    if after_start st then xprint xNoDir ++ (if c_dot cf then xprint xNoSlash else xprint xNoSlashDot) else xprint xNoSlash.

  Lemma sequence_plain_path st i (neg : bool) (l : list ch) r :
    forallb setplain l = true -> l <> [] ->
    sequence cf st {| idx := i; rest := (if neg then [33%N] else []) ++ l ++ 93%N :: r |} =
    Ok (pbr_guard st ++ br_text neg l, reset_dir_track st,
        {| idx := i + (if neg then 1 else 0) + Z.of_nat (length l) + 1; rest := r |}).
  Proof.
    intros Hp Hne. destruct l as [|c l]; [contradiction|].
    pose proof Hp as Hp0. cbn [forallb] in Hp. apply andb_true_iff in Hp. destruct Hp as [Hc Hl].
    destruct (setplain_facts c Hc) as [A [B [C [D [E [F [G _]]]]]]].
    unfold sequence, pbr_guard. destruct neg; cbn [app next rest idx].
    - change (N.eqb 33%N cEX) with true. cbn [orb]. cbn [next rest idx].
      rewrite C, B, A. cbn [orb rest].
      pose proof (seq_loop_plain cf l (S (length (l ++ 93%N :: r))) st c (i + 1 + 1) r [[cHAT]; [cLB]] (-1) Hp0
                   ltac:(rewrite app_length; cbn [length]; lia)) as Q.
      match goal with |- context [seq_loop ?a ?b ?c0 ?d ?e ?f0 ?g ?h ?i0 ?j] =>
        replace (seq_loop a b c0 d e f0 g h i0 j) with
          (@Ok (list str * iter * bool) (rev (map (fun x => [x]) (c :: l)) ++ [[cHAT]; [cLB]], {| idx := i + 1 + 1 + Z.of_nat (length l) + 1; rest := r |}, false))
          by (symmetry; exact Q) end.
      rewrite Hpath. cbn [orb]. rewrite concat_rev_build.
      unfold restrict_sequence. rewrite Hpath, Hnodir, Hseq, Hseqdot.
      destruct (after_start st); destruct (c_dot cf); cbn [andb negb];
        match goal with |- Ok (_, _, {| idx := ?x; rest := _ |}) = Ok (_, _, {| idx := ?y; rest := _ |}) =>
          replace x with y by (cbn [length]; rewrite ?Nat2Z.inj_succ; lia); reflexivity end.
    - rewrite F, G. cbn [orb]. rewrite C, B, A. cbn [orb rest].
      pose proof (seq_loop_plain cf l (S (length (l ++ 93%N :: r))) st c (i + 1) r [[cLB]] (-1) Hp0
                   ltac:(rewrite app_length; cbn [length]; lia)) as Q.
      match goal with |- context [seq_loop ?a ?b ?c0 ?d ?e ?f0 ?g ?h ?i0 ?j] =>
        replace (seq_loop a b c0 d e f0 g h i0 j) with
          (@Ok (list str * iter * bool) (rev (map (fun x => [x]) (c :: l)) ++ [[cLB]], {| idx := i + 1 + Z.of_nat (length l) + 1; rest := r |}, false))
          by (symmetry; exact Q) end.
      rewrite Hpath. cbn [orb]. rewrite concat_rev_build.
      unfold restrict_sequence. rewrite Hpath, Hnodir, Hseq, Hseqdot.
      destruct (after_start st); destruct (c_dot cf); cbn [andb negb];
        match goal with |- Ok (_, _, {| idx := ?x; rest := _ |}) = Ok (_, _, {| idx := ?y; rest := _ |}) =>
          replace x with y by (cbn [length]; rewrite ?Nat2Z.inj_succ; lia); reflexivity end.
  Qed.

  Lemma pstep_br f st i (neg : bool) (l : list ch) r cur :
    forallb setplain l = true -> l <> [] ->
    root_loop (S f) cf st {| idx := i; rest := 91%N :: (if neg then [33%N] else []) ++ l ++ 93%N :: r |} cur =
    root_loop f cf (update_dir_state (reset_dir_track st))
              {| idx := i + 1 + (if neg then 1 else 0) + Z.of_nat (length l) + 1; rest := r |}
              (T (pbr_guard st ++ br_text neg l) :: cur).
  Proof.
    intros Hp Hne. cbn [root_loop next rest idx]. rewrite Hext. cbn [andb].
    change (N.eqb 91%N cDOT) with false. change (N.eqb 91%N cSTAR) with false. change (N.eqb 91%N cQM) with false.
    change (N.eqb 91%N cSL) with false. change (N.eqb 91%N cBS) with false. change (N.eqb 91%N cLB) with true. cbv iota.
    rewrite (sequence_plain_path st (i + 1) neg l r Hp Hne). reflexivity.
  Qed.

  Lemma skip_slashes_noslash r i : nosep_head (r) = true ->
    skip_slashes r i = {| idx := i; rest := r |}.
  Proof.
    destruct r as [|c r]; intros H; [reflexivity|]. cbn [skip_slashes]. unfold nosep_head in H.
    apply andb_true_iff in H. destruct H as [H1 H2]. apply negb_true_iff in H1. apply negb_true_iff in H2.
    unfold cSL, cBS. rewrite H1. destruct (N.eqb c 92); [|reflexivity]. cbn [andb] in H2.
    destruct r as [|c2 r2]; [reflexivity|]. rewrite H2. reflexivity.
  Qed.

  Lemma pstep_sep f st i r cur :
    inv_ext st = 0 -> nosep_head (r) = true ->
    root_loop (S f) cf st {| idx := i; rest := 47%N :: r |} cur =
    root_loop f cf (update_dir_state (set_matchbase (set_start_dir st) false)) {| idx := i + 1; rest := r |}
              (T (xprint xSep) :: cur).
  Proof.
    intros Hi Hr. cbn [root_loop next rest idx]. rewrite Hext. cbn [andb].
    change (N.eqb 47%N cDOT) with false. change (N.eqb 47%N cSTAR) with false. change (N.eqb 47%N cQM) with false.
    change (N.eqb 47%N cSL) with true. cbv iota. rewrite Hpath.
    unfold clean_up_inverse. replace (inv_ext (set_start_dir st)) with 0 by (symmetry; exact Hi). cbn [Z.eqb].
    unfold consume_path_sep. rewrite Habort. cbn [rest idx]. rewrite skip_slashes_noslash by exact Hr. rewrite Hsep. reflexivity.
  Qed.

  Lemma inv3_after_sep first st : inv3 first st -> inv3 true (update_dir_state (set_matchbase (set_start_dir st) false)).
  Proof. intros [A [B D]]. unfold update_dir_state. cbn. repeat split; assumption. Qed.

  Lemma punparse_head t ts tail : pwf (t :: ts) = true -> tail_ok tail = true ->
    nosep_head (unparse (t :: ts) ++ tail) = true.
  Proof.
    intros W _. destruct t as [c|c| | |neg l]; try reflexivity.
    - cbn [pwf] in W. apply andb_true_iff in W. destruct W as [W _]. apply andb_true_iff in W. destruct W as [Wp Wc].
      cbn [unparse flat_map unparse1 app nosep_head]. rewrite Wc. cbn [andb].
      assert (E : N.eqb c 92 = false).
      { unfold plain in Wp. cbn in Wp. destruct (N.eqb c 92); [|reflexivity]. rewrite !orb_true_r in Wp. discriminate. }
      rewrite E. reflexivity.
    - cbn [pwf] in W. apply andb_true_iff in W. destruct W as [We _]. cbn [unparse flat_map unparse1 app nosep_head].
      change (N.eqb 92 47) with false. change (N.eqb 92 92) with true. cbn [negb andb].
      unfold escapable in We. cbn in We. destruct (N.eqb c 47); [discriminate|reflexivity].
  Qed.

  Lemma head_not_star_tail ts tail : pwf ts = true -> tail_ok tail = true ->
    (match ts with TStar :: _ => false | _ => true end) = true ->
    (match unparse ts ++ tail with c :: _ => negb (N.eqb c 42) | [] => true end) = true.
  Proof.
    intros W Ht Hs. destruct ts as [|t ts'].
    - cbn. destruct tail as [|c tl]; [reflexivity|]. cbn in Ht. apply orb_true_iff in Ht.
      destruct Ht as [Ht|Ht]; apply N.eqb_eq in Ht; subst c; reflexivity.
    - destruct t as [c|c| | |neg l]; cbn in *; try reflexivity; [|discriminate].
      apply andb_true_iff in W. destruct W as [W _]. apply andb_true_iff in W. destruct W as [W _].
      unfold plain, ch_in in W. cbn [existsb] in W. apply negb_true_iff in W. apply orb_false_iff in W. destruct W as [W _]. rewrite W. reflexivity.
  Qed.

  (* one segment: the loop advances over it and appends the printed segment regex *)
  Lemma seg_advance : forall ts fuel st i cur first tail,
    pwf ts = true -> tail_ok tail = true -> (length (unparse ts) <= fuel)%nat -> inv3 first st ->
    exists f' st' i' cur',
      (fuel - length (unparse ts) <= f')%nat /\
      root_loop fuel cf st {| idx := i; rest := unparse ts ++ tail |} cur = root_loop f' cf st' {| idx := i'; rest := tail |} cur' /\
      jrev cur' = jrev cur ++ xprint (emit_seg (c_dot cf) first ts) /\
      inv3 (match ts with [] => first | _ => false end) st' /\ same_mode st' st.
  Proof.
    induction ts as [|t ts IH]; intros fuel st i cur first tail W Ht Hf I2.
    - exists fuel, st, i, cur. split; [cbn; lia|]. split; [reflexivity|]. split; [cbn; rewrite app_nil_r; reflexivity|]. split; [exact I2|apply same_mode_refl].
    - pose proof (pwf_tail _ _ W) as W'.
      change (unparse (t :: ts)) with (unparse1 t ++ unparse ts) in *. rewrite app_length in Hf. rewrite <- app_assoc.
      destruct t as [c|c| | |neg l].
      + cbn [unparse1 app length] in *. destruct fuel as [|f]; [lia|].
        cbn [pwf] in W. apply andb_true_iff in W. destruct W as [W _]. apply andb_true_iff in W. destruct W as [Wp Wc].
        apply negb_true_iff in Wc. apply N.eqb_neq in Wc.
        rewrite pstep_lit by assumption.
        destruct (IH f (update_dir_state st) (i + 1) (T (re_escape_ch c) :: cur) false tail W' Ht ltac:(lia) (inv3_update _ _ I2))
          as [f' [st' [i' [cur' [Hf' [E [J [K SM]]]]]]]].
        exists f', st', i', cur'. split; [lia|]. split; [exact E|]. split.
        * rewrite J, jrev_cons. cbn [emit_seg xprint]. rewrite <- app_assoc. reflexivity.
        * split; [destruct ts; exact K|]. eapply same_mode_trans; [exact SM|first [apply same_mode_upd|apply same_mode_upd_reset]].
      + cbn [unparse1 app length] in *. destruct fuel as [|f]; [lia|].
        cbn [pwf] in W. apply andb_true_iff in W. destruct W as [Wc _].
        unfold escapable, ch_in in Wc. cbn [existsb] in Wc. apply negb_true_iff in Wc. apply orb_false_iff in Wc.
        destruct Wc as [W47 Wc]. apply orb_false_iff in Wc. destruct Wc as [W46 _].
        rewrite (step_escaped cf Habort Hunix f st i c (unparse ts ++ tail) cur (inv3_inv _ _ I2))
          by (intros ->; discriminate).
        destruct (IH f (update_dir_state st) (i + 1 + 1) (T (re_escape_ch c) :: cur) false tail W' Ht ltac:(lia) (inv3_update _ _ I2))
          as [f' [st' [i' [cur' [Hf' [E [J [K SM]]]]]]]].
        exists f', st', i', cur'. split; [lia|]. split; [exact E|]. split.
        * rewrite J, jrev_cons. cbn [emit_seg xprint]. rewrite <- app_assoc. reflexivity.
        * split; [destruct ts; exact K|]. eapply same_mode_trans; [exact SM|first [apply same_mode_upd|apply same_mode_upd_reset]].
      + cbn [unparse1 app length] in *. destruct fuel as [|f]; [lia|].
        rewrite pstep_q.
        destruct (IH f (update_dir_state (reset_dir_track st)) (i + 1) (T (pq_text st) :: cur) false tail W' Ht ltac:(lia) (inv3_update_reset _ _ I2))
          as [f' [st' [i' [cur' [Hf' [E [J [K SM]]]]]]]].
        exists f', st', i', cur'. split; [lia|]. split; [exact E|]. split.
        * rewrite J, jrev_cons. destruct I2 as [_ [_ Ha]]. unfold pq_text. rewrite Ha. cbn [emit_seg xprint].
          destruct first; destruct (c_dot cf); cbn [xprint]; rewrite <- ?app_assoc; reflexivity.
        * split; [destruct ts; exact K|]. eapply same_mode_trans; [exact SM|first [apply same_mode_upd|apply same_mode_upd_reset]].
      + cbn [unparse1 app length] in *. destruct fuel as [|f]; [lia|].
        assert (Hh : (match unparse ts ++ tail with c :: _ => negb (N.eqb c 42) | [] => true end) = true).
        { apply head_not_star_tail; [exact W'|exact Ht|]. cbn [pwf] in W. destruct ts as [|[c2|c2| | |neg2 l2] ts']; try reflexivity. discriminate. }
        rewrite pstep_star; [|exact Hh].
        destruct (IH f (update_dir_state (reset_dir_track st)) (i + 1) (T (pstar_text st) :: cur) false tail W' Ht ltac:(lia) (inv3_update_reset _ _ I2))
          as [f' [st' [i' [cur' [Hf' [E [J [K SM]]]]]]]].
        exists f', st', i', cur'. split; [lia|]. split; [exact E|]. split.
        * rewrite J, jrev_cons. destruct I2 as [_ [_ Ha]]. unfold pstar_text. rewrite Ha. cbn [emit_seg xprint].
          destruct first; destruct (c_dot cf); cbn [xprint]; rewrite <- ?app_assoc; reflexivity.
        * split; [destruct ts; exact K|]. eapply same_mode_trans; [exact SM|first [apply same_mode_upd|apply same_mode_upd_reset]].
      + cbn [pwf] in W. apply andb_true_iff in W. destruct W as [W _]. apply andb_true_iff in W. destruct W as [Wl Wn].
        assert (Hne : l <> []) by (destruct l; [discriminate|discriminate]).
        assert (HL : (length l + 2 <= length (unparse1 (TBr neg l)))%nat).
        { cbn [unparse1]. rewrite !app_length. cbn [length]. lia. }
        destruct fuel as [|f]; [lia|].
        cbn [unparse1]. rewrite <- !app_assoc. cbn [app].
        pose proof (pstep_br f st i neg l (unparse ts ++ tail) cur Wl Hne) as Q.
        destruct (IH f (update_dir_state (reset_dir_track st)) (i + 1 + (if neg then 1 else 0) + Z.of_nat (length l) + 1)
                     (T (pbr_guard st ++ br_text neg l) :: cur) false tail W' Ht ltac:(lia) (inv3_update_reset _ _ I2))
          as [f' [st' [i' [cur' [Hf' [E [J [K SM]]]]]]]].
        assert (HG : forall Y : str, length (91%N :: (if neg then [33%N] else []) ++ l ++ 93%N :: Y) =
                                     (length (unparse1 (TBr neg l)) + length Y)%nat).
        { intros Y. cbn [unparse1 length]. rewrite ?app_length. cbn [length]. rewrite ?app_length. cbn [length]. cbv delta [ch str] in *. destruct neg; cbn [length]; lia. }
        exists f', st', i', cur'. split; [rewrite HG; lia|]. split; [eapply eq_trans; [exact Q|exact E]|]. split.
        * rewrite J, jrev_cons. destruct I2 as [_ [_ Ha]]. unfold pbr_guard. rewrite Ha. cbn [emit_seg xprint].
          destruct first; destruct (c_dot cf); destruct neg; unfold br_text; cbn [xprint]; rewrite <- ?app_assoc; reflexivity.
        * split; [destruct ts; exact K|]. eapply same_mode_trans; [exact SM|first [apply same_mode_upd|apply same_mode_upd_reset]].
  Qed.

  Fixpoint punparse (segs : list (list tok)) : str :=
    match segs with
    | [] => []
    | [sg] => unparse sg
    | sg :: rest => unparse sg ++ [47%N] ++ punparse rest
    end.

  Definition seg_wf (sg : list tok) : bool := pwf sg && match sg with [] => false | _ => true end.

  Lemma punparse_head_noslash sg rest : seg_wf sg = true ->
    nosep_head (punparse (sg :: rest)) = true.
  Proof.
    intros W. apply andb_true_iff in W. destruct W as [W Hne]. destruct sg as [|t ts]; [discriminate|].
    destruct rest as [|sg2 rest'].
    - cbn [punparse]. rewrite <- (app_nil_r (unparse (t :: ts))). apply punparse_head; [exact W|reflexivity].
    - cbn [punparse]. apply punparse_head; [exact W|reflexivity].
  Qed.

  Lemma path_loop : forall segs fuel st i cur,
    segs <> [] -> Forall (fun sg => seg_wf sg = true) segs -> (length (punparse segs) < fuel)%nat -> inv3 true st ->
    exists st' cur', root_loop fuel cf st {| idx := i; rest := punparse segs |} cur = Ok (st', cur') /\
                     jrev cur' ++ xprint xTrail = jrev cur ++ xprint (emit_path (c_dot cf) segs) /\ inv st'.
  Proof.
    induction segs as [|sg segs IH]; intros fuel st i cur Hne W Hf I2; [contradiction|].
    inversion W as [|? ? Wsg Wrest]; subst.
    pose proof Wsg as Wsg'. apply andb_true_iff in Wsg'. destruct Wsg' as [Wp Wn].
    destruct segs as [|sg2 segs'].
    - cbn [punparse] in *. rewrite <- (app_nil_r (unparse sg)).
      destruct (seg_advance sg fuel st i cur true [] Wp eq_refl ltac:(lia) I2) as [f' [st' [i' [cur' [Hf' [E [J [K SM]]]]]]]].
      rewrite E. destruct f' as [|f'']; [lia|]. exists st', cur'. split; [reflexivity|]. split.
      + rewrite J. cbn [emit_path xprint]. rewrite <- app_assoc. reflexivity.
      + eapply inv3_inv. exact K.
    - change (punparse (sg :: sg2 :: segs')) with (unparse sg ++ [47%N] ++ punparse (sg2 :: segs')) in *.
      rewrite !app_length in Hf. cbn [length] in Hf.
      destruct (seg_advance sg fuel st i cur true ([47%N] ++ punparse (sg2 :: segs')) Wp eq_refl ltac:(lia) I2)
        as [f' [st' [i' [cur' [Hf' [E [J [K SM]]]]]]]].
      rewrite E. destruct f' as [|f'']; [lia|].
      inversion Wrest as [|? ? Wsg2 _]; subst.
      cbn [app]. rewrite pstep_sep; [|apply K|apply punparse_head_noslash; exact Wsg2].
      destruct (IH f'' (update_dir_state (set_matchbase (set_start_dir st') false)) (i' + 1) (T (xprint xSep) :: cur'))
        as [st'' [cur'' [E2 [J2 K2]]]]; [discriminate|exact Wrest|lia|eapply inv3_after_sep; exact K|].
      exists st'', cur''. split; [exact E2|]. split; [|exact K2].
      rewrite J2, jrev_cons, J.
      change (emit_path (c_dot cf) (sg :: sg2 :: segs')) with
        (XCat (emit_seg (c_dot cf) true sg) (XCat xSep (emit_path (c_dot cf) (sg2 :: segs')))).
      cbn [xprint]. rewrite <- !app_assoc. reflexivity.
  Qed.

  (* ---- runs of separators: every separator may be written as any non-empty run of `/` and escaped `\/` --------------- *)
  Definition sepspell (b : bool) : str := if b then [92%N; 47%N] else [47%N].
  Definition seprun (bs : list bool) : str := flat_map sepspell bs.

  Lemma skip_slashes_run : forall bs r i, nosep_head r = true ->
    skip_slashes (seprun bs ++ r) i = {| idx := i + Z.of_nat (length (seprun bs)); rest := r |}.
  Proof.
    induction bs as [|b bs IH]; intros r i Hr.
    - cbn [seprun flat_map app length]. rewrite skip_slashes_noslash by exact Hr. f_equal. lia.
    - unfold seprun. cbn [flat_map]. fold (seprun bs). destruct b; cbn [sepspell app].
      + cbn [skip_slashes]. change (N.eqb 92%N cSL) with false. change (N.eqb 92%N cBS) with true. change (N.eqb 47%N cSL) with true.
        cbv iota. rewrite IH by exact Hr. f_equal. cbn [length]. lia.
      + cbn [skip_slashes]. change (N.eqb 47%N cSL) with true. cbv iota. rewrite IH by exact Hr. f_equal. cbn [length]. lia.
  Qed.

  Lemma pstep_sep_run f st i bs r cur :
    inv_ext st = 0 -> nosep_head r = true ->
    root_loop (S f) cf st {| idx := i; rest := 47%N :: seprun bs ++ r |} cur =
    root_loop f cf (update_dir_state (set_matchbase (set_start_dir st) false))
              {| idx := i + 1 + Z.of_nat (length (seprun bs)); rest := r |} (T (xprint xSep) :: cur).
  Proof.
    intros Hi Hr. cbn [root_loop next rest idx]. rewrite Hext. cbn [andb].
    change (N.eqb 47%N cDOT) with false. change (N.eqb 47%N cSTAR) with false. change (N.eqb 47%N cQM) with false.
    change (N.eqb 47%N cSL) with true. cbv iota. rewrite Hpath.
    unfold clean_up_inverse. replace (inv_ext (set_start_dir st)) with 0 by (symmetry; exact Hi). cbn [Z.eqb].
    unfold consume_path_sep. rewrite Habort. cbn [rest idx]. rewrite skip_slashes_run by exact Hr. rewrite Hsep. reflexivity.
  Qed.

  Lemma pstep_escsep_run f st i bs r cur :
    inv_ext st = 0 -> in_list st = false -> nosep_head r = true ->
    root_loop (S f) cf st {| idx := i; rest := 92%N :: 47%N :: seprun bs ++ r |} cur =
    root_loop f cf (update_dir_state (set_matchbase (set_start_dir st) false))
              {| idx := i + 1 + 1 + Z.of_nat (length (seprun bs)); rest := r |} (T (xprint xSep) :: cur).
  Proof.
    intros Hi Hl Hr. cbn [root_loop next rest idx]. rewrite Hext. cbn [andb].
    change (N.eqb 92%N cDOT) with false. change (N.eqb 92%N cSTAR) with false. change (N.eqb 92%N cQM) with false.
    change (N.eqb 92%N cSL) with false. change (N.eqb 92%N cBS) with true. cbv iota.
    unfold references. cbn [next rest idx]. change (N.eqb 47%N cBS) with false. change (N.eqb 47%N cSL) with true. cbv iota.
    cbn [andb]. rewrite Hpath, Hl. cbn [negb]. cbv iota.
    change (dir_start (set_start_dir st)) with true. cbv iota.
    unfold clean_up_inverse. replace (inv_ext (set_start_dir st)) with 0 by (symmetry; exact Hi). cbn [Z.eqb].
    unfold consume_path_sep. rewrite Habort. cbn [rest idx]. rewrite skip_slashes_run by exact Hr. rewrite Hsep. reflexivity.
  Qed.

  (* a path pattern whose separators are spelled as runs: (segment, the run written after it) - the run after the last
     segment is not written *)
  Fixpoint punparse_r (l : list (list tok * (bool * list bool))) : str :=
    match l with
    | [] => []
    | [(sg, _)] => unparse sg
    | (sg, (b, bs)) :: rest => unparse sg ++ sepspell b ++ seprun bs ++ punparse_r rest
    end.

  Lemma punparse_r_head_noslash sg ru rest : seg_wf sg = true -> nosep_head (punparse_r ((sg, ru) :: rest)) = true.
  Proof.
    intros W. apply andb_true_iff in W. destruct W as [W Hne]. destruct sg as [|t ts]; [discriminate|].
    destruct ru as [b bs]. destruct rest as [|x rest'].
    - cbn [punparse_r]. rewrite <- (app_nil_r (unparse (t :: ts))). apply punparse_head; [exact W|reflexivity].
    - cbn [punparse_r]. apply punparse_head; [exact W|]. destruct b; reflexivity.
  Qed.

  Lemma in_list_after_sep st : in_list (update_dir_state (set_matchbase (set_start_dir st) false)) = in_list st.
  Proof. unfold update_dir_state. destruct (_ && _); [reflexivity|]. destruct (_ && _); reflexivity. Qed.

  Lemma path_loop_r : forall l fuel st i cur,
    l <> [] -> Forall (fun x => seg_wf (fst x) = true) l -> (length (punparse_r l) < fuel)%nat -> inv3 true st -> in_list st = false ->
    exists st' cur', root_loop fuel cf st {| idx := i; rest := punparse_r l |} cur = Ok (st', cur') /\
                     jrev cur' ++ xprint xTrail = jrev cur ++ xprint (emit_path (c_dot cf) (map fst l)) /\ inv st'.
  Proof.
    induction l as [|[sg [b bs]] l IH]; intros fuel st i cur Hne W Hf I2 Hl; [contradiction|].
    inversion W as [|? ? Wsg Wrest]; subst. cbn [fst] in Wsg.
    pose proof Wsg as Wsg'. apply andb_true_iff in Wsg'. destruct Wsg' as [Wp Wn].
    destruct l as [|[sg2 ru2] l'].
    - cbn [punparse_r map fst] in *. rewrite <- (app_nil_r (unparse sg)).
      destruct (seg_advance sg fuel st i cur true [] Wp eq_refl ltac:(lia) I2) as [f' [st' [i' [cur' [Hf' [E [J [K SM]]]]]]]].
      rewrite E. destruct f' as [|f'']; [lia|]. exists st', cur'. split; [reflexivity|]. split.
      + rewrite J. cbn [emit_path xprint]. rewrite <- app_assoc. reflexivity.
      + eapply inv3_inv. exact K.
    - change (punparse_r ((sg, (b, bs)) :: (sg2, ru2) :: l')) with
        (unparse sg ++ sepspell b ++ seprun bs ++ punparse_r ((sg2, ru2) :: l')) in *.
      rewrite !app_length in Hf.
      assert (Htl : tail_ok (sepspell b ++ seprun bs ++ punparse_r ((sg2, ru2) :: l')) = true) by (destruct b; reflexivity).
      destruct (seg_advance sg fuel st i cur true (sepspell b ++ seprun bs ++ punparse_r ((sg2, ru2) :: l')) Wp Htl ltac:(lia) I2)
        as [f' [st' [i' [cur' [Hf' [E [J [K SM]]]]]]]].
      rewrite E.
      assert (Hsl : (1 <= length (sepspell b))%nat) by (destruct b; cbn; lia).
      destruct f' as [|f'']; [lia|].
      inversion Wrest as [|? ? Wsg2 _]; subst. cbn [fst] in Wsg2.
      assert (Hl' : in_list st' = false) by (destruct SM as [_ SM2]; rewrite SM2; exact Hl).
      pose proof (punparse_r_head_noslash sg2 ru2 l' Wsg2) as Hnh.
      assert (Hstep : exists i2, root_loop (S f'') cf st' {| idx := i'; rest := sepspell b ++ seprun bs ++ punparse_r ((sg2, ru2) :: l') |} cur' =
                root_loop f'' cf (update_dir_state (set_matchbase (set_start_dir st') false)) {| idx := i2; rest := punparse_r ((sg2, ru2) :: l') |}
                          (T (xprint xSep) :: cur')).
      { destruct b; cbn [sepspell app].
        - eexists. apply pstep_escsep_run; [apply K|exact Hl'|exact Hnh].
        - eexists. apply pstep_sep_run; [apply K|exact Hnh]. }
      destruct Hstep as [i2 Hstep]. rewrite Hstep.
      destruct (IH f'' (update_dir_state (set_matchbase (set_start_dir st') false)) i2 (T (xprint xSep) :: cur'))
        as [st'' [cur'' [E2 [J2 K2]]]]; [discriminate|exact Wrest|destruct b; cbn [sepspell length] in *; lia|eapply inv3_after_sep; exact K|
                                          rewrite in_list_after_sep; exact Hl'|].
      exists st'', cur''. split; [exact E2|]. split; [|exact K2].
      rewrite J2, jrev_cons, J.
      change (map fst ((sg, (b, bs)) :: (sg2, ru2) :: l')) with (sg :: sg2 :: map fst l').
      change (emit_path (c_dot cf) (sg :: sg2 :: map fst l')) with
        (XCat (emit_seg (c_dot cf) true sg) (XCat xSep (emit_path (c_dot cf) (map fst ((sg2, ru2) :: l'))))).
      cbn [xprint]. rewrite <- !app_assoc. reflexivity.
  Qed.
End PathText.

Lemma str_eqb_true : forall a b : str, str_eqb a b = true -> a = b.
Proof.
  induction a as [|x a IH]; intros [|y b] H; cbn in H; try discriminate; [reflexivity|].
  apply andb_true_iff in H. destruct H as [H1 H2]. apply N.eqb_eq in H1. subst. f_equal. apply IH. exact H2.
Qed.

Lemma unparse_len_pos t ts : (1 <= length (unparse (t :: ts)))%nat.
Proof. destruct t; cbn; lia. Qed.

Lemma punparse_not_lone_bs segs : Forall (fun sg => seg_wf sg = true) segs -> str_eqb (punparse segs) [cBS] = false.
Proof.
  intros W. destruct (str_eqb (punparse segs) [cBS]) eqn:E; [|reflexivity]. exfalso. apply str_eqb_true in E.
  destruct segs as [|sg rest]; [discriminate|]. inversion W as [|? ? Wsg _]; subst.
  apply andb_true_iff in Wsg. destruct Wsg as [Wp Wn]. destruct sg as [|t ts]; [discriminate|].
  destruct rest as [|sg2 rest'].
  - cbn [punparse] in E. destruct t as [c|c| | |neg l]; cbn [unparse flat_map unparse1 app] in E.
    + inversion E; subst. cbn [pwf] in Wp. discriminate.
    + inversion E.
    + inversion E.
    + inversion E.
    + inversion E.
  - cbn [punparse] in E. pose proof (unparse_len_pos t ts) as L. apply (f_equal (@length N)) in E.
    rewrite !app_length in E. cbn [length] in E. lia.
Qed.

Lemma punparse_cons sg rest : seg_wf sg = true -> exists d r, punparse (sg :: rest) = d :: r /\ d <> 47%N.
Proof.
  intros W. pose proof (punparse_head_noslash sg rest W) as H.
  destruct (punparse (sg :: rest)) as [|d r] eqn:E.
  - exfalso. apply andb_true_iff in W. destruct W as [_ Wn]. destruct sg as [|t ts]; [discriminate|].
    destruct rest; cbn [punparse] in E; destruct t; cbn in E; discriminate.
  - exists d, r. split; [reflexivity|]. unfold nosep_head in H. apply andb_true_iff in H. destruct H as [H _].
    apply negb_true_iff in H. apply N.eqb_neq in H. exact H.
Qed.

Theorem wcparse_path flags isb segs :
  segs <> [] -> Forall (fun sg => seg_wf sg = true) segs ->
  has flags PATHNAME = true -> is_unix_style linux flags = true -> has flags EXTMATCH = false ->
  has flags NODOTDIR = false -> has flags REALPATH = false ->
  has flags u_ANCHOR = false -> has flags MATCHBASE = false -> has flags u_EXTMATCHBASE = false ->
  has flags u_TRANSLATE = false ->
  wcparse linux flags isb (punparse segs) =
  inl (S_ "^(?s" ++ (if get_case linux flags then [] else S_ "i") ++ S_ ":" ++
       xprint (emit_path (has flags DOTMATCH) segs) ++ S_ ")$").
Proof.
  intros Hne W Hp Hu Hx Hnd Hr Ha Hm He Ht. unfold wcparse.
  destruct (mk_cfg linux flags isb) as [cf st] eqn:E.
  assert (Ecf : cf = fst (mk_cfg linux flags isb)) by (rewrite E; reflexivity).
  assert (Est : st = snd (mk_cfg linux flags isb)) by (rewrite E; reflexivity).
  assert (Hpath : c_pathname cf = true) by (rewrite Ecf; exact Hp).
  assert (Hunix : c_unix cf = true) by (rewrite Ecf; exact Hu).
  assert (Hext : c_extend cf = false) by (rewrite Ecf; exact Hx).
  assert (Hnodot : c_nodotdir cf = false) by (rewrite Ecf; exact Hnd).
  assert (Hdot : c_dot cf = has flags DOTMATCH) by (rewrite Ecf; reflexivity).
  assert (Habort : c_bslash_abort cf = false) by (rewrite Ecf; unfold mk_cfg; cbn [fst c_bslash_abort]; rewrite Hu; reflexivity).
  assert (Hwd : c_windrive cf = false) by (rewrite Ecf; unfold mk_cfg; cbn [fst c_windrive]; rewrite Hu; reflexivity).
  assert (Hanchor : c_anchor cf = false) by (rewrite Ecf; exact Ha).
  assert (Hcap : c_capture cf = false) by (rewrite Ecf; exact Ht).
  assert (Hreal : c_realpath cf = false) by (rewrite Ecf; unfold mk_cfg; cbn [fst c_realpath]; rewrite Hr; reflexivity).
  assert (Hgcap : c_gcapture cf = false) by (rewrite Ecf; unfold mk_cfg; cbn [fst c_gcapture]; rewrite Hr; reflexivity).
  assert (Hcs : c_cs cf = get_case linux flags) by (rewrite Ecf; reflexivity).
  assert (Hsep : c_sep cf = S_ "[/]") by (rewrite Ecf; unfold mk_cfg; cbn [fst c_sep]; rewrite Hu; reflexivity).
  assert (Hneed : c_need_char cf = xprint xNeedChar) by (rewrite Ecf; unfold mk_cfg; cbn [fst c_need_char]; rewrite Hp, Hu; reflexivity).
  assert (Hnodir : c_no_dir cf = xprint xNoDir) by (rewrite Ecf; unfold mk_cfg; cbn [fst c_no_dir]; rewrite Hu; reflexivity).
  assert (Hseq : c_seq_path cf = xprint xNoSlash) by (rewrite Ecf; unfold mk_cfg; cbn [fst c_seq_path]; rewrite Hu; reflexivity).
  assert (Hseqdot : c_seq_path_dot cf = xprint xNoSlashDot) by (rewrite Ecf; unfold mk_cfg; cbn [fst c_seq_path_dot]; rewrite Hu; reflexivity).
  assert (Hstar : c_path_star cf = xprint xPathStar) by (rewrite Ecf; unfold mk_cfg; cbn [fst c_path_star]; rewrite Hu; reflexivity).
  assert (Hstar1 : c_path_star_dot1 cf = xprint xNoDir ++ xprint xPathStar) by (rewrite Ecf; unfold mk_cfg; cbn [fst c_path_star_dot1]; rewrite Hu; reflexivity).
  assert (Hstar2 : c_path_star_dot2 cf = xprint xNoDir ++ xprint xStarNoDot) by (rewrite Ecf; unfold mk_cfg; cbn [fst c_path_star_dot2]; rewrite Hu; reflexivity).
  assert (Hg1 : c_path_gstar_dot1 cf = S_ "(?:(?!(?:[/]|^)(?:\.{1,2})($|[/])).)*?") by (rewrite Ecf; unfold mk_cfg; cbn [fst c_path_gstar_dot1]; rewrite Hu; reflexivity).
  assert (Hg2 : c_path_gstar_dot2 cf = S_ "(?:(?!(?:[/]|^)\.).)*?") by (rewrite Ecf; unfold mk_cfg; cbn [fst c_path_gstar_dot2]; rewrite Hu; reflexivity).
  assert (Hmb : matchbase st = false) by (rewrite Est; exact Hm).
  assert (Hemb : extmatchbase st = false) by (rewrite Est; exact He).
  assert (Hds : dir_start st = false /\ inv_ext st = 0) by (rewrite Est; split; reflexivity).
  unfold wcparse_cf. rewrite Hanchor, Hmb, Hemb. cbn [orb].
  rewrite (punparse_not_lone_bs segs W).
  destruct segs as [|sg rest]; [contradiction|].
  assert (Wsg : seg_wf sg = true) by (inversion W; assumption).
  destruct (punparse_cons sg rest Wsg) as [d [r [Er Hd47]]].
  remember (punparse (sg :: rest)) as p eqn:Ep. rewrite Er. rewrite <- Er.
  unfold root. rewrite Hwd, Hpath, Hreal. cbn [andb negb].
  replace (starts_with [cSL] p) with false.
  2:{ rewrite Er. change (starts_with [cSL] (d :: r)) with (N.eqb 47 d && true).
      destruct (N.eqb_spec 47 d) as [X0|X0]; [exfalso; apply Hd47; symmetry; exact X0|reflexivity]. }
  rewrite andb_false_r. cbn [negb andb].
  assert (I2 : inv3 true (set_after_start st)) by (destruct Hds; repeat split; cbn; auto).
  destruct (path_loop cf Hpath Hext Habort Hunix Hnodot Hsep Hneed Hnodir Hseq Hseqdot Hstar Hstar1 Hstar2 Hg1 Hg2 Hgcap
                      (sg :: rest) (fuel_for p) (set_after_start st) 0 [T []]) as [st' [cur' [Eq [J [Hd' Hi']]]]].
  { discriminate. } { exact W. } { rewrite <- Ep. unfold fuel_for. lia. } { exact I2. }
  rewrite <- Ep in Eq. rewrite Eq.
  unfold clean_up_inverse. rewrite Hi'. cbn [Z.eqb]. rewrite Hcap, Hcs, Hsep.
  replace (format Frag.u_PATH_TRAIL (S_ "[/]") []) with (xprint xTrail) by reflexivity.
  rewrite !jrev_cons, J, Hdot. cbn [jrev rev map concat app].
  destruct (matchbase st' || extmatchbase st'); reflexivity.
Qed.

(* ---- separator runs: the text the parser produces does not depend on how the separators are spelled ------------------------ *)
Lemma punparse_r_not_lone_bs l : Forall (fun x => seg_wf (fst x) = true) l -> str_eqb (punparse_r l) [cBS] = false.
Proof.
  intros W. destruct (str_eqb (punparse_r l) [cBS]) eqn:E; [|reflexivity]. exfalso. apply str_eqb_true in E.
  destruct l as [|[sg [b bs]] rest]; [discriminate|]. inversion W as [|? ? Wsg _]; subst. cbn [fst] in Wsg.
  apply andb_true_iff in Wsg. destruct Wsg as [Wp Wn]. destruct sg as [|t ts]; [discriminate|].
  destruct rest as [|x rest'].
  - cbn [punparse_r] in E. pose proof (punparse_not_lone_bs [t :: ts]) as Q. cbn [punparse] in Q. rewrite E in Q.
    assert (Q' : str_eqb [cBS] [cBS] = false).
    { apply Q. constructor; [|constructor]. unfold seg_wf. rewrite Wp. reflexivity. }
    discriminate Q'.
  - cbn [punparse_r] in E. pose proof (unparse_len_pos t ts) as L. apply (f_equal (@length N)) in E.
    rewrite !app_length in E. cbn [length] in E. destruct b; cbn [sepspell length] in E; lia.
Qed.

Lemma punparse_r_cons sg ru rest : seg_wf sg = true -> exists d r, punparse_r ((sg, ru) :: rest) = d :: r /\ d <> 47%N.
Proof.
  intros W. pose proof (punparse_r_head_noslash sg ru rest W) as H.
  destruct (punparse_r ((sg, ru) :: rest)) as [|d r] eqn:E.
  - exfalso. apply andb_true_iff in W. destruct W as [_ Wn]. destruct sg as [|t ts]; [discriminate|]. destruct ru as [b bs].
    destruct rest; cbn [punparse_r] in E; destruct t; cbn in E; discriminate.
  - exists d, r. split; [reflexivity|]. unfold nosep_head in H. apply andb_true_iff in H. destruct H as [H _].
    apply negb_true_iff in H. apply N.eqb_neq in H. exact H.
Qed.

Theorem wcparse_path_runs_text flags isb l :
  l <> [] -> Forall (fun x => seg_wf (fst x) = true) l ->
  has flags PATHNAME = true -> is_unix_style linux flags = true -> has flags EXTMATCH = false ->
  has flags NODOTDIR = false -> has flags REALPATH = false ->
  has flags u_ANCHOR = false -> has flags MATCHBASE = false -> has flags u_EXTMATCHBASE = false ->
  has flags u_TRANSLATE = false ->
  wcparse linux flags isb (punparse_r l) =
  inl (S_ "^(?s" ++ (if get_case linux flags then [] else S_ "i") ++ S_ ":" ++
       xprint (emit_path (has flags DOTMATCH) (map fst l)) ++ S_ ")$").
Proof.
  intros Hne W Hp Hu Hx Hnd Hr Ha Hm He Ht. unfold wcparse.
  destruct (mk_cfg linux flags isb) as [cf st] eqn:E.
  assert (Ecf : cf = fst (mk_cfg linux flags isb)) by (rewrite E; reflexivity).
  assert (Est : st = snd (mk_cfg linux flags isb)) by (rewrite E; reflexivity).
  assert (Hpath : c_pathname cf = true) by (rewrite Ecf; exact Hp).
  assert (Hunix : c_unix cf = true) by (rewrite Ecf; exact Hu).
  assert (Hext : c_extend cf = false) by (rewrite Ecf; exact Hx).
  assert (Hnodot : c_nodotdir cf = false) by (rewrite Ecf; exact Hnd).
  assert (Hdot : c_dot cf = has flags DOTMATCH) by (rewrite Ecf; reflexivity).
  assert (Habort : c_bslash_abort cf = false) by (rewrite Ecf; unfold mk_cfg; cbn [fst c_bslash_abort]; rewrite Hu; reflexivity).
  assert (Hwd : c_windrive cf = false) by (rewrite Ecf; unfold mk_cfg; cbn [fst c_windrive]; rewrite Hu; reflexivity).
  assert (Hanchor : c_anchor cf = false) by (rewrite Ecf; exact Ha).
  assert (Hcap : c_capture cf = false) by (rewrite Ecf; exact Ht).
  assert (Hreal : c_realpath cf = false) by (rewrite Ecf; unfold mk_cfg; cbn [fst c_realpath]; rewrite Hr; reflexivity).
  assert (Hgcap : c_gcapture cf = false) by (rewrite Ecf; unfold mk_cfg; cbn [fst c_gcapture]; rewrite Hr; reflexivity).
  assert (Hcs : c_cs cf = get_case linux flags) by (rewrite Ecf; reflexivity).
  assert (Hsep : c_sep cf = S_ "[/]") by (rewrite Ecf; unfold mk_cfg; cbn [fst c_sep]; rewrite Hu; reflexivity).
  assert (Hneed : c_need_char cf = xprint xNeedChar) by (rewrite Ecf; unfold mk_cfg; cbn [fst c_need_char]; rewrite Hp, Hu; reflexivity).
  assert (Hnodir : c_no_dir cf = xprint xNoDir) by (rewrite Ecf; unfold mk_cfg; cbn [fst c_no_dir]; rewrite Hu; reflexivity).
  assert (Hseq : c_seq_path cf = xprint xNoSlash) by (rewrite Ecf; unfold mk_cfg; cbn [fst c_seq_path]; rewrite Hu; reflexivity).
  assert (Hseqdot : c_seq_path_dot cf = xprint xNoSlashDot) by (rewrite Ecf; unfold mk_cfg; cbn [fst c_seq_path_dot]; rewrite Hu; reflexivity).
  assert (Hstar : c_path_star cf = xprint xPathStar) by (rewrite Ecf; unfold mk_cfg; cbn [fst c_path_star]; rewrite Hu; reflexivity).
  assert (Hstar1 : c_path_star_dot1 cf = xprint xNoDir ++ xprint xPathStar) by (rewrite Ecf; unfold mk_cfg; cbn [fst c_path_star_dot1]; rewrite Hu; reflexivity).
  assert (Hstar2 : c_path_star_dot2 cf = xprint xNoDir ++ xprint xStarNoDot) by (rewrite Ecf; unfold mk_cfg; cbn [fst c_path_star_dot2]; rewrite Hu; reflexivity).
  assert (Hg1 : c_path_gstar_dot1 cf = S_ "(?:(?!(?:[/]|^)(?:\.{1,2})($|[/])).)*?") by (rewrite Ecf; unfold mk_cfg; cbn [fst c_path_gstar_dot1]; rewrite Hu; reflexivity).
  assert (Hg2 : c_path_gstar_dot2 cf = S_ "(?:(?!(?:[/]|^)\.).)*?") by (rewrite Ecf; unfold mk_cfg; cbn [fst c_path_gstar_dot2]; rewrite Hu; reflexivity).
  assert (Hmb : matchbase st = false) by (rewrite Est; exact Hm).
  assert (Hemb : extmatchbase st = false) by (rewrite Est; exact He).
  assert (Hds : dir_start st = false /\ inv_ext st = 0) by (rewrite Est; split; reflexivity).
  assert (Hil : in_list st = false) by (rewrite Est; reflexivity).
  unfold wcparse_cf. rewrite Hanchor, Hmb, Hemb. cbn [orb].
  rewrite (punparse_r_not_lone_bs l W).
  destruct l as [|[sg ru] rest]; [contradiction|].
  assert (Wsg : seg_wf sg = true) by (inversion W; assumption).
  destruct (punparse_r_cons sg ru rest Wsg) as [d [r [Er Hd47]]].
  remember (punparse_r ((sg, ru) :: rest)) as p eqn:Ep. rewrite Er. rewrite <- Er.
  unfold root. rewrite Hwd, Hpath, Hreal. cbn [andb negb].
  replace (starts_with [cSL] p) with false.
  2:{ rewrite Er. change (starts_with [cSL] (d :: r)) with (N.eqb 47 d && true).
      destruct (N.eqb_spec 47 d) as [X0|X0]; [exfalso; apply Hd47; symmetry; exact X0|reflexivity]. }
  rewrite andb_false_r. cbn [negb andb].
  assert (I2 : inv3 true (set_after_start st)) by (destruct Hds; repeat split; cbn; auto).
  destruct (path_loop_r cf Hpath Hext Habort Hunix Hnodot Hsep Hneed Hnodir Hseq Hseqdot Hstar Hstar1 Hstar2 Hg1 Hg2 Hgcap
                        ((sg, ru) :: rest) (fuel_for p) (set_after_start st) 0 [T []]) as [st' [cur' [Eq [J [Hd' Hi']]]]].
  { discriminate. } { exact W. } { rewrite <- Ep. unfold fuel_for. lia. } { exact I2. } { exact Hil. }
  rewrite <- Ep in Eq. rewrite Eq.
  unfold clean_up_inverse. rewrite Hi'. cbn [Z.eqb]. rewrite Hcap, Hcs, Hsep.
  replace (format Frag.u_PATH_TRAIL (S_ "[/]") []) with (xprint xTrail) by reflexivity.
  rewrite !jrev_cons, J, Hdot. cbn [jrev rev map concat app].
  destruct (matchbase st' || extmatchbase st'); reflexivity.
Qed.

(* ... so a pattern with respelled separator runs compiles to the very regex of the pattern with single separators *)
Theorem wcparse_path_runs flags isb l :
  l <> [] -> Forall (fun x => seg_wf (fst x) = true) l ->
  has flags PATHNAME = true -> is_unix_style linux flags = true -> has flags EXTMATCH = false ->
  has flags NODOTDIR = false -> has flags REALPATH = false ->
  has flags u_ANCHOR = false -> has flags MATCHBASE = false -> has flags u_EXTMATCHBASE = false ->
  has flags u_TRANSLATE = false ->
  wcparse linux flags isb (punparse_r l) = wcparse linux flags isb (punparse (map fst l)).
Proof.
  intros Hne W. intros. rewrite wcparse_path_runs_text by assumption. symmetry. apply wcparse_path; try assumption.
  - destruct l; [contradiction|discriminate].
  - apply Forall_map. exact W.
Qed.

Example path_runs_example :
  wcparse linux PATHNAME false (punparse_r [([TLit 97%N], (true, [false; true])); ([TStar; TLit 98%N], (false, []))]) =
  wcparse linux PATHNAME false (S_ "a/*b") /\
  punparse_r [([TLit 97%N], (true, [false; true])); ([TStar; TLit 98%N], (false, []))] = [97; 92; 47; 47; 92; 47; 42; 98]%N.
Proof. vm_compute. split; reflexivity. Qed.

(* both halves together *)
Theorem C02_flat_path_language flags isb segs :
  segs <> [] -> Forall (fun sg => seg_wf sg = true) segs ->
  has flags PATHNAME = true -> is_unix_style linux flags = true -> has flags EXTMATCH = false ->
  has flags NODOTDIR = false -> has flags REALPATH = false ->
  has flags u_ANCHOR = false -> has flags MATCHBASE = false -> has flags u_EXTMATCHBASE = false ->
  has flags u_TRANSLATE = false ->
  exists r,
    wcparse linux flags isb (punparse segs) =
      inl (S_ "^(?s" ++ (if get_case linux flags then [] else S_ "i") ++ S_ ":" ++ xprint r ++ S_ ")$") /\
    forall n, nonl n -> (X r n [] <-> DenPath (has flags DOTMATCH) segs n).
Proof.
  intros Hne W. intros. exists (emit_path (has flags DOTMATCH) segs). split; [apply wcparse_path; assumption|].
  intros n Hn. apply path_equiv; [exact Hne| |exact Hn].
  eapply Forall_impl; [|exact W]. intros sg Hsg. apply andb_true_iff in Hsg. apply Hsg.
Qed.

(* C03 on this fragment: without DOTMATCH a piece that starts with `.` is matched only if the segment starts with a
   written `.`, or starts with a `*` that consumes nothing (the dot is then matched by what follows the `*`) - never by
   a segment-initial `?`, never by the run of a segment-initial `*` *)
Corollary hidden_piece_needs_written_dot ts (s' : str) :
  DenSeg false true ts (46%N :: s') ->
  (exists r, ts = TLit 46%N :: r) \/ (exists c r, ts = TEsc c :: r /\ c = 46%N) \/
  (exists r, ts = TStar :: r /\ DenSeg false false r (46%N :: s')).
Proof.
  destruct ts as [|t r]; cbn [DenSeg]; [discriminate|]. destruct t as [c|c| | |neg l].
  - intros [s0 [E _]]. inversion E; subst. left. eexists. reflexivity.
  - intros [s0 [E _]]. inversion E; subst. right. left. exists 46%N, r. split; reflexivity.
  - intros [x [s0 [E [_ [Hf _]]]]]. inversion E; subst. destruct (Hf eq_refl) as [_ Hd]. exfalso. apply (Hd eq_refl). reflexivity.
  - intros [a [s0 [E [_ [Hf HD]]]]]. destruct (Hf eq_refl) as [_ [_ Hd]].
    destruct a as [|y a'].
    + cbn in E. subst s0. right. right. exists r. split; [reflexivity|exact HD].
    + cbn in E. inversion E; subst. exfalso. apply (Hd eq_refl a'). reflexivity.
  - intros [x [s0 [E [_ [_ [Hf _]]]]]]. inversion E; subst. destruct (Hf eq_refl) as [_ Hd]. exfalso. apply (Hd eq_refl). reflexivity.
Qed.

Example path_example_text :
  wcparse linux PATHNAME false (punparse [[TLit 97%N; TQ]; [TStar; TLit 98%N]]) =
  inl (S_ "^(?s:a(?![/]).[/]+(?=[^/])(?!(?:\.{1,2})(?:$|[/]))(?:(?!\.)[^/]*?)?b[/]*?)$").
Proof. vm_compute. reflexivity. Qed.

Example path_bracket_example_text :
  wcparse linux PATHNAME false (punparse [[TLit 97%N; TBr true [98%N]]; [TBr false [120%N; 121%N]]]) =
  inl (S_ "^(?s:a(?![/])[^b][/]+(?!(?:\.{1,2})(?:$|[/]))(?![/.])[xy][/]*?)$").
Proof. vm_compute. reflexivity. Qed.
