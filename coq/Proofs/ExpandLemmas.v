(* Lemmas about the pattern-list loops (Expand.v): limit accounting.  For every oracle and every parser. *)
From WC Require Import Str WcParse WcSplit Expand.
From WC.Proofs Require Import SplitLemmas.
From WC.Gen Require Import Consts FlagFuns.
From Coq Require Import Lia ZifyBool.
Import Mwcparse.
Open Scope Z_scope.

Section Limit.
  Variable P : platform.
  Variable brace : str -> Z -> option (list str).
  Variable tilde : Z -> str -> str.
  Variable norm : bool -> bool -> str -> option str.
  Variable parse : Z -> str -> str + perr.

  Notation items_loop := (items_loop parse).
  Notation pats_loop := (pats_loop P brace tilde norm parse).

  (* distinct patterns seen (+ k already compiled) <= items counted; items counted <= limit when 0 < limit *)
  Definition inv (limit k : Z) (st : lst) : Prop :=
    Z.of_nat (length (l_seen st)) + k <= l_total st /\ (0 < limit -> l_total st <= limit \/ l_total st <= k).

  Lemma items_loop_inv fl limit k pm items : forall st st',
      inv limit k st -> items_loop fl limit pm items st = inl st' -> inv limit k st'.
  Proof.
    induction items as [|e r IH]; intros st st' Hinv H; cbn [Expand.items_loop] in H.
    - injection H as <-. exact Hinv.
    - destruct ((0 <? limit) && (limit <? l_total st + 1)) eqn:Hl; [discriminate|].
      destruct Hinv as [H1 H2].
      destruct (mem e (l_seen st)) eqn:Hm.
      + eapply IH; [|exact H]. split; cbn; lia.
      + destruct (is_negative fl e).
        * destruct (parse _ (tl e)); [|discriminate].
          eapply IH; [|exact H]. split; cbn [l_seen l_total length]; lia.
        * destruct (parse _ e); [|discriminate].
          eapply IH; [|exact H]. split; cbn [l_seen l_total length]; lia.
  Qed.

  Lemma pats_loop_inv fl limit k pm u pats : forall cl st st',
      inv limit k st -> pats_loop fl limit pm u pats cl st = inl st' -> inv limit k st'.
  Proof.
    induction pats as [|p ps IH]; intros cl st st' Hinv H; cbn [Expand.pats_loop] in H.
    - injection H as <-. exact Hinv.
    - destruct (norm _ _ p); [|discriminate].
      destruct (expand P brace tilde fl cl s); [|discriminate].
      destruct (items_loop fl limit pm l st) eqn:Hi; [|discriminate].
      eapply IH; [|exact H]. eapply items_loop_inv; eauto.
  Qed.

  (* limit <= 0: the loop itself never raises the limit error as long as the oracle does not *)
  Lemma items_loop_nolimit fl limit pm items : forall st,
      limit <= 0 -> items_loop fl limit pm items st <> inr LLimit.
  Proof.
    induction items as [|e r IH]; intros st Hl; cbn [Expand.items_loop].
    - discriminate.
    - replace (0 <? limit) with false by lia. cbn [andb].
      destruct (mem e (l_seen st)); [apply IH; exact Hl|].
      destruct (is_negative fl e).
      + destruct (parse _ (tl e)) as [t|er]; [apply IH; exact Hl|]. destruct er; discriminate.
      + destruct (parse _ e) as [t|er]; [apply IH; exact Hl|]. destruct er; discriminate.
  Qed.

  Lemma pats_loop_zero fl pm u pats : forall st,
      (forall p, brace p 0 <> None) ->
      pats_loop fl 0 pm u pats 0 st <> inr LLimit.
  Proof.
    intros st Hb. revert st.
    induction pats as [|p ps IH]; intros st; cbn [Expand.pats_loop].
    - discriminate.
    - destruct (norm _ _ p); [|discriminate].
      unfold expand. destruct (has fl BRACE).
      + destruct (brace s 0) eqn:Hbs; [|exfalso; eapply Hb; eauto].
        destruct (items_loop fl 0 pm _ st) eqn:Hi.
        * cbn [Z.eqb]. apply IH.
        * intro Hc. injection Hc as ->. eapply items_loop_nolimit; [|exact Hi]. lia.
      + destruct (items_loop fl 0 pm _ st) eqn:Hi.
        * cbn [Z.eqb]. apply IH.
        * intro Hc. injection Hc as ->. eapply items_loop_nolimit; [|exact Hi]. lia.
  Qed.

  (* the loops only ever append to the positive / negative lists, one entry per newly seen pattern *)
  Definition cnt (st : lst) : Z := Z.of_nat (length (l_pos st) + length (l_neg st)).

  Lemma items_loop_cnt fl limit pm items : forall st st',
      items_loop fl limit pm items st = inl st' ->
      cnt st' - cnt st = Z.of_nat (length (l_seen st')) - Z.of_nat (length (l_seen st)).
  Proof.
    induction items as [|e r IH]; intros st st' H; cbn [Expand.items_loop] in H.
    - injection H as <-. lia.
    - destruct ((0 <? limit) && (limit <? l_total st + 1)); [discriminate|].
      destruct (mem e (l_seen st)).
      + apply IH in H. unfold cnt in *. cbn [l_seen l_pos l_neg] in H. exact H.
      + destruct (is_negative fl e).
        * destruct (parse _ (tl e)); [|discriminate]. apply IH in H. unfold cnt in *.
          cbn [l_seen l_pos l_neg length] in H. rewrite app_length in H. cbn [length] in H. lia.
        * destruct (parse _ e); [|discriminate]. apply IH in H. unfold cnt in *.
          cbn [l_seen l_pos l_neg length] in H. rewrite app_length in H. cbn [length] in H. lia.
  Qed.

  Lemma pats_loop_cnt fl limit pm u pats : forall cl st st',
      pats_loop fl limit pm u pats cl st = inl st' ->
      cnt st' - cnt st = Z.of_nat (length (l_seen st')) - Z.of_nat (length (l_seen st)).
  Proof.
    induction pats as [|p ps IH]; intros cl st st' H; cbn [Expand.pats_loop] in H.
    - injection H as <-. lia.
    - destruct (norm _ _ p); [|discriminate].
      destruct (expand P brace tilde fl cl s); [|discriminate].
      destruct (items_loop fl limit pm l st) eqn:Hi; [|discriminate].
      apply IH in H. apply items_loop_cnt in Hi. lia.
  Qed.

  (* C11, raise direction: if the loop returns normally under a positive limit, then the number of
     distinct patterns compiled -- the exclusion patterns it started from included -- is at most the limit,
     provided at least one pattern was newly compiled or the exclusions alone were within the limit *)
  Theorem loop_bound fl limit pm u pats cl neg0 st' :
      0 < limit ->
      pats_loop fl limit pm u pats cl
        {| l_total := Z.of_nat (length neg0); l_seen := []; l_pos := []; l_neg := neg0 |} = inl st' ->
      Z.of_nat (length neg0) <= limit ->
      Z.of_nat (length (l_pos st') + length (l_neg st')) <= limit.
  Proof.
    intros Hl H Hn.
    pose proof (pats_loop_cnt _ _ _ _ _ _ _ _ H) as Hc.
    assert (Hi : inv limit (Z.of_nat (length neg0))
                   {| l_total := Z.of_nat (length neg0); l_seen := []; l_pos := []; l_neg := neg0 |})
      by (split; cbn; lia).
    pose proof (pats_loop_inv _ _ _ _ _ _ _ _ _ Hi H) as [H1 H2].
    specialize (H2 Hl). unfold cnt in Hc. cbn [l_pos l_neg l_seen length] in Hc. lia.
  Qed.

  Theorem loop_zero fl pm u pats st :
      (forall p, brace p 0 <> None) -> pats_loop fl 0 pm u pats 0 st <> inr LLimit.
  Proof. intros; apply pats_loop_zero; assumption. Qed.
  (* ---- C11, pass direction: a call whose total expansion count (duplicates included) is at most the limit never
     raises the limit error.  [full] is the unbounded brace expansion; the oracle contract is the one re-observed on
     every run: asked for at most [lim] > 0 expansions, bracex answers with the full list whenever that list is not
     longer than [lim]. ---- *)
  Variable full : str -> list str.
  Hypothesis brace_contract : forall p lim, 0 < lim -> Z.of_nat (length (full p)) <= lim -> brace p lim = Some (full p).

  Definition items_of (fl : Z) (p : str) : list str :=
    flat_map (fun e => map (tilde fl) (split P fl e)) (if has fl BRACE then full p else [p]).

  Lemma split_nonempty fl e : (1 <= length (split P fl e))%nat.
  Proof.
    unfold split. destruct (has fl SPLIT); [|cbn; lia].
    destruct (wcsplit_cuts P fl e) as [cuts [-> _]]. destruct cuts; cbn; lia.
  Qed.

  Lemma flat_map_len_ge {A} (f : A -> list str) (l : list A) :
      (forall a, (1 <= length (f a))%nat) -> (length l <= length (flat_map f l))%nat.
  Proof.
    intros Hf. induction l as [|a l IH]; cbn [flat_map length]; [lia|].
    rewrite app_length. specialize (Hf a). lia.
  Qed.

  Lemma expand_full fl lim p :
      0 < lim -> Z.of_nat (length (items_of fl p)) <= lim -> expand P brace tilde fl lim p = Some (items_of fl p).
  Proof.
    intros Hl Hn. unfold expand, items_of in *. destruct (has fl BRACE); [|reflexivity].
    rewrite brace_contract; [reflexivity|exact Hl|].
    pose proof (flat_map_len_ge (fun e => map (tilde fl) (split P fl e)) (full p)) as H.
    assert (Hf : forall a, (1 <= length (map (tilde fl) (split P fl a)))%nat)
      by (intro a; rewrite map_length; apply split_nonempty).
    specialize (H Hf). lia.
  Qed.

  (* what the whole call expands to, counted with duplicates; a pattern that does not normalise ends the call
     with a syntax error, whatever follows *)
  Fixpoint total_items (fl : Z) (u : bool) (pats : list str) : Z :=
    match pats with
    | [] => 0
    | p :: ps => match norm (negb u) (has fl RAWCHARS) p with
                 | None => 0
                 | Some p' => Z.of_nat (length (items_of fl p')) + total_items fl u ps
                 end
    end.

  Lemma total_items_nonneg fl u pats : 0 <= total_items fl u pats.
  Proof. induction pats as [|p ps IH]; cbn [total_items]; [lia|]. destruct (norm _ _ p); lia. Qed.

  Lemma items_loop_pass fl limit pm items : forall st,
      l_total st + Z.of_nat (length items) <= limit ->
      items_loop fl limit pm items st <> inr LLimit /\
      (forall st', items_loop fl limit pm items st = inl st' -> l_total st' = l_total st + Z.of_nat (length items)).
  Proof.
    induction items as [|e r IH]; intros st Hb; cbn [Expand.items_loop].
    - split; [discriminate|]. intros st' H. injection H as <-. cbn. lia.
    - replace (limit <? l_total st + 1) with false by (cbn [length] in Hb; lia). rewrite Bool.andb_false_r.
      destruct (mem e (l_seen st)).
      + match goal with |- context [items_loop _ _ _ r ?s] =>
          assert (Hs : l_total s + Z.of_nat (length r) <= limit) by (cbn [l_total]; cbn [length] in Hb; lia);
          destruct (IH s Hs) as [N T] end.
        split; [exact N|]. intros st' H. rewrite (T _ H). cbn [l_total length]. lia.
      + destruct (is_negative fl e).
        * destruct (parse _ (tl e)) as [t|er].
          -- match goal with |- context [items_loop _ _ _ r ?s] =>
               assert (Hs : l_total s + Z.of_nat (length r) <= limit) by (cbn [l_total]; cbn [length] in Hb; lia);
               destruct (IH s Hs) as [N T] end.
             split; [exact N|]. intros st' H. rewrite (T _ H). cbn [l_total length]. lia.
          -- split; [destruct er; discriminate|discriminate].
        * destruct (parse _ e) as [t|er].
          -- match goal with |- context [items_loop _ _ _ r ?s] =>
               assert (Hs : l_total s + Z.of_nat (length r) <= limit) by (cbn [l_total]; cbn [length] in Hb; lia);
               destruct (IH s Hs) as [N T] end.
             split; [exact N|]. intros st' H. rewrite (T _ H). cbn [l_total length]. lia.
          -- split; [destruct er; discriminate|discriminate].
  Qed.

  Theorem loop_pass fl limit pm u pats : forall cl st,
      0 < limit -> 1 <= cl -> limit - l_total st <= cl ->
      l_total st + total_items fl u pats <= limit ->
      pats_loop fl limit pm u pats cl st <> inr LLimit.
  Proof.
    induction pats as [|p ps IH]; intros cl st Hl Hc1 Hc Hb; cbn [Expand.pats_loop].
    - discriminate.
    - cbn [total_items] in Hb. destruct (norm (negb u) (has fl RAWCHARS) p) as [p'|]; [|discriminate].
      pose proof (total_items_nonneg fl u ps) as Hnn.
      rewrite expand_full by lia.
      destruct (items_loop_pass fl limit pm (items_of fl p') st) as [N T]; [lia|].
      destruct (items_loop fl limit pm (items_of fl p') st) as [st1|er] eqn:Hi.
      + specialize (T _ eq_refl).
        replace (limit =? 0) with false by lia.
        apply IH; [exact Hl| | |].
        * destruct (cl - Z.of_nat (length (items_of fl p')) <? 1) eqn:E; lia.
        * destruct (cl - Z.of_nat (length (items_of fl p')) <? 1) eqn:E; lia.
        * lia.
      + intro Hc'. injection Hc' as ->. apply N. reflexivity.
  Qed.
  (* the same at the level of translate / compile_pattern after the `exclude=` handling: the exclusion patterns already
     compiled count, every expansion of every pattern counts (duplicates included), and within the limit nothing raises *)
  Definition core_flags (tr : bool) (flags : Z) : Z :=
    if tr then Z.land (Z.lor flags u_TRANSLATE) FLAG_MASK else flags.

  Theorem list_core_pass tr is_bytes flags limit pats negative0 :
      0 < limit ->
      Z.of_nat (length negative0)
        + total_items (core_flags tr flags) (is_unix_style P (core_flags tr flags)) pats <= limit ->
      list_core P brace tilde norm parse tr is_bytes flags limit pats negative0 <> inr LLimit.
  Proof.
    intros Hl Hb. unfold list_core. unfold core_flags in Hb.
    set (fl := if tr then Z.land (Z.lor flags u_TRANSLATE) FLAG_MASK else flags) in *.
    replace (0 <? limit) with true by lia. cbv iota.
    match goal with |- context [Expand.pats_loop P brace tilde norm parse fl limit ?pm ?u pats ?cl ?st] =>
      pose proof (loop_pass fl limit pm u pats cl st Hl) as LP;
      destruct (Expand.pats_loop P brace tilde norm parse fl limit pm u pats cl st) as [st1|er] eqn:E end.
    - destruct (l_neg st1) as [|n1 ns]; destruct (l_pos st1) as [|p1 ps]; cbn [of_perr];
        repeat match goal with
               | |- context [if ?b then _ else _] => destruct b
               | |- context [match parse ?a ?b with _ => _ end] => destruct (parse a b) as [?|[]]
               end; discriminate.
    - intro Hc. injection Hc as ->. apply LP; cbn [l_total]; try lia; reflexivity.
  Qed.
End Limit.
