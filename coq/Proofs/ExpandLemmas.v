(* Lemmas about the pattern-list loops (Expand.v): limit accounting.  For every oracle and every parser. *)
From WC Require Import Str WcParse WcSplit Expand.
From WC.Gen Require Import Consts FlagFuns.
From Coq Require Import Lia ZifyBool.
Import Mwcparse.
Open Scope Z_scope.

Section Limit.
  Variable P : platform.
  Variable brace : str -> Z -> option (list str).
  Variable tilde : Z -> str -> str.
  Variable norm : bool -> bool -> str -> option str.
  Variable parse : Z -> str -> str + perr.

  Notation items_loop := (items_loop parse).
  Notation pats_loop := (pats_loop P brace tilde norm parse).

  (* distinct patterns seen (+ k already compiled) <= items counted; items counted <= limit when 0 < limit *)
  Definition inv (limit k : Z) (st : lst) : Prop :=
    Z.of_nat (length (l_seen st)) + k <= l_total st /\ (0 < limit -> l_total st <= limit \/ l_total st <= k).

  Lemma items_loop_inv fl limit k pm items : forall st st',
      inv limit k st -> items_loop fl limit pm items st = inl st' -> inv limit k st'.
  Proof.
    induction items as [|e r IH]; intros st st' Hinv H; cbn [Expand.items_loop] in H.
    - injection H as <-. exact Hinv.
    - destruct ((0 <? limit) && (limit <? l_total st + 1)) eqn:Hl; [discriminate|].
      destruct Hinv as [H1 H2].
      destruct (mem e (l_seen st)) eqn:Hm.
      + eapply IH; [|exact H]. split; cbn; lia.
      + destruct (is_negative fl e).
        * destruct (parse _ (tl e)); [|discriminate].
          eapply IH; [|exact H]. split; cbn [l_seen l_total length]; lia.
        * destruct (parse _ e); [|discriminate].
          eapply IH; [|exact H]. split; cbn [l_seen l_total length]; lia.
  Qed.

  Lemma pats_loop_inv fl limit k pm u pats : forall cl st st',
      inv limit k st -> pats_loop fl limit pm u pats cl st = inl st' -> inv limit k st'.
  Proof.
    induction pats as [|p ps IH]; intros cl st st' Hinv H; cbn [Expand.pats_loop] in H.
    - injection H as <-. exact Hinv.
    - destruct (norm _ _ p); [|discriminate].
      destruct (expand P brace tilde fl cl s); [|discriminate].
      destruct (items_loop fl limit pm l st) eqn:Hi; [|discriminate].
      eapply IH; [|exact H]. eapply items_loop_inv; eauto.
  Qed.

  (* limit <= 0: the loop itself never raises the limit error as long as the oracle does not *)
  Lemma items_loop_nolimit fl limit pm items : forall st,
      limit <= 0 -> items_loop fl limit pm items st <> inr LLimit.
  Proof.
    induction items as [|e r IH]; intros st Hl; cbn [Expand.items_loop].
    - discriminate.
    - replace (0 <? limit) with false by lia. cbn [andb].
      destruct (mem e (l_seen st)); [apply IH; exact Hl|].
      destruct (is_negative fl e).
      + destruct (parse _ (tl e)) as [t|er]; [apply IH; exact Hl|]. destruct er; discriminate.
      + destruct (parse _ e) as [t|er]; [apply IH; exact Hl|]. destruct er; discriminate.
  Qed.

  Lemma pats_loop_zero fl pm u pats : forall st,
      (forall p, brace p 0 <> None) ->
      pats_loop fl 0 pm u pats 0 st <> inr LLimit.
  Proof.
    intros st Hb. revert st.
    induction pats as [|p ps IH]; intros st; cbn [Expand.pats_loop].
    - discriminate.
    - destruct (norm _ _ p); [|discriminate].
      unfold expand. destruct (has fl BRACE).
      + destruct (brace s 0) eqn:Hbs; [|exfalso; eapply Hb; eauto].
        destruct (items_loop fl 0 pm _ st) eqn:Hi.
        * cbn [Z.eqb]. apply IH.
        * intro Hc. injection Hc as ->. eapply items_loop_nolimit; [|exact Hi]. lia.
      + destruct (items_loop fl 0 pm _ st) eqn:Hi.
        * cbn [Z.eqb]. apply IH.
        * intro Hc. injection Hc as ->. eapply items_loop_nolimit; [|exact Hi]. lia.
  Qed.

  (* the loops only ever append to the positive / negative lists, one entry per newly seen pattern *)
  Definition cnt (st : lst) : Z := Z.of_nat (length (l_pos st) + length (l_neg st)).

  Lemma items_loop_cnt fl limit pm items : forall st st',
      items_loop fl limit pm items st = inl st' ->
      cnt st' - cnt st = Z.of_nat (length (l_seen st')) - Z.of_nat (length (l_seen st)).
  Proof.
    induction items as [|e r IH]; intros st st' H; cbn [Expand.items_loop] in H.
    - injection H as <-. lia.
    - destruct ((0 <? limit) && (limit <? l_total st + 1)); [discriminate|].
      destruct (mem e (l_seen st)).
      + apply IH in H. unfold cnt in *. cbn [l_seen l_pos l_neg] in H. exact H.
      + destruct (is_negative fl e).
        * destruct (parse _ (tl e)); [|discriminate]. apply IH in H. unfold cnt in *.
          cbn [l_seen l_pos l_neg length] in H. rewrite app_length in H. cbn [length] in H. lia.
        * destruct (parse _ e); [|discriminate]. apply IH in H. unfold cnt in *.
          cbn [l_seen l_pos l_neg length] in H. rewrite app_length in H. cbn [length] in H. lia.
  Qed.

  Lemma pats_loop_cnt fl limit pm u pats : forall cl st st',
      pats_loop fl limit pm u pats cl st = inl st' ->
      cnt st' - cnt st = Z.of_nat (length (l_seen st')) - Z.of_nat (length (l_seen st)).
  Proof.
    induction pats as [|p ps IH]; intros cl st st' H; cbn [Expand.pats_loop] in H.
    - injection H as <-. lia.
    - destruct (norm _ _ p); [|discriminate].
      destruct (expand P brace tilde fl cl s); [|discriminate].
      destruct (items_loop fl limit pm l st) eqn:Hi; [|discriminate].
      apply IH in H. apply items_loop_cnt in Hi. lia.
  Qed.

  (* C11, raise direction: if the loop returns normally under a positive limit, then the number of
     distinct patterns compiled -- the exclusion patterns it started from included -- is at most the limit,
     provided at least one pattern was newly compiled or the exclusions alone were within the limit *)
  Theorem loop_bound fl limit pm u pats cl neg0 st' :
      0 < limit ->
      pats_loop fl limit pm u pats cl
        {| l_total := Z.of_nat (length neg0); l_seen := []; l_pos := []; l_neg := neg0 |} = inl st' ->
      Z.of_nat (length neg0) <= limit ->
      Z.of_nat (length (l_pos st') + length (l_neg st')) <= limit.
  Proof.
    intros Hl H Hn.
    pose proof (pats_loop_cnt _ _ _ _ _ _ _ _ H) as Hc.
    assert (Hi : inv limit (Z.of_nat (length neg0))
                   {| l_total := Z.of_nat (length neg0); l_seen := []; l_pos := []; l_neg := neg0 |})
      by (split; cbn; lia).
    pose proof (pats_loop_inv _ _ _ _ _ _ _ _ _ Hi H) as [H1 H2].
    specialize (H2 Hl). unfold cnt in Hc. cbn [l_pos l_neg l_seen length] in Hc. lia.
  Qed.

  Theorem loop_zero fl pm u pats st :
      (forall p, brace p 0 <> None) -> pats_loop fl 0 pm u pats 0 st <> inr LLimit.
  Proof. intros; apply pats_loop_zero; assumption. Qed.
End Limit.
