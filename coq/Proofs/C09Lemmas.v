From WC Require Import Str WcParse Escape.
From WC.Gen Require Import Consts FlagFuns.
From Coq Require Import Lia.
Import Mwcparse.
Open Scope Z_scope.

(* every symbol that is magic under SOME flag set is either the backslash (doubled by escape) or in the class
   escape prefixes with a backslash -- regenerated sets, re-proved whenever the source changes *)
Definition all_magic (b : bool) : str :=
  (if b then Sets.MAGIC_DEF_b else Sets.MAGIC_DEF_s) ++ (if b then Sets.MAGIC_BRACE_b else Sets.MAGIC_BRACE_s) ++
  (if b then Sets.MAGIC_SPLIT_b else Sets.MAGIC_SPLIT_s) ++ (if b then Sets.MAGIC_TILDE_b else Sets.MAGIC_TILDE_s) ++
  (if b then Sets.MAGIC_EXTMATCH_b else Sets.MAGIC_EXTMATCH_s) ++ (if b then Sets.MAGIC_MINUS_NEGATE_b else Sets.MAGIC_MINUS_NEGATE_s) ++
  (if b then Sets.MAGIC_NEGATE_b else Sets.MAGIC_NEGATE_s).

Lemma magic_covered_table : forall b : bool,
  forallb (fun c : N => orb (N.eqb c 92%N) (ch_in c (if b then Sets.RE_MAGIC_ESCAPE_class_b else Sets.RE_MAGIC_ESCAPE_class_s)))
          (all_magic b) = true.
Proof. destruct b; vm_compute; reflexivity. Qed.

Lemma incl_all b fl : forall c, In c (magic_symbols b fl) -> In c (all_magic b).
Proof.
  intros c. unfold magic_symbols, all_magic.
  destruct b; destruct (has fl BRACE), (has fl SPLIT), (has fl GLOBTILDE), (has fl EXTMATCH), (has fl NEGATE), (has fl MINUSNEGATE);
    cbn [app]; rewrite ?in_app_iff; cbn [In]; tauto.
Qed.

(* for every flag word: a symbol that is_magic looks for is escaped by escape *)
Theorem magic_symbols_escaped b fl c :
  In c (magic_symbols b fl) -> escape_ch b c = [92%N; c] \/ (c = 92%N /\ escape_ch b c = [92; 92]%N).
Proof.
  intros H. apply incl_all in H.
  pose proof (magic_covered_table b) as T. rewrite forallb_forall in T. specialize (T _ H).
  unfold escape_ch. destruct (N.eqb_spec c 92%N) as [->|Hne]; [right; split; reflexivity|].
  cbn [orb] in T. rewrite T. left. reflexivity.
Qed.

(* escape never produces an unescaped magic character: its output is a sequence of `\c` pairs and plain
   characters that are not magic under any flags *)
Inductive piece (b : bool) : str -> Prop :=
| PEscaped c : piece b [92%N; c]
| PPlain c : ~ In c (all_magic b) -> c <> 92%N -> piece b [c].

Theorem escape_pieces b s : Forall (piece b) (map (escape_ch b) s).
Proof.
  induction s as [|c s IH]; cbn [map]; constructor; [|exact IH].
  unfold escape_ch. destruct (N.eqb_spec c 92%N) as [->|Hne]; [constructor|].
  destruct (ch_in c _) eqn:E; [constructor|].
  apply PPlain; [|exact Hne]. intro Hin.
  pose proof (magic_covered_table b) as T. rewrite forallb_forall in T. specialize (T _ Hin).
  apply N.eqb_neq in Hne. rewrite Hne in T. cbn [orb] in T. congruence.
Qed.

(* a string with no magic symbol is not magic, and conversely (is_magic is exactly membership) *)
Theorem is_magic_spec b fl p : is_magic b fl p = true <-> exists c, In c (magic_symbols b fl) /\ In c p.
Proof.
  unfold is_magic. rewrite existsb_exists. split; intros [c [H1 H2]]; exists c; split; auto.
  - unfold ch_in in H2. apply existsb_exists in H2 as [d [Hd He]]. apply N.eqb_eq in He. subst. exact Hd.
  - unfold ch_in. apply existsb_exists. exists c. split; [exact H2|apply N.eqb_refl].
Qed.
