(* Glob.__init__, flag processing (translated from the source on every run into Gen.FlagFuns.glob_init_flags):
   for every flag word a caller can pass and with or without an `exclude=` argument, on a non-Windows platform:
     - the flags the walker and its matchers work with always have PATHNAME and never the Windows rules;
     - NODOTDIR is forced unless SCANDOTDIR was given;
     - links are followed by `**` iff FOLLOW is set and GLOBSTARLONG is not; `**` is active iff GLOBSTAR or GLOBSTARLONG;
     - the flags used for exclusion patterns have DOTMATCH (C03) and no globstar capture;
     - MARK, NEGATEALL, NODIR and the pathlib marker are reported exactly as the caller's bits (they are consumed here). *)
From WC Require Import Str WcParse.
From WC.Gen Require Import Consts FlagFuns.
From WC.Proofs Require Import Bits C17Lemmas.
From Coq Require Import Lia.
Open Scope Z_scope.

Lemma cond_pow f k v : 0 <= k -> v = 2 ^ k -> negb (Z.eqb (Z.land f v) 0) = Z.testbit f k.
Proof. intros Hk ->. apply cond_bit. exact Hk. Qed.

Theorem glob_init_table P he f : plat_windows P = false ->
  let '(nounique, mark, scandotdir, negateall, nodir, pathlib, fl, nfl, raw, dot, unix, negate, gsl, gs, follow, braces, mb, cs) :=
      glob_init_flags P he f in
  Z.testbit fl 5 = true /\ Z.testbit fl 16 = false /\ unix = true /\
  (scandotdir = false -> Z.testbit fl 20 = true) /\
  follow = Z.testbit fl 11 && negb (Z.testbit fl 21) /\
  gs = Z.testbit fl 21 || Z.testbit fl 8 /\ gsl = Z.testbit fl 21 /\
  Z.testbit nfl 6 = true /\ Z.testbit nfl 36 = true /\
  dot = Z.testbit fl 6 /\ cs = get_case P fl.
Proof.
  intros HP. unfold glob_init_flags. cbv zeta.
  set (fl0 := if he then no_negate_flags P f else f).
  set (f5 := if negb (Z.land fl0 16777216 =? 0) then Z.lxor fl0 16777216 else fl0).
  set (f7 := if negb (Z.land f5 32768 =? 0) then Z.lxor f5 32768 else f5).
  set (f9 := if negb (Z.land f7 16384 =? 0) then Z.lxor f7 16384 else f7).
  set (f11 := if negb (Z.land f9 134217728 =? 0) then Z.lxor f9 134217728 else f9).
  set (F := glob_flag_transform P (Z.lor f11 1024)).
  assert (H10 : Z.testbit (Z.lor f11 1024) 10 = true) by (rewrite Z.lor_spec; replace (Z.testbit 1024 10) with true by reflexivity; apply orb_true_r).
  destruct (glob_realpath_never_win P (Z.lor f11 1024) HP H10) as [A5 A16]. fold F in A5, A16.
  set (c := negb (negb (Z.land fl0 33554432 =? 0)) && negb (negb (Z.land F 1048576 =? 0))).
  assert (C20 : negb (Z.land F 1048576 =? 0) = Z.testbit F 20) by (apply cond_pow; [lia|reflexivity]).
  set (FL := if c then Z.lor F 1048576 else F).
  assert (B5 : Z.testbit FL 5 = true).
  { unfold FL. destruct c; [rewrite Z.lor_spec, A5; reflexivity|exact A5]. }
  assert (B16 : Z.testbit FL 16 = false).
  { unfold FL. destruct c; [rewrite Z.lor_spec, A16; reflexivity|exact A16]. }
  repeat split.
  - exact B5.
  - exact B16.
  - rewrite (cond_pow FL 16 65536) by (lia || reflexivity). rewrite B16. reflexivity.
  - intros Hs. unfold FL, c. rewrite Hs, C20. cbn [negb andb].
    destruct (Z.testbit F 20) eqn:E20; cbn [negb]; [exact E20|].
    rewrite Z.lor_spec. replace (Z.testbit 1048576 20) with true by reflexivity. apply orb_true_r.
  - rewrite (cond_pow FL 11 2048) by (lia || reflexivity). rewrite (cond_pow FL 21 2097152) by (lia || reflexivity). reflexivity.
  - rewrite (cond_pow FL 21 2097152) by (lia || reflexivity). rewrite (cond_pow FL 8 256) by (lia || reflexivity). reflexivity.
  - apply cond_pow; [lia|reflexivity].
  - rewrite !Z.lor_spec. replace (Z.testbit 64 6) with true by reflexivity. rewrite orb_true_r. reflexivity.
  - rewrite !Z.lor_spec. replace (Z.testbit 68719476736 36) with true by reflexivity. apply orb_true_r.
  - apply cond_pow; [lia|reflexivity].
Qed.

(* every transformation in glob._flag_transform leaves bit k alone when k is none of PATHNAME, FORCEWIN, FORCEUNIX and
   is inside the mask *)
Lemma glob_transform_keeps P x k :
  0 <= k -> k <> 5 -> k <> 16 -> k <> 17 -> Z.testbit 51543801823 k = true ->
  Z.testbit (glob_flag_transform P x) k = Z.testbit x k.
Proof.
  intros Hk H5 H16 H17 Hm. unfold glob_flag_transform.
  assert (T32 : Z.testbit 32 k = false) by (change 32 with (2 ^ 5); apply Z.pow2_bits_false; lia).
  assert (T16 : Z.testbit 65536 k = false) by (change 65536 with (2 ^ 16); apply Z.pow2_bits_false; lia).
  assert (T17 : Z.testbit 131072 k = false) by (change 131072 with (2 ^ 17); apply Z.pow2_bits_false; lia).
  assert (T1617 : Z.testbit (Z.lor 65536 131072) k = false) by (rewrite Z.lor_spec, T16, T17; reflexivity).
  repeat match goal with
         | |- context [if ?c then _ else _] => destruct c
         end; cbv zeta;
    repeat rewrite ?Z.lor_spec, ?Z.land_spec, ?Z.lxor_spec; rewrite ?T32, ?T16, ?T17, ?T1617, ?Hm;
    rewrite ?orb_false_r, ?andb_true_r, ?xorb_false_r; reflexivity.
Qed.

Lemma no_negate_clears P x : Z.testbit (no_negate_flags P x) 3 = false.
Proof.
  unfold no_negate_flags.
  assert (C8 : negb (Z.land x 8 =? 0) = Z.testbit x 3) by (apply cond_pow; [lia|reflexivity]).
  rewrite C8. destruct (Z.testbit x 3) eqn:E3; cbv zeta.
  - destruct (negb (Z.land (Z.lxor x 8) 32768 =? 0)); repeat rewrite ?Z.lxor_spec; rewrite E3;
      replace (Z.testbit 8 3) with true by reflexivity; replace (Z.testbit 32768 3) with false by reflexivity; reflexivity.
  - destruct (negb (Z.land x 32768 =? 0)); repeat rewrite ?Z.lxor_spec; rewrite E3;
      replace (Z.testbit 32768 3) with false by reflexivity; reflexivity.
Qed.

(* with an `exclude=` argument (even an empty one) the inclusion list is never read with NEGATE *)
Theorem glob_init_exclude_disables_negate P f :
  let '(_, _, _, _, _, _, _, _, _, _, _, negate, _, _, _, _, _, _) := glob_init_flags P true f in negate = false.
Proof.
  unfold glob_init_flags. cbv zeta.
  set (fl0 := no_negate_flags P f).
  assert (E0 : Z.testbit fl0 3 = false) by apply no_negate_clears.
  set (f5 := if negb (Z.land fl0 16777216 =? 0) then Z.lxor fl0 16777216 else fl0).
  assert (E5 : Z.testbit f5 3 = false).
  { unfold f5. destruct (negb (Z.land fl0 16777216 =? 0)); [rewrite Z.lxor_spec, E0; reflexivity|exact E0]. }
  set (f7 := if negb (Z.land f5 32768 =? 0) then Z.lxor f5 32768 else f5).
  assert (E7 : Z.testbit f7 3 = false).
  { unfold f7. destruct (negb (Z.land f5 32768 =? 0)); [rewrite Z.lxor_spec, E5; reflexivity|exact E5]. }
  set (f9 := if negb (Z.land f7 16384 =? 0) then Z.lxor f7 16384 else f7).
  assert (E9 : Z.testbit f9 3 = false).
  { unfold f9. destruct (negb (Z.land f7 16384 =? 0)); [rewrite Z.lxor_spec, E7; reflexivity|exact E7]. }
  set (f11 := if negb (Z.land f9 134217728 =? 0) then Z.lxor f9 134217728 else f9).
  assert (E11 : Z.testbit f11 3 = false).
  { unfold f11. destruct (negb (Z.land f9 134217728 =? 0)); [rewrite Z.lxor_spec, E9; reflexivity|exact E9]. }
  set (F := glob_flag_transform P (Z.lor f11 1024)).
  assert (EF : Z.testbit F 3 = false).
  { unfold F. rewrite glob_transform_keeps by (lia || reflexivity). rewrite Z.lor_spec, E11. reflexivity. }
  match goal with |- negb (Z.land ?x 8 =? 0) = false => set (FL := x) end.
  rewrite (cond_pow FL 3 8) by (lia || reflexivity).
  unfold FL. destruct (_ && _); [rewrite Z.lor_spec, EF; reflexivity|exact EF].
Qed.
