(* Lemmas about the walker model (Glob.v). *)
From WC Require Import Str Glob.
From Coq Require Import Lia.

Section L.
  Variable scandir : str -> option (list entry).
  Variable segmatch : N -> str -> bool.
  Variable cf : gcfg.

  (* the inner loop of glob_dir without descent (deep = false), as a plain function of the listing *)
  Fixpoint shallow (curdir : str) (m : matcher) (files : list (str * bool * bool * bool)) : list (str * bool) :=
    match files with
    | [] => []
    | (file, is_dir, hidden, is_link) :: rest =>
      (if is_special file then
         match m with MNone => [] | _ => if run_matcher segmatch cf m file then [(pjoin curdir file, true)] else [] end
       else
         match m with
         | MNone => if negb hidden then [(pjoin curdir file, is_dir)] else []
         | _ => if run_matcher segmatch cf m file then [(pjoin curdir file, is_dir)] else []
         end) ++ shallow curdir m rest
    end.

  Lemma glob_dir_shallow fuel curdir m dir_only gf :
    glob_dir scandir segmatch cf (S fuel) curdir m dir_only false gf = Some (shallow curdir m (iter scandir cf curdir dir_only)).
  Proof.
    cbn [glob_dir]. generalize (iter scandir cf curdir dir_only) as files.
    induction files as [|[[[file is_dir] hidden] is_link] rest IH]; [reflexivity|].
    cbn [shallow]. rewrite IH. destruct (is_special file).
    - reflexivity.
    - cbn [andb]. rewrite app_nil_l. destruct m; reflexivity.
  Qed.

  Lemma glob_dir_shallow_sound fuel curdir m dir_only gf hits p d :
    glob_dir scandir segmatch cf fuel curdir m dir_only false gf = Some hits -> In (p, d) hits ->
    exists name isdir hidden islink, In (name, isdir, hidden, islink) (iter scandir cf curdir dir_only) /\ p = pjoin curdir name.
  Proof.
    destruct fuel as [|fuel]; [discriminate|]. rewrite glob_dir_shallow. intros H.
    assert (E : hits = shallow curdir m (iter scandir cf curdir dir_only)) by congruence. subst hits. clear H.
    generalize (iter scandir cf curdir dir_only) as files.
    induction files as [|[[[file is_dir] hidden] is_link] rest IH]; cbn [shallow]; [intros Hn; destruct Hn|].
    intros Hin. apply in_app_or in Hin as [Hin|Hin].
    - exists file, is_dir, hidden, is_link. split; [left; reflexivity|].
      destruct (is_special file); destruct m; try destruct (negb hidden); try destruct (run_matcher _ _ _ _);
        cbn in Hin; try tauto; destruct Hin as [Hin|[]]; congruence.
    - destruct (IH Hin) as [n [a [b [c [H1 H2]]]]]. exists n, a, b, c. split; [right; exact H1|exact H2].
  Qed.

  Lemma glob_dir_shallow_complete fuel curdir m dir_only gf hits name isdir hidden islink :
    glob_dir scandir segmatch cf fuel curdir m dir_only false gf = Some hits ->
    In (name, isdir, hidden, islink) (iter scandir cf curdir dir_only) ->
    m <> MNone -> run_matcher segmatch cf m name = true ->
    In (pjoin curdir name, if is_special name then true else isdir) hits.
  Proof.
    destruct fuel as [|fuel]; [discriminate|]. rewrite glob_dir_shallow. intros H.
    assert (E : hits = shallow curdir m (iter scandir cf curdir dir_only)) by congruence. subst hits. clear H.
    generalize (iter scandir cf curdir dir_only) as files.
    induction files as [|[[[file d] h] l] rest IH]; [intros Hn; destruct Hn|].
    intros [Heq|Hin] Hm Hr; cbn [shallow]; apply in_or_app.
    - injection Heq as -> -> -> ->. left.
      destruct (is_special name); destruct m; try congruence; rewrite Hr; left; reflexivity.
    - right. apply IH; assumption.
  Qed.
End L.
