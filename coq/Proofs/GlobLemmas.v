(* Lemmas about the walker model (Glob.v). *)
From WC Require Import Str Glob.
From Coq Require Import Lia.

Section L.
  Variable scandir : str -> option (list entry).
  Variable segmatch : N -> str -> bool.
  Variable cf : gcfg.

  (* the inner loop of glob_dir without descent (deep = false), as a plain function of the listing *)
  Fixpoint shallow (curdir : str) (m : matcher) (files : list (str * bool * bool * bool)) : list (str * bool) :=
    match files with
    | [] => []
    | (file, is_dir, hidden, is_link) :: rest =>
      (if is_special file then
         match m with MNone => [] | _ => if run_matcher segmatch cf m file then [(pjoin curdir file, true)] else [] end
       else
         match m with
         | MNone => if negb hidden then [(pjoin curdir file, is_dir)] else []
         | _ => if run_matcher segmatch cf m file then [(pjoin curdir file, is_dir)] else []
         end) ++ shallow curdir m rest
    end.

  Lemma glob_dir_shallow fuel curdir m dir_only gf :
    glob_dir scandir segmatch cf (S fuel) curdir m dir_only false gf = Some (shallow curdir m (iter scandir cf curdir dir_only)).
  Proof.
    cbn [glob_dir]. generalize (iter scandir cf curdir dir_only) as files.
    induction files as [|[[[file is_dir] hidden] is_link] rest IH]; [reflexivity|].
    cbn [shallow]. rewrite IH. destruct (is_special file).
    - reflexivity.
    - cbn [andb]. rewrite app_nil_l. destruct m; reflexivity.
  Qed.

  Lemma glob_dir_shallow_sound fuel curdir m dir_only gf hits p d :
    glob_dir scandir segmatch cf fuel curdir m dir_only false gf = Some hits -> In (p, d) hits ->
    exists name isdir hidden islink, In (name, isdir, hidden, islink) (iter scandir cf curdir dir_only) /\ p = pjoin curdir name.
  Proof.
    destruct fuel as [|fuel]; [discriminate|]. rewrite glob_dir_shallow. intros H.
    assert (E : hits = shallow curdir m (iter scandir cf curdir dir_only)) by congruence. subst hits. clear H.
    generalize (iter scandir cf curdir dir_only) as files.
    induction files as [|[[[file is_dir] hidden] is_link] rest IH]; cbn [shallow]; [intros Hn; destruct Hn|].
    intros Hin. apply in_app_or in Hin as [Hin|Hin].
    - exists file, is_dir, hidden, is_link. split; [left; reflexivity|].
      destruct (is_special file); destruct m; try destruct (negb hidden); try destruct (run_matcher _ _ _ _);
        cbn in Hin; try tauto; destruct Hin as [Hin|[]]; congruence.
    - destruct (IH Hin) as [n [a [b [c [H1 H2]]]]]. exists n, a, b, c. split; [right; exact H1|exact H2].
  Qed.

  Lemma glob_dir_shallow_complete fuel curdir m dir_only gf hits name isdir hidden islink :
    glob_dir scandir segmatch cf fuel curdir m dir_only false gf = Some hits ->
    In (name, isdir, hidden, islink) (iter scandir cf curdir dir_only) ->
    m <> MNone -> run_matcher segmatch cf m name = true ->
    In (pjoin curdir name, if is_special name then true else isdir) hits.
  Proof.
    destruct fuel as [|fuel]; [discriminate|]. rewrite glob_dir_shallow. intros H.
    assert (E : hits = shallow curdir m (iter scandir cf curdir dir_only)) by congruence. subst hits. clear H.
    generalize (iter scandir cf curdir dir_only) as files.
    induction files as [|[[[file d] h] l] rest IH]; [intros Hn; destruct Hn|].
    intros [Heq|Hin] Hm Hr; cbn [shallow]; apply in_or_app.
    - injection Heq as -> -> -> ->. left.
      destruct (is_special name); destruct m; try congruence; rewrite Hr; left; reflexivity.
    - right. apply IH; assumption.
  Qed.
End L.

(* ---- which directories a deep walk lists (mirror of the recursion of glob_dir, deep = true) ---- *)
Section Listed.
  Variable scandir : str -> option (list entry).
  Variable cf : gcfg.

  Fixpoint listed (fuel : nat) (curdir : str) (dir_only gfollow : bool) : list str :=
    match fuel with
    | O => []
    | S f =>
      curdir ::
      flat_map (fun x =>
        let '(file, is_dir, hidden, is_link) := x in
        if is_special file then []
        else if negb hidden && is_dir && (negb is_link || g_follow cf || gfollow)
             then listed f (pjoin curdir file) dir_only gfollow else [])
        (iter scandir cf curdir dir_only)
    end.

  Lemma listed_rule fuel : forall curdir dir_only gf d,
    In d (listed fuel curdir dir_only gf) ->
    d = curdir \/
    exists parent name isdir hidden islink,
      In parent (listed fuel curdir dir_only gf) /\
      In (name, isdir, hidden, islink) (iter scandir cf parent dir_only) /\
      d = pjoin parent name /\ is_special name = false /\ hidden = false /\ isdir = true /\
      (islink = false \/ g_follow cf = true \/ gf = true).
  Proof.
    induction fuel as [|f IH]; intros curdir dir_only gf d H; [destruct H|].
    cbn [listed] in H. destruct H as [<-|H]; [left; reflexivity|].
    apply in_flat_map in H as [[[[file is_dir] hidden] is_link] [Hin Hd]].
    destruct (is_special file) eqn:Es; [destruct Hd|].
    destruct (negb hidden && is_dir && (negb is_link || g_follow cf || gf)) eqn:Ec; [|destruct Hd].
    apply andb_prop in Ec as [Ec1 Ec3]. apply andb_prop in Ec1 as [Ec1 Ec2].
    assert (Hsub : forall x, In x (listed f (pjoin curdir file) dir_only gf) -> In x (listed (S f) curdir dir_only gf)).
    { intros x Hx. cbn [listed]. right. apply in_flat_map. exists (file, is_dir, hidden, is_link). split; [exact Hin|].
      rewrite Es, Ec1, Ec2, Ec3. exact Hx. }
    destruct (IH _ _ _ _ Hd) as [->|[parent [name [a [b [c [P1 [P2 P3]]]]]]]].
    - right. exists curdir, file, is_dir, hidden, is_link.
      split; [cbn [listed]; left; reflexivity|]. split; [exact Hin|]. split; [reflexivity|]. split; [exact Es|].
      split; [destruct hidden; [discriminate|reflexivity]|]. split; [exact Ec2|].
      destruct is_link; [|left; reflexivity]. cbn [negb orb] in Ec3.
      destruct (g_follow cf); [right; left; reflexivity|]. right; right. exact Ec3.
    - right. exists parent, name, a, b, c. split; [apply Hsub; exact P1|]. split; [exact P2|exact P3].
  Qed.
End Listed.
