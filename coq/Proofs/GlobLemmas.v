(* Lemmas about the walker model (Glob.v). *)
From WC Require Import Str Glob.
From Coq Require Import Lia.

Section L.
  Variable scandir : str -> option (list entry).
  Variable segmatch : N -> str -> bool.
  Variable cf : gcfg.

  (* the inner loop of glob_dir without descent (deep = false), as a plain function of the listing *)
  Fixpoint shallow (curdir : str) (m : matcher) (files : list (str * bool * bool * bool)) : list (str * bool) :=
    match files with
    | [] => []
    | (file, is_dir, hidden, is_link) :: rest =>
      (if is_special file then
         match m with MNone => [] | _ => if run_matcher segmatch cf m file then [(pjoin curdir file, true)] else [] end
       else
         match m with
         | MNone => if negb hidden then [(pjoin curdir file, is_dir)] else []
         | _ => if run_matcher segmatch cf m file then [(pjoin curdir file, is_dir)] else []
         end) ++ shallow curdir m rest
    end.

  Lemma glob_dir_shallow fuel curdir m dir_only gf :
    glob_dir scandir segmatch cf (S fuel) curdir m dir_only false gf = Some (shallow curdir m (iter scandir cf curdir dir_only)).
  Proof.
    cbn [glob_dir]. generalize (iter scandir cf curdir dir_only) as files.
    induction files as [|[[[file is_dir] hidden] is_link] rest IH]; [reflexivity|].
    cbn [shallow]. rewrite IH. destruct (is_special file).
    - reflexivity.
    - cbn [andb]. rewrite app_nil_l. destruct m; reflexivity.
  Qed.

  Lemma glob_dir_shallow_sound fuel curdir m dir_only gf hits p d :
    glob_dir scandir segmatch cf fuel curdir m dir_only false gf = Some hits -> In (p, d) hits ->
    exists name isdir hidden islink, In (name, isdir, hidden, islink) (iter scandir cf curdir dir_only) /\ p = pjoin curdir name.
  Proof.
    destruct fuel as [|fuel]; [discriminate|]. rewrite glob_dir_shallow. intros H.
    assert (E : hits = shallow curdir m (iter scandir cf curdir dir_only)) by congruence. subst hits. clear H.
    generalize (iter scandir cf curdir dir_only) as files.
    induction files as [|[[[file is_dir] hidden] is_link] rest IH]; cbn [shallow]; [intros Hn; destruct Hn|].
    intros Hin. apply in_app_or in Hin as [Hin|Hin].
    - exists file, is_dir, hidden, is_link. split; [left; reflexivity|].
      destruct (is_special file); destruct m; try destruct (negb hidden); try destruct (run_matcher _ _ _ _);
        cbn in Hin; try tauto; destruct Hin as [Hin|[]]; congruence.
    - destruct (IH Hin) as [n [a [b [c [H1 H2]]]]]. exists n, a, b, c. split; [right; exact H1|exact H2].
  Qed.

  Lemma glob_dir_shallow_complete fuel curdir m dir_only gf hits name isdir hidden islink :
    glob_dir scandir segmatch cf fuel curdir m dir_only false gf = Some hits ->
    In (name, isdir, hidden, islink) (iter scandir cf curdir dir_only) ->
    m <> MNone -> run_matcher segmatch cf m name = true ->
    In (pjoin curdir name, if is_special name then true else isdir) hits.
  Proof.
    destruct fuel as [|fuel]; [discriminate|]. rewrite glob_dir_shallow. intros H.
    assert (E : hits = shallow curdir m (iter scandir cf curdir dir_only)) by congruence. subst hits. clear H.
    generalize (iter scandir cf curdir dir_only) as files.
    induction files as [|[[[file d] h] l] rest IH]; [intros Hn; destruct Hn|].
    intros [Heq|Hin] Hm Hr; cbn [shallow]; apply in_or_app.
    - injection Heq as -> -> -> ->. left.
      destruct (is_special name); destruct m; try congruence; rewrite Hr; left; reflexivity.
    - right. apply IH; assumption.
  Qed.
End L.

(* ---- which directories a deep walk lists (mirror of the recursion of glob_dir, deep = true) ---- *)
Section Listed.
  Variable scandir : str -> option (list entry).
  Variable cf : gcfg.

  Fixpoint listed (fuel : nat) (curdir : str) (dir_only gfollow : bool) : list str :=
    match fuel with
    | O => []
    | S f =>
      curdir ::
      flat_map (fun x =>
        let '(file, is_dir, hidden, is_link) := x in
        if is_special file then []
        else if negb hidden && is_dir && (negb is_link || g_follow cf || gfollow)
             then listed f (pjoin curdir file) dir_only gfollow else [])
        (iter scandir cf curdir dir_only)
    end.

  Lemma listed_rule fuel : forall curdir dir_only gf d,
    In d (listed fuel curdir dir_only gf) ->
    d = curdir \/
    exists parent name isdir hidden islink,
      In parent (listed fuel curdir dir_only gf) /\
      In (name, isdir, hidden, islink) (iter scandir cf parent dir_only) /\
      d = pjoin parent name /\ is_special name = false /\ hidden = false /\ isdir = true /\
      (islink = false \/ g_follow cf = true \/ gf = true).
  Proof.
    induction fuel as [|f IH]; intros curdir dir_only gf d H; [destruct H|].
    cbn [listed] in H. destruct H as [<-|H]; [left; reflexivity|].
    apply in_flat_map in H as [[[[file is_dir] hidden] is_link] [Hin Hd]].
    destruct (is_special file) eqn:Es; [destruct Hd|].
    destruct (negb hidden && is_dir && (negb is_link || g_follow cf || gf)) eqn:Ec; [|destruct Hd].
    apply andb_prop in Ec as [Ec1 Ec3]. apply andb_prop in Ec1 as [Ec1 Ec2].
    assert (Hsub : forall x, In x (listed f (pjoin curdir file) dir_only gf) -> In x (listed (S f) curdir dir_only gf)).
    { intros x Hx. cbn [listed]. right. apply in_flat_map. exists (file, is_dir, hidden, is_link). split; [exact Hin|].
      rewrite Es, Ec1, Ec2, Ec3. exact Hx. }
    destruct (IH _ _ _ _ Hd) as [->|[parent [name [a [b [c [P1 [P2 P3]]]]]]]].
    - right. exists curdir, file, is_dir, hidden, is_link.
      split; [cbn [listed]; left; reflexivity|]. split; [exact Hin|]. split; [reflexivity|]. split; [exact Es|].
      split; [destruct hidden; [discriminate|reflexivity]|]. split; [exact Ec2|].
      destruct is_link; [|left; reflexivity]. cbn [negb orb] in Ec3.
      destruct (g_follow cf); [right; left; reflexivity|]. right; right. exact Ec3.
    - right. exists parent, name, a, b, c. split; [apply Hsub; exact P1|]. split; [exact P2|exact P3].
  Qed.
End Listed.

Lemma format_path_nounique cf seen path is_dir dir_only out seen' :
  format_path cf seen true path is_dir dir_only = (out, seen') ->
  out = [if dir_only || (g_mark cf && is_dir) then pjoin path [] else path] /\ seen' = seen.
Proof. unfold format_path. intros H. injection H as <- <-. split; reflexivity. Qed.

Lemma format_path_unique_shape cf seen path is_dir dir_only out seen' :
  format_path cf seen false path is_dir dir_only = (out, seen') ->
  out = [] \/ out = [if dir_only || (g_mark cf && is_dir) then pjoin path [] else path].
Proof.
  unfold format_path. intros H.
  destruct (existsb _ seen); injection H as <- <-; [left|right]; reflexivity.
Qed.

Lemma NoDup_app_one {A} (l : list A) x : NoDup l -> ~ In x l -> NoDup (l ++ [x]).
Proof.
  induction l as [|a l IH]; intros H Hn; cbn.
  - constructor; [intros []|constructor].
  - inversion H; subst. constructor.
    + intro X. apply in_app_or in X as [X|[X|[]]]; [contradiction|subst; apply Hn; left; reflexivity].
    + apply IH; [assumption|intro X; apply Hn; right; exact X].
Qed.

(* ---- C13: the output stage (exclusion filter, formatting, uniqueness) ---- *)
Section Emit.
  Variable exclmatch : str -> bool.
  Variable cf : gcfg.

  Definition fmt (dir_only : bool) (h : str * bool) : str :=
    if dir_only || (g_mark cf && snd h) then pjoin (fst h) [] else fst h.
  Definition kept (h : str * bool) : bool := negb (is_excluded exclmatch cf (fst h) (snd h)).
  Definition key_of (p : str) : str :=
    let k0 := if g_pathlib cf then pathlib_norm p else p in if g_cs cf then k0 else lower k0.

  Lemma fp_true seen p d dir_only : format_path cf seen true p d dir_only = ([fmt dir_only (p, d)], seen).
  Proof. reflexivity. Qed.
  Lemma fp_false seen p d dir_only :
    format_path cf seen false p d dir_only =
    if existsb (str_eqb (key_of (fmt dir_only (p, d)))) seen then ([], seen)
    else ([fmt dir_only (p, d)], key_of (fmt dir_only (p, d)) :: seen).
  Proof. reflexivity. Qed.

  Lemma emit_step_nounique dir_only : forall hits out seen,
    fold_left (fun acc h =>
                 let '(out, seen) := acc in
                 let '(path, is_dir) := h in
                 if is_excluded exclmatch cf path is_dir then (out, seen)
                 else let '(o, seen') := format_path cf seen true path is_dir dir_only in (out ++ o, seen'))
              hits (out, seen)
    = (out ++ map (fmt dir_only) (filter kept hits), seen).
  Proof.
    induction hits as [|[p d] hits IH]; intros out seen; cbn [fold_left filter map].
    - rewrite app_nil_r. reflexivity.
    - unfold kept at 1. cbn [fst snd]. destruct (is_excluded exclmatch cf p d); cbn [negb].
      + apply IH.
      + rewrite fp_true. rewrite IH. cbn [map]. rewrite <- app_assoc. reflexivity.
  Qed.

  (* NOUNIQUE: the output is the concatenation, in order, of the formatted non-excluded hits (duplicates kept) *)
  Theorem emit_nounique seen hits dir_only :
    emit exclmatch cf seen true hits dir_only = (map (fmt dir_only) (filter kept hits), seen).
  Proof. unfold emit. rewrite emit_step_nounique. reflexivity. Qed.

  Lemma str_eqb_true a : forall b, str_eqb a b = true -> a = b.
  Proof.
    induction a as [|c a IHa]; destruct b as [|d b]; cbn [str_eqb]; intro H; try discriminate; [reflexivity|].
    apply andb_prop in H as [H1 H2]. apply N.eqb_eq in H1. subst. f_equal. apply IHa. exact H2.
  Qed.
  Lemma str_eqb_refl a : str_eqb a a = true.
  Proof. induction a as [|c a IHa]; cbn [str_eqb]; [reflexivity|]. rewrite N.eqb_refl. exact IHa. Qed.
  Lemma existsb_str_eqb k l : existsb (str_eqb k) l = true <-> In k l.
  Proof.
    rewrite existsb_exists. split.
    - intros [x [Hx He]]. apply str_eqb_true in He. subst. exact Hx.
    - intros H. exists k. split; [exact H|apply str_eqb_refl].
  Qed.

  (* unique mode: under whichever case rule is in force (and pathlib normalisation) no key is emitted twice, none
     that was already seen is emitted, every non-excluded hit's key is seen afterwards, and every emitted path is a
     formatted non-excluded hit *)
  Definition uinv (seen0 : list str) (out seen : list str) : Prop :=
    NoDup (map key_of out) /\ (forall o, In o out -> In (key_of o) seen /\ ~ In (key_of o) seen0) /\
    (forall k, In k seen0 -> In k seen) /\ (forall k, In k seen -> In k seen0 \/ exists o, In o out /\ key_of o = k).

  Theorem emit_unique seen0 hits dir_only out seen :
    emit exclmatch cf seen0 false hits dir_only = (out, seen) ->
    uinv seen0 out seen /\
    (forall o, In o out -> exists h, In h hits /\ kept h = true /\ o = fmt dir_only h) /\
    (forall h, In h hits -> kept h = true -> In (key_of (fmt dir_only h)) seen).
  Proof.
    unfold emit.
    assert (G : forall hits out0 s0 out seen,
      uinv seen0 out0 s0 ->
      fold_left (fun acc h =>
                 let '(out, seen) := acc in
                 let '(path, is_dir) := h in
                 if is_excluded exclmatch cf path is_dir then (out, seen)
                 else let '(o, seen') := format_path cf seen false path is_dir dir_only in (out ++ o, seen'))
              hits (out0, s0) = (out, seen) ->
      uinv seen0 out seen /\
      (forall o, In o out -> In o out0 \/ exists h, In h hits /\ kept h = true /\ o = fmt dir_only h) /\
      (forall h, In h hits -> kept h = true -> In (key_of (fmt dir_only h)) seen) /\
      (forall k, In k s0 -> In k seen)).
    { clear hits out seen. induction hits as [|[p d] hits IH]; intros out0 s0 out seen Hinv H; cbn [fold_left] in H.
      - injection H as <- <-. split; [exact Hinv|]. split; [intros o Ho; left; exact Ho|]. split; [intros h []|auto].
      - destruct (is_excluded exclmatch cf p d) eqn:Ex.
        + destruct (IH _ _ _ _ Hinv H) as [A [B [C D]]]. split; [exact A|]. split.
          * intros o Ho. destruct (B o Ho) as [X|[h [X1 X2]]]; [left; exact X|right; exists h; split; [right; exact X1|exact X2]].
          * split; [|exact D]. intros h [<-|Hh] Hk; [unfold kept in Hk; cbn [fst snd] in Hk; rewrite Ex in Hk; discriminate|apply C; assumption].
        + rewrite fp_false in H.
          set (o1 := fmt dir_only (p, d)) in *.
          destruct (existsb (str_eqb (key_of o1)) s0) eqn:Es.
          * rewrite app_nil_r in H. destruct (IH _ _ _ _ Hinv H) as [A [B [C D]]]. split; [exact A|]. split.
            -- intros o Ho. destruct (B o Ho) as [X|[h [X1 X2]]]; [left; exact X|right; exists h; split; [right; exact X1|exact X2]].
            -- split; [|exact D]. intros h [<-|Hh] Hk; [apply D; apply existsb_str_eqb; exact Es|apply C; assumption].
          * assert (Hn : ~ In (key_of o1) s0) by (intro X; apply existsb_str_eqb in X; congruence).
            destruct Hinv as [I1 [I2 [I3 I4]]].
            assert (Hinv' : uinv seen0 (out0 ++ [o1]) (key_of o1 :: s0)).
            { split; [|split; [|split]].
              - rewrite map_app. cbn [map]. apply NoDup_app_one; [exact I1|].
                intro X. apply in_map_iff in X as [o' [E Ho']]. apply Hn. rewrite <- E. apply (I2 o' Ho').
              - intros o Ho. apply in_app_or in Ho as [Ho|[<-|[]]].
                + destruct (I2 o Ho) as [X Y]. split; [right; exact X|exact Y].
                + split; [left; reflexivity|]. intro X. apply Hn. apply I3. exact X.
              - intros k Hk. right. apply I3. exact Hk.
              - intros k [<-|Hk]; [right; exists o1; split; [apply in_or_app; right; left; reflexivity|reflexivity]|].
                destruct (I4 k Hk) as [X|[o [X1 X2]]]; [left; exact X|right; exists o; split; [apply in_or_app; left; exact X1|exact X2]]. }
            destruct (IH _ _ _ _ Hinv' H) as [A [B [C D]]]. split; [exact A|]. split.
            -- intros o Ho. destruct (B o Ho) as [X|[h [X1 X2]]].
               ++ apply in_app_or in X as [X|[<-|[]]]; [left; exact X|].
                  right. exists (p, d). split; [left; reflexivity|]. split; [unfold kept; cbn [fst snd]; rewrite Ex; reflexivity|reflexivity].
               ++ right. exists h. split; [right; exact X1|exact X2].
            -- split.
               ++ intros h [<-|Hh] Hk; [apply D; left; reflexivity|apply C; assumption].
               ++ intros k Hk. apply D. right. exact Hk. }
    intros H.
    assert (I0 : uinv seen0 [] seen0).
    { split; [constructor|]. split; [intros o []|]. split; [auto|]. intros k Hk. left. exact Hk. }
    destruct (G _ _ _ _ _ I0 H) as [A [B [C D]]]. split; [exact A|]. split; [|exact C].
    intros o Ho. destruct (B o Ho) as [[]|X]. exact X.
  Qed.
End Emit.

Lemma excluded_dir_slash exclmatch cf path :
  g_has_excl cf = true -> ends_with [cSLc] path = false ->
  is_excluded exclmatch cf path true = exclmatch (path ++ [cSLc]) /\ is_excluded exclmatch cf path false = exclmatch path.
Proof. intros H1 H2. unfold is_excluded. rewrite H1, H2. split; reflexivity. Qed.
