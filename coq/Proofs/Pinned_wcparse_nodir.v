(* GENERATED ONCE by tools/mkpinned.py (committed snapshot; not regenerated at check time). *)
From Coq Require Import List NArith String.
Import ListNotations.
From WC.Gen Require Import Consts.

Lemma pin_wcparse_RE_NO_DIR_0 : ReSrc.wcparse_RE_NO_DIR_0 = [94; 40; 63; 115; 58; 46; 42; 63; 40; 63; 58; 47; 92; 46; 123; 49; 44; 50; 125; 47; 42; 124; 47; 41; 124; 92; 46; 123; 49; 44; 50; 125; 47; 42; 41; 92; 90]%N.
Proof. reflexivity. Qed.
Lemma pin_wcparse_RE_NO_DIR_1 : ReSrc.wcparse_RE_NO_DIR_1 = [94; 40; 63; 115; 58; 46; 42; 63; 40; 63; 58; 47; 92; 46; 123; 49; 44; 50; 125; 47; 42; 124; 47; 41; 124; 92; 46; 123; 49; 44; 50; 125; 47; 42; 41; 92; 90]%N.
Proof. reflexivity. Qed.
Lemma pin_wcparse_RE_WIN_NO_DIR_0 : ReSrc.wcparse_RE_WIN_NO_DIR_0 = [94; 40; 63; 115; 58; 46; 42; 63; 40; 63; 58; 91; 92; 92; 47; 93; 92; 46; 123; 49; 44; 50; 125; 91; 92; 92; 47; 93; 42; 124; 91; 92; 92; 47; 93; 41; 124; 92; 46; 123; 49; 44; 50; 125; 91; 92; 92; 47; 93; 42; 41; 92; 90]%N.
Proof. reflexivity. Qed.
Lemma pin_wcparse_RE_WIN_NO_DIR_1 : ReSrc.wcparse_RE_WIN_NO_DIR_1 = [94; 40; 63; 115; 58; 46; 42; 63; 40; 63; 58; 91; 92; 92; 47; 93; 92; 46; 123; 49; 44; 50; 125; 91; 92; 92; 47; 93; 42; 124; 91; 92; 92; 47; 93; 41; 124; 92; 46; 123; 49; 44; 50; 125; 91; 92; 92; 47; 93; 42; 41; 92; 90]%N.
Proof. reflexivity. Qed.
Lemma pin_wcparse_RE_NO_DIR_0_flags : ReSrc.wcparse_RE_NO_DIR_0_flags = ""%string.
Proof. reflexivity. Qed.
Lemma pin_wcparse_RE_NO_DIR_1_flags : ReSrc.wcparse_RE_NO_DIR_1_flags = ""%string.
Proof. reflexivity. Qed.
Lemma pin_wcparse_RE_WIN_NO_DIR_0_flags : ReSrc.wcparse_RE_WIN_NO_DIR_0_flags = ""%string.
Proof. reflexivity. Qed.
Lemma pin_wcparse_RE_WIN_NO_DIR_1_flags : ReSrc.wcparse_RE_WIN_NO_DIR_1_flags = ""%string.
Proof. reflexivity. Qed.
