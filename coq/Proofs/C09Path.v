(* C09, parser side, path mode: under PATHNAME (Unix rules, NODOTDIR off) the regex text the parser model produces for
   escape(s) is the literal regex of s - every character re.escape()d, every run of `/` written once as `[/]+` -
   followed by the optional trailing separators, for every string s and whatever EXTMATCH/GLOBSTAR/DOTMATCH say. *)
From WC Require Import Str WcParse Escape.
From WC.Gen Require Import Consts FlagFuns.
From WC.Proofs Require Import C09Parse.
From WC.Proofs Require C01Flat.
From Coq Require Import Lia.
Import Mwcparse.
Open Scope Z_scope.

(* the literal text: [prev] = the previous character was a separator *)
Fixpoint pl (prev : bool) (s : str) : str :=
  match s with
  | [] => []
  | c :: s' => if N.eqb c 47 then (if prev then [] else S_ "[/]+") ++ pl true s' else re_escape_ch c ++ pl false s'
  end.

Fixpoint span_sl (s : str) : nat * str :=
  match s with
  | c :: s' => if N.eqb c 47 then (S (fst (span_sl s')), snd (span_sl s')) else (O, s)
  | [] => (O, [])
  end.

Lemma span_sl_len s : (fst (span_sl s) + length (snd (span_sl s)) = length s)%nat.
Proof. induction s as [|c s IH]; [reflexivity|]. cbn [span_sl]. destruct (N.eqb c 47); cbn [fst snd length]; lia. Qed.

Lemma span_sl_head (s : str) : match snd (span_sl s) with c :: _ => N.eqb c 47 = false | [] => True end.
Proof. induction s as [|c s IH]; [exact I|]. cbn [span_sl]. destruct (N.eqb c 47) eqn:E; cbn [snd]; [exact IH|exact E]. Qed.

Lemma pl_true_span s : pl true s = pl true (snd (span_sl s)).
Proof. induction s as [|c s IH]; [reflexivity|]. cbn [span_sl pl]. destruct (N.eqb c 47) eqn:E; cbn [snd app]; [exact IH|cbn [pl]; rewrite E; reflexivity]. Qed.

Lemma pl_noslash_head (s : str) : match s with c :: _ => N.eqb c 47 = false | [] => True end -> pl true s = pl false s.
Proof. destruct s as [|c s]; [reflexivity|]. intros E. cbn [pl]. rewrite E. reflexivity. Qed.

Lemma slash_not_magic (b : bool) : ch_in 47%N (if b then Sets.RE_MAGIC_ESCAPE_class_b else Sets.RE_MAGIC_ESCAPE_class_s) = false.
Proof. destruct b; vm_compute; reflexivity. Qed.

Lemma escape_slash b s : escape b (47%N :: s) = 47%N :: escape b s.
Proof.
  change (escape b (47%N :: s)) with (escape_ch b 47%N ++ escape b s). unfold escape_ch.
  change (N.eqb 47%N 92%N) with false. cbv iota. rewrite slash_not_magic. reflexivity.
Qed.

Lemma escape_head_noslash b (s : str) : match s with c :: _ => N.eqb c 47 = false | [] => True end ->
  match escape b s with c :: _ => N.eqb c 47 = false | [] => True end.
Proof.
  destruct s as [|c s]; [intros _; exact I|]. intros E.
  change (escape b (c :: s)) with (escape_ch b c ++ escape b s). unfold escape_ch.
  destruct (N.eqb c 92); [reflexivity|]. destruct (ch_in c _); [reflexivity|exact E].
Qed.

Lemma skip_slashes_escape b : forall s i,
  skip_slashes (escape b s) i = {| idx := i + Z.of_nat (fst (span_sl s)); rest := escape b (snd (span_sl s)) |}.
Proof.
  induction s as [|c s IH]; intros i.
  - cbn. f_equal. lia.
  - cbn [span_sl]. destruct (N.eqb_spec c 47) as [->|Hc].
    + rewrite escape_slash. cbn [skip_slashes]. change (N.eqb 47%N cSL) with true. cbv iota. rewrite IH. cbn [fst snd].
      f_equal. lia.
    + cbn [fst snd]. change (escape b (c :: s)) with (escape_ch b c ++ escape b s). unfold escape_ch.
      apply N.eqb_neq in Hc.
      destruct (N.eqb c 92) eqn:E92.
      * cbn [app skip_slashes]. change (N.eqb 92 cSL) with false. change (N.eqb 92 cBS) with true. cbv iota. f_equal. cbn. lia.
      * destruct (ch_in c _).
        -- cbn [app skip_slashes]. change (N.eqb 92 cSL) with false. change (N.eqb 92 cBS) with true. cbv iota.
           change cSL with 47%N. rewrite Hc. f_equal. cbn. lia.
        -- cbn [app skip_slashes]. change cSL with 47%N. change cBS with 92%N. rewrite Hc, E92. f_equal. cbn. lia.
Qed.

Section PathRoot.
  Variable cf : cfg.
  Hypothesis Hpath : c_pathname cf = true.
  Hypothesis Habort : c_bslash_abort cf = false.
  Hypothesis Hunix : c_unix cf = true.
  Hypothesis Hnodotdir : c_nodotdir cf = false.
  Hypothesis Hsep : c_sep cf = S_ "[/]".

  (* a plain character that is none of `* ? [ \ /` : one literal item *)
  Lemma step_plain_path f st i c r cur :
    inv st -> c <> 42%N -> c <> 63%N -> c <> 91%N -> c <> 92%N -> c <> 47%N -> head_ok r = true ->
    exists st', inv st' /\ root_loop (S (S f)) cf st {| idx := i; rest := c :: r |} cur =
      root_loop (S f) cf (update_dir_state st') {| idx := i + 1; rest := r |} (T (re_escape_ch c) :: cur).
  Proof.
    intros Hinv H42 H63 H91 H92 H47 Hh.
    cbn [root_loop next rest idx].
    assert (Hrest : forall st0, inv st0 ->
      (if N.eqb c cDOT then root_loop (S f) cf (update_dir_state st0) {| idx := i + 1; rest := r |} (T (handle_dot cf st0 {| idx := i + 1; rest := r |}) :: cur)
       else if N.eqb c cSTAR then
         let '(st', it', cur') := handle_star cf st0 {| idx := i + 1; rest := r |} cur in root_loop (S f) cf (update_dir_state st') it' cur'
       else if N.eqb c cQM then
         let '(g, st') := restrict_sequence cf st0 in root_loop (S f) cf (update_dir_state st') {| idx := i + 1; rest := r |} (T (g ++ Frag.u_QMARK) :: cur)
       else if N.eqb c cSL then
         if c_pathname cf then
           let st1 := set_start_dir st0 in
           let '(st2, cur1) := clean_up_inverse cf st1 cur false in
           let it2 := consume_path_sep cf {| idx := i + 1; rest := r |} in
           root_loop (S f) cf (update_dir_state (set_matchbase st2 false)) it2 (T (c_sep cf ++ Frag.u_ONE_OR_MORE) :: cur1)
         else root_loop (S f) cf (update_dir_state st0) {| idx := i + 1; rest := r |} (T (c_sep cf) :: cur)
       else if N.eqb c cBS then
         match references cf st0 {| idx := i + 1; rest := r |} false with
         | RVal v st' it' =>
             if dir_start st' then
               let '(st2, cur1) := clean_up_inverse cf st' cur false in
               let it2 := consume_path_sep cf it' in
               root_loop (S f) cf (update_dir_state (set_matchbase st2 false)) it2 (T v :: cur1)
             else root_loop (S f) cf (update_dir_state st') it' (T v :: cur)
         | RDot itd => root_loop (S f) cf st0 itd cur
         | RStop => root_loop (S f) cf (update_dir_state st0) {| idx := i + 1; rest := r |} cur
         | RPath => root_loop (S f) cf (update_dir_state st0) {| idx := i + 1; rest := r |} cur
         end
       else if N.eqb c cLB then
         match sequence cf st0 {| idx := i + 1; rest := r |} with
         | Ok (v, st', it') => root_loop (S f) cf (update_dir_state st') it' (T v :: cur)
         | Stop => root_loop (S f) cf (update_dir_state st0) {| idx := i + 1; rest := r |} (T (re_escape_ch c) :: cur)
         | Fuel => Fuel
         end
       else root_loop (S f) cf (update_dir_state st0) {| idx := i + 1; rest := r |} (T (re_escape_ch c) :: cur)) =
      root_loop (S f) cf (update_dir_state st0) {| idx := i + 1; rest := r |} (T (re_escape_ch c) :: cur)).
    { intros st0 _.
      destruct (N.eqb_spec c cDOT) as [->|_].
      - unfold handle_dot. rewrite Hnodotdir. rewrite andb_false_r. reflexivity.
      - destruct (N.eqb_spec c cSTAR) as [->|_]; [exfalso; apply H42; reflexivity|].
        destruct (N.eqb_spec c cQM) as [->|_]; [exfalso; apply H63; reflexivity|].
        change cSL with 47%N.
        destruct (N.eqb_spec c 47) as [->|_]; [exfalso; apply H47; reflexivity|].
        destruct (N.eqb_spec c cBS) as [->|_]; [exfalso; apply H92; reflexivity|].
        destruct (N.eqb_spec c cLB) as [->|_]; [exfalso; apply H91; reflexivity|].
        reflexivity. }
    destruct (c_extend cf && ch_in c ext_types) eqn:Ex.
    - destruct (ext_fail f cf st c {| idx := i + 1; rest := r |} cur true Hh Hinv) as [st' [E Hinv']].
      rewrite E. exists st'. split; [exact Hinv'|]. apply Hrest. exact Hinv'.
    - exists st. split; [exact Hinv|]. apply Hrest. exact Hinv.
  Qed.

  (* a separator: the whole run is consumed and written once *)
  Lemma step_sep_path f st i r cur :
    inv st ->
    root_loop (S f) cf st {| idx := i; rest := 47%N :: r |} cur =
    root_loop f cf (update_dir_state (set_matchbase (set_start_dir st) false)) (skip_slashes r (i + 1)) (T (S_ "[/]+") :: cur).
  Proof.
    intros [Hd Hi]. cbn [root_loop next rest idx].
    replace (ch_in 47%N ext_types) with false by reflexivity. rewrite andb_false_r.
    change (N.eqb 47%N cDOT) with false. change (N.eqb 47%N cSTAR) with false. change (N.eqb 47%N cQM) with false.
    change (N.eqb 47%N cSL) with true. cbv iota. rewrite Hpath.
    unfold clean_up_inverse. replace (inv_ext (set_start_dir st)) with 0 by (symmetry; exact Hi). cbn [Z.eqb].
    unfold consume_path_sep. rewrite Habort. cbn [rest idx]. rewrite Hsep. reflexivity.
  Qed.

  Lemma inv_after_sep st : inv st -> inv (update_dir_state (set_matchbase (set_start_dir st) false)).
  Proof. intros [A B]. unfold update_dir_state. cbn. split; first [reflexivity|assumption]. Qed.

  Lemma path_loop_escaped (b : bool) : forall n s fuel st i cur,
    (length s <= n)%nat -> (2 * length s < fuel)%nat -> inv st ->
    exists st' cur', root_loop fuel cf st {| idx := i; rest := escape b s |} cur = Ok (st', cur') /\
                     jrev cur' = jrev cur ++ pl false s /\ inv st'.
  Proof.
    induction n as [|n IH]; intros s fuel st i cur Hn Hf Hinv.
    - destruct s; [|cbn in Hn; lia]. destruct fuel as [|f]; [cbn in Hf; lia|].
      exists st, cur. split; [reflexivity|]. split; [cbn [pl]; rewrite app_nil_r; reflexivity|exact Hinv].
    - destruct s as [|c s].
      + destruct fuel as [|f]; [cbn in Hf; lia|].
        exists st, cur. split; [reflexivity|]. split; [cbn [pl]; rewrite app_nil_r; reflexivity|exact Hinv].
      + cbn [length] in Hn, Hf. destruct fuel as [|[|f]]; [lia|lia|].
        destruct (N.eqb_spec c 47) as [->|H47].
        * rewrite escape_slash. rewrite step_sep_path by exact Hinv. rewrite skip_slashes_escape.
          pose proof (span_sl_len s) as HL. pose proof (span_sl_head s) as HH.
          destruct (IH (snd (span_sl s)) (S f) (update_dir_state (set_matchbase (set_start_dir st) false))
                       (i + 1 + Z.of_nat (fst (span_sl s))) (T (S_ "[/]+") :: cur)) as [st' [cur' [E [J K]]]].
          { lia. } { lia. } { apply inv_after_sep. exact Hinv. }
          exists st', cur'. split; [exact E|]. split; [|exact K].
          rewrite J. rewrite C01Flat.jrev_cons. cbn [pl]. change (N.eqb 47%N 47%N) with true. cbv iota.
          rewrite (pl_true_span s). rewrite (pl_noslash_head _ HH). rewrite <- app_assoc. reflexivity.
        * change (escape b (c :: s)) with (escape_ch b c ++ escape b s). unfold escape_ch.
          assert (Hpl : pl false (c :: s) = re_escape_ch c ++ pl false s).
          { cbn [pl]. destruct (N.eqb_spec c 47); [contradiction|reflexivity]. }
          destruct (N.eqb_spec c 92) as [->|H92].
          { cbn [app]. rewrite (step_escaped cf Habort Hunix) by (assumption || discriminate).
            destruct (IH s (S f) (update_dir_state st) (i + 1 + 1) (T (re_escape_ch 92%N) :: cur)) as [st' [cur' [E [J K]]]].
            { lia. } { lia. } { apply inv_update. exact Hinv. }
            exists st', cur'. split; [exact E|]. split; [|exact K]. rewrite J, C01Flat.jrev_cons, Hpl, <- app_assoc. reflexivity. }
          destruct (ch_in c (if b then Sets.RE_MAGIC_ESCAPE_class_b else Sets.RE_MAGIC_ESCAPE_class_s)) eqn:Ecl.
          { destruct (class_facts2 b c Ecl) as [_ H46]. cbn [app].
            rewrite (step_escaped cf Habort Hunix) by assumption.
            destruct (IH s (S f) (update_dir_state st) (i + 1 + 1) (T (re_escape_ch c) :: cur)) as [st' [cur' [E [J K]]]].
            { lia. } { lia. } { apply inv_update. exact Hinv. }
            exists st', cur'. split; [exact E|]. split; [|exact K]. rewrite J, C01Flat.jrev_cons, Hpl, <- app_assoc. reflexivity. }
          { destruct (class_facts b c Ecl) as [H42 [H63 H91]]. cbn [app].
            destruct (step_plain_path f st i c (escape b s) cur Hinv H42 H63 H91 H92 H47 (escape_head_ok b s)) as [st1 [Hinv1 Eq]].
            rewrite Eq.
            destruct (IH s (S f) (update_dir_state st1) (i + 1) (T (re_escape_ch c) :: cur)) as [st' [cur' [E [J K]]]].
            { lia. } { lia. } { apply inv_update. exact Hinv1. }
            exists st', cur'. split; [exact E|]. split; [|exact K]. rewrite J, C01Flat.jrev_cons, Hpl, <- app_assoc. reflexivity. }
  Qed.
End PathRoot.

Theorem wcparse_escape_path_literal flags isb s :
  s <> [] ->
  has flags PATHNAME = true -> is_unix_style linux flags = true -> has flags NODOTDIR = false ->
  has flags REALPATH = false -> has flags u_NOABSOLUTE = false ->
  has flags u_ANCHOR = false -> has flags MATCHBASE = false -> has flags u_EXTMATCHBASE = false ->
  has flags u_TRANSLATE = false ->
  wcparse linux flags isb (escape isb s) =
  inl (S_ "^(?s" ++ (if get_case linux flags then [] else S_ "i") ++ S_ ":" ++ pl false s ++ S_ "[/]*?" ++ S_ ")$").
Proof.
  intros Hne Hp Hu Hnd Hr Hna Ha Hm He Ht. unfold wcparse.
  destruct (mk_cfg linux flags isb) as [cf st] eqn:E.
  assert (Ecf : cf = fst (mk_cfg linux flags isb)) by (rewrite E; reflexivity).
  assert (Est : st = snd (mk_cfg linux flags isb)) by (rewrite E; reflexivity).
  assert (Hpath : c_pathname cf = true) by (rewrite Ecf; exact Hp).
  assert (Hunix : c_unix cf = true) by (rewrite Ecf; exact Hu).
  assert (Hnodot : c_nodotdir cf = false) by (rewrite Ecf; exact Hnd).
  assert (Habort : c_bslash_abort cf = false) by (rewrite Ecf; unfold mk_cfg; cbn [fst c_bslash_abort]; rewrite Hu; reflexivity).
  assert (Hwd : c_windrive cf = false) by (rewrite Ecf; unfold mk_cfg; cbn [fst c_windrive]; rewrite Hu; reflexivity).
  assert (Hanchor : c_anchor cf = false) by (rewrite Ecf; exact Ha).
  assert (Hcap : c_capture cf = false) by (rewrite Ecf; exact Ht).
  assert (Hreal : c_realpath cf = false) by (rewrite Ecf; unfold mk_cfg; cbn [fst c_realpath]; rewrite Hr; reflexivity).
  assert (Hnoabs : c_noabs cf = false) by (rewrite Ecf; exact Hna).
  assert (Hcs : c_cs cf = get_case linux flags) by (rewrite Ecf; reflexivity).
  assert (Hsep : c_sep cf = S_ "[/]") by (rewrite Ecf; unfold mk_cfg; cbn [fst c_sep]; rewrite Hu; reflexivity).
  assert (Hmb : matchbase st = false) by (rewrite Est; exact Hm).
  assert (Hemb : extmatchbase st = false) by (rewrite Est; exact He).
  assert (Hinv : inv st) by (rewrite Est; split; reflexivity).
  unfold wcparse_cf. rewrite Hanchor, Hmb, Hemb. cbn [orb].
  rewrite escape_not_lone_bs.
  destruct s as [|c s]; [contradiction|].
  destruct (escape_cons isb c s) as [d [r Er]].
  remember (escape isb (c :: s)) as p eqn:Ep. rewrite Er. rewrite <- Er.
  unfold root. rewrite Hwd, Hpath, Hreal, Hnoabs. cbn [andb negb]. rewrite andb_false_r. cbn [negb andb].
  set (st1 := if starts_with [cSL] p then set_extmatchbase (set_matchbase (set_after_start st) false) false else set_after_start st).
  assert (Hinv1 : inv st1) by (unfold st1; destruct Hinv; destruct (starts_with [cSL] p); split; cbn; auto).
  destruct (path_loop_escaped cf Hpath Habort Hunix Hnodot Hsep isb (length (c :: s)) (c :: s) (fuel_for p) st1 0 [T []])
    as [st' [cur' [Eq [J [Hd' Hi']]]]].
  { lia. }
  { unfold fuel_for. pose proof (escape_length isb (c :: s)) as HL. rewrite <- Ep in HL. lia. }
  { exact Hinv1. }
  rewrite <- Ep in Eq. rewrite Eq.
  unfold clean_up_inverse. rewrite Hi'. cbn [Z.eqb].
  rewrite Hcap, Hcs, Hsep.
  replace (format Frag.u_PATH_TRAIL (S_ "[/]") []) with (S_ "[/]*?") by reflexivity.
  rewrite !C01Flat.jrev_cons, J. cbn [jrev rev map concat app itext].
  destruct (matchbase st' || extmatchbase st'); cbn [app]; rewrite <- ?app_assoc; reflexivity.
Qed.

(* ---- what the literal path regex accepts (formal regex semantics of C02Path) ---- *)
From WC.Proofs Require Import C02Path.
Open Scope N_scope.

Fixpoint plrx (prev : bool) (s : str) : rx :=
  match s with
  | [] => XEps
  | c :: s' => if N.eqb c 47 then XCat (if prev then XEps else xSep) (plrx true s') else XCat (XChr c) (plrx false s')
  end.

Lemma plrx_print : forall s prev, xprint (plrx prev s) = pl prev s.
Proof.
  induction s as [|c s IH]; intros prev; [reflexivity|]. cbn [plrx pl].
  destruct (N.eqb c 47); cbn [xprint]; rewrite IH; [destruct prev; reflexivity|reflexivity].
Qed.

(* documented meaning of an escaped path: the same characters, every run of separators of the pattern matched by a
   non-empty run of separators of the name, any run of separators at the end *)
Fixpoint DL (prev : bool) (s n : str) : Prop :=
  match s with
  | [] => slashes n
  | c :: s' =>
      if N.eqb c 47 then
        (if prev then DL true s' n else exists sl n', n = sl ++ n' /\ sl <> [] /\ slashes sl /\ DL true s' n')
      else exists n', n = c :: n' /\ DL false s' n'
  end.

Theorem plrx_equiv : forall s prev n, X (XCat (plrx prev s) xTrail) n [] <-> DL prev s n.
Proof.
  induction s as [|c s IH]; intros prev n.
  - cbn [plrx DL X]. unfold xTrail. split.
    + intros [s1 [s2 [-> [-> H]]]]. cbn [app]. cbn [X] in H. apply star_set_iff in H. exact H.
    + intros H. exists [], n. split; [reflexivity|]. split; [reflexivity|]. cbn [X]. apply star_set_iff. exact H.
  - cbn [plrx DL]. destruct (N.eqb c 47) eqn:Ec.
    + destruct prev.
      * rewrite <- IH. cbn [X]. split.
        -- intros [s1 [s2 [-> [[a [b [-> [-> Hb]]]] Ht]]]]. cbn [app] in *. exists b, s2. split; [reflexivity|]. split; assumption.
        -- intros [s1 [s2 [-> [Hb Ht]]]]. exists s1, s2. split; [reflexivity|]. split; [|exact Ht].
           exists [], s1. split; [reflexivity|]. split; [reflexivity|exact Hb].
      * split.
        -- intros H. cbn [X] in H. destruct H as [s1 [s2 [-> [[a [b [-> [Ha Hb]]]] Ht]]]].
           change (X xSep a (b ++ s2 ++ [])) in Ha. apply sep_iff in Ha. destruct Ha as [Hne Hsl].
           exists a, (b ++ s2). split; [rewrite app_assoc; reflexivity|]. split; [exact Hne|]. split; [exact Hsl|].
           apply IH. cbn [X]. exists b, s2. split; [reflexivity|]. split; assumption.
        -- intros [sl [n' [-> [Hne [Hsl H]]]]]. apply IH in H. cbn [X] in H. destruct H as [b [s2 [-> [Hb Ht]]]].
           cbn [X]. exists (sl ++ b), s2. split; [rewrite app_assoc; reflexivity|]. split; [|exact Ht].
           exists sl, b. split; [reflexivity|]. split; [|exact Hb].
           change (X xSep sl (b ++ s2 ++ [])). apply sep_iff. split; assumption.
    + split.
      * intros H. cbn [X] in H. destruct H as [s1 [s2 [-> [[a [b [-> [-> Hb]]]] Ht]]]].
        exists (b ++ s2). split; [reflexivity|]. apply IH. cbn [X]. exists b, s2. split; [reflexivity|]. split; assumption.
      * intros [n' [-> H]]. apply IH in H. cbn [X] in H. destruct H as [b [s2 [-> [Hb Ht]]]].
        cbn [X]. exists (c :: b), s2. split; [reflexivity|]. split; [|exact Ht].
        exists [c], b. split; [reflexivity|]. split; [reflexivity|exact Hb].
Qed.

(* (a) the escaped pattern accepts the string it was made from *)
Lemma DL_skip : forall j t n, DL true t n -> DL true (repeat 47 j ++ t) n.
Proof. induction j as [|j IH]; intros t n H; [exact H|]. cbn [repeat app DL]. change (N.eqb 47 47) with true. cbv iota. apply IH. exact H. Qed.

Lemma span_sl_eq s : s = repeat 47 (fst (span_sl s)) ++ snd (span_sl s).
Proof.
  induction s as [|c s IH]; [reflexivity|]. cbn [span_sl]. destruct (N.eqb_spec c 47) as [->|Hc]; cbn [fst snd repeat app]; [f_equal; exact IH|reflexivity].
Qed.

Lemma repeat_slashes j : slashes (repeat 47 j).
Proof. intros x Hx. apply repeat_spec in Hx. exact Hx. Qed.

Lemma DL_self : forall k s, (length s <= k)%nat ->
  (match s with c :: _ => N.eqb c 47 = false | [] => True end -> DL true s s) /\ DL false s s.
Proof.
  induction k as [|k IH]; intros s Hk.
  - destruct s; [|cbn in Hk; lia]. split; [intros _|]; intros x [].
  - destruct s as [|c s]; [split; [intros _|]; intros x []|]. cbn [length] in Hk.
    destruct (N.eqb c 47) eqn:Ec.
    + split; [intros H; discriminate|]. apply N.eqb_eq in Ec. subst c. cbn [DL]. change (N.eqb 47 47) with true. cbv iota.
      exists (47 :: repeat 47 (fst (span_sl s))), (snd (span_sl s)). split; [cbn [app]; f_equal; apply span_sl_eq|].
      split; [discriminate|]. split; [intros x [<-|Hx]; [reflexivity|apply repeat_slashes in Hx; exact Hx]|].
      rewrite (span_sl_eq s) at 1. apply DL_skip.
      pose proof (span_sl_len s) as HL. apply (IH (snd (span_sl s)) ltac:(lia)). apply span_sl_head.
    + assert (D : DL false (c :: s) (c :: s)).
      { cbn [DL]. rewrite Ec. exists s. split; [reflexivity|]. apply (IH s ltac:(lia)). }
      split; [intros _|exact D]. cbn [DL]. rewrite Ec. exists s. split; [reflexivity|]. apply (IH s ltac:(lia)).
Qed.

(* (b) whatever it accepts has the same segments *)
Fixpoint segs_aux (acc : str) (s : str) : list str :=
  match s with
  | [] => match acc with [] => [] | _ => [rev acc] end
  | c :: s' => if N.eqb c 47 then (match acc with [] => segs_aux [] s' | _ => rev acc :: segs_aux [] s' end) else segs_aux (c :: acc) s'
  end.
Definition segs (s : str) : list str := segs_aux [] s.

Lemma segs_slashes : forall n, slashes n -> segs_aux [] n = [].
Proof.
  induction n as [|x n IH]; intros H; [reflexivity|]. cbn [segs_aux].
  assert (x = 47) by (apply H; left; reflexivity). subst x. change (N.eqb 47 47) with true. cbv iota.
  apply IH. intros y Hy. apply H. right. exact Hy.
Qed.

Lemma segs_flush acc : forall sl n, sl <> [] -> slashes sl ->
  segs_aux acc (sl ++ n) = (match acc with [] => [] | _ => [rev acc] end) ++ segs_aux [] n.
Proof.
  intros sl n Hne Hs. destruct sl as [|x sl]; [contradiction|].
  assert (x = 47) by (apply Hs; left; reflexivity). subst x. cbn [app segs_aux]. change (N.eqb 47 47) with true. cbv iota.
  assert (Hs' : slashes sl) by (intros y Hy; apply Hs; right; exact Hy).
  assert (E : segs_aux [] (sl ++ n) = segs_aux [] n).
  { clear Hne Hs. induction sl as [|y sl IH]; [reflexivity|]. assert (y = 47) by (apply Hs'; left; reflexivity). subst y.
    cbn [app segs_aux]. change (N.eqb 47 47) with true. cbv iota. apply IH. intros z Hz. apply Hs'. right. exact Hz. }
  destruct acc; cbn [app]; rewrite E; reflexivity.
Qed.

Lemma DL_segs : forall s n acc prev, DL prev s n -> (prev = true -> acc = []) -> segs_aux acc n = segs_aux acc s.
Proof.
  induction s as [|c s IH]; intros n acc prev H Hp.
  - cbn [DL] in H. cbn [segs_aux]. destruct n as [|x n]; [reflexivity|].
    change (x :: n) with ([x] ++ n) in H |- *. 
    assert (Hx : slashes [x]) by (intros y [<-|[]]; apply H; left; reflexivity).
    assert (Hn : slashes n) by (intros y Hy; apply H; right; exact Hy).
    rewrite (segs_flush acc [x] n ltac:(discriminate) Hx). rewrite (segs_slashes n Hn). destruct acc; reflexivity.
  - cbn [DL] in H. cbn [segs_aux]. destruct (N.eqb c 47) eqn:Ec.
    + destruct prev.
      * rewrite (Hp eq_refl). apply (IH n [] true H). intros _. reflexivity.
      * destruct H as [sl [n' [-> [Hne [Hsl H]]]]]. rewrite (segs_flush acc sl n' Hne Hsl).
        rewrite (IH n' [] true H (fun _ => eq_refl)). destruct acc; reflexivity.
    + destruct H as [n' [-> H]]. cbn [segs_aux]. rewrite Ec. apply (IH n' (c :: acc) false H). intros X0. discriminate.
Qed.

Corollary DL_same_segments s n : DL false s n -> segs n = segs s.
Proof. intros H. apply (DL_segs s n [] false H). intros X0. discriminate. Qed.

(* both halves *)
Theorem C09_path_escape_literal flags isb s :
  s <> [] ->
  has flags PATHNAME = true -> is_unix_style linux flags = true -> has flags NODOTDIR = false ->
  has flags REALPATH = false -> has flags u_NOABSOLUTE = false ->
  has flags u_ANCHOR = false -> has flags MATCHBASE = false -> has flags u_EXTMATCHBASE = false ->
  has flags u_TRANSLATE = false ->
  exists r,
    wcparse linux flags isb (escape isb s) =
      inl (S_ "^(?s" ++ (if get_case linux flags then [] else S_ "i") ++ S_ ":" ++ xprint r ++ S_ ")$") /\
    X r s [] /\ (forall n, X r n [] <-> DL false s n) /\ (forall n, X r n [] -> segs n = segs s).
Proof.
  intros Hne. intros. exists (XCat (plrx false s) xTrail). split.
  - rewrite wcparse_escape_path_literal by assumption. cbn [xprint]. rewrite plrx_print.
    replace (xprint xTrail) with (S_ "[/]*?") by reflexivity. rewrite <- ?app_assoc. reflexivity.
  - split; [apply plrx_equiv; apply (DL_self (length s) s (le_n _))|].
    split; [intros n; apply plrx_equiv|]. intros n Hn. apply DL_same_segments. apply plrx_equiv. exact Hn.
Qed.

Example path_escape_example :
  wcparse linux (PATHNAME + EXTMATCH + GLOBSTAR) false (escape false (S_ "a*/+(b)//.c")) =
  inl (S_ "^(?s:a\*[/]+\+\(b\)[/]+\.c[/]*?)$").
Proof. vm_compute. reflexivity. Qed.
