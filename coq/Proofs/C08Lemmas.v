(* C08: the two list loops (translate / compile_pattern) are parallel: which list an item goes to, and how many
   entries each list gets, does not depend on the single-pattern parser at all. *)
From WC Require Import Str WcParse WcSplit Expand.
From WC.Gen Require Import Consts FlagFuns.
From Coq Require Import Lia.
Import Mwcparse.
Open Scope Z_scope.

Section Par.
  Variables parse1 parse2 : Z -> str -> str.
  Variables pm1 pm2 : Z -> Z.

  Lemma items_loop_parallel fl limit items : forall st1 st2,
      l_seen st1 = l_seen st2 -> l_total st1 = l_total st2 ->
      length (l_pos st1) = length (l_pos st2) -> length (l_neg st1) = length (l_neg st2) ->
      match items_loop (fun f p => inl (parse1 f p)) fl limit pm1 items st1,
            items_loop (fun f p => inl (parse2 f p)) fl limit pm2 items st2 with
      | inl r1, inl r2 => length (l_pos r1) = length (l_pos r2) /\ length (l_neg r1) = length (l_neg r2)
                          /\ l_seen r1 = l_seen r2 /\ l_total r1 = l_total r2
      | inr e1, inr e2 => e1 = e2
      | _, _ => False
      end.
  Proof.
    induction items as [|e r IH]; intros st1 st2 Hs Ht Hp Hn; cbn [items_loop].
    - auto.
    - rewrite <- Ht, <- Hs.
      destruct ((0 <? limit) && (limit <? l_total st1 + 1)); [reflexivity|].
      destruct (mem e (l_seen st1)).
      + apply IH; cbn; congruence.
      + destruct (is_negative fl e); apply IH; cbn [l_seen l_total l_pos l_neg]; try congruence;
          rewrite ?app_length; cbn [length]; lia.
  Qed.
End Par.
