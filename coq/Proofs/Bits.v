(* Bit-level facts connecting the `flags & CONST` tests of the code with Z.testbit. *)
From WC Require Import Str WcParse.
From WC.Gen Require Import Consts FlagFuns.
From Coq Require Import Lia.
Import Mwcparse.
Open Scope Z_scope.

Lemma land_pow2_testbit f k : 0 <= k -> (Z.land f (2 ^ k) =? 0) = negb (Z.testbit f k).
Proof.
  intros Hk. destruct (Z.testbit f k) eqn:Hb; cbn [negb].
  - apply Z.eqb_neq. intro H0.
    assert (H : Z.testbit (Z.land f (2 ^ k)) k = false) by (rewrite H0; apply Z.bits_0).
    rewrite Z.land_spec, Hb, Z.pow2_bits_true in H by lia. discriminate.
  - apply Z.eqb_eq. apply Z.bits_inj'. intros n Hn. rewrite Z.land_spec, Z.bits_0.
    destruct (Z.eq_dec n k) as [->|Hne]; [rewrite Hb; reflexivity|].
    rewrite Z.pow2_bits_false by lia. apply andb_false_r.
Qed.

Lemma has_pow2 f k : 0 <= k -> has f (2 ^ k) = Z.testbit f k.
Proof. intros. unfold has. rewrite land_pow2_testbit by assumption. apply negb_involutive. Qed.

(* the single-bit flags, as powers of two (checked against the regenerated constants) *)
Lemma DOTMATCH_bit : DOTMATCH = 2 ^ 6. Proof. reflexivity. Qed.
Lemma NEGATE_bit : NEGATE = 2 ^ 3. Proof. reflexivity. Qed.
Lemma NEGATEALL_bit : NEGATEALL = 2 ^ 15. Proof. reflexivity. Qed.
Lemma CASE_bit : CASE = 2 ^ 0. Proof. reflexivity. Qed.
Lemma IGNORECASE_bit : IGNORECASE = 2 ^ 1. Proof. reflexivity. Qed.
Lemma FORCEWIN_bit : FORCEWIN = 2 ^ 16. Proof. reflexivity. Qed.
Lemma FORCEUNIX_bit : FORCEUNIX = 2 ^ 17. Proof. reflexivity. Qed.
Lemma REALPATH_bit : REALPATH = 2 ^ 10. Proof. reflexivity. Qed.
Lemma PATHNAME_bit : PATHNAME = 2 ^ 5. Proof. reflexivity. Qed.

Lemma has_DOTMATCH f : has f DOTMATCH = Z.testbit f 6.
Proof. rewrite DOTMATCH_bit. apply has_pow2. lia. Qed.

Lemma testbit_lor_DOTMATCH f : Z.testbit (Z.lor f DOTMATCH) 6 = true.
Proof. rewrite Z.lor_spec. replace (Z.testbit DOTMATCH 6) with true by reflexivity. apply orb_true_r. Qed.

Lemma testbit_land_mask_6 f : Z.testbit (Z.land f FLAG_MASK) 6 = Z.testbit f 6.
Proof. rewrite Z.land_spec. replace (Z.testbit FLAG_MASK 6) with true by reflexivity. apply andb_true_r. Qed.

(* ---- conditions `negb (Z.eqb (Z.land f <literal>) 0)` of the translated code, as testbit ---- *)
Lemma cond_bit f k : 0 <= k -> negb (Z.eqb (Z.land f (2 ^ k)) 0) = Z.testbit f k.
Proof. intros. rewrite land_pow2_testbit by assumption. apply negb_involutive. Qed.

Lemma cond_1 f : negb (Z.eqb (Z.land f 1) 0) = Z.testbit f 0. Proof. exact (cond_bit f 0 ltac:(lia)). Qed.
Lemma cond_2 f : negb (Z.eqb (Z.land f 2) 0) = Z.testbit f 1. Proof. exact (cond_bit f 1 ltac:(lia)). Qed.
Lemma cond_8 f : negb (Z.eqb (Z.land f 8) 0) = Z.testbit f 3. Proof. exact (cond_bit f 3 ltac:(lia)). Qed.
Lemma cond_1024 f : negb (Z.eqb (Z.land f 1024) 0) = Z.testbit f 10. Proof. exact (cond_bit f 10 ltac:(lia)). Qed.
Lemma cond_32768 f : negb (Z.eqb (Z.land f 32768) 0) = Z.testbit f 15. Proof. exact (cond_bit f 15 ltac:(lia)). Qed.
Lemma cond_65536 f : negb (Z.eqb (Z.land f 65536) 0) = Z.testbit f 16. Proof. exact (cond_bit f 16 ltac:(lia)). Qed.
Lemma cond_131072 f : negb (Z.eqb (Z.land f 131072) 0) = Z.testbit f 17. Proof. exact (cond_bit f 17 ltac:(lia)). Qed.

(* mask 3 = CASE | IGNORECASE *)
Lemma cond_3 f : negb (Z.eqb (Z.land f 3) 0) = Z.testbit f 0 || Z.testbit f 1.
Proof.
  destruct (Z.testbit f 0) eqn:H0; destruct (Z.testbit f 1) eqn:H1; cbn [orb].
  - apply negb_true_iff, Z.eqb_neq. intro E.
    assert (X : Z.testbit (Z.land f 3) 0 = false) by (rewrite E; apply Z.bits_0).
    rewrite Z.land_spec, H0 in X. discriminate.
  - apply negb_true_iff, Z.eqb_neq. intro E.
    assert (X : Z.testbit (Z.land f 3) 0 = false) by (rewrite E; apply Z.bits_0).
    rewrite Z.land_spec, H0 in X. discriminate.
  - apply negb_true_iff, Z.eqb_neq. intro E.
    assert (X : Z.testbit (Z.land f 3) 1 = false) by (rewrite E; apply Z.bits_0).
    rewrite Z.land_spec, H1 in X. discriminate.
  - apply negb_false_iff, Z.eqb_eq. apply Z.bits_inj'. intros n Hn. rewrite Z.land_spec, Z.bits_0.
    destruct (Z.eq_dec n 0) as [->|N0]; [rewrite H0; reflexivity|].
    destruct (Z.eq_dec n 1) as [->|N1]; [rewrite H1; reflexivity|].
    replace (Z.testbit 3 n) with false; [apply andb_false_r|].
    symmetry. change 3 with (Z.ones 2). apply Z.ones_spec_high. lia.
  Qed.

Ltac bitconds :=
  rewrite ?cond_3, ?cond_1, ?cond_2, ?cond_8, ?cond_1024, ?cond_32768, ?cond_65536, ?cond_131072.
(* testbit of a bit expression at a concrete index *)
Ltac bitspec := repeat (rewrite ?Z.land_spec, ?Z.lor_spec, ?Z.lxor_spec).

(* compute testbit of closed numerals *)
Ltac ctb :=
  repeat match goal with
  | |- context [Z.testbit (Zpos ?p) (Zpos ?k)] =>
      let v := eval vm_compute in (Z.testbit (Zpos p) (Zpos k)) in
      change (Z.testbit (Zpos p) (Zpos k)) with v
  | |- context [Z.testbit (Zpos ?p) Z0] =>
      let v := eval vm_compute in (Z.testbit (Zpos p) Z0) in
      change (Z.testbit (Zpos p) Z0) with v
  end.
Ltac bits := repeat (bitconds; bitspec; ctb; cbn [andb orb xorb negb]).
