(* Bit-level facts connecting the `flags & CONST` tests of the code with Z.testbit. *)
From WC Require Import Str WcParse.
From WC.Gen Require Import Consts FlagFuns.
From Coq Require Import Lia.
Import Mwcparse.
Open Scope Z_scope.

Lemma land_pow2_testbit f k : 0 <= k -> (Z.land f (2 ^ k) =? 0) = negb (Z.testbit f k).
Proof.
  intros Hk. destruct (Z.testbit f k) eqn:Hb; cbn [negb].
  - apply Z.eqb_neq. intro H0.
    assert (H : Z.testbit (Z.land f (2 ^ k)) k = false) by (rewrite H0; apply Z.bits_0).
    rewrite Z.land_spec, Hb, Z.pow2_bits_true in H by lia. discriminate.
  - apply Z.eqb_eq. apply Z.bits_inj'. intros n Hn. rewrite Z.land_spec, Z.bits_0.
    destruct (Z.eq_dec n k) as [->|Hne]; [rewrite Hb; reflexivity|].
    rewrite Z.pow2_bits_false by lia. apply andb_false_r.
Qed.

Lemma has_pow2 f k : 0 <= k -> has f (2 ^ k) = Z.testbit f k.
Proof. intros. unfold has. rewrite land_pow2_testbit by assumption. apply negb_involutive. Qed.

(* the single-bit flags, as powers of two (checked against the regenerated constants) *)
Lemma DOTMATCH_bit : DOTMATCH = 2 ^ 6. Proof. reflexivity. Qed.
Lemma NEGATE_bit : NEGATE = 2 ^ 3. Proof. reflexivity. Qed.
Lemma NEGATEALL_bit : NEGATEALL = 2 ^ 15. Proof. reflexivity. Qed.
Lemma CASE_bit : CASE = 2 ^ 0. Proof. reflexivity. Qed.
Lemma IGNORECASE_bit : IGNORECASE = 2 ^ 1. Proof. reflexivity. Qed.
Lemma FORCEWIN_bit : FORCEWIN = 2 ^ 16. Proof. reflexivity. Qed.
Lemma FORCEUNIX_bit : FORCEUNIX = 2 ^ 17. Proof. reflexivity. Qed.
Lemma REALPATH_bit : REALPATH = 2 ^ 10. Proof. reflexivity. Qed.
Lemma PATHNAME_bit : PATHNAME = 2 ^ 5. Proof. reflexivity. Qed.

Lemma has_DOTMATCH f : has f DOTMATCH = Z.testbit f 6.
Proof. rewrite DOTMATCH_bit. apply has_pow2. lia. Qed.

Lemma testbit_lor_DOTMATCH f : Z.testbit (Z.lor f DOTMATCH) 6 = true.
Proof. rewrite Z.lor_spec. replace (Z.testbit DOTMATCH 6) with true by reflexivity. apply orb_true_r. Qed.

Lemma testbit_land_mask_6 f : Z.testbit (Z.land f FLAG_MASK) 6 = Z.testbit f 6.
Proof. rewrite Z.land_spec. replace (Z.testbit FLAG_MASK 6) with true by reflexivity. apply andb_true_r. Qed.
