(* C18: bytes and str tables agree. *)
From WC Require Import Str Spec WcParse.
From WC.Gen Require Import Posix Consts.
From WC.Proofs Require Import PosixLemmas.
From Coq Require Import Lia.
Open Scope N_scope.

(* the class text and ranges used for a bytes pattern and for a str pattern are identical, class by class *)
Theorem tables_agree : forall name t1 r1 t2 r2,
  In (name, false, t1, r1) table_u -> In (name, false, t2, r2) table_a -> r1 = r2.
Proof.
  intros name t1 r1 t2 r2 H1 H2.
  rewrite (posix_rows_documented name t1 r1 (or_introl H1)), (posix_rows_documented name t2 r2 (or_intror H2)).
  reflexivity.
Qed.

Definition texts (t : list (string * bool * list N * list (N * N))) :=
  map (fun r => let '(n, neg, txt, _) := r in (n, neg, txt)) (filter (fun r => let '(_, neg, _, _) := r in negb neg) t).
Lemma class_texts_equal : texts table_u = texts table_a.
Proof. vm_compute. reflexivity. Qed.

(* non-ASCII bytes (0x80-0xff) belong to no POSIX class: the classes operate per byte on ASCII only *)
Lemma doc_ranges_ascii name : Forall (fun r => snd r <= 127) (posix_doc name).
Proof.
  unfold posix_doc.
  repeat match goal with |- context [if ?b then _ else _] => destruct b end;
    repeat constructor; cbn; lia.
Qed.

Theorem high_bytes_in_no_class name c : 128 <= c -> in_ranges c (posix_doc name) = false.
Proof.
  intros Hc. pose proof (doc_ranges_ascii name) as F. unfold in_ranges.
  induction (posix_doc name) as [|[lo hi] l IH]; [reflexivity|]. cbn [existsb fst snd].
  inversion F; subst. cbn [snd] in *. rewrite IH by assumption.
  replace (c <=? hi) with false by (symmetry; apply N.leb_gt; lia). rewrite andb_false_r. reflexivity.
Qed.

(* the two "everything" ranges used when all ranges of a bracket were removed *)
Lemma ranges_pinned : Frag.ASCII_RANGE = [0; 45; 255] /\ Frag.UNICODE_RANGE = [0; 45; 1114111].
Proof. split; reflexivity. Qed.
