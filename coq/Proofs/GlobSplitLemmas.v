(* _GlobSplit (model GlobSplit.gsplit): structural facts about the part list, for every pattern and flag word.
   - it is never empty (Glob.glob reads parts[0] unconditionally);
   - every part but the last is a directory part (dir_only);
   - a part is marked magic exactly when its text contains a magic symbol of the flag word, a drive part never;
   - a part marked globstar is `**` or `***`, and a part marked globstarlong is a globstar part. *)
From WC Require Import Str WcParse WcSplit Expand Escape GlobSplit.
From WC.Gen Require Import Consts FlagFuns.
From Coq Require Import Lia.
Import Mwcparse.
Open Scope nat_scope.

Section Store.
  Variable cf : gscfg.

  Definition part_ok (g : gpart) : Prop :=
    (gp_drive g = false -> gp_magic g = g_is_magic cf (gp_text g)) /\
    (gp_drive g = true -> gp_magic g = false /\ gp_gstar g = false) /\
    (gp_gstar g = true -> str_eqb (gp_text g) (S_ "**") || str_eqb (gp_text g) (S_ "***") = true) /\
    (gp_gstarlong g = true -> gp_gstar g = true).

  Definition donly (g : gpart) : Prop := gp_dironly g = true.

  Lemma rev_eq_cons {A} (l : list A) x r : rev l = x :: r -> l = rev r ++ [x].
  Proof. intros H. rewrite <- (rev_involutive l), H. reflexivity. Qed.

  Inductive store_res (v : str) (l : list gpart) (d : bool) : list gpart -> Prop :=
  | SRsame : store_res v l d l
  | SRapp n : (forall last before, l = before ++ [last] -> True) -> part_ok n -> gp_dironly n = d -> store_res v l d (l ++ [n])
  | SRrepl before last n : l = before ++ [last] -> (part_ok last -> part_ok n) -> gp_dironly n = d -> store_res v l d (before ++ [n]).

  Lemma new_part_ok v (gsl : bool) d :
    let gs := (gs_globstarlong cf && str_eqb v (S_ "***")) || (gs_globstar cf && str_eqb v (S_ "**")) in
    part_ok {| gp_text := v; gp_magic := g_is_magic cf v; gp_gstar := gs;
               gp_gstarlong := gs_globstarlong cf && str_eqb v (S_ "***"); gp_dironly := d; gp_drive := false |}.
  Proof.
    cbn zeta. repeat split; cbn [gp_drive gp_magic gp_text gp_gstar gp_gstarlong]; try discriminate.
    - intros H. destruct (str_eqb v (S_ "***")), (str_eqb v (S_ "**")); cbn in *; try reflexivity.
      rewrite !andb_false_r in H. discriminate.
    - intros H. rewrite H. reflexivity.
  Qed.

  Lemma g_store_res v l d : store_res v l d (g_store cf v l d).
  Proof.
    unfold g_store.
    assert (Main : store_res v l d
      (match rev l with
       | last :: before =>
           if ((gs_globstarlong cf && str_eqb v (S_ "***")) || (gs_globstar cf && str_eqb v (S_ "**"))) && gp_gstar last
           then rev before ++ [{| gp_text := v; gp_magic := g_is_magic cf v;
                                  gp_gstar := (gs_globstarlong cf && str_eqb v (S_ "***")) || (gs_globstar cf && str_eqb v (S_ "**"));
                                  gp_gstarlong := (gs_globstarlong cf && str_eqb v (S_ "***")) || gp_gstarlong last;
                                  gp_dironly := d; gp_drive := false |}]
           else l ++ [{| gp_text := v; gp_magic := g_is_magic cf v;
                         gp_gstar := (gs_globstarlong cf && str_eqb v (S_ "***")) || (gs_globstar cf && str_eqb v (S_ "**"));
                         gp_gstarlong := gs_globstarlong cf && str_eqb v (S_ "***"); gp_dironly := d; gp_drive := false |}]
       | [] => [{| gp_text := v; gp_magic := g_is_magic cf v;
                   gp_gstar := (gs_globstarlong cf && str_eqb v (S_ "***")) || (gs_globstar cf && str_eqb v (S_ "**"));
                   gp_gstarlong := gs_globstarlong cf && str_eqb v (S_ "***"); gp_dironly := d; gp_drive := false |}]
       end)).
    { destruct (rev l) as [|last before] eqn:E.
      - assert (l = []) by (rewrite <- (rev_involutive l), E; reflexivity). subst l.
        apply (SRapp v [] d); [intros; exact I|apply (new_part_ok v true d)|reflexivity].
      - apply rev_eq_cons in E.
        destruct (((gs_globstarlong cf && str_eqb v (S_ "***")) || (gs_globstar cf && str_eqb v (S_ "**"))) && gp_gstar last) eqn:G.
        + eapply SRrepl; [exact E| |reflexivity].
          intros _. apply andb_true_iff in G. destruct G as [G1 G2].
          repeat split; cbn [gp_drive gp_magic gp_text gp_gstar gp_gstarlong]; try discriminate.
          * intros _. destruct (str_eqb v (S_ "***")), (str_eqb v (S_ "**")); cbn in *; try reflexivity.
            rewrite !andb_false_r in G1. discriminate.
          * intros _. exact G1.
        + apply SRapp; [intros; exact I|apply (new_part_ok v true d)|reflexivity]. }
    destruct l as [|g l']; [exact Main|].
    destruct v as [|c v']; [apply SRsame|exact Main].
  Qed.

  (* invariants of the part list *)
  Lemma store_forall_ok v l d : Forall part_ok l -> Forall part_ok (g_store cf v l d).
  Proof.
    intros H. destruct (g_store_res v l d) as [|n _ Hn _|before last n E Hn _]; [exact H| |].
    - apply Forall_app. split; [exact H|constructor; [exact Hn|constructor]].
    - subst l. apply Forall_app in H. destruct H as [Hb Hl]. inversion Hl; subst.
      apply Forall_app. split; [exact Hb|constructor; [apply Hn; assumption|constructor]].
  Qed.

  Lemma store_forall_donly v l : Forall donly l -> Forall donly (g_store cf v l true).
  Proof.
    intros H. destruct (g_store_res v l true) as [|n _ _ Hd|before last n E _ Hd]; [exact H| |].
    - apply Forall_app. split; [exact H|constructor; [exact Hd|constructor]].
    - subst l. apply Forall_app in H. destruct H as [Hb _].
      apply Forall_app. split; [exact Hb|constructor; [exact Hd|constructor]].
  Qed.

  Lemma store_removelast_donly v l d : Forall donly l -> Forall donly (removelast (g_store cf v l d)).
  Proof.
    intros H. destruct (g_store_res v l d) as [|n _ _ _|before last n E _ _].
    - clear -H. induction l as [|a l IH]; [constructor|]. inversion H; subst. destruct l; [constructor|].
      cbn [removelast]. constructor; [assumption|apply IH; assumption].
    - rewrite removelast_last. exact H.
    - subst l. rewrite removelast_last. apply Forall_app in H. apply H.
  Qed.

  Lemma store_nonempty v l d : l <> [] -> g_store cf v l d <> [].
  Proof.
    intros H. destruct (g_store_res v l d) as [|n _ _ _|before last n E _ _]; [exact H| |];
      intros C; apply app_eq_nil in C; destruct C; discriminate.
  Qed.

  Lemma store_nil_nonempty v d : g_store cf v [] d <> [].
  Proof. unfold g_store. destruct v; cbn; discriminate. Qed.

  Lemma store_all_inv p : forall splits s l,
    Forall part_ok l -> Forall donly l ->
    Forall part_ok (snd (g_store_all cf p splits s l)) /\ Forall donly (snd (g_store_all cf p splits s l)) /\
    (l <> [] \/ splits <> [] -> snd (g_store_all cf p splits s l) <> []).
  Proof.
    induction splits as [|[sp off] rest IH]; intros s l Hok Hd; cbn [g_store_all snd].
    - repeat split; auto. intros [H|H]; [exact H|contradiction].
    - destruct (IH (sp + off + 1) (g_store cf (slice p s sp) l true)) as [A [B C]];
        [apply store_forall_ok; exact Hok|apply store_forall_donly; exact Hd|].
      repeat split; auto. intros _. apply C. left.
      destruct l as [|g l']; [apply store_nil_nonempty|apply store_nonempty; discriminate].
  Qed.
End Store.

Definition all_but_last_dironly (l : list gpart) : Prop := Forall donly (removelast l).

Lemma gpart_lit_ok cf t d : g_is_magic cf t = false -> part_ok cf (gpart_lit t d false).
Proof. intros H. repeat split; cbn; try discriminate. intros _. symmetry. exact H. Qed.

Lemma drive_part_ok cf t : part_ok cf (gpart_lit t true true).
Proof. repeat split; cbn; try discriminate; reflexivity. Qed.

Lemma is_magic_nil cf : g_is_magic cf [] = false.
Proof. unfold g_is_magic. induction (magic_symbols (gs_bytes cf) (gs_flags cf)) as [|a l IH]; [reflexivity|cbn; exact IH]. Qed.

Lemma star_in_magic b fl : In 42%N (magic_symbols b fl).
Proof. unfold magic_symbols. apply in_or_app. left. destruct b; cbn; auto. Qed.

Lemma prefix_magic cf t : In 42%N t -> g_is_magic cf t = true.
Proof.
  intros H. unfold g_is_magic. apply existsb_exists. exists 42%N. split; [apply star_in_magic|].
  unfold ch_in. apply existsb_exists. exists 42%N. split; [exact H|reflexivity].
Qed.

Theorem gsplit_parts flags b p parts :
  gsplit flags b p = inl parts ->
  parts <> [] /\ all_but_last_dironly parts /\ Forall (part_ok (mk_gscfg flags b)) parts.
Proof.
  unfold gsplit. set (cf := mk_gscfg flags b). set (q1 := if is_negative flags p then take 1 p else p).
  set (rooted := starts_with [cSL] q1).
  set (parts0 := if rooted then [gpart_lit [cSL] true true] else []).
  set (start1 := if rooted then 1 else 0).
  destruct (g_split_loop (2 * length q1 + 2) (gs_extend cf) {| sidx := start1; srest := drop start1 q1 |} []) as [splits dangling].
  set (q := if dangling then removelast q1 else q1).
  assert (H0ok : Forall (part_ok cf) parts0) by (unfold parts0; destruct rooted; [constructor; [apply drive_part_ok|constructor]|constructor]).
  assert (H0d : Forall donly parts0) by (unfold parts0; destruct rooted; [constructor; [reflexivity|constructor]|constructor]).
  destruct (store_all_inv cf q splits start1 parts0 H0ok H0d) as [A [B C]].
  destruct (g_store_all cf q splits start1 parts0) as [start1' parts1] eqn:E. cbn [snd] in A, B, C.
  set (parts2 := if start1' <=? length q then match drop start1' q with [] => parts1 | v => g_store cf v parts1 false end else parts1).
  assert (P2ok : Forall (part_ok cf) parts2).
  { unfold parts2. destruct (start1' <=? length q); [|exact A]. destruct (drop start1' q); [exact A|apply store_forall_ok; exact A]. }
  assert (P2d : Forall donly (removelast parts2)).
  { unfold parts2. destruct (start1' <=? length q).
    - destruct (drop start1' q); [|apply store_removelast_donly; exact B].
      clear -B. induction parts1 as [|a l IH]; [constructor|]. inversion B; subst. destruct l; [constructor|].
      cbn [removelast]. constructor; [assumption|apply IH; assumption].
    - clear -B. induction parts1 as [|a l IH]; [constructor|]. inversion B; subst. destruct l; [constructor|].
      cbn [removelast]. constructor; [assumption|apply IH; assumption]. }
  set (parts3 := match q with [] => parts2 ++ [gpart_lit [] false false] | _ => parts2 end).
  assert (P3 : parts3 <> [] /\ Forall donly (removelast parts3) /\ Forall (part_ok cf) parts3).
  { unfold parts3. destruct q as [|c q'] eqn:Eq.
    - (* empty pattern: nothing was stored *)
      assert (parts2 = parts1).
      { unfold parts2. destruct (start1' <=? _); [|reflexivity]. destruct start1'; reflexivity. }
      split; [intros X; apply app_eq_nil in X; destruct X; discriminate|]. split.
      + rewrite removelast_last. rewrite H. exact B.
      + apply Forall_app. split; [exact P2ok|]. constructor; [|constructor]. apply gpart_lit_ok. apply is_magic_nil.
    - split; [|split; [exact P2d|exact P2ok]].
      unfold parts2.
      destruct splits as [|sp rest] eqn:Es.
      + (* no separator: the whole rest of the pattern is stored last *)
        cbn [g_store_all] in E. inversion E; subst start1' parts1.
        unfold parts0, start1. destruct rooted eqn:R.
        * destruct (1 <=? length (c :: q')); [|discriminate]. destruct (drop 1 (c :: q')); [discriminate|].
          apply store_nonempty. discriminate.
        * cbn [Nat.leb drop]. apply store_nil_nonempty.
      + assert (NE : parts1 <> []) by (apply C; right; discriminate).
        destruct (start1' <=? length (c :: q')); [|exact NE]. destruct (drop start1' (c :: q')); [exact NE|apply store_nonempty; exact NE]. }
  destruct P3 as [P3n [P3d P3ok]].
  set (fd := match parts3 with x :: _ => gp_drive x | [] => false end).
  set (fdo := match parts3 with x :: _ => gp_dironly x | [] => false end).
  set (pre := if gs_globstarlong cf && gs_follow cf
              then {| gp_text := S_ "***"; gp_magic := true; gp_gstar := true; gp_gstarlong := true; gp_dironly := true; gp_drive := false |}
              else {| gp_text := S_ "**"; gp_magic := true; gp_gstar := true; gp_gstarlong := false; gp_dironly := true; gp_drive := false |}).
  set (parts4 := if (gs_extmatchbase cf && negb fd) || (gs_matchbase cf && (length parts3 =? 1) && negb fdo) then pre :: parts3 else parts3).
  assert (P4 : parts4 <> [] /\ Forall donly (removelast parts4) /\ Forall (part_ok cf) parts4).
  { unfold parts4. destruct ((gs_extmatchbase cf && negb fd) || (gs_matchbase cf && (length parts3 =? 1) && negb fdo)); [|auto].
    split; [discriminate|]. split.
    - destruct parts3 as [|x l]; [contradiction|]. cbn [removelast]. constructor; [|exact P3d].
      unfold pre. destruct (gs_globstarlong cf && gs_follow cf); reflexivity.
    - constructor; [|exact P3ok]. unfold pre.
      destruct (gs_globstarlong cf && gs_follow cf); repeat split; cbn [gp_drive gp_magic gp_text gp_gstar gp_gstarlong]; try discriminate;
        try reflexivity; intros _; symmetry; apply prefix_magic; cbn; auto. }
  intros H. destruct (gs_noabs cf && match parts4 with x :: _ => gp_drive x | [] => false end); [discriminate|].
  inversion H; subst parts. exact P4.
Qed.

(* consecutive globstar segments merge into one part, which follows symlinks (`***`) if any of them does *)
Theorem store_merges_globstars cf v before last d :
  (gs_globstarlong cf && str_eqb v (S_ "***")) || (gs_globstar cf && str_eqb v (S_ "**")) = true ->
  gp_gstar last = true ->
  g_store cf v (before ++ [last]) d =
  before ++ [{| gp_text := v; gp_magic := g_is_magic cf v; gp_gstar := true;
                gp_gstarlong := (gs_globstarlong cf && str_eqb v (S_ "***")) || gp_gstarlong last;
                gp_dironly := d; gp_drive := false |}].
Proof.
  intros G L. unfold g_store.
  assert (Hv : v <> []).
  { intros ->. cbn in G. rewrite !andb_false_r in G. discriminate. }
  destruct v as [|c v']; [contradiction|].
  destruct (before ++ [last]) as [|x l] eqn:E; [destruct before; discriminate|].
  rewrite <- E. rewrite rev_app_distr. cbn [rev app]. rewrite G, L. cbn [andb]. rewrite rev_involutive. reflexivity.
Qed.

(* ... and a globstar segment after any other part is appended as a part of its own *)
Theorem store_appends cf v l d :
  v <> [] -> (forall before last, l = before ++ [last] ->
              ((gs_globstarlong cf && str_eqb v (S_ "***")) || (gs_globstar cf && str_eqb v (S_ "**"))) && gp_gstar last = false) ->
  g_store cf v l d =
  l ++ [{| gp_text := v; gp_magic := g_is_magic cf v;
           gp_gstar := (gs_globstarlong cf && str_eqb v (S_ "***")) || (gs_globstar cf && str_eqb v (S_ "**"));
           gp_gstarlong := gs_globstarlong cf && str_eqb v (S_ "***"); gp_dironly := d; gp_drive := false |}].
Proof.
  intros Hv H. unfold g_store. destruct v as [|c v']; [contradiction|].
  destruct (rev l) as [|last before] eqn:E.
  - assert (l = []) by (rewrite <- (rev_involutive l), E; reflexivity). subst l. reflexivity.
  - apply rev_eq_cons in E. rewrite (H _ _ E). destruct l; reflexivity.
Qed.
