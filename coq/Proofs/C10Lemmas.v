(* C10: the pattern-list loop raises only documented errors. *)
From WC Require Import Str WcParse WcSplit Expand.
From WC.Gen Require Import Consts FlagFuns.
From Coq Require Import Lia.
Import Mwcparse.
Open Scope Z_scope.

Section Errs.
  Variable P : platform.
  Variable brace : str -> Z -> option (list str).
  Variable tilde : Z -> str -> str.
  Variable norm : bool -> bool -> str -> option str.
  Variable parse : Z -> str -> str + perr.
  (* the only error the single-pattern parser can raise is the documented ValueError (absolute pattern) *)
  Hypothesis parse_errs : forall f p e, parse f p = inr e -> e = EValue.

  Definition documented (e : lerr) : Prop := e = LLimit \/ e = LValue \/ e = LSyntax.

  Lemma items_loop_errs fl limit pm items : forall st e,
      items_loop parse fl limit pm items st = inr e -> documented e.
  Proof.
    induction items as [|x r IH]; intros st e H; cbn [items_loop] in H; [discriminate|].
    destruct ((0 <? limit) && (limit <? l_total st + 1)); [injection H as <-; left; reflexivity|].
    destruct (mem x (l_seen st)); [eapply IH; exact H|].
    destruct (is_negative fl x).
    - destruct (parse _ (tl x)) eqn:Hp; [eapply IH; exact H|].
      apply parse_errs in Hp. subst. injection H as <-. right; left; reflexivity.
    - destruct (parse _ x) eqn:Hp; [eapply IH; exact H|].
      apply parse_errs in Hp. subst. injection H as <-. right; left; reflexivity.
  Qed.

  Lemma pats_loop_errs fl limit pm u pats : forall cl st e,
      pats_loop P brace tilde norm parse fl limit pm u pats cl st = inr e -> documented e.
  Proof.
    induction pats as [|p ps IH]; intros cl st e H; cbn [pats_loop] in H; [discriminate|].
    destruct (norm _ _ p); [|injection H as <-; right; right; reflexivity].
    destruct (expand P brace tilde fl cl s); [|injection H as <-; left; reflexivity].
    destruct (items_loop parse fl limit pm l st) eqn:Hi.
    - eapply IH; exact H.
    - injection H as <-. eapply items_loop_errs; exact Hi.
  Qed.

  Theorem list_core_errs tr isb flags limit pats neg0 e :
      list_core P brace tilde norm parse tr isb flags limit pats neg0 = inr e -> documented e.
  Proof.
    unfold list_core. intros H.
    destruct (pats_loop _ _ _ _ _ _ _ _ _ _ _ _) eqn:Hp; [|injection H as <-; eapply pats_loop_errs; exact Hp].
    destruct (l_neg l) eqn:Hn.
    - destruct (l_pos l); [discriminate|]. destruct (has _ NODIR); discriminate.
    - destruct (l_pos l) eqn:Hpo.
      + destruct (has _ NEGATEALL).
        * destruct (parse _ (S_ "**")) eqn:Hpp.
          -- destruct (has _ NODIR); discriminate.
          -- apply parse_errs in Hpp. subst. injection H as <-. right; left; reflexivity.
        * discriminate.
      + destruct (has _ NODIR); discriminate.
  Qed.

  Theorem pattern_lists_errs tr isb flags limit pats ex e :
      pattern_lists P brace tilde norm parse tr isb flags limit pats ex = inr e -> documented e.
  Proof.
    unfold pattern_lists. destruct ex as [ex|].
    - destruct (list_core _ _ _ _ _ _ _ _ _ ex []) as [[negative ?]|e0] eqn:H1.
      + apply list_core_errs.
      + intros H. injection H as <-. eapply list_core_errs; exact H1.
    - apply list_core_errs.
  Qed.
End Errs.
