(* C20, whole strings: a raw pattern written as a sequence of tokens - plain characters, `\xhh`, `\uhhhh`, `\Uhhhhhhhh`,
   octal escapes, the simple escapes, `\N{name}`, other backslash pairs - is decoded by the norm_pattern model to the
   concatenation of what each token denotes, for token sequences of any length. *)
From WC Require Import Str Norm.
From WC.Gen Require Import Consts.
From WC.Proofs Require Import C20Lemmas.
From Coq Require Import Lia.
Open Scope N_scope.

Inductive rtok :=
| RPlain (c : ch)
| RHex (letter : ch) (h : str)
| ROct (ds : str)
| RSimple (c : ch)
| ROther (c : ch)
| RName (nm : str) (u : ch).

Definition rsrc (t : rtok) : str :=
  match t with
  | RPlain c => [c]
  | RHex l h => 92 :: l :: h
  | ROct ds => 92 :: ds
  | RSimple c => [92; c]
  | ROther c => [92; c]
  | RName nm _ => 92 :: 78 :: 123 :: nm ++ [125]
  end.

Definition simple_val (c : ch) : str :=
  if c =? 97 then [7] else if c =? 98 then [8] else if c =? 102 then [12] else if c =? 110 then [10]
  else if c =? 114 then [13] else if c =? 116 then [9] else if c =? 118 then [11] else [92; 92].

Definition rval (b : bool) (t : rtok) : str :=
  match t with
  | RPlain c => [c]
  | RHex _ h => [hexnum h]
  | ROct ds => [if b then N.land (octnum ds) 255 else octnum ds]
  | RSimple c => simple_val c
  | ROther c => [92; c]
  | RName _ u => [u]
  end.

Definition head_not_oct (r : str) : bool := match r with c :: _ => negb (is_oct c) | [] => true end.

Section W.
  Variable uname : str -> option ch.

  (* well-formed token, given the source text that follows it *)
  Definition rwf (b : bool) (t : rtok) (after : str) : Prop :=
    match t with
    | RPlain c => c <> 92
    | RHex l h => forallb is_hex h = true /\ hexnum h < 1114112 /\
                  ((l = 120 /\ length h = 2%nat) \/ (b = false /\ l = 117 /\ length h = 4%nat) \/ (b = false /\ l = 85 /\ length h = 8%nat))
    | ROct ds => forallb is_oct ds = true /\ (1 <= length ds <= 3)%nat /\ (length ds = 3%nat \/ head_not_oct after = true)
    | RSimple c => ch_in c simple_escapes = true
    | ROther c => b = false /\ ch_in c simple_escapes = false /\ is_oct c = false /\ c <> 47 /\ c <> 78 /\ c <> 85 /\ c <> 117 /\ c <> 120
    | RName nm u => b = false /\ forallb (fun c => negb (c =? 125)) nm = true /\ uname nm = Some u
    end.

  Fixpoint rsrcs (ts : list rtok) : str := match ts with [] => [] | t :: r => rsrc t ++ rsrcs r end.
  Fixpoint rvals (b : bool) (ts : list rtok) : str := match ts with [] => [] | t :: r => rval b t ++ rvals b r end.
  Fixpoint rwfs (b : bool) (ts : list rtok) : Prop :=
    match ts with [] => True | t :: r => rwf b t (rsrcs r) /\ rwfs b r end.

  Lemma take_hex_app : forall n h r, length h = n -> forallb is_hex h = true -> take_hex n (h ++ r) = Some (h, r).
  Proof.
    induction n as [|n IH]; intros h r L H.
    - destruct h; [reflexivity|discriminate].
    - destruct h as [|c h]; [discriminate|]. cbn [forallb] in H. apply andb_true_iff in H. destruct H as [Hc Hh].
      cbn [app take_hex]. rewrite Hc. rewrite (IH h r); [reflexivity|cbn in L; lia|exact Hh].
  Qed.

  Lemma take_oct_app : forall n ds r, (length ds <= n)%nat -> forallb is_oct ds = true ->
    (length ds = n \/ head_not_oct r = true) -> take_oct n (ds ++ r) = (ds, r).
  Proof.
    induction n as [|n IH]; intros ds r L H E.
    - destruct ds; [reflexivity|cbn in L; lia].
    - destruct ds as [|c ds].
      + cbn [app]. destruct E as [E|E]; [discriminate|]. cbn [take_oct]. destruct r as [|x r']; [reflexivity|].
        cbn [head_not_oct] in E. apply negb_true_iff in E. rewrite E. reflexivity.
      + cbn [forallb] in H. apply andb_true_iff in H. destruct H as [Hc Hd]. cbn [app take_oct]. rewrite Hc.
        rewrite (IH ds r); [reflexivity|cbn in L; lia|exact Hd|]. destruct E as [E|E]; [left; cbn in E; lia|right; exact E].
  Qed.

  Lemma take_name_app : forall nm after, forallb (fun c => negb (c =? 125)) nm = true ->
    take_name ((nm ++ [125]) ++ after) = Some (nm, after).
  Proof.
    induction nm as [|x nm IH]; intros after Hn; [reflexivity|]. cbn [forallb] in Hn. apply andb_true_iff in Hn. destruct Hn as [Hx Hn].
    apply negb_true_iff in Hx. cbn [app take_name]. rewrite Hx. rewrite (IH after Hn). reflexivity.
  Qed.

  Lemma oct_facts c : is_oct c = true -> 48 <= c <= 55.
  Proof. unfold is_oct. intros H. apply andb_true_iff in H. destruct H as [A B]. apply N.leb_le in A, B. lia. Qed.

  Lemma eqb_false (c k : N) : c <> k -> (c =? k) = false.
  Proof. intros H. apply N.eqb_neq. exact H. Qed.

  Lemma simple_facts c : ch_in c simple_escapes = true ->
    c = 97 \/ c = 98 \/ c = 102 \/ c = 110 \/ c = 114 \/ c = 116 \/ c = 118 \/ c = 92.
  Proof.
    unfold ch_in, simple_escapes. cbn [S_ existsb map String.list_ascii_of_string]. intros H.
    repeat (apply orb_true_iff in H; destruct H as [H|H]; [apply N.eqb_eq in H; cbv in H; tauto|]). discriminate.
  Qed.

  (* one token at the head of the text *)
  Lemma norm_at_tok b nrm t after : rwf b t after -> (forall c, t <> RPlain c) ->
    norm_at uname b nrm true (rsrc t ++ after) = Some (inl (rval b t), after).
  Proof.
    intros W Hnp. destruct t as [c|l h|ds|c|c|nm u].
    - exfalso. apply (Hnp c). reflexivity.
    - destruct W as [Hh [Hv Hk]]. cbn [rsrc rval app]. unfold norm_at.
      replace (92 =? 47) with false by reflexivity. replace (92 =? 92) with true by reflexivity. cbn [negb].
      apply N.ltb_lt in Hv.
      destruct Hk as [[-> L]|[[-> [-> L]]|[-> [-> L]]]].
      + replace (120 =? 47) with false by reflexivity. replace (ch_in 120 simple_escapes) with false by reflexivity.
        replace (120 =? 85) with false by reflexivity. replace (120 =? 117) with false by reflexivity.
        rewrite !andb_false_r. replace (120 =? 120) with true by reflexivity.
        replace (take_hex 2 (h ++ after)) with (Some (h, after)) by (symmetry; exact (take_hex_app 2 h after L Hh)). rewrite Hv. reflexivity.
      + replace (117 =? 47) with false by reflexivity. replace (ch_in 117 simple_escapes) with false by reflexivity.
        replace (117 =? 85) with false by reflexivity. replace (117 =? 117) with true by reflexivity. cbn [negb andb].
        replace (take_hex 4 (h ++ after)) with (Some (h, after)) by (symmetry; exact (take_hex_app 4 h after L Hh)). rewrite Hv. reflexivity.
      + replace (85 =? 47) with false by reflexivity. replace (ch_in 85 simple_escapes) with false by reflexivity.
        replace (85 =? 85) with true by reflexivity. cbn [negb andb].
        replace (take_hex 8 (h ++ after)) with (Some (h, after)) by (symmetry; exact (take_hex_app 8 h after L Hh)). rewrite Hv. reflexivity.
    - destruct W as [Ho [[L1 L3] E]]. destruct ds as [|c ds]; [cbn in L1; lia|].
      cbn [forallb] in Ho. pose proof Ho as Ho0. apply andb_true_iff in Ho. destruct Ho as [Hc Hd].
      pose proof (oct_facts c Hc) as B. cbn [rsrc rval app]. unfold norm_at.
      replace (92 =? 47) with false by reflexivity. replace (92 =? 92) with true by reflexivity. cbn [negb].
      rewrite (eqb_false c 47) by lia.
      replace (ch_in c simple_escapes) with false.
      2:{ symmetry. destruct (ch_in c simple_escapes) eqn:X; [|reflexivity]. apply simple_facts in X. lia. }
      rewrite (eqb_false c 85), (eqb_false c 117), (eqb_false c 120) by lia. rewrite !andb_false_r. rewrite Hc.
      change (c :: ds ++ after) with ((c :: ds) ++ after).
      replace (take_oct 3 ((c :: ds) ++ after)) with (c :: ds, after) by (symmetry; exact (take_oct_app 3 (c :: ds) after L3 Ho0 E)). reflexivity.
    - cbn [rwf] in W. cbn [rsrc rval app]. unfold norm_at.
      replace (92 =? 47) with false by reflexivity. replace (92 =? 92) with true by reflexivity. cbn [negb].
      rewrite W. destruct (simple_facts c W) as [->|[->|[->|[->|[->|[->|[->| ->]]]]]]]; destruct b; reflexivity.
    - destruct W as [-> [Hs [Ho [H47 [H78 [H85 [H117 H120]]]]]]]. cbn [rsrc rval app].
      apply other_escape_kept; assumption.
    - destruct W as [-> [Hn Hu]]. cbn [rsrc rval app]. unfold norm_at.
      replace (92 =? 47) with false by reflexivity. replace (92 =? 92) with true by reflexivity. cbn [negb].
      replace (78 =? 47) with false by reflexivity. replace (ch_in 78 simple_escapes) with false by reflexivity.
      replace (78 =? 85) with false by reflexivity. replace (78 =? 117) with false by reflexivity. replace (78 =? 120) with false by reflexivity.
      replace (is_oct 78) with false by reflexivity. cbn [negb andb]. replace (78 =? 78) with true by reflexivity.
      pose proof (take_name_app nm after Hn) as TN.
      replace (take_name ((nm ++ [125]) ++ after)) with (Some (nm, after)) by (symmetry; exact TN).
      rewrite Hu. reflexivity.
  Qed.

  Lemma rsrc_len t : (1 <= length (rsrc t))%nat.
  Proof. destruct t; cbn; lia. Qed.

  Theorem norm_go_tokens b nrm : forall ts fuel, rwfs b ts -> (length (rsrcs ts) < fuel)%nat ->
    norm_go uname b nrm true fuel (rsrcs ts) = inl (rvals b ts).
  Proof.
    induction ts as [|t ts IH]; intros fuel W Hf.
    - destruct fuel; [cbn in Hf; lia|reflexivity].
    - destruct W as [Wt Wr]. cbn [rsrcs rvals] in *. rewrite app_length in Hf. pose proof (rsrc_len t) as L1.
      destruct fuel as [|f]; [lia|].
      destruct t as [c|l h|ds|c|c|nm u].
      + cbn [rsrc app rval]. cbn [rwf] in Wt. cbn [norm_go].
        destruct (N.eqb_spec c 47) as [->|H47].
        * unfold norm_at. replace (47 =? 47) with true by reflexivity. cbv iota.
          rewrite (IH f Wr) by (cbn [rsrc length] in Hf; lia). reflexivity.
        * rewrite (plain_char_untouched uname b nrm true c (rsrcs ts) Wt H47).
          rewrite (IH f Wr) by (cbn [rsrc length] in Hf; lia). reflexivity.
      + set (t := RHex l h) in *. pose proof (norm_at_tok b nrm t (rsrcs ts) Wt ltac:(intros c; discriminate)) as Q.
        destruct (rsrc t ++ rsrcs ts) as [|x s'] eqn:E; [destruct (rsrc t); cbn in L1, E; [lia|discriminate]|].
        cbn [norm_go]. rewrite Q. rewrite (IH f Wr) by lia. reflexivity.
      + set (t := ROct ds) in *. pose proof (norm_at_tok b nrm t (rsrcs ts) Wt ltac:(intros c; discriminate)) as Q.
        destruct (rsrc t ++ rsrcs ts) as [|x s'] eqn:E; [destruct (rsrc t); cbn in L1, E; [lia|discriminate]|].
        cbn [norm_go]. rewrite Q. rewrite (IH f Wr) by lia. reflexivity.
      + set (t := RSimple c) in *. pose proof (norm_at_tok b nrm t (rsrcs ts) Wt ltac:(intros c0; discriminate)) as Q.
        destruct (rsrc t ++ rsrcs ts) as [|x s'] eqn:E; [destruct (rsrc t); cbn in L1, E; [lia|discriminate]|].
        cbn [norm_go]. rewrite Q. rewrite (IH f Wr) by lia. reflexivity.
      + set (t := ROther c) in *. pose proof (norm_at_tok b nrm t (rsrcs ts) Wt ltac:(intros c0; discriminate)) as Q.
        destruct (rsrc t ++ rsrcs ts) as [|x s'] eqn:E; [destruct (rsrc t); cbn in L1, E; [lia|discriminate]|].
        cbn [norm_go]. rewrite Q. rewrite (IH f Wr) by lia. reflexivity.
      + set (t := RName nm u) in *. pose proof (norm_at_tok b nrm t (rsrcs ts) Wt ltac:(intros c0; discriminate)) as Q.
        destruct (rsrc t ++ rsrcs ts) as [|x s'] eqn:E; [destruct (rsrc t); cbn in L1, E; [lia|discriminate]|].
        cbn [norm_go]. rewrite Q. rewrite (IH f Wr) by lia. reflexivity.
  Qed.

  Theorem rawchars_decodes_tokens b nrm ts : rwfs b ts ->
    norm_pattern uname b nrm true (rsrcs ts) = inl (rvals b ts).
  Proof.
    intros W. unfold norm_pattern. rewrite andb_false_r. apply norm_go_tokens; [exact W|lia].
  Qed.
End W.

(* non-vacuity: `a\x41\u00e9\101\n\d\N{DIGIT ONE}*` with a one-entry name table *)
Example rawchars_tokens_example :
  let uname := fun nm => if str_eqb nm (S_ "DIGIT ONE") then Some 49 else None in
  let ts := [RPlain 97; RHex 120 (S_ "41"); RHex 117 (S_ "00e9"); ROct (S_ "101"); RSimple 110; ROther 100; RName (S_ "DIGIT ONE") 49; RPlain 42] in
  rwfs uname false ts /\ rsrcs ts = S_ "a\x41\u00e9\101\n\d\N{DIGIT ONE}*" /\ rvals false ts = [97; 65; 233; 65; 10; 92; 100; 49; 42].
Proof.
  intros uname ts. split; [|split; vm_compute; reflexivity].
  unfold ts. cbn [rwfs rwf rsrcs rsrc app].
  repeat match goal with |- _ /\ _ => split end;
    try (vm_compute; reflexivity); try discriminate; try (cbn; lia); try exact I;
    try (left; split; reflexivity); try (right; left; repeat split; reflexivity); try (left; reflexivity).
Qed.
