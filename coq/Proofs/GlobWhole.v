(* The whole walk (Glob.v: glob_dir with descent, glob_parts over a list of parts) against a declarative description:
   what a `**` part reaches is a chain of descendable directories, what a pattern matches is a chain of per-part choices.
   Sound and complete, for every listing oracle, part matcher, configuration, tree depth and pattern length. *)
From WC Require Import Str Glob.
From WC.Proofs Require Import GlobLemmas.
From Coq Require Import Lia.

Section W.
  Variable scandir : str -> option (list entry).
  Variable segmatch : N -> str -> bool.
  Variable cf : gcfg.

  Notation hit := (str * bool)%type.
  Notation ent := (str * bool * bool * bool)%type.

  Definition ename (x : ent) : str := fst (fst (fst x)).

  (* an entry the deep walk descends into *)
  Definition descends (gf : bool) (x : ent) : bool :=
    let '(file, is_dir, hidden, is_link) := x in
    negb (is_special file) && (negb hidden && is_dir && (negb is_link || g_follow cf || gf)).

  (* the inner loop of glob_dir with descent, the recursive call abstracted *)
  Fixpoint go_deep (rec : str -> option (list hit)) (gf : bool) (curdir : str) (m : matcher) (files : list ent) : option (list hit) :=
    match files with
    | [] => Some []
    | (file, is_dir, hidden, is_link) :: rest =>
      if is_special file then
        match go_deep rec gf curdir m rest with
        | None => None
        | Some r => Some ((match m with MNone => [] | _ => if run_matcher segmatch cf m file then [(pjoin curdir file, true)] else [] end) ++ r)
        end
      else
        let path := pjoin curdir file in
        let here := match m with
                    | MNone => if negb hidden then [(path, is_dir)] else []
                    | _ => if run_matcher segmatch cf m file then [(path, is_dir)] else []
                    end in
        let follow := negb is_link || g_follow cf || gf in
        let sub := if true && negb hidden && is_dir && follow then rec path else Some [] in
        match sub, go_deep rec gf curdir m rest with
        | Some s, Some r => Some (here ++ s ++ r)
        | _, _ => None
        end
    end.

  Lemma glob_dir_deep_unfold f curdir m dir_only gf :
    glob_dir scandir segmatch cf (S f) curdir m dir_only true gf =
    go_deep (fun path => glob_dir scandir segmatch cf f path m dir_only true gf) gf curdir m (iter scandir cf curdir dir_only).
  Proof.
    cbn [glob_dir]. generalize (iter scandir cf curdir dir_only) as files.
    induction files as [|[[[file is_dir] hidden] is_link] rest IH]; [reflexivity|].
    cbn [go_deep]. rewrite IH. reflexivity.
  Qed.

  (* membership in the result of one level *)
  Lemma go_deep_in rec gf curdir m : forall files r,
    go_deep rec gf curdir m files = Some r ->
    forall h, In h r <->
      (In h (shallow segmatch cf curdir m files) \/
       exists x s, In x files /\ descends gf x = true /\ rec (pjoin curdir (ename x)) = Some s /\ In h s).
  Proof.
    induction files as [|[[[file is_dir] hidden] is_link] rest IH]; intros r H h.
    - cbn in H. injection H as <-. cbn. split; [intros []|intros [[]|[x [s [[] _]]]]].
    - cbn [go_deep] in H. cbn [shallow].
      destruct (is_special file) eqn:Es.
      + destruct (go_deep rec gf curdir m rest) as [r0|] eqn:E0; [|discriminate]. injection H as <-.
        specialize (IH r0 eq_refl h). rewrite in_app_iff, in_app_iff, IH. split.
        * intros [A|[B|[x [s [X1 X2]]]]]; [left; left; exact A|left; right; exact B|right; exists x, s; split; [right; exact X1|exact X2]].
        * intros [[A|B]|[x [s [[X0|X1] [X2 X3]]]]]; [left; exact A|right; left; exact B| |right; right; exists x, s; split; [exact X1|split; [exact X2|exact X3]]].
          subst x. cbn [descends] in X2. rewrite Es in X2. discriminate.
      + destruct (if true && negb hidden && is_dir && (negb is_link || g_follow cf || gf) then rec (pjoin curdir file) else Some []) as [s0|] eqn:Esub; [|discriminate].
        destruct (go_deep rec gf curdir m rest) as [r0|] eqn:E0; [|discriminate]. injection H as <-.
        specialize (IH r0 eq_refl h). rewrite !in_app_iff, IH. split.
        * intros [A|[B|[C|[x [s [X1 X2]]]]]].
          -- left. left. exact A.
          -- cbn [andb] in Esub. destruct (negb hidden && is_dir && (negb is_link || g_follow cf || gf)) eqn:Ed.
             ++ right. exists (file, is_dir, hidden, is_link), s0. split; [left; reflexivity|]. split; [cbn [descends]; rewrite Es, Ed; reflexivity|].
                split; [exact Esub|exact B].
             ++ injection Esub as <-. destruct B.
          -- left. right. exact C.
          -- right. exists x, s. split; [right; exact X1|exact X2].
        * intros [[A|C]|[x [s [[X0|X1] [X2 [X3 X4]]]]]].
          -- left. exact A.
          -- right. right. left. exact C.
          -- subst x. cbn [descends] in X2. rewrite Es in X2. cbn [negb andb] in X2. cbn [andb] in Esub. rewrite X2 in Esub.
             cbn [ename fst] in X3. rewrite X3 in Esub. injection Esub as <-. right. left. exact X4.
          -- right. right. right. exists x, s. split; [exact X1|]. split; [exact X2|]. split; [exact X3|exact X4].
  Qed.

  (* every descendable entry's recursive call succeeded when the level succeeded *)
  Lemma go_deep_sub rec gf curdir m : forall files r,
    go_deep rec gf curdir m files = Some r ->
    forall x, In x files -> descends gf x = true -> exists s, rec (pjoin curdir (ename x)) = Some s.
  Proof.
    induction files as [|[[[file is_dir] hidden] is_link] rest IH]; intros r H x Hx Hd; [destruct Hx|].
    cbn [go_deep] in H. destruct (is_special file) eqn:Es.
    - destruct (go_deep rec gf curdir m rest) as [r0|] eqn:E0; [|discriminate].
      destruct Hx as [<-|Hx]; [cbn [descends] in Hd; rewrite Es in Hd; discriminate|]. exact (IH r0 eq_refl x Hx Hd).
    - destruct (if true && negb hidden && is_dir && (negb is_link || g_follow cf || gf) then rec (pjoin curdir file) else Some []) as [s0|] eqn:Esub; [|discriminate].
      destruct (go_deep rec gf curdir m rest) as [r0|] eqn:E0; [|discriminate].
      destruct Hx as [<-|Hx]; [|exact (IH r0 eq_refl x Hx Hd)].
      cbn [descends] in Hd. rewrite Es in Hd. cbn [negb andb] in Hd. cbn [andb] in Esub. rewrite Hd in Esub. exists s0. exact Esub.
  Qed.

  (* ---- what a deep walk reaches: chains of descendable directories ---- *)
  Inductive Desc (dir_only gf : bool) : str -> str -> Prop :=
  | DescHere d : Desc dir_only gf d d
  | DescStep c x d : In x (iter scandir cf c dir_only) -> descends gf x = true ->
                     Desc dir_only gf (pjoin c (ename x)) d -> Desc dir_only gf c d.

  Theorem deep_sound m dir_only gf : forall fuel curdir hits,
    glob_dir scandir segmatch cf fuel curdir m dir_only true gf = Some hits ->
    forall h, In h hits -> exists d, Desc dir_only gf curdir d /\ In h (shallow segmatch cf d m (iter scandir cf d dir_only)).
  Proof.
    induction fuel as [|f IH]; intros curdir hits H h Hin; [discriminate|].
    rewrite glob_dir_deep_unfold in H. apply (go_deep_in _ _ _ _ _ _ H) in Hin.
    destruct Hin as [Hin|[x [s [Hx [Hd [Hs Hin]]]]]].
    - exists curdir. split; [constructor|exact Hin].
    - destruct (IH _ _ Hs h Hin) as [d [D1 D2]]. exists d. split; [|exact D2]. eapply DescStep; eassumption.
  Qed.

  Theorem deep_complete m dir_only gf : forall fuel curdir hits,
    glob_dir scandir segmatch cf fuel curdir m dir_only true gf = Some hits ->
    forall d h, Desc dir_only gf curdir d -> In h (shallow segmatch cf d m (iter scandir cf d dir_only)) -> In h hits.
  Proof.
    induction fuel as [|f IH]; intros curdir hits H d h D Hin; [discriminate|].
    rewrite glob_dir_deep_unfold in H. apply (go_deep_in _ _ _ _ _ _ H).
    destruct D as [d|c x d Hx Hd D'].
    - left. exact Hin.
    - right. destruct (go_deep_sub _ _ _ _ _ _ H x Hx Hd) as [s Hs]. exists x, s. split; [exact Hx|]. split; [exact Hd|]. split; [exact Hs|].
      exact (IH _ _ Hs d h D' Hin).
  Qed.

  (* ---- a whole pattern: the parts one after the other ---- *)
  Definition is_gstar (p : part) : bool := p_magic p && p_gstar p.
  Definition hd_part (l : list part) : option part := match l with x :: _ => Some x | [] => None end.

  Inductive Matches : str -> part -> list part -> hit -> Prop :=
  | MLast curdir p rest h :
      is_gstar p = false -> p_dironly p = false ->
      In h (shallow segmatch cf curdir (get_matcher cf (Some p)) (iter scandir cf curdir false)) -> Matches curdir p rest h
  | MDirLast curdir p h :
      is_gstar p = false -> p_dironly p = true ->
      In h (shallow segmatch cf curdir (get_matcher cf (Some p)) (iter scandir cf curdir true)) -> Matches curdir p [] h
  | MDirMore curdir p t rest' d h :
      is_gstar p = false -> p_dironly p = true ->
      In d (shallow segmatch cf curdir (get_matcher cf (Some p)) (iter scandir cf curdir true)) ->
      Matches (fst d) t rest' h -> Matches curdir p (t :: rest') h
  | MStarZero curdir p :
      is_gstar p = true -> curdir <> [] -> Matches curdir p [] (pjoin curdir [], true)
  | MStarEnd curdir p rest d h :
      is_gstar p = true -> tl rest = [] ->
      let dir_only := match hd_part rest with Some x => p_dironly x | None => p_dironly p end in
      Desc dir_only (p_gstarlong p) curdir d ->
      In h (shallow segmatch cf d (get_matcher cf (hd_part rest)) (iter scandir cf d dir_only)) -> Matches curdir p rest h
  | MStarMore curdir p t1 t2 rest2 d h0 h :
      is_gstar p = true ->
      Desc (p_dironly t1) (p_gstarlong p) curdir d ->
      In h0 (shallow segmatch cf d (get_matcher cf (Some t1)) (iter scandir cf d (p_dironly t1))) ->
      Matches (fst h0) t2 rest2 h -> Matches curdir p (t1 :: t2 :: rest2) h.

  (* the `feed` loop: every hit is continued with the next part *)
  Fixpoint feed_each (f : nat) (t : part) (rest' : list part) (l : list hit) : option (list hit) :=
    match l with
    | [] => Some []
    | (path, _) :: l' =>
      match glob_parts scandir segmatch cf f path t rest', feed_each f t rest' l' with
      | Some a, Some b => Some (a ++ b)
      | _, _ => None
      end
    end.

  Lemma feed_each_in f t rest' : forall l r, feed_each f t rest' l = Some r ->
    forall h, In h r <-> exists x a, In x l /\ glob_parts scandir segmatch cf f (fst x) t rest' = Some a /\ In h a.
  Proof.
    induction l as [|[path dd] l IH]; intros r H h.
    - injection H as <-. split; [intros []|intros [x [a [[] _]]]].
    - cbn [feed_each] in H. destruct (glob_parts scandir segmatch cf f path t rest') as [a0|] eqn:Ea; [|discriminate].
      destruct (feed_each f t rest' l) as [b0|] eqn:Eb; [|discriminate]. injection H as <-.
      rewrite in_app_iff, (IH b0 eq_refl h). split.
      + intros [A|[x [a [X1 X2]]]]; [exists (path, dd), a0; split; [left; reflexivity|split; [exact Ea|exact A]]|exists x, a; split; [right; exact X1|exact X2]].
      + intros [x [a [[<-|X1] [X2 X3]]]]; [left; cbn [fst] in X2; rewrite Ea in X2; injection X2 as <-; exact X3|right; exists x, a; split; [exact X1|split; [exact X2|exact X3]]].
  Qed.

  Lemma feed_each_sub f t rest' : forall l r, feed_each f t rest' l = Some r ->
    forall x, In x l -> exists a, glob_parts scandir segmatch cf f (fst x) t rest' = Some a.
  Proof.
    induction l as [|[path dd] l IH]; intros r H x Hx; [destruct Hx|].
    cbn [feed_each] in H. destruct (glob_parts scandir segmatch cf f path t rest') as [a0|] eqn:Ea; [|discriminate].
    destruct (feed_each f t rest' l) as [b0|] eqn:Eb; [|discriminate].
    destruct Hx as [<-|Hx]; [exists a0; exact Ea|exact (IH b0 eq_refl x Hx)].
  Qed.

  (* glob_parts with its local `feed` replaced by [feed_each] *)
  Lemma glob_parts_unfold f curdir p rest :
    glob_parts scandir segmatch cf (S f) curdir p rest =
    if is_gstar p then
      let this1 := hd_part rest in
      let rest1 := tl rest in
      let globstar_end := match this1 with None => true | Some _ => false end in
      let dir_only := match this1 with Some x => p_dironly x | None => p_dironly p end in
      let zero := if globstar_end && negb (match curdir with [] => true | _ => false end) then [(pjoin curdir [], true)] else [] in
      match glob_dir scandir segmatch cf f curdir (get_matcher cf this1) dir_only true (p_gstarlong p) with
      | None => None
      | Some hits =>
        match (match hd_part rest1 with None => Some hits | Some t => feed_each f t (tl rest1) hits end) with
        | None => None
        | Some r => Some (zero ++ r)
        end
      end
    else if negb (p_dironly p) then glob_dir scandir segmatch cf f curdir (get_matcher cf (Some p)) false false false
    else match glob_dir scandir segmatch cf f curdir (get_matcher cf (Some p)) true false false with
         | None => None
         | Some hits => match hd_part rest with None => Some hits | Some t => feed_each f t (tl rest) hits end
         end.
  Proof.
    assert (FE : forall t rest' l,
      (fix each (l : list hit) : option (list hit) :=
         match l with
         | [] => Some []
         | (path, _) :: l' =>
           match glob_parts scandir segmatch cf f path t rest', each l' with
           | Some a, Some b => Some (a ++ b)
           | _, _ => None
           end
         end) l = feed_each f t rest' l).
    { intros t rest' l. induction l as [|[path dd] l IH]; [reflexivity|]. cbn [feed_each]. rewrite <- IH. reflexivity. }
    cbn [glob_parts]. unfold is_gstar, hd_part.
    destruct (p_magic p && p_gstar p).
    - destruct rest as [|t1 rest1]; cbn [tl].
      + destruct (glob_dir scandir segmatch cf f curdir (get_matcher cf None) (p_dironly p) true (p_gstarlong p)); reflexivity.
      + destruct (glob_dir scandir segmatch cf f curdir (get_matcher cf (Some t1)) (p_dironly t1) true (p_gstarlong p)) as [hits|]; [|reflexivity].
        destruct rest1 as [|t2 rest2]; cbn [tl]; [reflexivity|]. rewrite FE. reflexivity.
    - destruct (negb (p_dironly p)); [reflexivity|].
      destruct (glob_dir scandir segmatch cf f curdir (get_matcher cf (Some p)) true false false) as [hits|]; [|reflexivity].
      destruct rest as [|t rest']; cbn [tl]; [reflexivity|]. rewrite FE. reflexivity.
  Qed.

  Lemma shallow_of_glob_dir f curdir m dir_only gf hits :
    glob_dir scandir segmatch cf f curdir m dir_only false gf = Some hits -> hits = shallow segmatch cf curdir m (iter scandir cf curdir dir_only).
  Proof. destruct f as [|f]; [discriminate|]. rewrite (glob_dir_shallow scandir segmatch cf). intros H. injection H as <-. reflexivity. Qed.

  Theorem glob_parts_sound : forall fuel curdir p rest hits,
    glob_parts scandir segmatch cf fuel curdir p rest = Some hits -> forall h, In h hits -> Matches curdir p rest h.
  Proof.
    induction fuel as [|f IH]; intros curdir p rest hits H h Hin; [discriminate|].
    rewrite glob_parts_unfold in H. destruct (is_gstar p) eqn:Eg.
    - cbv zeta in H.
      destruct (glob_dir scandir segmatch cf f curdir (get_matcher cf (hd_part rest))
                 (match hd_part rest with Some x => p_dironly x | None => p_dironly p end) true (p_gstarlong p)) as [dh|] eqn:Ed; [|discriminate].
      destruct (match hd_part (tl rest) with None => Some dh | Some t => feed_each f t (tl (tl rest)) dh end) as [r|] eqn:Ef; [|discriminate].
      injection H as <-. apply in_app_or in Hin. destruct Hin as [Hz|Hr].
      + destruct rest as [|t1 rest1]; [|destruct Hz].
        cbn [hd_part andb] in Hz. destruct curdir as [|c0 cd]; [destruct Hz|]. cbn [negb] in Hz. destruct Hz as [<-|[]].
        apply MStarZero; [exact Eg|discriminate].
      + destruct rest as [|t1 [|t2 rest2]]; cbn [hd_part tl] in *.
        * injection Ef as <-. destruct (deep_sound _ _ _ _ _ _ Ed h Hr) as [d [D1 D2]].
          apply (MStarEnd curdir p [] d h Eg eq_refl D1 D2).
        * injection Ef as <-. destruct (deep_sound _ _ _ _ _ _ Ed h Hr) as [d [D1 D2]].
          apply (MStarEnd curdir p [t1] d h Eg eq_refl D1 D2).
        * apply (feed_each_in _ _ _ _ _ Ef) in Hr. destruct Hr as [x [a [X1 [X2 X3]]]].
          destruct (deep_sound _ _ _ _ _ _ Ed x X1) as [d [D1 D2]].
          eapply MStarMore; [exact Eg|exact D1|exact D2|]. exact (IH _ _ _ _ X2 h X3).
    - destruct (negb (p_dironly p)) eqn:Ed.
      + apply shallow_of_glob_dir in H. subst hits. apply MLast; [exact Eg|destruct (p_dironly p); [discriminate|reflexivity]|exact Hin].
      + assert (Hdo : p_dironly p = true) by (destruct (p_dironly p); [reflexivity|discriminate]).
        destruct (glob_dir scandir segmatch cf f curdir (get_matcher cf (Some p)) true false false) as [dh|] eqn:E1; [|discriminate].
        apply shallow_of_glob_dir in E1. subst dh.
        destruct rest as [|t rest']; cbn [hd_part tl] in H.
        * injection H as <-. apply MDirLast; assumption.
        * apply (feed_each_in _ _ _ _ _ H) in Hin. destruct Hin as [x [a [X1 [X2 X3]]]].
          eapply MDirMore; [exact Eg|exact Hdo|exact X1|]. exact (IH _ _ _ _ X2 h X3).
  Qed.

  Theorem glob_parts_complete : forall fuel curdir p rest hits,
    glob_parts scandir segmatch cf fuel curdir p rest = Some hits -> forall h, Matches curdir p rest h -> In h hits.
  Proof.
    induction fuel as [|f IH]; intros curdir p rest hits H h M; [discriminate|].
    rewrite glob_parts_unfold in H. destruct M as [curdir p rest h Eg Hd Hin|curdir p h Eg Hd Hin|curdir p t rest' d h Eg Hd Hin M'|curdir p Eg Hne
                                                   |curdir p rest d h Eg Htl dir_only D Hin|curdir p t1 t2 rest2 d h0 h Eg D Hin M'].
    - rewrite Eg, Hd in H. cbn [negb] in H. apply shallow_of_glob_dir in H. subst hits. exact Hin.
    - rewrite Eg, Hd in H. cbn [negb hd_part] in H.
      destruct (glob_dir scandir segmatch cf f curdir (get_matcher cf (Some p)) true false false) as [dh|] eqn:E1; [|discriminate].
      apply shallow_of_glob_dir in E1. subst dh. injection H as <-. exact Hin.
    - rewrite Eg, Hd in H. cbn [negb hd_part tl] in H.
      destruct (glob_dir scandir segmatch cf f curdir (get_matcher cf (Some p)) true false false) as [dh|] eqn:E1; [|discriminate].
      apply shallow_of_glob_dir in E1. subst dh.
      destruct (feed_each_sub _ _ _ _ _ H d Hin) as [a Ha].
      apply (feed_each_in _ _ _ _ _ H). exists d, a. split; [exact Hin|]. split; [exact Ha|]. exact (IH _ _ _ _ Ha h M').
    - rewrite Eg in H. cbv zeta in H. cbn [hd_part tl] in H.
      destruct (glob_dir scandir segmatch cf f curdir (get_matcher cf None) (p_dironly p) true (p_gstarlong p)) as [dh|]; [|discriminate].
      injection H as <-. apply in_or_app. left. destruct curdir as [|c0 cd]; [contradiction|]. left. reflexivity.
    - rewrite Eg in H. cbv zeta in H.
      destruct (glob_dir scandir segmatch cf f curdir (get_matcher cf (hd_part rest))
                 (match hd_part rest with Some x => p_dironly x | None => p_dironly p end) true (p_gstarlong p)) as [dh|] eqn:Ed; [|discriminate].
      rewrite Htl in H. cbn [hd_part] in H. injection H as <-. apply in_or_app. right.
      exact (deep_complete _ _ _ _ _ _ Ed d h D Hin).
    - rewrite Eg in H. cbv zeta in H. cbn [hd_part tl] in H.
      destruct (glob_dir scandir segmatch cf f curdir (get_matcher cf (Some t1)) (p_dironly t1) true (p_gstarlong p)) as [dh|] eqn:Ed; [|discriminate].
      destruct (feed_each f t2 rest2 dh) as [r|] eqn:Ef; [|discriminate]. injection H as <-. cbn [app].
      pose proof (deep_complete _ _ _ _ _ _ Ed d h0 D Hin) as Hh0.
      destruct (feed_each_sub _ _ _ _ _ Ef h0 Hh0) as [a Ha].
      apply (feed_each_in _ _ _ _ _ Ef). exists h0, a. split; [exact Hh0|]. split; [exact Ha|]. exact (IH _ _ _ _ Ha h M').
  Qed.

  Corollary glob_parts_spec fuel curdir p rest hits :
    glob_parts scandir segmatch cf fuel curdir p rest = Some hits -> forall h, In h hits <-> Matches curdir p rest h.
  Proof. intros H h. split; [apply (glob_parts_sound _ _ _ _ _ H)|apply (glob_parts_complete _ _ _ _ _ H)]. Qed.
End W.

(* non-vacuity: the tree  a/ , a/x , a/b/ , a/b/x , lnk -> a  and the pattern `**/x` (a globstar part, then the literal
   part `x`): the model returns exactly a/x and a/b/x (not lnk/x: the link is not followed), and each is a [Matches] *)
Definition ex_scandir (d : str) : option (list entry) :=
  if str_eqb d [] then Some [{| e_name := S_ "a"; e_dir := Some true; e_link := false |}; {| e_name := S_ "lnk"; e_dir := Some true; e_link := true |}]
  else if str_eqb d (S_ "a") then Some [{| e_name := S_ "x"; e_dir := Some false; e_link := false |}; {| e_name := S_ "b"; e_dir := Some true; e_link := false |}]
  else if str_eqb d (S_ "a/b") then Some [{| e_name := S_ "x"; e_dir := Some false; e_link := false |}]
  else if str_eqb d (S_ "lnk") then Some [{| e_name := S_ "x"; e_dir := Some false; e_link := false |}; {| e_name := S_ "b"; e_dir := Some true; e_link := false |}]
  else None.
Definition ex_cf : gcfg := {| g_dot := false; g_follow := false; g_cs := true; g_mark := false; g_nounique := false; g_pathlib := false; g_has_excl := false |}.
Definition ex_star : part := {| p_pat := S_ "**"; p_id := 0; p_magic := true; p_gstar := true; p_gstarlong := false; p_dironly := true; p_drive := false |}.
Definition ex_x : part := {| p_pat := S_ "x"; p_id := 1; p_magic := false; p_gstar := false; p_gstarlong := false; p_dironly := false; p_drive := false |}.

Example whole_walk_example :
  glob_parts ex_scandir (fun _ _ => false) ex_cf 10 [] ex_star [ex_x] = Some [(S_ "a/x", false); (S_ "a/b/x", false)] /\
  Matches ex_scandir (fun _ _ => false) ex_cf [] ex_star [ex_x] (S_ "a/b/x", false) /\
  ~ Matches ex_scandir (fun _ _ => false) ex_cf [] ex_star [ex_x] (S_ "lnk/x", false).
Proof.
  assert (E : glob_parts ex_scandir (fun _ _ => false) ex_cf 10 [] ex_star [ex_x] = Some [(S_ "a/x", false); (S_ "a/b/x", false)]) by (vm_compute; reflexivity).
  split; [exact E|]. split.
  - apply (glob_parts_sound _ _ _ _ _ _ _ _ E). right. left. reflexivity.
  - intros M. apply (glob_parts_complete _ _ _ _ _ _ _ _ E) in M. destruct M as [M|[M|[]]]; vm_compute in M; discriminate.
Qed.
