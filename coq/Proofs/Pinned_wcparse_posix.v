(* GENERATED ONCE by tools/mkpinned.py (committed snapshot; not regenerated at check time). *)
From Coq Require Import List NArith String.
Import ListNotations.
From WC.Gen Require Import Consts.

Lemma pin_wcparse_RE_POSIX : ReSrc.wcparse_RE_POSIX = [58; 40; 97; 108; 110; 117; 109; 124; 97; 108; 112; 104; 97; 124; 97; 115; 99; 105; 105; 124; 98; 108; 97; 110; 107; 124; 99; 110; 116; 114; 108; 124; 100; 105; 103; 105; 116; 124; 103; 114; 97; 112; 104; 124; 108; 111; 119; 101; 114; 124; 112; 114; 105; 110; 116; 124; 112; 117; 110; 99; 116; 124; 115; 112; 97; 99; 101; 124; 117; 112; 112; 101; 114; 124; 119; 111; 114; 100; 124; 120; 100; 105; 103; 105; 116; 41; 58; 92; 93]%N.
Proof. reflexivity. Qed.
Lemma pin_wcparse_RE_POSIX_flags : ReSrc.wcparse_RE_POSIX_flags = ""%string.
Proof. reflexivity. Qed.
