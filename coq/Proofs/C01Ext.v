(* C01, flat fragment with EXTMATCH possibly on: the end-to-end theorem of C01Flat for every fnmatch flag word, provided no
   `(` directly follows one of the group-introducing characters `? * + @ !` (otherwise the text is a group, see below). *)
From WC Require Import Str WcParse.
From WC.Gen Require Import Consts FlagFuns.
From WC.Proofs Require Import C09Parse C01Flat.
From Coq Require Import Lia.
Import Mwcparse.
Open Scope Z_scope.

(* the fields the flat loop looks at; a failed group attempt changes at most match_dot_dir *)
Definition core_eq (a b : pst) : Prop :=
  after_start a = after_start b /\ dir_start a = dir_start b /\ in_list a = in_list b /\ inv_nest a = inv_nest b /\
  inv_ext a = inv_ext b /\ globstar a = globstar b.

Lemma ext_fail_core f cf st ty it cur :
  head_ok (rest it) = true -> in_list st = false -> inv_nest st = false ->
  exists st', ext (S f) cf st ty it cur true = Ok (false, st', it, cur) /\ core_eq st' st.
Proof.
  intros Hh Hl Hn. cbn [ext]. unfold next. rewrite Hl, Hn.
  destruct (rest it) as [|c r] eqn:Er.
  - eexists; split; [reflexivity|]. repeat split; cbn; auto.
  - cbn [head_ok] in Hh. unfold cLP. rewrite Hh.
    eexists; split; [reflexivity|]. repeat split; cbn; auto.
Qed.

Definition inv2x (first : bool) (st : pst) : Prop := inv2 first st /\ in_list st = false /\ inv_nest st = false.

Lemma inv2x_core first a b : core_eq a b -> inv2x first b -> inv2x first a.
Proof.
  intros [A [B [C [D [E F]]]]] [[I1 [I2 [I3 I4]]] [I5 I6]]. repeat split; congruence.
Qed.
Lemma inv2x_update first st : inv2x first st -> inv2x false (update_dir_state st).
Proof.
  intros [I [A B]]. split; [eapply inv2_update; exact I|]. unfold update_dir_state.
  destruct (dir_start st && negb (after_start st)); [split; assumption|]. destruct (negb (dir_start st) && after_start st); split; assumption.
Qed.
Lemma inv2x_update_reset first st : inv2x first st -> inv2x false (update_dir_state (reset_dir_track st)).
Proof. intros [I [A B]]. split; [eapply inv2_update_reset; exact I|]. split; assumption. Qed.

(* no `(` right after a character that could introduce a group *)
Definition ends_ext (t : tok) : bool :=
  match t with TQ | TStar => true | TLit c => ch_in c ext_types | _ => false end.
Fixpoint wfx (ts : list tok) : bool :=
  match ts with
  | [] => true
  | t :: r => (if ends_ext t then match r with TLit 40%N :: _ => false | _ => true end else true) && wfx r
  end.

Lemma head_ok_unparse t ts : wfx (t :: ts) = true -> ends_ext t = true -> head_ok (unparse ts) = true.
Proof.
  intros W E. cbn [wfx] in W. rewrite E in W. apply andb_true_iff in W. destruct W as [W _].
  destruct ts as [|t2 ts2]; [reflexivity|]. destruct t2 as [c|c| | |neg l]; try reflexivity.
  cbn [unparse flat_map unparse1 app head_ok]. destruct (N.eqb_spec c 40) as [->|]; [discriminate|reflexivity].
Qed.

Section FlatX.
  Variable cf : cfg.
  Hypothesis Hpath : c_pathname cf = false.
  Hypothesis Habort : c_bslash_abort cf = false.
  Hypothesis Hunix : c_unix cf = true.
  Hypothesis Hsep : c_sep cf = S_ "[/]".
  Hypothesis Hneed : c_need_char cf = Frag.u_NEED_CHAR.

  (* the group attempt at the head of an iteration: nothing happens when the next character is not `(` *)
  Lemma try_ext_none f st c it1 cur :
    (ch_in c ext_types = false \/ head_ok (rest it1) = true) -> in_list st = false -> inv_nest st = false ->
    exists st', core_eq st' st /\
      (if c_extend cf && ch_in c ext_types
       then match ext (S f) cf st c it1 cur true with
            | Fuel => Fuel | Stop => Stop
            | Ok (true, st', it', cur') => Ok (Some (st', it', cur'), st')
            | Ok (false, st', _, _) => Ok (None, st')
            end
       else Ok (None, st)) = (Ok (None, st') : res (option (pst * iter * list item) * pst)).
  Proof.
    intros Hh Hl Hn. destruct (c_extend cf && ch_in c ext_types) eqn:Ex.
    - destruct Hh as [Hh|Hh]; [rewrite Hh, andb_false_r in Ex; discriminate|].
      destruct (ext_fail_core f cf st c it1 cur Hh Hl Hn) as [st' [E C]]. exists st'. split; [exact C|]. rewrite E. reflexivity.
    - exists st. split; [repeat split|reflexivity].
  Qed.

  Lemma stepx_lit f st i c r cur :
    plain c = true -> (ch_in c ext_types = false \/ head_ok r = true) -> in_list st = false -> inv_nest st = false ->
    exists st', core_eq st' st /\
      root_loop (S (S f)) cf st {| idx := i; rest := c :: r |} cur =
      root_loop (S f) cf (update_dir_state st') {| idx := i + 1; rest := r |} (T (print1 (lit_re c)) :: cur).
  Proof.
    intros Hp Hh Hl Hn. cbn [root_loop next rest idx].
    destruct (try_ext_none f st c {| idx := i + 1; rest := r |} cur Hh Hl Hn) as [st' [C E]]. exists st'. split; [exact C|].
    rewrite E. clear E.
    unfold plain, ch_in in Hp. cbn [existsb] in Hp. rewrite !orb_false_r in Hp.
    apply negb_true_iff in Hp. apply orb_false_iff in Hp. destruct Hp as [H42 Hp].
    apply orb_false_iff in Hp. destruct Hp as [H63 Hp]. apply orb_false_iff in Hp. destruct Hp as [H91 H92].
    unfold lit_re.
    destruct (N.eqb_spec c cDOT) as [->|Hd].
    - unfold handle_dot. rewrite Hpath, andb_false_r. cbn [andb]. reflexivity.
    - unfold cSTAR, cQM, cBS, cLB. rewrite H42, H63.
      change cSL with 47%N. destruct (N.eqb_spec c 47) as [->|H47].
      + rewrite Hpath, Hsep. reflexivity.
      + rewrite H92, H91. reflexivity.
  Qed.

  Lemma stepx_q f st i r cur :
    head_ok r = true -> in_list st = false -> inv_nest st = false ->
    exists st', core_eq st' st /\
      root_loop (S (S f)) cf st {| idx := i; rest := 63%N :: r |} cur =
      root_loop (S f) cf (update_dir_state (reset_dir_track st')) {| idx := i + 1; rest := r |}
                (T ((if after_start st && negb (c_dot cf) then Frag.u_NO_DOT else []) ++ Frag.u_QMARK) :: cur).
  Proof.
    intros Hh Hl Hn. cbn [root_loop next rest idx].
    destruct (try_ext_none f st 63%N {| idx := i + 1; rest := r |} cur (or_intror Hh) Hl Hn) as [st' [C E]]. exists st'. split; [exact C|].
    rewrite E. clear E.
    change (N.eqb 63%N cDOT) with false. change (N.eqb 63%N cSTAR) with false. change (N.eqb 63%N cQM) with true. cbv iota.
    unfold restrict_sequence. rewrite Hpath. destruct C as [Ca _]. rewrite Ca. reflexivity.
  Qed.

  Lemma stepx_star f st i r cur :
    globstar st = false -> (match r with c :: _ => negb (N.eqb c 42) | [] => true end) = true ->
    head_ok r = true -> in_list st = false -> inv_nest st = false ->
    exists st', core_eq st' st /\
      root_loop (S (S f)) cf st {| idx := i; rest := 42%N :: r |} cur =
      root_loop (S f) cf (update_dir_state (reset_dir_track st')) {| idx := i + 1; rest := r |} (T (star_text cf st) :: cur).
  Proof.
    intros Hg Hr Hh Hl Hn. cbn [root_loop next rest idx].
    destruct (try_ext_none f st 42%N {| idx := i + 1; rest := r |} cur (or_intror Hh) Hl Hn) as [st' [C E]]. exists st'. split; [exact C|].
    rewrite E. clear E.
    change (N.eqb 42%N cDOT) with false. change (N.eqb 42%N cSTAR) with true. cbv iota.
    destruct C as [Ca [_ [_ [_ [_ Cg]]]]].
    rewrite (handle_star_flat cf Hpath Hneed st' (i + 1) r cur) by (try congruence; assumption).
    unfold star_text. rewrite Ca. reflexivity.
  Qed.

  Lemma root_loop_flatx : forall ts fuel st i cur first,
    wf ts = true -> wfx ts = true -> (2 * length (unparse ts) < fuel)%nat -> inv2x first st ->
    exists st' cur', root_loop fuel cf st {| idx := i; rest := unparse ts |} cur = Ok (st', cur') /\
                     jrev cur' = jrev cur ++ print (emit (c_dot cf) first ts) /\ inv st'.
  Proof.
    induction ts as [|t ts IH]; intros fuel st i cur first W Wx Hf I2.
    - destruct fuel as [|f]; [cbn in Hf; lia|]. exists st, cur. split; [reflexivity|]. split; [cbn; rewrite app_nil_r; reflexivity|].
      eapply inv2_inv. apply I2.
    - pose proof Wx as Wx0. cbn [wfx] in Wx. apply andb_true_iff in Wx. destruct Wx as [_ Wx'].
      destruct I2 as [I2 [Il In]]. assert (I2x : inv2x first st) by (split; [exact I2|split; assumption]).
      change (unparse (t :: ts)) with (unparse1 t ++ unparse ts) in *. rewrite app_length in Hf.
      destruct t as [c|c| | |neg l].
      + cbn [unparse1 app length] in *. cbn [wf] in W. apply andb_true_iff in W. destruct W as [Wc W].
        destruct fuel as [|[|f]]; [lia|lia|].
        assert (Hh : ch_in c ext_types = false \/ head_ok (unparse ts) = true).
        { destruct (ch_in c ext_types) eqn:Ec; [right; apply (head_ok_unparse (TLit c) ts Wx0); exact Ec|left; reflexivity]. }
        destruct (stepx_lit f st i c (unparse ts) cur Wc Hh Il In) as [st1 [C E1]].
        destruct (IH (S f) (update_dir_state st1) (i + 1) (T (print1 (lit_re c)) :: cur) false W Wx' ltac:(lia)
                     (inv2x_update _ _ (inv2x_core _ _ _ C I2x))) as [st' [cur' [E [J K]]]].
        exists st', cur'. split; [eapply eq_trans; [exact E1|exact E]|]. split; [|exact K].
        rewrite J, jrev_cons. cbn [emit print flat_map]. rewrite <- app_assoc. reflexivity.
      + cbn [unparse1 app length] in *. cbn [wf] in W. apply andb_true_iff in W. destruct W as [Wc W].
        unfold escapable, ch_in in Wc. cbn [existsb] in Wc. apply negb_true_iff in Wc. apply orb_false_iff in Wc.
        destruct Wc as [W47 Wc]. apply orb_false_iff in Wc. destruct Wc as [W46 _].
        destruct fuel as [|f]; [lia|].
        rewrite (step_escaped cf Habort Hunix f st i c (unparse ts) cur (inv2_inv _ _ I2))
          by (intros ->; discriminate).
        destruct (IH f (update_dir_state st) (i + 1 + 1) (T (re_escape_ch c) :: cur) false W Wx' ltac:(lia) (inv2x_update _ _ I2x))
          as [st' [cur' [E [J K]]]].
        exists st', cur'. split; [exact E|]. split; [|exact K].
        rewrite J, jrev_cons. cbn [emit print flat_map print1]. rewrite <- app_assoc. reflexivity.
      + cbn [unparse1 app length] in *. cbn [wf] in W.
        destruct fuel as [|[|f]]; [lia|lia|].
        destruct (stepx_q f st i (unparse ts) cur (head_ok_unparse TQ ts Wx0 eq_refl) Il In) as [st1 [C E1]].
        destruct (IH (S f) (update_dir_state (reset_dir_track st1)) (i + 1)
                     (T ((if after_start st && negb (c_dot cf) then Frag.u_NO_DOT else []) ++ Frag.u_QMARK) :: cur)
                     false W Wx' ltac:(lia) (inv2x_update_reset _ _ (inv2x_core _ _ _ C I2x)))
          as [st' [cur' [E [J K]]]].
        exists st', cur'. split; [eapply eq_trans; [exact E1|exact E]|]. split; [|exact K].
        rewrite J, jrev_cons. destruct I2 as [_ [_ [_ Ha]]]. rewrite Ha. cbn [emit print].
        destruct (first && negb (c_dot cf)); cbn [app flat_map print1]; rewrite <- ?app_assoc; reflexivity.
      + cbn [unparse1 app length] in *.
        assert (W' : wf ts = true /\ (match unparse ts with c :: _ => negb (N.eqb c 42) | [] => true end) = true).
        { cbn [wf] in W. destruct ts as [|t2 ts2]; [split; reflexivity|].
          destruct t2 as [c2|c2| | |neg2 l2]; try discriminate; (split; [exact W|apply (unparse_head_not_star); [exact W|discriminate]]). }
        destruct W' as [W' Hh].
        destruct fuel as [|[|f]]; [lia|lia|].
        destruct (stepx_star f st i (unparse ts) cur ltac:(apply I2) Hh (head_ok_unparse TStar ts Wx0 eq_refl) Il In) as [st1 [C E1]].
        destruct (IH (S f) (update_dir_state (reset_dir_track st1)) (i + 1) (T (star_text cf st) :: cur)
                     false W' Wx' ltac:(lia) (inv2x_update_reset _ _ (inv2x_core _ _ _ C I2x)))
          as [st' [cur' [E [J K]]]].
        exists st', cur'. split; [eapply eq_trans; [exact E1|exact E]|]. split; [|exact K].
        rewrite J, jrev_cons. destruct I2 as [_ [_ [_ Ha]]]. unfold star_text. rewrite Ha. cbn [emit print].
        destruct first; cbn [andb]; destruct (c_dot cf); cbn [negb app flat_map print1]; rewrite <- ?app_assoc; reflexivity.
      + cbn [wf] in W. apply andb_true_iff in W. destruct W as [W W']. apply andb_true_iff in W. destruct W as [Wl Wn].
        assert (Hne : l <> []) by (destruct l; [discriminate|discriminate]).
        cbn [unparse1] in *. rewrite <- !app_assoc. cbn [app].
        destruct fuel as [|f]; [lia|].
        assert (Q : root_loop (S f) cf st {| idx := i; rest := 91%N :: (if neg then [33%N] else []) ++ l ++ 93%N :: unparse ts |} cur =
                    root_loop f cf (update_dir_state (if after_start st then reset_dir_track st else st))
                              {| idx := i + 1 + (if neg then 1 else 0) + Z.of_nat (length l) + 1; rest := unparse ts |}
                              (T ((if after_start st then (if negb (c_dot cf) then Frag.u_NO_DOT else []) else []) ++ br_text neg l) :: cur)).
        { cbn [root_loop next rest idx]. replace (ch_in 91%N ext_types) with false by reflexivity. rewrite andb_false_r.
          change (N.eqb 91%N cDOT) with false. change (N.eqb 91%N cSTAR) with false. change (N.eqb 91%N cQM) with false.
          change (N.eqb 91%N cSL) with false. change (N.eqb 91%N cBS) with false. change (N.eqb 91%N cLB) with true. cbv iota.
          rewrite (sequence_plain cf Hpath st (i + 1) neg l (unparse ts) Wl Hne). reflexivity. }
        assert (HL : (length l + 2 <= length ([91%N] ++ (if neg then [33%N] else []) ++ l ++ [93%N]))%nat).
        { rewrite !app_length. cbn [length]. lia. }
        assert (I3 : inv2x false (update_dir_state (if after_start st then reset_dir_track st else st))).
        { destruct (after_start st) eqn:Ea; [apply (inv2x_update_reset first); exact I2x|apply (inv2x_update first); exact I2x]. }
        destruct (IH f (update_dir_state (if after_start st then reset_dir_track st else st))
                     (i + 1 + (if neg then 1 else 0) + Z.of_nat (length l) + 1)
                     (T ((if after_start st then (if negb (c_dot cf) then Frag.u_NO_DOT else []) else []) ++ br_text neg l) :: cur)
                     false W' Wx' ltac:(lia) I3)
          as [st' [cur' [E [J K]]]].
        exists st', cur'. split; [eapply eq_trans; [exact Q|exact E]|]. split; [|exact K].
        rewrite J, jrev_cons. destruct I2 as [_ [_ [_ Ha]]]. rewrite Ha. cbn [emit print].
        destruct first; cbn [andb]; destruct (c_dot cf); destruct neg; cbn [negb app flat_map print1]; rewrite <- ?app_assoc; reflexivity.
  Qed.
End FlatX.

Theorem wcparse_flatx flags isb ts :
  wf ts = true -> wfx ts = true ->
  has flags PATHNAME = false -> is_unix_style linux flags = true ->
  has flags u_ANCHOR = false -> has flags MATCHBASE = false -> has flags u_EXTMATCHBASE = false ->
  has flags u_TRANSLATE = false ->
  wcparse linux flags isb (unparse ts) =
  inl (S_ "^(?s" ++ (if get_case linux flags then [] else S_ "i") ++ S_ ":" ++
       print (emit (has flags DOTMATCH) true ts) ++ S_ ")$").
Proof.
  intros W Wx Hp Hu Ha Hm He Ht. unfold wcparse.
  destruct (mk_cfg linux flags isb) as [cf st] eqn:E.
  assert (Ecf : cf = fst (mk_cfg linux flags isb)) by (rewrite E; reflexivity).
  assert (Est : st = snd (mk_cfg linux flags isb)) by (rewrite E; reflexivity).
  assert (Hpath : c_pathname cf = false) by (rewrite Ecf; exact Hp).
  assert (Hunix : c_unix cf = true) by (rewrite Ecf; exact Hu).
  assert (Hdot : c_dot cf = has flags DOTMATCH) by (rewrite Ecf; reflexivity).
  assert (Habort : c_bslash_abort cf = false) by (rewrite Ecf; unfold mk_cfg; cbn [fst c_bslash_abort]; rewrite Hu; reflexivity).
  assert (Hwd : c_windrive cf = false) by (rewrite Ecf; unfold mk_cfg; cbn [fst c_windrive]; rewrite Hu; reflexivity).
  assert (Hanchor : c_anchor cf = false) by (rewrite Ecf; exact Ha).
  assert (Hcap : c_capture cf = false) by (rewrite Ecf; exact Ht).
  assert (Hreal : c_realpath cf = false) by (rewrite Ecf; unfold mk_cfg; cbn [fst c_realpath]; rewrite Hp; apply andb_false_r).
  assert (Hcs : c_cs cf = get_case linux flags) by (rewrite Ecf; reflexivity).
  assert (Hsep : c_sep cf = S_ "[/]") by (rewrite Ecf; unfold mk_cfg; cbn [fst c_sep]; rewrite Hu; reflexivity).
  assert (Hneed : c_need_char cf = Frag.u_NEED_CHAR) by (rewrite Ecf; unfold mk_cfg; cbn [fst c_need_char]; rewrite Hp; reflexivity).
  assert (Hmb : matchbase st = false) by (rewrite Est; exact Hm).
  assert (Hemb : extmatchbase st = false) by (rewrite Est; exact He).
  assert (Hgs : globstar st = false) by (rewrite Est; unfold mk_cfg; cbn [snd globstar]; rewrite Hp; reflexivity).
  assert (Hds : dir_start st = false /\ inv_ext st = 0) by (rewrite Est; split; reflexivity).
  assert (Hls : in_list st = false /\ inv_nest st = false) by (rewrite Est; split; reflexivity).
  unfold wcparse_cf. rewrite Hanchor, Hmb, Hemb. cbn [orb].
  rewrite (unparse_not_lone_bs ts W).
  destruct ts as [|t ts].
  - cbn [unparse flat_map emit print]. rewrite Hcap, Hcs. reflexivity.
  - destruct (unparse_cons t ts) as [d [r Er]].
    remember (unparse (t :: ts)) as p eqn:Ep. rewrite Er. rewrite <- Er.
    unfold root. rewrite Hwd, Hpath, Hreal. cbn [andb negb]. rewrite ?andb_false_r.
    assert (I2 : inv2x true (set_after_start st)) by (destruct Hds, Hls; repeat split; cbn; auto).
    destruct (root_loop_flatx cf Hpath Habort Hunix Hsep Hneed (t :: ts) (fuel_for p) (set_after_start st) 0 [T []] true W Wx) as [st' [cur' [Eq [J [Hd' Hi']]]]].
    { rewrite <- Ep. unfold fuel_for. lia. }
    { exact I2. }
    rewrite <- Ep in Eq. rewrite Eq.
    unfold clean_up_inverse. rewrite Hi'. cbn [Z.eqb]. rewrite Hcap, Hcs, J, Hdot.
    destruct (matchbase st' || extmatchbase st'); reflexivity.
Qed.

(* C01Flat's theorem for EVERY fnmatch flag word, EXTMATCH included *)
Theorem C01_flat_language_any_flags flags isb ts :
  wf ts = true -> wfx ts = true ->
  has flags PATHNAME = false -> is_unix_style linux flags = true ->
  has flags u_ANCHOR = false -> has flags MATCHBASE = false -> has flags u_EXTMATCHBASE = false ->
  has flags u_TRANSLATE = false ->
  exists rs,
    wcparse linux flags isb (unparse ts) =
      inl (S_ "^(?s" ++ (if get_case linux flags then [] else S_ "i") ++ S_ ":" ++ print rs ++ S_ ")$") /\
    forall n, Mseq rs n [] <-> Den (has flags DOTMATCH) true ts n.
Proof.
  intros. exists (emit (has flags DOTMATCH) true ts). split; [apply wcparse_flatx; assumption|].
  intros n. apply emit_sound_complete.
Qed.

Example flatx_example_text :
  wcparse linux EXTMATCH false (unparse [TStar; TLit 43%N; TQ; TLit 97%N; TLit 40%N]) = inl (S_ "^(?s:(?=.)(?![.]).*?\+.a\()$").
Proof. vm_compute. reflexivity. Qed.

(* ================================================================================================================
   Extended groups of literal alternatives: `?(a|bc)`, `*(…)`, `+(…)`, `@(…)` between flat tokens
   ================================================================================================================ *)

(* a flat run followed by arbitrary further text [tail]: what the tail may start with *)
Definition nostar_head (s : str) : bool := match s with c :: _ => negb (N.eqb c 42) | [] => true end.

Lemma nostar_head_app ts tail : ts <> [] -> nostar_head (unparse ts ++ tail) = nostar_head (unparse ts).
Proof. destruct ts as [|t ts]; [contradiction|]. intros _. destruct (unparse_cons t ts) as [d [r E]]. rewrite E. reflexivity. Qed.
Lemma head_ok_app ts tail : ts <> [] -> head_ok (unparse ts ++ tail) = head_ok (unparse ts).
Proof. destruct ts as [|t ts]; [contradiction|]. intros _. destruct (unparse_cons t ts) as [d [r E]]. rewrite E. reflexivity. Qed.

Fixpoint ends_star (ts : list tok) : bool :=
  match ts with
  | [] => false
  | [t] => match t with TStar => true | _ => false end
  | _ :: r => ends_star r
  end.
Lemma ends_star_cons t t2 ts : ends_star (t :: t2 :: ts) = ends_star (t2 :: ts).
Proof. reflexivity. Qed.

Section AdvX.
  Variable cf : cfg.
  Hypothesis Hpath : c_pathname cf = false.
  Hypothesis Habort : c_bslash_abort cf = false.
  Hypothesis Hunix : c_unix cf = true.
  Hypothesis Hsep : c_sep cf = S_ "[/]".
  Hypothesis Hneed : c_need_char cf = Frag.u_NEED_CHAR.

  Lemma flat_advance : forall ts fuel st i cur first tail,
    wf ts = true -> wfx ts = true -> (ends_star ts = true -> nostar_head tail = true) -> head_ok tail = true ->
    (2 * length (unparse ts) <= fuel)%nat -> inv2x first st ->
    exists f' st' i' cur',
      (fuel - 2 * length (unparse ts) <= f')%nat /\
      root_loop fuel cf st {| idx := i; rest := unparse ts ++ tail |} cur = root_loop f' cf st' {| idx := i'; rest := tail |} cur' /\
      jrev cur' = jrev cur ++ print (emit (c_dot cf) first ts) /\
      inv2x (match ts with [] => first | _ => false end) st'.
  Proof.
    induction ts as [|t ts IH]; intros fuel st i cur first tail W Wx Ht1 Ht2 Hf I2.
    - exists fuel, st, i, cur. split; [cbn; lia|]. split; [reflexivity|]. split; [cbn; rewrite app_nil_r; reflexivity|exact I2].
    - pose proof Wx as Wx0. cbn [wfx] in Wx. apply andb_true_iff in Wx. destruct Wx as [Wx1 Wx'].
      destruct I2 as [I2 [Il In]]. assert (I2x : inv2x first st) by (split; [exact I2|split; assumption]).
      change (unparse (t :: ts)) with (unparse1 t ++ unparse ts) in *. rewrite app_length in Hf. rewrite <- app_assoc.
      assert (Ht1' : ends_star ts = true -> nostar_head tail = true).
      { intros Es. apply Ht1. destruct ts as [|t2 ts2]; [discriminate|]. rewrite ends_star_cons. exact Es. }
      assert (Hok : ends_ext t = true -> head_ok (unparse ts ++ tail) = true).
      { intros Ee. destruct ts as [|t2 ts2]; [exact Ht2|]. rewrite head_ok_app by discriminate. exact (head_ok_unparse t (t2 :: ts2) Wx0 Ee). }
      destruct t as [c|c| | |neg l].
      + cbn [unparse1 app length] in *. cbn [wf] in W. apply andb_true_iff in W. destruct W as [Wc W].
        destruct fuel as [|[|f]]; [lia|lia|].
        assert (Hh : ch_in c ext_types = false \/ head_ok (unparse ts ++ tail) = true).
        { destruct (ch_in c ext_types) eqn:Ec; [right; apply Hok; exact Ec|left; reflexivity]. }
        destruct (stepx_lit cf Hpath Hsep f st i c (unparse ts ++ tail) cur Wc Hh Il In) as [st1 [C E1]].
        destruct (IH (S f) (update_dir_state st1) (i + 1) (T (print1 (lit_re c)) :: cur) false tail W Wx' Ht1' Ht2 ltac:(lia)
                     (inv2x_update _ _ (inv2x_core _ _ _ C I2x))) as [f' [st' [i' [cur' [F' [E [J K]]]]]]].
        exists f', st', i', cur'. split; [lia|]. split; [eapply eq_trans; [exact E1|exact E]|]. split.
        * rewrite J, jrev_cons. cbn [emit print flat_map]. rewrite <- app_assoc. reflexivity.
        * destruct ts; exact K.
      + cbn [unparse1 app length] in *. cbn [wf] in W. apply andb_true_iff in W. destruct W as [Wc W].
        unfold escapable, ch_in in Wc. cbn [existsb] in Wc. apply negb_true_iff in Wc. apply orb_false_iff in Wc.
        destruct Wc as [W47 Wc]. apply orb_false_iff in Wc. destruct Wc as [W46 _].
        destruct fuel as [|f]; [lia|].
        pose proof (step_escaped cf Habort Hunix f st i c (unparse ts ++ tail) cur (inv2_inv _ _ I2)) as E1.
        specialize (E1 ltac:(intros ->; discriminate) ltac:(intros ->; discriminate)).
        destruct (IH f (update_dir_state st) (i + 1 + 1) (T (re_escape_ch c) :: cur) false tail W Wx' Ht1' Ht2 ltac:(lia) (inv2x_update _ _ I2x))
          as [f' [st' [i' [cur' [F' [E [J K]]]]]]].
        exists f', st', i', cur'. split; [lia|]. split; [eapply eq_trans; [exact E1|exact E]|]. split.
        * rewrite J, jrev_cons. cbn [emit print flat_map print1]. rewrite <- app_assoc. reflexivity.
        * destruct ts; exact K.
      + cbn [unparse1 app length] in *. cbn [wf] in W.
        destruct fuel as [|[|f]]; [lia|lia|].
        destruct (stepx_q cf Hpath f st i (unparse ts ++ tail) cur (Hok eq_refl) Il In) as [st1 [C E1]].
        destruct (IH (S f) (update_dir_state (reset_dir_track st1)) (i + 1)
                     (T ((if after_start st && negb (c_dot cf) then Frag.u_NO_DOT else []) ++ Frag.u_QMARK) :: cur)
                     false tail W Wx' Ht1' Ht2 ltac:(lia) (inv2x_update_reset _ _ (inv2x_core _ _ _ C I2x)))
          as [f' [st' [i' [cur' [F' [E [J K]]]]]]].
        exists f', st', i', cur'. split; [lia|]. split; [eapply eq_trans; [exact E1|exact E]|]. split.
        * rewrite J, jrev_cons. destruct I2 as [_ [_ [_ Ha]]]. rewrite Ha. cbn [emit print].
          destruct (first && negb (c_dot cf)); cbn [app flat_map print1]; rewrite <- ?app_assoc; reflexivity.
        * destruct ts; exact K.
      + cbn [unparse1 app length] in *.
        assert (W' : wf ts = true /\ nostar_head (unparse ts ++ tail) = true).
        { cbn [wf] in W. destruct ts as [|t2 ts2]; [split; [reflexivity|apply Ht1; reflexivity]|].
          rewrite nostar_head_app by discriminate.
          destruct t2 as [c2|c2| | |neg2 l2]; try discriminate; (split; [exact W|apply (unparse_head_not_star); [exact W|discriminate]]). }
        destruct W' as [W' Hh].
        destruct fuel as [|[|f]]; [lia|lia|].
        destruct (stepx_star cf Hpath Hneed f st i (unparse ts ++ tail) cur ltac:(apply I2) Hh (Hok eq_refl) Il In) as [st1 [C E1]].
        destruct (IH (S f) (update_dir_state (reset_dir_track st1)) (i + 1) (T (star_text cf st) :: cur)
                     false tail W' Wx' Ht1' Ht2 ltac:(lia) (inv2x_update_reset _ _ (inv2x_core _ _ _ C I2x)))
          as [f' [st' [i' [cur' [F' [E [J K]]]]]]].
        exists f', st', i', cur'. split; [lia|]. split; [eapply eq_trans; [exact E1|exact E]|]. split.
        * rewrite J, jrev_cons. destruct I2 as [_ [_ [_ Ha]]]. unfold star_text. rewrite Ha. cbn [emit print].
          destruct first; cbn [andb]; destruct (c_dot cf); cbn [negb app flat_map print1]; rewrite <- ?app_assoc; reflexivity.
        * destruct ts; exact K.
      + cbn [wf] in W. apply andb_true_iff in W. destruct W as [W W']. apply andb_true_iff in W. destruct W as [Wl Wn].
        assert (Hne : l <> []) by (destruct l; [discriminate|discriminate]).
        assert (HL : (length l + 2 <= length (unparse1 (TBr neg l)))%nat).
        { cbn [unparse1]. rewrite !app_length. cbn [length]. lia. }
        destruct fuel as [|f]; [lia|].
        cbn [unparse1] in *. rewrite <- !app_assoc. cbn [app].
        assert (Q : root_loop (S f) cf st {| idx := i; rest := 91%N :: (if neg then [33%N] else []) ++ l ++ 93%N :: unparse ts ++ tail |} cur =
                    root_loop f cf (update_dir_state (if after_start st then reset_dir_track st else st))
                              {| idx := i + 1 + (if neg then 1 else 0) + Z.of_nat (length l) + 1; rest := unparse ts ++ tail |}
                              (T ((if after_start st then (if negb (c_dot cf) then Frag.u_NO_DOT else []) else []) ++ br_text neg l) :: cur)).
        { cbn [root_loop next rest idx]. replace (ch_in 91%N ext_types) with false by reflexivity. rewrite andb_false_r.
          change (N.eqb 91%N cDOT) with false. change (N.eqb 91%N cSTAR) with false. change (N.eqb 91%N cQM) with false.
          change (N.eqb 91%N cSL) with false. change (N.eqb 91%N cBS) with false. change (N.eqb 91%N cLB) with true. cbv iota.
          rewrite (sequence_plain cf Hpath st (i + 1) neg l (unparse ts ++ tail) Wl Hne). reflexivity. }
        assert (I3 : inv2x false (update_dir_state (if after_start st then reset_dir_track st else st))).
        { destruct (after_start st) eqn:Ea; [apply (inv2x_update_reset first); exact I2x|apply (inv2x_update first); exact I2x]. }
        destruct (IH f (update_dir_state (if after_start st then reset_dir_track st else st))
                     (i + 1 + (if neg then 1 else 0) + Z.of_nat (length l) + 1)
                     (T ((if after_start st then (if negb (c_dot cf) then Frag.u_NO_DOT else []) else []) ++ br_text neg l) :: cur)
                     false tail W' Wx' Ht1' Ht2 ltac:(lia) I3)
          as [f' [st' [i' [cur' [F' [E [J K]]]]]]].
        exists f', st', i', cur'. split.
        { rewrite ?app_length in *; cbn [length] in *; rewrite ?app_length in *; cbn [length] in *. cbv delta [ch str] in *. lia. }
        split; [eapply eq_trans; [exact Q|exact E]|]. split.
        * rewrite J, jrev_cons. destruct I2 as [_ [_ [_ Ha]]]. rewrite Ha. cbn [emit print].
          destruct first; cbn [andb]; destruct (c_dot cf); destruct neg; cbn [negb app flat_map print1]; rewrite <- ?app_assoc; reflexivity.
        * destruct ts; exact K.
  Qed.
End AdvX.

(* ---- one extended group of literal alternatives ---- *)
Definition gplain (c : ch) : bool :=
  plain c && negb (ch_in c ext_types) && negb (ch_in c [124; 41; 40; 46; 47]%N).

Definition alts_src (alts : list str) : str := join_with [124%N] alts.
Definition alts_re (alts : list str) : str := join_with [124%N] (map re_escape alts).

(* the fields a literal run inside a group never touches *)
Definition lp_inv (st : pst) : Prop := in_list st = true /\ inv_nest st = false /\ inv_ext st = 0 /\ globstar st = false.
Lemma lp_inv_upd st : lp_inv st -> lp_inv (update_dir_state st).
Proof.
  intros [A [B [C D]]]. unfold update_dir_state.
  destruct (dir_start st && negb (after_start st)); [repeat split; assumption|].
  destruct (negb (dir_start st) && after_start st); repeat split; assumption.
Qed.
Lemma lp_inv_sd st : lp_inv st -> lp_inv (set_start_dir st).
Proof. intros [A [B [C D]]]. repeat split; assumption. Qed.

Lemma gplain_facts c : gplain c = true ->
  ch_in c ext_types = false /\ N.eqb c cSTAR = false /\ N.eqb c cDOT = false /\ N.eqb c cQM = false /\ N.eqb c cSL = false /\
  N.eqb c cBAR = false /\ N.eqb c cBS = false /\ N.eqb c cLB = false /\ N.eqb c cRP = false.
Proof.
  unfold gplain. intros H. apply andb_true_iff in H. destruct H as [H H3]. apply andb_true_iff in H. destruct H as [H1 H2].
  apply negb_true_iff in H2. apply negb_true_iff in H3.
  unfold plain, ch_in in H1. cbn [existsb] in H1. rewrite !orb_false_r in H1. apply negb_true_iff in H1.
  apply orb_false_iff in H1. destruct H1 as [P42 H1]. apply orb_false_iff in H1. destruct H1 as [P63 H1].
  apply orb_false_iff in H1. destruct H1 as [P91 P92].
  unfold ch_in in H3. cbn [existsb] in H3. rewrite !orb_false_r in H3.
  apply orb_false_iff in H3. destruct H3 as [Q124 H3]. apply orb_false_iff in H3. destruct H3 as [Q41 H3].
  apply orb_false_iff in H3. destruct H3 as [Q40 H3]. apply orb_false_iff in H3. destruct H3 as [Q46 Q47].
  unfold cSTAR, cDOT, cQM, cSL, cBAR, cBS, cLB, cRP. repeat split; assumption.
Qed.

Section Grp.
  Variable cf : cfg.
  Hypothesis Hpath : c_pathname cf = false.
  Hypothesis Hcapt : c_capture cf = false.

  Lemma extloop_lit f st i c r extended ta tn :
    gplain c = true ->
    ext_loop (S f) cf st {| idx := i; rest := c :: r |} extended ta tn =
    ext_loop f cf (update_dir_state st) {| idx := i + 1; rest := r |} (T (re_escape_ch c) :: extended) ta tn.
  Proof.
    intros G. destruct (gplain_facts c G) as [E0 [E1 [E2 [E3 [E4 [E5 [E6 [E7 E8]]]]]]]].
    cbn [ext_loop next rest idx]. rewrite E0, andb_false_r. rewrite E1, E2, E3, E4, E5, E6, E7, E8. cbn [negb]. reflexivity.
  Qed.

  Lemma extloop_lits : forall a fuel st i r extended ta tn,
    forallb gplain a = true -> (length a <= fuel)%nat -> lp_inv st ->
    exists st', lp_inv st' /\
      ext_loop fuel cf st {| idx := i; rest := a ++ r |} extended ta tn =
      ext_loop (fuel - length a) cf st' {| idx := i + Z.of_nat (length a); rest := r |}
               (rev (map (fun c => T (re_escape_ch c)) a) ++ extended) ta tn.
  Proof.
    induction a as [|c a IH]; intros fuel st i r extended ta tn G Hf L.
    - exists st. split; [exact L|]. cbn [length app rev map]. rewrite Nat.sub_0_r, Z.add_0_r. reflexivity.
    - cbn [forallb] in G. apply andb_true_iff in G. destruct G as [Gc Ga]. cbn [length] in Hf.
      destruct fuel as [|f]; [lia|]. cbn [app]. rewrite (extloop_lit f st i c (a ++ r) extended ta tn Gc).
      destruct (IH f (update_dir_state st) (i + 1) r (T (re_escape_ch c) :: extended) ta tn Ga ltac:(lia) (lp_inv_upd _ L)) as [st' [L' E]].
      exists st'. split; [exact L'|]. rewrite E. cbn [length rev map]. rewrite <- app_assoc. cbn [app].
      replace (i + 1 + Z.of_nat (length a)) with (i + Z.of_nat (S (length a))) by lia. reflexivity.
  Qed.

  Lemma jrev_lits_app a extended :
    jrev (rev (map (fun c => T (re_escape_ch c)) a) ++ extended) = jrev extended ++ re_escape a.
  Proof.
    unfold jrev. rewrite rev_app_distr, rev_involutive, map_app, concat_app. f_equal.
    unfold re_escape. induction a as [|c a IH]; [reflexivity|]. cbn [map itext concat flat_map]. rewrite IH. reflexivity.
  Qed.

  (* the whole body up to the closing parenthesis *)
  Lemma extloop_alts : forall alts fuel st i tail extended ta,
    Forall (fun a => forallb gplain a = true) alts -> (length (alts_src alts) + 1 <= fuel)%nat -> lp_inv st ->
    exists st' i' ext', lp_inv st' /\
      ext_loop fuel cf st {| idx := i; rest := alts_src alts ++ 41%N :: tail |} extended ta false =
      Ok (st', {| idx := i'; rest := tail |}, Some ext', st') /\
      jrev ext' = jrev extended ++ alts_re alts.
  Proof.
    assert (Close : forall fuel st i tail extended ta, (1 <= fuel)%nat ->
              ext_loop fuel cf st {| idx := i; rest := 41%N :: tail |} extended ta false =
              Ok (update_dir_state st, {| idx := i + 1; rest := tail |}, Some extended, update_dir_state st)).
    { intros fuel st i tail extended ta Hf. destruct fuel as [|f]; [lia|]. cbn [ext_loop next rest idx].
      replace (ch_in 41%N ext_types) with false by reflexivity. rewrite andb_false_r.
      change (N.eqb 41%N cSTAR) with false. change (N.eqb 41%N cDOT) with false. change (N.eqb 41%N cQM) with false.
      change (N.eqb 41%N cSL) with false. change (N.eqb 41%N cBAR) with false. change (N.eqb 41%N cBS) with false.
      change (N.eqb 41%N cLB) with false. change (N.eqb 41%N cRP) with true. cbn [negb]. reflexivity. }
    induction alts as [|a alts IH]; intros fuel st i tail extended ta G Hf L.
    - cbn [alts_src join_with app] in *. rewrite Close by lia.
      eexists. eexists. eexists. split; [apply lp_inv_upd; exact L|]. split; [reflexivity|]. cbn. rewrite app_nil_r. reflexivity.
    - inversion G as [|? ? Ga Gs]; subst.
      destruct alts as [|b alts'].
      + cbn [alts_src alts_re join_with map] in *.
        assert (Hfa : (length a + 1 <= fuel)%nat) by (cbv delta [ch str] in *; lia).
        destruct (extloop_lits a fuel st i (41%N :: tail) extended ta false Ga ltac:(lia) L) as [st1 [L1 E1]].
        eexists. eexists. eexists. split; [apply lp_inv_upd; exact L1|].
        split; [eapply eq_trans; [exact E1|]; apply Close; lia|]. apply jrev_lits_app.
      + change (alts_src (a :: b :: alts')) with (a ++ [124%N] ++ alts_src (b :: alts')) in *.
        change (alts_re (a :: b :: alts')) with (re_escape a ++ [124%N] ++ alts_re (b :: alts')).
        rewrite !app_length in Hf. cbn [length] in Hf. rewrite <- !app_assoc.
        assert (Hfa : (length a + 1 + length (alts_src (b :: alts')) + 1 <= fuel)%nat) by (cbv delta [ch str] in *; lia).
        destruct (extloop_lits a fuel st i ([124%N] ++ alts_src (b :: alts') ++ 41%N :: tail) extended ta false Ga ltac:(lia) L) as [st1 [L1 E1]].
        destruct (fuel - length a)%nat as [|f1] eqn:Ef; [lia|].
        assert (L2 : lp_inv (update_dir_state (if ta then set_start_dir st1 else st1))).
        { apply lp_inv_upd. destruct ta; [apply lp_inv_sd|]; exact L1. }
        destruct (IH f1 (update_dir_state (if ta then set_start_dir st1 else st1)) (i + Z.of_nat (length a) + 1) tail
                     (T [cBAR] :: rev (map (fun c => T (re_escape_ch c)) a) ++ extended) ta Gs ltac:(lia) L2)
          as [st' [i' [ext' [L' [E J]]]]].
        exists st', i', ext'. split; [exact L'|]. split.
        * eapply eq_trans; [exact E1|]. eapply eq_trans; [|exact E].
          cbn [app]. cbn [ext_loop next rest idx].
          replace (ch_in 124%N ext_types) with false by reflexivity. rewrite andb_false_r.
          change (N.eqb 124%N cSTAR) with false. change (N.eqb 124%N cDOT) with false. change (N.eqb 124%N cQM) with false.
          change (N.eqb 124%N cSL) with false. change (N.eqb 124%N cBAR) with true. cbv iota.
          destruct L1 as [La [Lb [Lc Ld]]]. rewrite Lb. change (N.eqb 124%N cRP) with false. cbv iota. reflexivity.
        * rewrite J, jrev_cons, jrev_lits_app. rewrite <- !app_assoc. reflexivity.
  Qed.

  Definition grp_ty (ty : ch) : bool := ch_in ty [63; 42; 43; 64]%N.

  Lemma ext_grp f st ty i alts tail cur first :
    grp_ty ty = true -> Forall (fun a => forallb gplain a = true) alts -> (length (alts_src alts) + 1 <= f)%nat -> inv2x first st ->
    exists st' i',
      ext (S f) cf st ty {| idx := i; rest := 40%N :: alts_src alts ++ 41%N :: tail |} cur true =
      Ok (true, st', {| idx := i'; rest := tail |}, T (group_text cf ty (alts_re alts)) :: cur) /\ inv2x false st'.
  Proof.
    intros Gt Ga Hf [[I1 [I2 [I3 I4]]] [I5 I6]].
    assert (Tne : N.eqb ty cEX = false).
    { unfold grp_ty, ch_in in Gt. cbn [existsb] in Gt. destruct (N.eqb_spec ty cEX) as [->|]; [discriminate|reflexivity]. }
    cbn [ext next rest idx]. change (N.eqb 40%N cLP) with true. cbn [negb]. rewrite I6, I5, Tne.
    assert (L : lp_inv (set_mdd (set_lists st true false) false)) by (repeat split; cbn; assumption).
    destruct (extloop_alts alts f (set_mdd (set_lists st true false) false) (i + 1) tail [] (after_start st) Ga Hf L)
      as [st2 [i' [ext' [[La [Lb [Lc Ld]]] [E J]]]]].
    rewrite E. cbn [jrev rev map concat app] in J. rewrite J.
    eexists. exists i'. split; [reflexivity|].
    repeat split; cbn; auto.
  Qed.

  Hypothesis Hext : c_extend cf = true.

  (* the loop meets `ty(`: the group is parsed and its text appended *)
  Lemma step_grp f st ty i alts tail cur first :
    grp_ty ty = true -> Forall (fun a => forallb gplain a = true) alts -> (length (alts_src alts) + 1 <= f)%nat -> inv2x first st ->
    exists st' i',
      root_loop (S (S f)) cf st {| idx := i; rest := ty :: 40%N :: alts_src alts ++ 41%N :: tail |} cur =
      root_loop (S f) cf st' {| idx := i'; rest := tail |} (T (group_text cf ty (alts_re alts)) :: cur) /\ inv2x false st'.
  Proof.
    intros Gt Ga Hf I2.
    destruct (ext_grp f st ty (i + 1) alts tail cur first Gt Ga Hf I2) as [st1 [i' [E I1]]].
    exists (update_dir_state st1), i'. split; [|eapply inv2x_update; exact I1].
    cbn [root_loop next rest idx]. rewrite Hext.
    assert (Te : ch_in ty ext_types = true).
    { unfold grp_ty, ch_in in Gt. cbn [existsb] in Gt. rewrite !orb_false_r in Gt.
      unfold ext_types, Sets.EXT_TYPES, ch_in. cbn [existsb].
      apply orb_true_iff in Gt. destruct Gt as [G|Gt]; [rewrite G; rewrite ?orb_true_r; reflexivity|].
      apply orb_true_iff in Gt. destruct Gt as [G|Gt]; [rewrite G; rewrite ?orb_true_r; reflexivity|].
      apply orb_true_iff in Gt. destruct Gt as [G|G]; rewrite G; rewrite ?orb_true_r; reflexivity. }
    rewrite Te. cbn [andb]. rewrite E. reflexivity.
  Qed.
End Grp.

(* ---- semantics with a continuation: the flat theorem of C01Flat with arbitrary text [rest] following ---- *)
Open Scope N_scope.

Fixpoint DenR (dot first : bool) (ts : list tok) (n rest : str) : Prop :=
  match ts with
  | [] => n = []
  | TLit c :: r => exists n', n = c :: n' /\ DenR dot false r n' rest
  | TEsc c :: r => exists n', n = c :: n' /\ DenR dot false r n' rest
  | TQ :: r => exists x n', n = x :: n' /\ (first = true -> dot = false -> x <> 46) /\ DenR dot false r n' rest
  | TStar :: r => exists s n', n = s ++ n' /\ (first = true -> n ++ rest <> []) /\
                               (first = true -> dot = false -> forall y, n ++ rest <> 46 :: y) /\ DenR dot false r n' rest
  | TBr neg l :: r => exists x n', n = x :: n' /\ (if neg then ~ In x l else In x l) /\
                                   (first = true -> dot = false -> x <> 46) /\ DenR dot false r n' rest
  end.

Lemma DenR_nil dot : forall ts first n, DenR dot first ts n [] <-> Den dot first ts n.
Proof.
  induction ts as [|t ts IH]; intros first n; [reflexivity|].
  destruct t as [c|c| | |neg l]; cbn [DenR Den].
  - split; intros [n' [E H]]; exists n'; (split; [exact E|apply IH; exact H]).
  - split; intros [n' [E H]]; exists n'; (split; [exact E|apply IH; exact H]).
  - split; intros [x [n' [E [A H]]]]; exists x, n'; (split; [exact E|]); (split; [exact A|apply IH; exact H]).
  - rewrite app_nil_r. split; intros [s [n' [E [A [B H]]]]]; exists s, n'; (split; [exact E|]); (split; [exact A|]); (split; [exact B|apply IH; exact H]).
  - split; intros [x [n' [E [A [B H]]]]]; exists x, n'; (split; [exact E|]); (split; [exact A|]); (split; [exact B|apply IH; exact H]).
Qed.

Lemma guard_one_rest dot first (P : ch -> Prop) (a : re) rs n rest :
  (forall s r0, M a s r0 <-> exists x, s = [x] /\ P x) ->
  (Mseq ((if first && negb dot then [NLook (SetOf [46])] else []) ++ a :: rs) n rest <->
   exists x n', n = x :: n' /\ P x /\ (first = true -> dot = false -> x <> 46) /\ Mseq rs n' rest).
Proof.
  intros Ha. destruct (first && negb dot) eqn:G; cbn [app Mseq].
  - apply andb_true_iff in G. destruct G as [-> G]. apply negb_true_iff in G. subst dot. split.
    + intros [s1 [s2 [E [HG [s3 [s4 [E2 [H1 H2]]]]]]]]. cbn [M] in HG. destruct HG as [-> HN]. apply Ha in H1. destruct H1 as [x [-> Px]].
      cbn [app] in *. subst. exists x, s4. split; [reflexivity|]. split; [exact Px|]. split; [|exact H2].
      intros _ _ ->. apply (proj1 (nlook_dot _) HN (s4 ++ rest)). reflexivity.
    + intros [x [n' [E [Px [Hx H]]]]]. subst. exists [], (x :: n'). split; [reflexivity|]. split.
      * cbn [M]. split; [reflexivity|]. apply nlook_dot. intros y Ey. cbn [app] in Ey. inversion Ey; subst. apply Hx; reflexivity.
      * exists [x], n'. split; [reflexivity|]. split; [apply Ha; exists x; split; [reflexivity|exact Px]|exact H].
  - split.
    + intros [s1 [s2 [E [H1 H2]]]]. apply Ha in H1. destruct H1 as [x [-> Px]]. subst. exists x, s2. split; [reflexivity|]. split; [exact Px|].
      split; [|exact H2]. intros -> ->. discriminate.
    + intros [x [n' [E [Px [_ H]]]]]. subst. exists [x], n'. split; [reflexivity|]. split; [apply Ha; exists x; split; [reflexivity|exact Px]|exact H].
Qed.

Theorem emit_sound_complete_rest dot : forall ts first n rest,
  Mseq (emit dot first ts) n rest <-> DenR dot first ts n rest.
Proof.
  induction ts as [|t ts IH]; intros first n rest.
  - cbn. reflexivity.
  - destruct t as [c|c| | |neg l].
    + cbn [emit Mseq DenR]. split.
      * intros [s1 [s2 [E [H1 H2]]]]. apply lit_re_M in H1. subst. exists s2. split; [reflexivity|apply IH; exact H2].
      * intros [n' [E H]]. subst. exists [c], n'. split; [reflexivity|]. split; [apply lit_re_M; reflexivity|apply IH; exact H].
    + cbn [emit Mseq DenR M]. split.
      * intros [s1 [s2 [E [H1 H2]]]]. subst. exists s2. split; [reflexivity|apply IH; exact H2].
      * intros [n' [E H]]. subst. exists [c], n'. split; [reflexivity|]. split; [reflexivity|apply IH; exact H].
    + cbn [emit DenR].
      rewrite (guard_one_rest dot first (fun _ => True) Any (emit dot false ts) n rest).
      * split; intros [x [n' [E H]]]; exists x, n'; (split; [exact E|]).
        -- destruct H as [_ [B C]]. split; [exact B|apply IH; exact C].
        -- destruct H as [B C]. split; [exact I|]. split; [exact B|apply IH; exact C].
      * intros s r0. cbn [M]. split; [intros [x ->]; exists x; split; [reflexivity|exact I]|intros [x [-> _]]; exists x; reflexivity].
    + cbn [emit DenR].
      assert (Core : forall n0, (exists s1 s2, n0 = s1 ++ s2 /\ M (StarLazy Any) s1 (s2 ++ rest) /\ Mseq (emit dot false ts) s2 rest) <->
                                (exists s n', n0 = s ++ n' /\ DenR dot false ts n' rest)).
      { intros n0. split.
        - intros [s1 [s2 [E [_ H]]]]. exists s1, s2. split; [exact E|apply IH; exact H].
        - intros [s [n' [E H]]]. exists s, n'. split; [exact E|]. split; [apply star_any_all|apply IH; exact H]. }
      destruct first; cbn [andb app].
      * destruct dot; cbn [negb app Mseq].
        -- split.
           ++ intros [s1 [s2 [E [[-> HP] H]]]]. cbn [app] in E. subst s2. apply Core in H. destruct H as [s [n' [E H]]].
              exists s, n'. split; [exact E|]. split; [|split; [intros _ X; discriminate|exact H]].
              intros _. apply plook_any in HP. exact HP.
           ++ intros [s [n' [E [Hne [_ H]]]]]. exists [], n. split; [reflexivity|]. split.
              ** split; [reflexivity|]. apply plook_any. apply Hne. reflexivity.
              ** apply Core. exists s, n'. split; [exact E|exact H].
        -- split.
           ++ intros [s1 [s2 [E [[-> HP] [s3 [s4 [E2 [[-> HN] H]]]]]]]]. cbn [app] in *. subst. apply Core in H. destruct H as [s [n' [E H]]].
              exists s, n'. split; [exact E|]. apply plook_any in HP. split; [intros _; exact HP|]. split; [|exact H].
              intros _ _ y Ey. apply (proj1 (nlook_dot _) HN y). exact Ey.
           ++ intros [s [n' [E [Hne [Hd H]]]]]. exists [], n. split; [reflexivity|]. split.
              ** split; [reflexivity|]. apply plook_any. apply Hne. reflexivity.
              ** exists [], n. split; [reflexivity|]. split.
                 --- split; [reflexivity|]. apply nlook_dot. intros y Ey. apply (Hd eq_refl eq_refl y Ey).
                 --- apply Core. exists s, n'. split; [exact E|exact H].
      * cbn [Mseq]. split.
        -- intros H. apply Core in H. destruct H as [s [n' [E H]]]. exists s, n'. split; [exact E|]. split; [discriminate|]. split; [discriminate|exact H].
        -- intros [s [n' [E [_ [_ H]]]]]. apply Core. exists s, n'. split; [exact E|exact H].
    + cbn [emit DenR].
      rewrite (guard_one_rest dot first (fun x => if neg then ~ In x l else In x l) (if neg then NSetOf l else SetOf l) (emit dot false ts) n rest).
      * split; intros [x [n' [E [A [B C]]]]]; exists x, n'; (split; [exact E|]); (split; [exact A|]); (split; [exact B|]); apply IH; exact C.
      * intros s r0. destruct neg; cbn [M]; reflexivity.
Qed.

(* ---- patterns as chunks: flat runs and groups of literal alternatives ---- *)
Inductive chunk := CFlat (ts : list tok) | CGrp (ty : ch) (alts : list str).

Definition unparse_c (c : chunk) : str :=
  match c with
  | CFlat ts => unparse ts
  | CGrp ty alts => ty :: 40 :: alts_src alts ++ [41]
  end.
Definition unparse_cs (cs : list chunk) : str := flat_map unparse_c cs.

(* regular expressions: the atoms of C01Flat plus `(?:a|b|…)` with a quantifier *)
Inductive rex := RFlat (r : re) | RGrp (ty : ch) (alts : list str).
Definition printx1 (x : rex) : str :=
  match x with
  | RFlat r => print1 r
  | RGrp ty alts => S_ "(?:" ++ alts_re alts ++ S_ ")" ++
                    (if ty =? 63 then S_ "?" else if ty =? 42 then S_ "*" else if ty =? 43 then S_ "+" else [])
  end.
Definition printx (xs : list rex) : str := flat_map printx1 xs.

(* concatenations of alternatives *)
Inductive Rep (alts : list str) : str -> Prop :=
| Rep_nil : Rep alts []
| Rep_cons a s : In a alts -> Rep alts s -> Rep alts (a ++ s).

Definition GrpDen (ty : ch) (alts : list str) (s : str) : Prop :=
  if ty =? 63 then s = [] \/ In s alts
  else if ty =? 42 then Rep alts s
  else if ty =? 43 then exists a s', In a alts /\ Rep alts s' /\ s = a ++ s'
  else In s alts.

Fixpoint Mseqx (xs : list rex) (s rest : str) : Prop :=
  match xs with
  | [] => s = []
  | RFlat r :: xs' => exists s1 s2, s = s1 ++ s2 /\ M r s1 (s2 ++ rest) /\ Mseqx xs' s2 rest
  | RGrp ty alts :: xs' => exists s1 s2, s = s1 ++ s2 /\ GrpDen ty alts s1 /\ Mseqx xs' s2 rest
  end.

Definition is_nilt (ts : list tok) : bool := match ts with [] => true | _ => false end.

Fixpoint emitc (dot first : bool) (cs : list chunk) : list rex :=
  match cs with
  | [] => []
  | CFlat ts :: r => map RFlat (emit dot first ts) ++ emitc dot (first && is_nilt ts) r
  | CGrp ty alts :: r => RGrp ty alts :: emitc dot false r
  end.

(* documented meaning; after a group the start-of-name rules no longer apply (for `?(…)`/`*(…)` at the very start that is
   the known finding C03-group-then-wild, stated here as the code behaves) *)
Fixpoint DenC (dot first : bool) (cs : list chunk) (n : str) : Prop :=
  match cs with
  | [] => n = []
  | CFlat ts :: r => exists n1 n2, n = n1 ++ n2 /\ DenR dot first ts n1 n2 /\ DenC dot (first && is_nilt ts) r n2
  | CGrp ty alts :: r => exists n1 n2, n = n1 ++ n2 /\ GrpDen ty alts n1 /\ DenC dot false r n2
  end.

Lemma Mseqx_flat_app : forall rs xs s rest,
  Mseqx (map RFlat rs ++ xs) s rest <-> exists s1 s2, s = s1 ++ s2 /\ Mseq rs s1 (s2 ++ rest) /\ Mseqx xs s2 rest.
Proof.
  induction rs as [|r rs IH]; intros xs s rest.
  - cbn [map app Mseq]. split.
    + intros H. exists [], s. split; [reflexivity|]. split; [reflexivity|exact H].
    + intros [s1 [s2 [E [-> H]]]]. cbn [app] in E. subst. exact H.
  - cbn [map app Mseqx Mseq]. split.
    + intros [a [b [E [Hr H]]]]. apply IH in H. destruct H as [b1 [b2 [Eb [H1 H2]]]]. subst.
      exists (a ++ b1), b2. split; [rewrite app_assoc; reflexivity|]. split; [|exact H2].
      exists a, b1. split; [reflexivity|]. split; [rewrite <- app_assoc in Hr; exact Hr|exact H1].
    + intros [s1 [s2 [E [[a [b1 [E1 [Hr H1]]]] H2]]]]. subst.
      exists a, (b1 ++ s2). split; [rewrite app_assoc; reflexivity|]. split; [rewrite <- app_assoc; exact Hr|].
      apply IH. exists b1, s2. split; [reflexivity|]. split; [exact H1|exact H2].
Qed.

Theorem emitc_sound_complete dot : forall cs first n, Mseqx (emitc dot first cs) n [] <-> DenC dot first cs n.
Proof.
  induction cs as [|c cs IH]; intros first n; [reflexivity|].
  destruct c as [ts|ty alts]; cbn [emitc DenC].
  - rewrite Mseqx_flat_app. split.
    + intros [s1 [s2 [E [H1 H2]]]]. exists s1, s2. split; [exact E|]. rewrite app_nil_r in H1.
      split; [apply emit_sound_complete_rest; exact H1|apply IH; exact H2].
    + intros [n1 [n2 [E [H1 H2]]]]. exists n1, n2. split; [exact E|]. rewrite app_nil_r.
      split; [apply emit_sound_complete_rest; exact H1|apply IH; exact H2].
  - cbn [Mseqx]. split; intros [n1 [n2 [E [H1 H2]]]]; exists n1, n2; (split; [exact E|]); (split; [exact H1|apply IH; exact H2]).
Qed.

(* ---- the text half for chunk lists ---- *)
Open Scope Z_scope.

Fixpoint cwf (cs : list chunk) : bool :=
  match cs with
  | [] => true
  | CFlat ts :: r =>
      wf ts && wfx ts &&
      (match r with
       | [] => true
       | CGrp ty _ :: _ => negb (ends_star ts && N.eqb ty 42)
       | CFlat _ :: _ => false
       end) && cwf r
  | CGrp ty alts :: r => grp_ty ty && forallb (forallb gplain) alts && cwf r
  end.

Lemma printx_flat rs xs : printx (map RFlat rs ++ xs) = print rs ++ printx xs.
Proof. induction rs as [|r rs IH]; [reflexivity|]. cbn [map app printx flat_map printx1 print]. rewrite <- app_assoc. f_equal. exact IH. Qed.

Lemma group_text_print cf ty body : grp_ty ty = true -> c_capture cf = false ->
  group_text cf ty body = S_ "(?:" ++ body ++ S_ ")" ++
    (if N.eqb ty 63 then S_ "?" else if N.eqb ty 42 then S_ "*" else if N.eqb ty 43 then S_ "+" else []).
Proof.
  intros G Hc. unfold group_text. rewrite Hc. unfold grp_ty, ch_in in G. cbn [existsb] in G. rewrite !orb_false_r in G.
  unfold cQM, cSTAR, cPLUS, cAT.
  destruct (N.eqb_spec ty 63) as [->|N63]; [reflexivity|].
  destruct (N.eqb_spec ty 42) as [->|N42]; [reflexivity|].
  destruct (N.eqb_spec ty 43) as [->|N43]; [reflexivity|].
  destruct (N.eqb_spec ty 64) as [->|N64]; [reflexivity|].
  cbn in G. discriminate.
Qed.

Lemma forallb_Forall {A} (f : A -> bool) l : forallb f l = true -> Forall (fun a => f a = true) l.
Proof. induction l as [|x l IH]; intros H; [constructor|]. cbn in H. apply andb_true_iff in H. destruct H as [H1 H2]. constructor; [exact H1|apply IH; exact H2]. Qed.

Section ChunkText.
  Variable cf : cfg.
  Hypothesis Hpath : c_pathname cf = false.
  Hypothesis Habort : c_bslash_abort cf = false.
  Hypothesis Hunix : c_unix cf = true.
  Hypothesis Hsep : c_sep cf = S_ "[/]".
  Hypothesis Hneed : c_need_char cf = Frag.u_NEED_CHAR.
  Hypothesis Hcapt : c_capture cf = false.
  Hypothesis Hext : c_extend cf = true.

  Lemma chunks_loop : forall cs fuel st i cur first,
    cwf cs = true -> (2 * length (unparse_cs cs) + 2 <= fuel)%nat -> inv2x first st ->
    exists st' cur', root_loop fuel cf st {| idx := i; rest := unparse_cs cs |} cur = Ok (st', cur') /\
                     jrev cur' = jrev cur ++ printx (emitc (c_dot cf) first cs) /\ inv st'.
  Proof.
    induction cs as [|c cs IH]; intros fuel st i cur first W Hf I2.
    - destruct fuel as [|f]; [lia|]. exists st, cur. split; [reflexivity|]. split; [cbn; rewrite app_nil_r; reflexivity|].
      eapply inv2_inv. apply I2.
    - destruct c as [ts|ty alts].
      + cbn [cwf] in W. apply andb_true_iff in W. destruct W as [W Wr]. apply andb_true_iff in W. destruct W as [W Wn].
        apply andb_true_iff in W. destruct W as [Wf Wx].
        change (unparse_cs (CFlat ts :: cs)) with (unparse ts ++ unparse_cs cs) in *. rewrite app_length in Hf.
        assert (T1 : ends_star ts = true -> nostar_head (unparse_cs cs) = true).
        { intros Es. destruct cs as [|[ts2|ty2 alts2] cs2]; [reflexivity|discriminate|].
          rewrite Es in Wn. cbn [andb] in Wn. cbn [unparse_cs flat_map unparse_c app nostar_head]. exact Wn. }
        assert (T2 : head_ok (unparse_cs cs) = true).
        { destruct cs as [|[ts2|ty2 alts2] cs2]; [reflexivity|discriminate|].
          cbn [cwf] in Wr. apply andb_true_iff in Wr. destruct Wr as [Wr _]. apply andb_true_iff in Wr. destruct Wr as [Gt _].
          cbn [unparse_cs flat_map unparse_c app head_ok]. destruct (N.eqb_spec ty2 40) as [->|]; [discriminate|reflexivity]. }
        destruct (flat_advance cf Hpath Habort Hunix Hsep Hneed ts fuel st i cur first (unparse_cs cs) Wf Wx T1 T2 ltac:(lia) I2)
          as [f' [st1 [i1 [cur1 [F1 [E1 [J1 K1]]]]]]].
        assert (K1' : inv2x (first && is_nilt ts) st1) by (destruct ts; [rewrite andb_true_r|rewrite andb_false_r]; exact K1).
        destruct (IH f' st1 i1 cur1 (first && is_nilt ts) Wr ltac:(lia) K1') as [st' [cur' [E [J K]]]].
        exists st', cur'. split; [eapply eq_trans; [exact E1|exact E]|]. split; [|exact K].
        rewrite J, J1. cbn [emitc]. rewrite printx_flat, <- app_assoc. reflexivity.
      + cbn [cwf] in W. apply andb_true_iff in W. destruct W as [W Wr]. apply andb_true_iff in W. destruct W as [Gt Ga].
        apply forallb_Forall in Ga.
        assert (U : unparse_cs (CGrp ty alts :: cs) = ty :: 40%N :: alts_src alts ++ 41%N :: unparse_cs cs).
        { cbn [unparse_cs flat_map unparse_c]. cbn [app]. rewrite <- app_assoc. reflexivity. }
        assert (Ln : (length (unparse_cs (CGrp ty alts :: cs)) = 3 + length (alts_src alts) + length (unparse_cs cs))%nat).
        { rewrite U. cbn [length]. rewrite app_length. cbn [length]. lia. }
        destruct fuel as [|[|f]]; [lia|lia|].
        pose proof (step_grp cf) as SG. repeat match type of SG with ((_ = _) -> _) => specialize (SG ltac:(assumption)) end.
        destruct (SG f st ty i alts (unparse_cs cs) cur first Gt Ga ltac:(lia) I2) as [st1 [i1 [E1 K1]]].
        destruct (IH (S f) st1 i1 (T (group_text cf ty (alts_re alts)) :: cur) false Wr ltac:(lia) K1) as [st' [cur' [E [J K]]]].
        exists st', cur'. split; [rewrite U; eapply eq_trans; [exact E1|exact E]|]. split; [|exact K].
        rewrite J, jrev_cons. cbn [emitc printx flat_map]. rewrite (group_text_print cf ty _ Gt Hcapt). unfold printx1.
        rewrite <- !app_assoc. reflexivity.
  Qed.
End ChunkText.

Lemma str_eqb_true' : forall a b : str, str_eqb a b = true -> a = b.
Proof.
  induction a as [|x a IH]; intros [|y b] H; cbn in H; try discriminate; [reflexivity|].
  apply andb_true_iff in H. destruct H as [H1 H2]. apply N.eqb_eq in H1. subst. f_equal. apply IH. exact H2.
Qed.

Lemma grp_ty_not c : grp_ty c = true -> c <> 92%N /\ c <> 40%N.
Proof. unfold grp_ty, ch_in. cbn [existsb]. intros H. split; intros ->; discriminate. Qed.

Lemma unparse_cs_not_lone_bs cs : cwf cs = true -> str_eqb (unparse_cs cs) [cBS] = false.
Proof.
  intros W. destruct (str_eqb (unparse_cs cs) [cBS]) eqn:E; [|reflexivity]. exfalso.
  apply str_eqb_true' in E.
  destruct cs as [|[ts|ty alts] r]; [discriminate| |].
  - cbn [cwf] in W. apply andb_true_iff in W. destruct W as [W Wr]. apply andb_true_iff in W. destruct W as [W Wn].
    apply andb_true_iff in W. destruct W as [Wf _].
    change (unparse_cs (CFlat ts :: r)) with (unparse ts ++ unparse_cs r) in E.
    destruct r as [|[ts2|ty2 alts2] r2]; [|discriminate|].
    + cbn [unparse_cs flat_map] in E. rewrite app_nil_r in E. pose proof (unparse_not_lone_bs ts Wf) as Q. rewrite E in Q. discriminate.
    + cbn [cwf] in Wr. apply andb_true_iff in Wr. destruct Wr as [Wr _]. apply andb_true_iff in Wr. destruct Wr as [Gt _].
      destruct (grp_ty_not ty2 Gt) as [N92 _].
      apply (f_equal (@length N)) in E. rewrite app_length in E. cbn [unparse_cs flat_map unparse_c app length] in E.
      destruct ts as [|t ts']; [cbn in E; lia|]. destruct (unparse_cons t ts') as [d [r0 Er]]. rewrite Er in E. cbn [length] in E. lia.
  - cbn [cwf] in W. apply andb_true_iff in W. destruct W as [W _]. apply andb_true_iff in W. destruct W as [Gt _].
    destruct (grp_ty_not ty Gt) as [N92 _]. cbn [unparse_cs flat_map unparse_c app] in E. inversion E; try contradiction.
Qed.

Theorem wcparse_chunks flags isb cs :
  cwf cs = true ->
  has flags PATHNAME = false -> is_unix_style linux flags = true -> has flags EXTMATCH = true ->
  has flags u_ANCHOR = false -> has flags MATCHBASE = false -> has flags u_EXTMATCHBASE = false ->
  has flags u_TRANSLATE = false ->
  wcparse linux flags isb (unparse_cs cs) =
  inl (S_ "^(?s" ++ (if get_case linux flags then [] else S_ "i") ++ S_ ":" ++
       printx (emitc (has flags DOTMATCH) true cs) ++ S_ ")$").
Proof.
  intros W Hp Hu Hx Ha Hm He Ht. unfold wcparse.
  destruct (mk_cfg linux flags isb) as [cf st] eqn:E.
  assert (Ecf : cf = fst (mk_cfg linux flags isb)) by (rewrite E; reflexivity).
  assert (Est : st = snd (mk_cfg linux flags isb)) by (rewrite E; reflexivity).
  assert (Hpath : c_pathname cf = false) by (rewrite Ecf; exact Hp).
  assert (Hunix : c_unix cf = true) by (rewrite Ecf; exact Hu).
  assert (Hext : c_extend cf = true) by (rewrite Ecf; exact Hx).
  assert (Hdot : c_dot cf = has flags DOTMATCH) by (rewrite Ecf; reflexivity).
  assert (Habort : c_bslash_abort cf = false) by (rewrite Ecf; unfold mk_cfg; cbn [fst c_bslash_abort]; rewrite Hu; reflexivity).
  assert (Hwd : c_windrive cf = false) by (rewrite Ecf; unfold mk_cfg; cbn [fst c_windrive]; rewrite Hu; reflexivity).
  assert (Hanchor : c_anchor cf = false) by (rewrite Ecf; exact Ha).
  assert (Hcap : c_capture cf = false) by (rewrite Ecf; exact Ht).
  assert (Hreal : c_realpath cf = false) by (rewrite Ecf; unfold mk_cfg; cbn [fst c_realpath]; rewrite Hp; apply andb_false_r).
  assert (Hcs : c_cs cf = get_case linux flags) by (rewrite Ecf; reflexivity).
  assert (Hsep : c_sep cf = S_ "[/]") by (rewrite Ecf; unfold mk_cfg; cbn [fst c_sep]; rewrite Hu; reflexivity).
  assert (Hneed : c_need_char cf = Frag.u_NEED_CHAR) by (rewrite Ecf; unfold mk_cfg; cbn [fst c_need_char]; rewrite Hp; reflexivity).
  assert (Hmb : matchbase st = false) by (rewrite Est; exact Hm).
  assert (Hemb : extmatchbase st = false) by (rewrite Est; exact He).
  assert (Hgs : globstar st = false) by (rewrite Est; unfold mk_cfg; cbn [snd globstar]; rewrite Hp; reflexivity).
  assert (Hds : dir_start st = false /\ inv_ext st = 0) by (rewrite Est; split; reflexivity).
  assert (Hls : in_list st = false /\ inv_nest st = false) by (rewrite Est; split; reflexivity).
  unfold wcparse_cf. rewrite Hanchor, Hmb, Hemb. cbn [orb].
  rewrite (unparse_cs_not_lone_bs cs W).
  destruct (unparse_cs cs) as [|d r] eqn:Ep.
  - assert (Ec : printx (emitc (has flags DOTMATCH) true cs) = []).
    { destruct cs as [|[ts|ty alts] r]; [reflexivity| |discriminate].
      change (unparse_cs (CFlat ts :: r)) with (unparse ts ++ unparse_cs r) in Ep. apply app_eq_nil in Ep. destruct Ep as [E1 E2].
      destruct ts as [|t ts']; [|destruct (unparse_cons t ts') as [d0 [r0 Er]]; rewrite Er in E1; discriminate].
      cbn [cwf] in W. destruct r as [|[ts2|ty2 alts2] r2]; [reflexivity|rewrite andb_false_r in W; discriminate|discriminate]. }
    rewrite Ec. rewrite Hcap, Hcs. reflexivity.
  - rewrite <- Ep. remember (unparse_cs cs) as p eqn:Ep0.
    unfold root. rewrite Hwd, Hpath, Hreal. cbn [andb negb]. rewrite ?andb_false_r.
    assert (I2 : inv2x true (set_after_start st)) by (destruct Hds, Hls; repeat split; cbn; auto).
    pose proof (chunks_loop cf) as CL. repeat match type of CL with ((_ = _) -> _) => specialize (CL ltac:(assumption)) end.
    destruct (CL cs (fuel_for p) (set_after_start st) 0 [T []] true W) as [st' [cur' [Eq [J [Hd' Hi']]]]].
    { rewrite <- Ep0. unfold fuel_for. lia. }
    { exact I2. }
    rewrite <- Ep0 in Eq. rewrite Eq.
    unfold clean_up_inverse. rewrite Hi'. cbn [Z.eqb]. rewrite Hcap, Hcs, J, Hdot.
    destruct (matchbase st' || extmatchbase st'); reflexivity.
Qed.

(* both halves: flat tokens and groups of literal alternatives under EXTMATCH *)
Theorem C01_ext_language flags isb cs :
  cwf cs = true ->
  has flags PATHNAME = false -> is_unix_style linux flags = true -> has flags EXTMATCH = true ->
  has flags u_ANCHOR = false -> has flags MATCHBASE = false -> has flags u_EXTMATCHBASE = false ->
  has flags u_TRANSLATE = false ->
  exists xs,
    wcparse linux flags isb (unparse_cs cs) =
      inl (S_ "^(?s" ++ (if get_case linux flags then [] else S_ "i") ++ S_ ":" ++ printx xs ++ S_ ")$") /\
    forall n, Mseqx xs n [] <-> DenC (has flags DOTMATCH) true cs n.
Proof.
  intros. exists (emitc (has flags DOTMATCH) true cs). split; [apply wcparse_chunks; assumption|].
  intros n. apply emitc_sound_complete.
Qed.

Example ext_example_text :
  wcparse linux EXTMATCH false (unparse_cs [CFlat [TLit 97%N; TStar]; CGrp 43%N [S_ "bc"; S_ "d"]; CGrp 63%N [S_ "x"]; CFlat [TQ]]) =
  inl (S_ "^(?s:a.*?(?:bc|d)+(?:x)?.)$").
Proof. vm_compute. reflexivity. Qed.

Example ext_example_src :
  unparse_cs [CFlat [TLit 97%N; TStar]; CGrp 43%N [S_ "bc"; S_ "d"]; CGrp 63%N [S_ "x"]; CFlat [TQ]] = S_ "a*+(bc|d)?(x)?" /\
  cwf [CFlat [TLit 97%N; TStar]; CGrp 43%N [S_ "bc"; S_ "d"]; CGrp 63%N [S_ "x"]; CFlat [TQ]] = true.
Proof. vm_compute. split; reflexivity. Qed.

Example ext_example_den :
  DenC false true [CFlat [TLit 97%N]; CGrp 43%N [S_ "bc"; S_ "d"]] (S_ "abcd") /\
  ~ DenC false true [CFlat [TLit 97%N]; CGrp 64%N [S_ "bc"; S_ "d"]] (S_ "abcd").
Proof.
  split.
  - exists (S_ "a"), (S_ "bcd"). split; [reflexivity|]. split; [exists []; split; reflexivity|].
    exists (S_ "bcd"), []. split; [reflexivity|]. split; [|reflexivity].
    unfold GrpDen. cbn [N.eqb Pos.eqb]. exists (S_ "bc"), (S_ "d"). split; [left; reflexivity|]. split; [|reflexivity].
    change (S_ "d") with (S_ "d" ++ []). apply Rep_cons; [right; left; reflexivity|constructor].
  - intros [n1 [n2 [E [D1 D2]]]]. cbn [DenR] in D1. destruct D1 as [n' [E1 E2]]. subst n' n1.
    cbn [app] in E. inversion E as [E']. clear E. subst n2.
    cbn [DenC] in D2. destruct D2 as [m1 [m2 [E3 [G E4]]]]. subst m2. rewrite app_nil_r in E3. subst m1.
    unfold GrpDen in G. cbn [N.eqb Pos.eqb] in G. destruct G as [G|[G|[]]]; discriminate.
Qed.
