(* C01, flat fragment with EXTMATCH possibly on: the end-to-end theorem of C01Flat for every fnmatch flag word, provided no
   `(` directly follows one of the group-introducing characters `? * + @ !` (otherwise the text is a group, see below). *)
From WC Require Import Str WcParse.
From WC.Gen Require Import Consts FlagFuns.
From WC.Proofs Require Import C09Parse C01Flat.
From Coq Require Import Lia.
Import Mwcparse.
Open Scope Z_scope.

(* the fields the flat loop looks at; a failed group attempt changes at most match_dot_dir *)
Definition core_eq (a b : pst) : Prop :=
  after_start a = after_start b /\ dir_start a = dir_start b /\ in_list a = in_list b /\ inv_nest a = inv_nest b /\
  inv_ext a = inv_ext b /\ globstar a = globstar b.

Lemma ext_fail_core f cf st ty it cur :
  head_ok (rest it) = true -> in_list st = false -> inv_nest st = false ->
  exists st', ext (S f) cf st ty it cur true = Ok (false, st', it, cur) /\ core_eq st' st.
Proof.
  intros Hh Hl Hn. cbn [ext]. unfold next. rewrite Hl, Hn.
  destruct (rest it) as [|c r] eqn:Er.
  - eexists; split; [reflexivity|]. repeat split; cbn; auto.
  - cbn [head_ok] in Hh. unfold cLP. rewrite Hh.
    eexists; split; [reflexivity|]. repeat split; cbn; auto.
Qed.

Definition inv2x (first : bool) (st : pst) : Prop := inv2 first st /\ in_list st = false /\ inv_nest st = false.

Lemma inv2x_core first a b : core_eq a b -> inv2x first b -> inv2x first a.
Proof.
  intros [A [B [C [D [E F]]]]] [[I1 [I2 [I3 I4]]] [I5 I6]]. repeat split; congruence.
Qed.
Lemma inv2x_update first st : inv2x first st -> inv2x false (update_dir_state st).
Proof.
  intros [I [A B]]. split; [eapply inv2_update; exact I|]. unfold update_dir_state.
  destruct (dir_start st && negb (after_start st)); [split; assumption|]. destruct (negb (dir_start st) && after_start st); split; assumption.
Qed.
Lemma inv2x_update_reset first st : inv2x first st -> inv2x false (update_dir_state (reset_dir_track st)).
Proof. intros [I [A B]]. split; [eapply inv2_update_reset; exact I|]. split; assumption. Qed.

(* no `(` right after a character that could introduce a group *)
Definition ends_ext (t : tok) : bool :=
  match t with TQ | TStar => true | TLit c => ch_in c ext_types | _ => false end.
Fixpoint wfx (ts : list tok) : bool :=
  match ts with
  | [] => true
  | t :: r => (if ends_ext t then match r with TLit 40%N :: _ => false | _ => true end else true) && wfx r
  end.

Lemma head_ok_unparse t ts : wfx (t :: ts) = true -> ends_ext t = true -> head_ok (unparse ts) = true.
Proof.
  intros W E. cbn [wfx] in W. rewrite E in W. apply andb_true_iff in W. destruct W as [W _].
  destruct ts as [|t2 ts2]; [reflexivity|]. destruct t2 as [c|c| | |neg l]; try reflexivity.
  cbn [unparse flat_map unparse1 app head_ok]. destruct (N.eqb_spec c 40) as [->|]; [discriminate|reflexivity].
Qed.

Section FlatX.
  Variable cf : cfg.
  Hypothesis Hpath : c_pathname cf = false.
  Hypothesis Habort : c_bslash_abort cf = false.
  Hypothesis Hunix : c_unix cf = true.
  Hypothesis Hsep : c_sep cf = S_ "[/]".
  Hypothesis Hneed : c_need_char cf = Frag.u_NEED_CHAR.

  (* the group attempt at the head of an iteration: nothing happens when the next character is not `(` *)
  Lemma try_ext_none f st c it1 cur :
    (ch_in c ext_types = false \/ head_ok (rest it1) = true) -> in_list st = false -> inv_nest st = false ->
    exists st', core_eq st' st /\
      (if c_extend cf && ch_in c ext_types
       then match ext (S f) cf st c it1 cur true with
            | Fuel => Fuel | Stop => Stop
            | Ok (true, st', it', cur') => Ok (Some (st', it', cur'), st')
            | Ok (false, st', _, _) => Ok (None, st')
            end
       else Ok (None, st)) = (Ok (None, st') : res (option (pst * iter * list item) * pst)).
  Proof.
    intros Hh Hl Hn. destruct (c_extend cf && ch_in c ext_types) eqn:Ex.
    - destruct Hh as [Hh|Hh]; [rewrite Hh, andb_false_r in Ex; discriminate|].
      destruct (ext_fail_core f cf st c it1 cur Hh Hl Hn) as [st' [E C]]. exists st'. split; [exact C|]. rewrite E. reflexivity.
    - exists st. split; [repeat split|reflexivity].
  Qed.

  Lemma stepx_lit f st i c r cur :
    plain c = true -> (ch_in c ext_types = false \/ head_ok r = true) -> in_list st = false -> inv_nest st = false ->
    exists st', core_eq st' st /\
      root_loop (S (S f)) cf st {| idx := i; rest := c :: r |} cur =
      root_loop (S f) cf (update_dir_state st') {| idx := i + 1; rest := r |} (T (print1 (lit_re c)) :: cur).
  Proof.
    intros Hp Hh Hl Hn. cbn [root_loop next rest idx].
    destruct (try_ext_none f st c {| idx := i + 1; rest := r |} cur Hh Hl Hn) as [st' [C E]]. exists st'. split; [exact C|].
    rewrite E. clear E.
    unfold plain, ch_in in Hp. cbn [existsb] in Hp. rewrite !orb_false_r in Hp.
    apply negb_true_iff in Hp. apply orb_false_iff in Hp. destruct Hp as [H42 Hp].
    apply orb_false_iff in Hp. destruct Hp as [H63 Hp]. apply orb_false_iff in Hp. destruct Hp as [H91 H92].
    unfold lit_re.
    destruct (N.eqb_spec c cDOT) as [->|Hd].
    - unfold handle_dot. rewrite Hpath, andb_false_r. cbn [andb]. reflexivity.
    - unfold cSTAR, cQM, cBS, cLB. rewrite H42, H63.
      change cSL with 47%N. destruct (N.eqb_spec c 47) as [->|H47].
      + rewrite Hpath, Hsep. reflexivity.
      + rewrite H92, H91. reflexivity.
  Qed.

  Lemma stepx_q f st i r cur :
    head_ok r = true -> in_list st = false -> inv_nest st = false ->
    exists st', core_eq st' st /\
      root_loop (S (S f)) cf st {| idx := i; rest := 63%N :: r |} cur =
      root_loop (S f) cf (update_dir_state (reset_dir_track st')) {| idx := i + 1; rest := r |}
                (T ((if after_start st && negb (c_dot cf) then Frag.u_NO_DOT else []) ++ Frag.u_QMARK) :: cur).
  Proof.
    intros Hh Hl Hn. cbn [root_loop next rest idx].
    destruct (try_ext_none f st 63%N {| idx := i + 1; rest := r |} cur (or_intror Hh) Hl Hn) as [st' [C E]]. exists st'. split; [exact C|].
    rewrite E. clear E.
    change (N.eqb 63%N cDOT) with false. change (N.eqb 63%N cSTAR) with false. change (N.eqb 63%N cQM) with true. cbv iota.
    unfold restrict_sequence. rewrite Hpath. destruct C as [Ca _]. rewrite Ca. reflexivity.
  Qed.

  Lemma stepx_star f st i r cur :
    globstar st = false -> (match r with c :: _ => negb (N.eqb c 42) | [] => true end) = true ->
    head_ok r = true -> in_list st = false -> inv_nest st = false ->
    exists st', core_eq st' st /\
      root_loop (S (S f)) cf st {| idx := i; rest := 42%N :: r |} cur =
      root_loop (S f) cf (update_dir_state (reset_dir_track st')) {| idx := i + 1; rest := r |} (T (star_text cf st) :: cur).
  Proof.
    intros Hg Hr Hh Hl Hn. cbn [root_loop next rest idx].
    destruct (try_ext_none f st 42%N {| idx := i + 1; rest := r |} cur (or_intror Hh) Hl Hn) as [st' [C E]]. exists st'. split; [exact C|].
    rewrite E. clear E.
    change (N.eqb 42%N cDOT) with false. change (N.eqb 42%N cSTAR) with true. cbv iota.
    destruct C as [Ca [_ [_ [_ [_ Cg]]]]].
    rewrite (handle_star_flat cf Hpath Hneed st' (i + 1) r cur) by (try congruence; assumption).
    unfold star_text. rewrite Ca. reflexivity.
  Qed.

  Lemma root_loop_flatx : forall ts fuel st i cur first,
    wf ts = true -> wfx ts = true -> (2 * length (unparse ts) < fuel)%nat -> inv2x first st ->
    exists st' cur', root_loop fuel cf st {| idx := i; rest := unparse ts |} cur = Ok (st', cur') /\
                     jrev cur' = jrev cur ++ print (emit (c_dot cf) first ts) /\ inv st'.
  Proof.
    induction ts as [|t ts IH]; intros fuel st i cur first W Wx Hf I2.
    - destruct fuel as [|f]; [cbn in Hf; lia|]. exists st, cur. split; [reflexivity|]. split; [cbn; rewrite app_nil_r; reflexivity|].
      eapply inv2_inv. apply I2.
    - pose proof Wx as Wx0. cbn [wfx] in Wx. apply andb_true_iff in Wx. destruct Wx as [_ Wx'].
      destruct I2 as [I2 [Il In]]. assert (I2x : inv2x first st) by (split; [exact I2|split; assumption]).
      change (unparse (t :: ts)) with (unparse1 t ++ unparse ts) in *. rewrite app_length in Hf.
      destruct t as [c|c| | |neg l].
      + cbn [unparse1 app length] in *. cbn [wf] in W. apply andb_true_iff in W. destruct W as [Wc W].
        destruct fuel as [|[|f]]; [lia|lia|].
        assert (Hh : ch_in c ext_types = false \/ head_ok (unparse ts) = true).
        { destruct (ch_in c ext_types) eqn:Ec; [right; apply (head_ok_unparse (TLit c) ts Wx0); exact Ec|left; reflexivity]. }
        destruct (stepx_lit f st i c (unparse ts) cur Wc Hh Il In) as [st1 [C E1]].
        destruct (IH (S f) (update_dir_state st1) (i + 1) (T (print1 (lit_re c)) :: cur) false W Wx' ltac:(lia)
                     (inv2x_update _ _ (inv2x_core _ _ _ C I2x))) as [st' [cur' [E [J K]]]].
        exists st', cur'. split; [eapply eq_trans; [exact E1|exact E]|]. split; [|exact K].
        rewrite J, jrev_cons. cbn [emit print flat_map]. rewrite <- app_assoc. reflexivity.
      + cbn [unparse1 app length] in *. cbn [wf] in W. apply andb_true_iff in W. destruct W as [Wc W].
        unfold escapable, ch_in in Wc. cbn [existsb] in Wc. apply negb_true_iff in Wc. apply orb_false_iff in Wc.
        destruct Wc as [W47 Wc]. apply orb_false_iff in Wc. destruct Wc as [W46 _].
        destruct fuel as [|f]; [lia|].
        rewrite (step_escaped cf Habort Hunix f st i c (unparse ts) cur (inv2_inv _ _ I2))
          by (intros ->; discriminate).
        destruct (IH f (update_dir_state st) (i + 1 + 1) (T (re_escape_ch c) :: cur) false W Wx' ltac:(lia) (inv2x_update _ _ I2x))
          as [st' [cur' [E [J K]]]].
        exists st', cur'. split; [exact E|]. split; [|exact K].
        rewrite J, jrev_cons. cbn [emit print flat_map print1]. rewrite <- app_assoc. reflexivity.
      + cbn [unparse1 app length] in *. cbn [wf] in W.
        destruct fuel as [|[|f]]; [lia|lia|].
        destruct (stepx_q f st i (unparse ts) cur (head_ok_unparse TQ ts Wx0 eq_refl) Il In) as [st1 [C E1]].
        destruct (IH (S f) (update_dir_state (reset_dir_track st1)) (i + 1)
                     (T ((if after_start st && negb (c_dot cf) then Frag.u_NO_DOT else []) ++ Frag.u_QMARK) :: cur)
                     false W Wx' ltac:(lia) (inv2x_update_reset _ _ (inv2x_core _ _ _ C I2x)))
          as [st' [cur' [E [J K]]]].
        exists st', cur'. split; [eapply eq_trans; [exact E1|exact E]|]. split; [|exact K].
        rewrite J, jrev_cons. destruct I2 as [_ [_ [_ Ha]]]. rewrite Ha. cbn [emit print].
        destruct (first && negb (c_dot cf)); cbn [app flat_map print1]; rewrite <- ?app_assoc; reflexivity.
      + cbn [unparse1 app length] in *.
        assert (W' : wf ts = true /\ (match unparse ts with c :: _ => negb (N.eqb c 42) | [] => true end) = true).
        { cbn [wf] in W. destruct ts as [|t2 ts2]; [split; reflexivity|].
          destruct t2 as [c2|c2| | |neg2 l2]; try discriminate; (split; [exact W|apply (unparse_head_not_star); [exact W|discriminate]]). }
        destruct W' as [W' Hh].
        destruct fuel as [|[|f]]; [lia|lia|].
        destruct (stepx_star f st i (unparse ts) cur ltac:(apply I2) Hh (head_ok_unparse TStar ts Wx0 eq_refl) Il In) as [st1 [C E1]].
        destruct (IH (S f) (update_dir_state (reset_dir_track st1)) (i + 1) (T (star_text cf st) :: cur)
                     false W' Wx' ltac:(lia) (inv2x_update_reset _ _ (inv2x_core _ _ _ C I2x)))
          as [st' [cur' [E [J K]]]].
        exists st', cur'. split; [eapply eq_trans; [exact E1|exact E]|]. split; [|exact K].
        rewrite J, jrev_cons. destruct I2 as [_ [_ [_ Ha]]]. unfold star_text. rewrite Ha. cbn [emit print].
        destruct first; cbn [andb]; destruct (c_dot cf); cbn [negb app flat_map print1]; rewrite <- ?app_assoc; reflexivity.
      + cbn [wf] in W. apply andb_true_iff in W. destruct W as [W W']. apply andb_true_iff in W. destruct W as [Wl Wn].
        assert (Hne : l <> []) by (destruct l; [discriminate|discriminate]).
        cbn [unparse1] in *. rewrite <- !app_assoc. cbn [app].
        destruct fuel as [|f]; [lia|].
        assert (Q : root_loop (S f) cf st {| idx := i; rest := 91%N :: (if neg then [33%N] else []) ++ l ++ 93%N :: unparse ts |} cur =
                    root_loop f cf (update_dir_state (if after_start st then reset_dir_track st else st))
                              {| idx := i + 1 + (if neg then 1 else 0) + Z.of_nat (length l) + 1; rest := unparse ts |}
                              (T ((if after_start st then (if negb (c_dot cf) then Frag.u_NO_DOT else []) else []) ++ br_text neg l) :: cur)).
        { cbn [root_loop next rest idx]. replace (ch_in 91%N ext_types) with false by reflexivity. rewrite andb_false_r.
          change (N.eqb 91%N cDOT) with false. change (N.eqb 91%N cSTAR) with false. change (N.eqb 91%N cQM) with false.
          change (N.eqb 91%N cSL) with false. change (N.eqb 91%N cBS) with false. change (N.eqb 91%N cLB) with true. cbv iota.
          rewrite (sequence_plain cf Hpath st (i + 1) neg l (unparse ts) Wl Hne). reflexivity. }
        assert (HL : (length l + 2 <= length ([91%N] ++ (if neg then [33%N] else []) ++ l ++ [93%N]))%nat).
        { rewrite !app_length. cbn [length]. lia. }
        assert (I3 : inv2x false (update_dir_state (if after_start st then reset_dir_track st else st))).
        { destruct (after_start st) eqn:Ea; [apply (inv2x_update_reset first); exact I2x|apply (inv2x_update first); exact I2x]. }
        destruct (IH f (update_dir_state (if after_start st then reset_dir_track st else st))
                     (i + 1 + (if neg then 1 else 0) + Z.of_nat (length l) + 1)
                     (T ((if after_start st then (if negb (c_dot cf) then Frag.u_NO_DOT else []) else []) ++ br_text neg l) :: cur)
                     false W' Wx' ltac:(lia) I3)
          as [st' [cur' [E [J K]]]].
        exists st', cur'. split; [eapply eq_trans; [exact Q|exact E]|]. split; [|exact K].
        rewrite J, jrev_cons. destruct I2 as [_ [_ [_ Ha]]]. rewrite Ha. cbn [emit print].
        destruct first; cbn [andb]; destruct (c_dot cf); destruct neg; cbn [negb app flat_map print1]; rewrite <- ?app_assoc; reflexivity.
  Qed.
End FlatX.

Theorem wcparse_flatx flags isb ts :
  wf ts = true -> wfx ts = true ->
  has flags PATHNAME = false -> is_unix_style linux flags = true ->
  has flags u_ANCHOR = false -> has flags MATCHBASE = false -> has flags u_EXTMATCHBASE = false ->
  has flags u_TRANSLATE = false ->
  wcparse linux flags isb (unparse ts) =
  inl (S_ "^(?s" ++ (if get_case linux flags then [] else S_ "i") ++ S_ ":" ++
       print (emit (has flags DOTMATCH) true ts) ++ S_ ")$").
Proof.
  intros W Wx Hp Hu Ha Hm He Ht. unfold wcparse.
  destruct (mk_cfg linux flags isb) as [cf st] eqn:E.
  assert (Ecf : cf = fst (mk_cfg linux flags isb)) by (rewrite E; reflexivity).
  assert (Est : st = snd (mk_cfg linux flags isb)) by (rewrite E; reflexivity).
  assert (Hpath : c_pathname cf = false) by (rewrite Ecf; exact Hp).
  assert (Hunix : c_unix cf = true) by (rewrite Ecf; exact Hu).
  assert (Hdot : c_dot cf = has flags DOTMATCH) by (rewrite Ecf; reflexivity).
  assert (Habort : c_bslash_abort cf = false) by (rewrite Ecf; unfold mk_cfg; cbn [fst c_bslash_abort]; rewrite Hu; reflexivity).
  assert (Hwd : c_windrive cf = false) by (rewrite Ecf; unfold mk_cfg; cbn [fst c_windrive]; rewrite Hu; reflexivity).
  assert (Hanchor : c_anchor cf = false) by (rewrite Ecf; exact Ha).
  assert (Hcap : c_capture cf = false) by (rewrite Ecf; exact Ht).
  assert (Hreal : c_realpath cf = false) by (rewrite Ecf; unfold mk_cfg; cbn [fst c_realpath]; rewrite Hp; apply andb_false_r).
  assert (Hcs : c_cs cf = get_case linux flags) by (rewrite Ecf; reflexivity).
  assert (Hsep : c_sep cf = S_ "[/]") by (rewrite Ecf; unfold mk_cfg; cbn [fst c_sep]; rewrite Hu; reflexivity).
  assert (Hneed : c_need_char cf = Frag.u_NEED_CHAR) by (rewrite Ecf; unfold mk_cfg; cbn [fst c_need_char]; rewrite Hp; reflexivity).
  assert (Hmb : matchbase st = false) by (rewrite Est; exact Hm).
  assert (Hemb : extmatchbase st = false) by (rewrite Est; exact He).
  assert (Hgs : globstar st = false) by (rewrite Est; unfold mk_cfg; cbn [snd globstar]; rewrite Hp; reflexivity).
  assert (Hds : dir_start st = false /\ inv_ext st = 0) by (rewrite Est; split; reflexivity).
  assert (Hls : in_list st = false /\ inv_nest st = false) by (rewrite Est; split; reflexivity).
  unfold wcparse_cf. rewrite Hanchor, Hmb, Hemb. cbn [orb].
  rewrite (unparse_not_lone_bs ts W).
  destruct ts as [|t ts].
  - cbn [unparse flat_map emit print]. rewrite Hcap, Hcs. reflexivity.
  - destruct (unparse_cons t ts) as [d [r Er]].
    remember (unparse (t :: ts)) as p eqn:Ep. rewrite Er. rewrite <- Er.
    unfold root. rewrite Hwd, Hpath, Hreal. cbn [andb negb]. rewrite ?andb_false_r.
    assert (I2 : inv2x true (set_after_start st)) by (destruct Hds, Hls; repeat split; cbn; auto).
    destruct (root_loop_flatx cf Hpath Habort Hunix Hsep Hneed (t :: ts) (fuel_for p) (set_after_start st) 0 [T []] true W Wx) as [st' [cur' [Eq [J [Hd' Hi']]]]].
    { rewrite <- Ep. unfold fuel_for. lia. }
    { exact I2. }
    rewrite <- Ep in Eq. rewrite Eq.
    unfold clean_up_inverse. rewrite Hi'. cbn [Z.eqb]. rewrite Hcap, Hcs, J, Hdot.
    destruct (matchbase st' || extmatchbase st'); reflexivity.
Qed.

(* C01Flat's theorem for EVERY fnmatch flag word, EXTMATCH included *)
Theorem C01_flat_language_any_flags flags isb ts :
  wf ts = true -> wfx ts = true ->
  has flags PATHNAME = false -> is_unix_style linux flags = true ->
  has flags u_ANCHOR = false -> has flags MATCHBASE = false -> has flags u_EXTMATCHBASE = false ->
  has flags u_TRANSLATE = false ->
  exists rs,
    wcparse linux flags isb (unparse ts) =
      inl (S_ "^(?s" ++ (if get_case linux flags then [] else S_ "i") ++ S_ ":" ++ print rs ++ S_ ")$") /\
    forall n, Mseq rs n [] <-> Den (has flags DOTMATCH) true ts n.
Proof.
  intros. exists (emit (has flags DOTMATCH) true ts). split; [apply wcparse_flatx; assumption|].
  intros n. apply emit_sound_complete.
Qed.

Example flatx_example_text :
  wcparse linux EXTMATCH false (unparse [TStar; TLit 43%N; TQ; TLit 97%N; TLit 40%N]) = inl (S_ "^(?s:(?=.)(?![.]).*?\+.a\()$").
Proof. vm_compute. reflexivity. Qed.
