(* Termination of the parser model: the explicit fuel is never the reason for an answer.
   Every loop of the model consumes at least one character of the remaining input per unit of fuel, every helper
   returns an iterator that is not longer than the one it was given (rewinds never go back past the caller's
   position), hence  length(remaining input) < fuel  suffices at every call and  wcparse  never answers EFuel. *)
From WC Require Import Str WcParse.
From WC.Gen Require Import Consts Posix FlagFuns.
From Coq Require Import Lia.
Import Mwcparse.
Open Scope nat_scope.

Definition size (it : iter) : nat := length (rest it).

Lemma next_size it c it1 : next it = Some (c, it1) -> S (size it1) = size it.
Proof. unfold next, size. destruct (rest it) as [|d r] eqn:E; [discriminate|]. intros H. inversion H; subst. reflexivity. Qed.

Lemma next_none_size it : next it = None -> size it = 0.
Proof. unfold next, size. destruct (rest it); [reflexivity|discriminate]. Qed.

(* ---- helpers return iterators that are not longer ---- *)
Lemma references_size cf st it sq :
  match references cf st it sq with
  | RVal _ _ it' => S (size it') = size it
  | RDot itd => itd = it
  | _ => True
  end.
Proof.
  unfold references. destruct (next it) as [[c it1]|] eqn:N; [|exact I]. apply next_size in N.
  destruct (N.eqb c cBS).
  - destruct (sq && c_bslash_abort cf); [exact I|]. destruct (c_bslash_abort cf).
    + destruct (negb (in_list st)); exact N.
    + destruct (negb (c_unix cf)); exact N.
  - destruct (N.eqb c cSL).
    + destruct (sq && c_pathname cf); [exact I|]. destruct (c_pathname cf); [destruct (negb (in_list st))|]; exact N.
    + destruct (N.eqb c cDOT); [reflexivity|exact N].
Qed.

Lemma skip_slashes_size_aux : forall n r i, length r <= n -> size (skip_slashes r i) <= length r.
Proof.
  induction n as [|n IH]; intros r i L.
  - destruct r; [cbn; lia | cbn in L; lia].
  - destruct r as [|c r]; [cbn; lia|]. cbn [skip_slashes]. cbn [length] in *.
    destruct (N.eqb c cSL). { specialize (IH r (i + 1)%Z). lia. }
    destruct (N.eqb c cBS); [|cbn; lia].
    destruct r as [|c2 r2]; [cbn; lia|]. destruct (N.eqb c2 cSL); [|cbn; lia].
    cbn [length] in *. specialize (IH r2 (i + 2)%Z). lia.
Qed.
Lemma skip_slashes_size : forall r i, size (skip_slashes r i) <= length r.
Proof. intros r i. apply (skip_slashes_size_aux (length r)). lia. Qed.

Lemma skip_stars_size : forall r i, size (skip_stars r i) <= length r.
Proof. induction r as [|c r IH]; intros i; cbn; [lia|]. destruct (N.eqb c cSTAR); [specialize (IH (i + 1)%Z); lia|cbn; lia]. Qed.

Lemma win_seps2_size : forall fuel c count h2 h1 it n,
  size h2 <= n -> size h1 <= n -> size it <= n -> size (win_seps2 fuel c count h2 h1 it) <= n.
Proof.
  induction fuel as [|f IH]; intros c count h2 h1 it n H2 H1 Hi; cbn [win_seps2]; [exact Hi|].
  destruct (N.eqb c cBS || N.eqb c cSL).
  - destruct (next it) as [[c' it']|] eqn:N; [|exact Hi]. apply next_size in N. apply IH; lia.
  - destruct (_ && _); assumption.
Qed.

Lemma consume_path_sep_size cf it : size (consume_path_sep cf it) <= size it.
Proof.
  unfold consume_path_sep. destruct (c_bslash_abort cf).
  - apply win_seps2_size; lia.
  - apply skip_slashes_size.
Qed.

Lemma drop_length : forall n (r : str), length (drop n r) <= length r.
Proof. induction n as [|n IH]; intros r; [cbn; lia|]. destruct r; cbn; [lia|]. specialize (IH r). lia. Qed.

Lemma posix_match_size cf it txt it' : posix_match cf it = Some (txt, it') -> size it' <= size it.
Proof.
  unfold posix_match. destruct (posix_find _ _) as [[t n]|]; [|discriminate]. intros H. inversion H; subst.
  unfold size. cbn [rest]. apply drop_length.
Qed.

Lemma handle_posix_size cf it result er r' it' lp : handle_posix cf it result er = (r', it', lp) -> size it' <= size it.
Proof.
  unfold handle_posix. destruct (posix_match cf it) as [[txt it0]|] eqn:P.
  - intros H. inversion H; subst. eapply posix_match_size; exact P.
  - intros H. inversion H; subst. lia.
Qed.

Definition good {A} (proj : A -> iter) (n : nat) (r : res A) : Prop :=
  match r with Fuel => False | Stop => True | Ok a => size (proj a) <= n end.

Lemma good_le {A} (proj : A -> iter) n m r : good proj n r -> n <= m -> good proj m r.
Proof. destruct r; cbn; auto. lia. Qed.

Definition pj3 {A B : Type} (x : A * iter * B) : iter := snd (fst x).

Lemma seq_loop_good : forall fuel cf st c it result er eh rm lp,
  size it < fuel -> good (@pj3 (list str) bool) (size it) (seq_loop fuel cf st c it result er eh rm lp).
Proof.
  induction fuel as [|f IH]; intros cf st c it result er eh rm lp Hf; [lia|]. cbn [seq_loop].
  destruct (N.eqb c cRB); [cbn; unfold pj3; cbn; lia|].
  destruct (N.eqb c cMINUS).
  - destruct (if lp then _ else _) as [[[r1 e1] e2] rm1].
    destruct (next it) as [[c' it']|] eqn:N; [|exact I]. apply next_size in N.
    eapply good_le; [apply IH; lia|lia].
  - destruct (if N.eqb c cLB then handle_posix cf it result er else (result, it, false)) as [[r0 it0] lp0] eqn:HP.
    assert (S0 : size it0 <= size it).
    { destruct (N.eqb c cLB); [eapply handle_posix_size; exact HP|inversion HP; subst; lia]. }
    destruct lp0.
    + destruct (next it0) as [[c' it']|] eqn:N; [|exact I]. apply next_size in N.
      eapply good_le; [apply IH; lia|lia].
    + set (vres := if N.eqb c cBS then _ else _).
      assert (GV : good (@snd str iter) (size it0) vres).
      { unfold vres. destruct (N.eqb c cBS).
        - pose proof (references_size cf st it0 true) as R. destruct (references cf st it0 true) as [v s1 it1| |itd|]; try exact I.
          + cbn. lia.
          + subst itd. destruct (next it0) as [[d it1]|] eqn:N; [|exact I]. apply next_size in N. cbn. lia.
        - destruct (N.eqb c cSL); [destruct (c_pathname cf); [exact I|cbn; lia]|].
          destruct (ch_in c set_operators); [cbn; lia|]. destruct (N.eqb c 35); cbn; lia. }
      destruct vres as [[value it1]| |]; [|exact I|contradiction]. cbn in GV.
      destruct (if _ && _ then _ else _) as [[[r1 e1] rm1] eh1].
      destruct (next it1) as [[c' it']|] eqn:N; [|exact I]. apply next_size in N.
      eapply good_le; [apply IH; lia|lia].
Qed.

Definition pj_seq (x : str * pst * iter) : iter := snd x.

Lemma sequence_good cf st it : good pj_seq (size it) (sequence cf st it).
Proof.
  unfold sequence. destruct (next it) as [[c0 it0]|] eqn:N0; [|exact I]. apply next_size in N0.
  set (start := if N.eqb c0 cEX || N.eqb c0 cHAT then _ else _).
  assert (G1 : good (fun x : ch * iter * list str => snd (fst x)) (size it0) start).
  { unfold start. destruct (N.eqb c0 cEX || N.eqb c0 cHAT).
    - destruct (next it0) as [[c1 it1]|] eqn:N1; [|exact I]. apply next_size in N1. cbn. lia.
    - cbn. lia. }
  destruct start as [[[c1 it1] result1]| |]; [|exact I|contradiction]. cbn in G1.
  set (first := if N.eqb c1 cLB then _ else _).
  assert (G2 : good (fun x : ch * iter * list str * bool => snd (fst (fst x))) (size it1) first).
  { unfold first. destruct (N.eqb c1 cLB).
    - destruct (handle_posix cf it1 result1 0) as [[r it2] lp] eqn:HP. apply handle_posix_size in HP.
      destruct (next it2) as [[c2 it3]|] eqn:N2; [|exact I]. apply next_size in N2. cbn. lia.
    - destruct (N.eqb c1 cMINUS || N.eqb c1 cRB).
      + destruct (next it1) as [[c2 it3]|] eqn:N2; [|exact I]. apply next_size in N2. cbn. lia.
      + cbn. lia. }
  destruct first as [[[[c2 it2] result2] lp]| |]; [|exact I|contradiction]. cbn in G2.
  pose proof (seq_loop_good (S (length (rest it2))) cf st c2 it2 result2 0%Z (-1)%Z false lp) as SL.
  specialize (SL ltac:(unfold size; lia)).
  destruct (seq_loop _ cf st c2 it2 result2 0%Z (-1)%Z false lp) as [[[result3 it3] removed]| |]; [|exact I|contradiction].
  unfold pj3 in SL. cbn in SL.
  destruct (c_pathname cf || after_start st); [destruct (restrict_sequence cf st)|]; cbn; lia.
Qed.

Lemma handle_star_size cf st it cur : size (snd (fst (handle_star cf st it cur))) <= size it.
Proof.
  unfold handle_star.
  destruct (if c_pathname cf then _ else _) as [star gstar0].
  set (det := if after_start st && globstar st && negb (in_list st) then _ else _).
  assert (GD : size (snd (fst det)) <= size it).
  { unfold det. destruct (after_start st && globstar st && negb (in_list st)); [|cbn; lia].
    set (tri := match next it with Some (c, i1) => _ | None => _ end).
    assert (GT : size (snd tri) <= size it).
    { unfold tri. destruct (next it) as [[c i1]|] eqn:N; [|cbn; lia]. apply next_size in N.
      destruct (N.eqb c cSTAR); [|cbn; lia]. destruct (c_globstarlong cf); [|cbn; lia].
      destruct (next i1) as [[c2 i2]|] eqn:N2; [|cbn; lia]. apply next_size in N2. destruct (N.eqb c2 cSTAR); cbn; lia. }
    destruct tri as [[skip capture] ita]. cbn [snd] in GT.
    destruct skip; [cbn; lia|].
    destruct (next ita) as [[c i1]|] eqn:N; [|cbn; lia]. apply next_size in N.
    destruct (N.eqb c cBS).
    - pose proof (references_size cf st i1 true) as R.
      destruct (references cf st i1 true) as [v s1 i2| |itd|]; try (cbn; lia).
      destruct (next i1) as [[d i2]|] eqn:N2; [apply next_size in N2|]; cbn; lia.
    - destruct (N.eqb c cSL); cbn; lia. }
  destruct det as [[[[value gstar] st1] it1] captured]. cbn [fst snd] in GD.
  set (v2 := if after_start st && negb (str_eqb value gstar) then _ else _).
  assert (G2 : size (snd v2) <= size it).
  { unfold v2. destruct (after_start st && negb (str_eqb value gstar)); [|cbn; lia].
    cbn [snd]. pose proof (skip_stars_size (rest it1) (idx it1)). unfold size in *. lia. }
  destruct v2 as [value2 it2]. cbn [snd] in G2.
  destruct (str_eqb value2 gstar); [|cbn; lia].
  destruct cur as [|last cur']; [cbn; lia|].
  pose proof (consume_path_sep_size cf it2).
  destruct (negb (str_eqb (itext last) _)); cbn [fst snd]; lia.
Qed.

Definition strict {A} (proj : A -> iter) (n : nat) (r : res A) : Prop :=
  match r with Ok a => size (proj a) <= n | _ => False end.

Lemma strict_le {A} (proj : A -> iter) n m r : strict proj n r -> n <= m -> strict proj m r.
Proof. destruct r; cbn; auto. lia. Qed.

(* ---- the mutually recursive group scanners ---- *)
Definition pj_ext (x : bool * pst * iter * list item) : iter := snd (fst x).
Definition pj_loop (x : pst * iter * option (list item) * pst) : iter := snd (fst (fst x)).

Lemma ext_good : forall f,
  (forall cf st ty it cur rd, size it < f -> strict pj_ext (size it) (ext f cf st ty it cur rd)) /\
  (forall cf st it extended ta tn, size it < f -> strict pj_loop (size it) (ext_loop f cf st it extended ta tn)).
Proof.
  induction f as [|f [IHe IHl]]; [split; intros; lia|]. split.
  - intros cf st ty it cur rd Hf. cbn [ext].
    destruct (next it) as [[c it1]|] eqn:N; [|cbn; lia]. apply next_size in N.
    destruct (negb (N.eqb c cLP)); [cbn; lia|].
    match goal with |- context [ext_loop f cf ?s it1 [] ?a ?b] => pose proof (IHl cf s it1 [] a b ltac:(lia)) as L;
      destruct (ext_loop f cf s it1 [] a b) as [[[[st2 it2] extd] stf]| |] end; [|contradiction|contradiction].
    unfold pj_loop in L. cbn in L.
    destruct extd as [extd|]; [|cbn; lia].
    destruct (N.eqb ty cEX).
    + destruct (if in_list st then _ else _) as [st4 cur2]. cbn. lia.
    + destruct (if in_list st then _ else _) as [st4 cur2]. cbn. lia.
  - intros cf st it extended ta tn Hf. cbn [ext_loop].
    destruct (next it) as [[c it1]|] eqn:N; [|cbn; lia]. apply next_size in N.
    assert (K : forall stx itx (extx : list item), size itx <= size it1 ->
      strict pj_loop (size it)
        (if N.eqb c cRP then Ok (update_dir_state stx, itx, Some extx, update_dir_state stx)
         else ext_loop f cf (update_dir_state stx) itx extx ta tn)).
    { intros stx itx extx Hs. destruct (N.eqb c cRP); [cbn; lia|]. eapply strict_le; [apply IHl; lia|lia]. }
    assert (Rest : forall st0,
      strict pj_loop (size it)
       (if N.eqb c cSTAR
        then let '(st', it', ext') := handle_star cf st0 it1 extended in
             if N.eqb c cRP then Ok (update_dir_state st', it', Some ext', update_dir_state st')
             else ext_loop f cf (update_dir_state st') it' ext' ta tn
        else if N.eqb c cDOT
        then let st' := if after_start st0 then reset_dir_track (set_mdd st0 (c_dot cf && negb (c_nodotdir cf))) else st0 in
             if N.eqb c cRP then Ok (update_dir_state st', it1, Some (T (handle_dot cf st0 it1) :: extended), update_dir_state st')
             else ext_loop f cf (update_dir_state st') it1 (T (handle_dot cf st0 it1) :: extended) ta tn
        else if N.eqb c cQM
        then let '(g, st') := restrict_sequence cf st0 in
             if N.eqb c cRP then Ok (update_dir_state st', it1, Some (T (g ++ Frag.u_QMARK) :: extended), update_dir_state st')
             else ext_loop f cf (update_dir_state st') it1 (T (g ++ Frag.u_QMARK) :: extended) ta tn
        else if N.eqb c cSL
        then if N.eqb c cRP
             then Ok (update_dir_state st0, it1,
                      Some (T (c_sep cf) :: (if c_pathname cf then T (restrict_extended_slash cf) :: extended else extended)),
                      update_dir_state st0)
             else ext_loop f cf (update_dir_state st0) it1
                    (T (c_sep cf) :: (if c_pathname cf then T (restrict_extended_slash cf) :: extended else extended)) ta tn
        else if N.eqb c cBAR
        then let '(st', e1) := if inv_nest st0 then clean_up_inverse cf st0 extended tn else (st0, extended) in
             if N.eqb c cRP
             then Ok (update_dir_state (if ta then set_start_dir st' else st'), it1, Some (T [cBAR] :: e1),
                      update_dir_state (if ta then set_start_dir st' else st'))
             else ext_loop f cf (update_dir_state (if ta then set_start_dir st' else st')) it1 (T [cBAR] :: e1) ta tn
        else if N.eqb c cBS
        then match references cf st0 it1 false with
             | RVal v st' it' =>
                 if N.eqb c cRP then Ok (update_dir_state st', it', Some (T v :: extended), update_dir_state st')
                 else ext_loop f cf (update_dir_state st') it' (T v :: extended) ta tn
             | RDot itd => ext_loop f cf st0 itd extended ta tn
             | _ => if N.eqb c cRP then Ok (update_dir_state st0, it1, Some extended, update_dir_state st0)
                    else ext_loop f cf (update_dir_state st0) it1 extended ta tn
             end
        else if N.eqb c cLB
        then match sequence cf st0 it1 with
             | Ok (v, st', it') =>
                 if N.eqb c cRP then Ok (update_dir_state st', it', Some (T v :: extended), update_dir_state st')
                 else ext_loop f cf (update_dir_state st') it' (T v :: extended) ta tn
             | Stop => if N.eqb c cRP then Ok (update_dir_state st0, it1, Some (T (S_ "\[") :: extended), update_dir_state st0)
                       else ext_loop f cf (update_dir_state st0) it1 (T (S_ "\[") :: extended) ta tn
             | Fuel => Fuel
             end
        else if negb (N.eqb c cRP)
        then if N.eqb c cRP then Ok (update_dir_state st0, it1, Some (T (re_escape_ch c) :: extended), update_dir_state st0)
             else ext_loop f cf (update_dir_state st0) it1 (T (re_escape_ch c) :: extended) ta tn
        else if N.eqb c cRP then Ok (update_dir_state st0, it1, Some extended, update_dir_state st0)
             else ext_loop f cf (update_dir_state st0) it1 extended ta tn)).
    { intros st0.
      destruct (N.eqb c cSTAR).
      { pose proof (handle_star_size cf st0 it1 extended) as HS.
        destruct (handle_star cf st0 it1 extended) as [[st' it'] ext']. cbn in HS. apply K. exact HS. }
      destruct (N.eqb c cDOT); [apply K; lia|].
      destruct (N.eqb c cQM); [destruct (restrict_sequence cf st0); apply K; lia|].
      destruct (N.eqb c cSL); [apply K; lia|].
      destruct (N.eqb c cBAR); [destruct (if inv_nest st0 then _ else _); apply K; lia|].
      destruct (N.eqb c cBS).
      { pose proof (references_size cf st0 it1 false) as R.
        destruct (references cf st0 it1 false) as [v s1 it'| |itd|]; try (apply K; lia).
        subst itd. eapply strict_le; [apply IHl; lia|lia]. }
      destruct (N.eqb c cLB).
      { pose proof (sequence_good cf st0 it1) as SG.
        destruct (sequence cf st0 it1) as [[[v s1] it']| |]; [|apply K; lia|contradiction].
        unfold pj_seq in SG. cbn in SG. apply K. exact SG. }
      destruct (negb (N.eqb c cRP)); apply K; lia. }
    destruct (c_extend cf && ch_in c ext_types).
    + pose proof (IHe cf st c it1 extended false ltac:(lia)) as E.
      destruct (ext f cf st c it1 extended false) as [[[[b st'] it'] ext']| |]; [|contradiction|contradiction].
      unfold pj_ext in E. cbn in E.
      destruct b; [apply K; exact E|apply Rest].
    + apply Rest.
Qed.

(* ---- the top-level loop ---- *)
Definition never_fuel {A} (r : res A) : Prop := match r with Ok _ => True | _ => False end.   (* neither Fuel nor Stop *)

Lemma root_loop_never_fuel : forall f cf st it cur, size it < f -> never_fuel (root_loop f cf st it cur).
Proof.
  induction f as [|f IH]; intros cf st it cur Hf; [lia|]. cbn [root_loop].
  destruct (next it) as [[c it1]|] eqn:N; [|exact I]. apply next_size in N.
  assert (K : forall stx itx curx, size itx <= size it1 -> never_fuel (root_loop f cf (update_dir_state stx) itx curx)).
  { intros stx itx curx Hs. apply IH. lia. }
  assert (Rest : forall st0,
    never_fuel
      (if N.eqb c cDOT then root_loop f cf (update_dir_state st0) it1 (T (handle_dot cf st0 it1) :: cur)
       else if N.eqb c cSTAR
       then let '(st', it', cur') := handle_star cf st0 it1 cur in root_loop f cf (update_dir_state st') it' cur'
       else if N.eqb c cQM
       then let '(g, st') := restrict_sequence cf st0 in root_loop f cf (update_dir_state st') it1 (T (g ++ Frag.u_QMARK) :: cur)
       else if N.eqb c cSL
       then if c_pathname cf
            then let st1 := set_start_dir st0 in
                 let '(st2, cur1) := clean_up_inverse cf st1 cur false in
                 let it2 := consume_path_sep cf it1 in
                 root_loop f cf (update_dir_state (set_matchbase st2 false)) it2 (T (c_sep cf ++ Frag.u_ONE_OR_MORE) :: cur1)
            else root_loop f cf (update_dir_state st0) it1 (T (c_sep cf) :: cur)
       else if N.eqb c cBS
       then match references cf st0 it1 false with
            | RVal v st' it' =>
                if dir_start st'
                then let '(st2, cur1) := clean_up_inverse cf st' cur false in
                     let it2 := consume_path_sep cf it' in
                     root_loop f cf (update_dir_state (set_matchbase st2 false)) it2 (T v :: cur1)
                else root_loop f cf (update_dir_state st') it' (T v :: cur)
            | RDot itd => root_loop f cf st0 itd cur
            | _ => root_loop f cf (update_dir_state st0) it1 cur
            end
       else if N.eqb c cLB
       then match sequence cf st0 it1 with
            | Ok (v, st', it') => root_loop f cf (update_dir_state st') it' (T v :: cur)
            | Stop => root_loop f cf (update_dir_state st0) it1 (T (re_escape_ch c) :: cur)
            | Fuel => Fuel
            end
       else root_loop f cf (update_dir_state st0) it1 (T (re_escape_ch c) :: cur))).
  { intros st0.
    destruct (N.eqb c cDOT); [apply K; lia|].
    destruct (N.eqb c cSTAR).
    { pose proof (handle_star_size cf st0 it1 cur) as HS.
      destruct (handle_star cf st0 it1 cur) as [[st' it'] cur']. cbn in HS. apply K. exact HS. }
    destruct (N.eqb c cQM); [destruct (restrict_sequence cf st0); apply K; lia|].
    destruct (N.eqb c cSL).
    { destruct (c_pathname cf); [|apply K; lia]. cbv zeta.
      destruct (clean_up_inverse cf (set_start_dir st0) cur false) as [st2 cur1]. apply K. apply consume_path_sep_size. }
    destruct (N.eqb c cBS).
    { pose proof (references_size cf st0 it1 false) as R.
      destruct (references cf st0 it1 false) as [v s1 it'| |itd|]; try (apply K; lia).
      - destruct (dir_start s1); [|apply K; lia].
        cbv zeta. destruct (clean_up_inverse cf s1 cur false) as [st2 cur1]. apply K. pose proof (consume_path_sep_size cf it'). lia.
      - subst itd. apply IH. lia. }
    destruct (N.eqb c cLB).
    { pose proof (sequence_good cf st0 it1) as SG.
      destruct (sequence cf st0 it1) as [[[v s1] it']| |]; [|apply K; lia|contradiction].
      unfold pj_seq in SG. cbn in SG. apply K. exact SG. }
    apply K; lia. }
  destruct (c_extend cf && ch_in c ext_types).
  - destruct (ext_good f) as [E _]. specialize (E cf st c it1 cur true ltac:(lia)).
    destruct (ext f cf st c it1 cur true) as [[[[b st'] it'] cur']| |]; [|contradiction|contradiction].
    unfold pj_ext in E. cbn in E. destruct b; [apply K; exact E|apply Rest].
  - apply Rest.
Qed.

Lemma drop_length_le : forall n (s : str), (length (drop n s) <= length s)%nat.
Proof. induction n as [|n IH]; intros s; [cbn; lia|]. destruct s as [|c s]; [cbn; lia|]. cbn [drop length]. specialize (IH s). lia. Qed.

Lemma root_shape cf st p cur :
  (exists x, root cf st p cur = inl (Ok x)) \/ root cf st p cur = inr EValue.
Proof.
  unfold root.
  destruct (if c_windrive cf then _ else _) as [[[rs dt] dsl] dend].
  destruct (c_noabs cf && rs); [auto|].
  match goal with |- context [match dt with Some t => @?A t | None => ?B end] =>
    destruct (match dt with Some t => A t | None => B end) as [cur2 it0] eqn:E2 end.
  assert (Hs : (size it0 <= length p)%nat).
  { destruct dt as [t|]; inversion E2; subst.
    - pose proof (consume_path_sep_size cf {| idx := Z.of_N dend; rest := drop (N.to_nat dend) p |}) as C.
      pose proof (drop_length_le (N.to_nat dend) p) as D. unfold size in *. cbn [rest] in *. lia.
    - unfold size. cbn. lia. }
  match goal with |- context [root_loop (fuel_for p) cf ?s ?i ?c] =>
    pose proof (root_loop_never_fuel (fuel_for p) cf s i c ltac:(unfold fuel_for; lia)) as R;
    destruct (root_loop (fuel_for p) cf s i c) as [[st2 cur2']| |] end; [|contradiction|contradiction].
  destruct (clean_up_inverse cf st2 cur2' false). left. eexists. reflexivity.
Qed.

Theorem wcparse_cf_never_out_of_fuel cf st p : wcparse_cf cf st p <> inr EFuel.
Proof.
  unfold wcparse_cf.
  destruct (if c_anchor cf then _ else _) as [p1 st1].
  set (pre := if matchbase st1 || extmatchbase st1 then _ else _).
  assert (Hpre : pre <> inr EFuel).
  { unfold pre. destruct (matchbase st1 || extmatchbase st1); [|discriminate].
    destruct (c_globstarlong cf && c_follow cf).
    - destruct (root_shape cf st1 (S_ "***") [T []]) as [[x E]|E]; rewrite E; discriminate.
    - destruct (root_shape cf (set_globstar st1 true) (S_ "**") [T []]) as [[[s c] E]|E]; rewrite E; discriminate. }
  destruct pre as [[st2 prepend]|e]; [|intros H; apply Hpre; inversion H; reflexivity].
  set (p2 := if str_eqb p1 [cBS] then [] else p1).
  destruct p2 as [|c0 p2'] eqn:Ep2.
  - discriminate.
  - destruct (root_shape cf st2 (c0 :: p2') [T []]) as [[[s c] E]|E]; rewrite E; discriminate.
Qed.

Theorem wcparse_never_out_of_fuel P flags b p : wcparse P flags b p <> inr EFuel.
Proof. unfold wcparse. destruct (mk_cfg P flags b) as [cf st]. apply wcparse_cf_never_out_of_fuel. Qed.

(* under Unix rules the only error the parser can answer is the ValueError for an absolute pattern *)
Lemma root_shape_unix cf st p cur : c_windrive cf = false ->
  (exists x, root cf st p cur = inl (Ok x)) \/ root cf st p cur = inr EValue.
Proof. intros _. apply root_shape. Qed.

Theorem wcparse_errors_unix flags b p e :
  is_unix_style linux flags = true -> wcparse linux flags b p = inr e -> e = EValue.
Proof.
  intros U. unfold wcparse.
  destruct (mk_cfg linux flags b) as [cf st] eqn:E.
  assert (W : c_windrive cf = false).
  { replace cf with (fst (mk_cfg linux flags b)) by (rewrite E; reflexivity). unfold mk_cfg. cbn [fst c_windrive]. rewrite U. reflexivity. }
  unfold wcparse_cf.
  destruct (if c_anchor cf then _ else _) as [p1 st1].
  set (pre := if matchbase st1 || extmatchbase st1 then _ else _).
  assert (Hpre : forall e0, pre = inr e0 -> e0 = EValue).
  { intros e0. unfold pre. destruct (matchbase st1 || extmatchbase st1); [|discriminate].
    destruct (c_globstarlong cf && c_follow cf).
    - destruct (root_shape_unix cf st1 (S_ "***") [T []] W) as [[x H]|H]; rewrite H; intros X; inversion X; reflexivity.
    - destruct (root_shape_unix cf (set_globstar st1 true) (S_ "**") [T []] W) as [[[s c] H]|H]; rewrite H; intros X; inversion X; reflexivity. }
  destruct pre as [[st2 prepend]|e0]; [|intros X; inversion X; subst; apply Hpre; reflexivity].
  set (p2 := if str_eqb p1 [cBS] then [] else p1).
  destruct p2 as [|c0 p2'] eqn:Ep2; [discriminate|].
  destruct (root_shape_unix cf st2 (c0 :: p2') [T []] W) as [[[s c] H]|H]; rewrite H; intros X; inversion X; reflexivity.
Qed.
