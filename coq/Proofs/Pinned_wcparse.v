(* GENERATED ONCE by tools/mkpinned.py (committed snapshot; not regenerated at check time). *)
From Coq Require Import List NArith String.
Import ListNotations.
From WC.Gen Require Import Consts.

Lemma pin_wcparse_RE_ANCHOR : ReSrc.wcparse_RE_ANCHOR = [94; 47; 43]%N.
Proof. reflexivity. Qed.
Lemma pin_wcparse_RE_MAGIC_0 : ReSrc.wcparse_RE_MAGIC_0 = [40; 91; 45; 33; 126; 42; 63; 40; 92; 91; 124; 123; 92; 92; 93; 41]%N.
Proof. reflexivity. Qed.
Lemma pin_wcparse_RE_MAGIC_1 : ReSrc.wcparse_RE_MAGIC_1 = [40; 91; 45; 33; 126; 42; 63; 40; 92; 91; 124; 123; 92; 92; 93; 41]%N.
Proof. reflexivity. Qed.
Lemma pin_wcparse_RE_MAGIC_ESCAPE_0 : ReSrc.wcparse_RE_MAGIC_ESCAPE_0 = [40; 91; 45; 33; 126; 42; 63; 40; 41; 92; 91; 92; 93; 124; 123; 125; 93; 124; 40; 63; 60; 33; 92; 92; 41; 40; 63; 58; 40; 63; 58; 91; 92; 92; 93; 123; 50; 125; 41; 42; 41; 92; 92; 40; 63; 33; 92; 92; 41; 41]%N.
Proof. reflexivity. Qed.
Lemma pin_wcparse_RE_MAGIC_ESCAPE_1 : ReSrc.wcparse_RE_MAGIC_ESCAPE_1 = [40; 91; 45; 33; 126; 42; 63; 40; 41; 92; 91; 92; 93; 124; 123; 125; 93; 124; 40; 63; 60; 33; 92; 92; 41; 40; 63; 58; 40; 63; 58; 91; 92; 92; 93; 123; 50; 125; 41; 42; 41; 92; 92; 40; 63; 33; 92; 92; 41; 41]%N.
Proof. reflexivity. Qed.
Lemma pin_wcparse_RE_TILDE_0 : ReSrc.wcparse_RE_TILDE_0 = [126; 91; 94; 47; 93; 42; 40; 63; 61; 47; 124; 36; 41]%N.
Proof. reflexivity. Qed.
Lemma pin_wcparse_RE_TILDE_1 : ReSrc.wcparse_RE_TILDE_1 = [126; 91; 94; 47; 93; 42; 40; 63; 61; 47; 124; 36; 41]%N.
Proof. reflexivity. Qed.
Lemma pin_wcparse_RE_WIN_ANCHOR : ReSrc.wcparse_RE_WIN_ANCHOR = [94; 40; 63; 58; 92; 92; 92; 92; 124; 47; 41; 43]%N.
Proof. reflexivity. Qed.
Lemma pin_wcparse_RE_WIN_DRIVE_0 : ReSrc.wcparse_RE_WIN_DRIVE_0 = [40; 63; 120; 41; 10; 32; 32; 32; 32; 32; 32; 32; 32; 40; 10; 32; 32; 32; 32; 32; 32; 32; 32; 32; 32; 32; 32; 40; 63; 58; 92; 92; 92; 92; 124; 47; 41; 123; 50; 125; 91; 63; 46; 93; 40; 63; 58; 92; 92; 92; 92; 124; 47; 41; 40; 63; 58; 10; 32; 32; 32; 32; 32; 32; 32; 32; 32; 32; 32; 32; 32; 32; 32; 32; 91; 97; 45; 122; 93; 58; 124; 10; 32; 32; 32; 32; 32; 32; 32; 32; 32; 32; 32; 32; 32; 32; 32; 32; 117; 110; 99; 40; 63; 58; 40; 63; 58; 92; 92; 92; 92; 124; 47; 41; 91; 94; 92; 92; 47; 93; 43; 41; 123; 50; 125; 32; 124; 10; 32; 32; 32; 32; 32; 32; 32; 32; 32; 32; 32; 32; 32; 32; 32; 32; 40; 63; 58; 103; 108; 111; 98; 97; 108; 40; 63; 58; 92; 92; 92; 92; 124; 47; 41; 41; 43; 40; 63; 58; 91; 97; 45; 122; 93; 58; 124; 117; 110; 99; 40; 63; 58; 40; 63; 58; 92; 92; 92; 92; 124; 47; 41; 91; 94; 92; 92; 47; 93; 43; 41; 123; 50; 125; 124; 91; 94; 92; 92; 47; 93; 43; 41; 10; 32; 32; 32; 32; 32; 32; 32; 32; 32; 32; 32; 32; 41; 32; 124; 10; 32; 32; 32; 32; 32; 32; 32; 32; 32; 32; 32; 32; 40; 63; 58; 92; 92; 92; 92; 124; 47; 41; 123; 50; 125; 91; 94; 92; 92; 47; 93; 43; 40; 63; 58; 92; 92; 92; 92; 124; 47; 41; 91; 94; 92; 92; 47; 93; 43; 124; 10; 32; 32; 32; 32; 32; 32; 32; 32; 32; 32; 32; 32; 91; 97; 45; 122; 93; 58; 10; 32; 32; 32; 32; 32; 32; 32; 32; 41; 40; 40; 63; 58; 92; 92; 92; 92; 124; 47; 41; 123; 49; 125; 124; 36; 41; 10; 32; 32; 32; 32; 32; 32; 32; 32]%N.
Proof. reflexivity. Qed.
Lemma pin_wcparse_RE_WIN_DRIVE_1 : ReSrc.wcparse_RE_WIN_DRIVE_1 = [40; 63; 120; 41; 10; 32; 32; 32; 32; 32; 32; 32; 32; 40; 10; 32; 32; 32; 32; 32; 32; 32; 32; 32; 32; 32; 32; 40; 63; 58; 92; 92; 92; 92; 124; 47; 41; 123; 50; 125; 91; 63; 46; 93; 40; 63; 58; 92; 92; 92; 92; 124; 47; 41; 40; 63; 58; 10; 32; 32; 32; 32; 32; 32; 32; 32; 32; 32; 32; 32; 32; 32; 32; 32; 91; 97; 45; 122; 93; 58; 124; 10; 32; 32; 32; 32; 32; 32; 32; 32; 32; 32; 32; 32; 32; 32; 32; 32; 117; 110; 99; 40; 63; 58; 40; 63; 58; 92; 92; 92; 92; 124; 47; 41; 91; 94; 92; 92; 47; 93; 43; 41; 123; 50; 125; 32; 124; 10; 32; 32; 32; 32; 32; 32; 32; 32; 32; 32; 32; 32; 32; 32; 32; 32; 40; 63; 58; 103; 108; 111; 98; 97; 108; 40; 63; 58; 92; 92; 92; 92; 124; 47; 41; 41; 43; 40; 63; 58; 91; 97; 45; 122; 93; 58; 124; 117; 110; 99; 40; 63; 58; 40; 63; 58; 92; 92; 92; 92; 124; 47; 41; 91; 94; 92; 92; 47; 93; 43; 41; 123; 50; 125; 124; 91; 94; 92; 92; 47; 93; 43; 41; 10; 32; 32; 32; 32; 32; 32; 32; 32; 32; 32; 32; 32; 41; 32; 124; 10; 32; 32; 32; 32; 32; 32; 32; 32; 32; 32; 32; 32; 40; 63; 58; 92; 92; 92; 92; 124; 47; 41; 123; 50; 125; 91; 94; 92; 92; 47; 93; 43; 40; 63; 58; 92; 92; 92; 92; 124; 47; 41; 91; 94; 92; 92; 47; 93; 43; 124; 10; 32; 32; 32; 32; 32; 32; 32; 32; 32; 32; 32; 32; 91; 97; 45; 122; 93; 58; 10; 32; 32; 32; 32; 32; 32; 32; 32; 41; 40; 40; 63; 58; 92; 92; 92; 92; 124; 47; 41; 123; 49; 125; 124; 36; 41; 10; 32; 32; 32; 32; 32; 32; 32; 32]%N.
Proof. reflexivity. Qed.
Lemma pin_wcparse_RE_WIN_DRIVE_LETTER : ReSrc.wcparse_RE_WIN_DRIVE_LETTER = [40; 91; 97; 45; 122; 93; 58; 41; 40; 40; 63; 58; 92; 92; 124; 47; 41; 124; 36; 41]%N.
Proof. reflexivity. Qed.
Lemma pin_wcparse_RE_WIN_DRIVE_MAGIC_0 : ReSrc.wcparse_RE_WIN_DRIVE_MAGIC_0 = [40; 91; 123; 125; 124; 93; 124; 40; 63; 60; 33; 92; 92; 41; 40; 63; 58; 40; 63; 58; 91; 92; 92; 93; 123; 50; 125; 41; 42; 41; 92; 92; 40; 63; 33; 92; 92; 41; 41]%N.
Proof. reflexivity. Qed.
Lemma pin_wcparse_RE_WIN_DRIVE_MAGIC_1 : ReSrc.wcparse_RE_WIN_DRIVE_MAGIC_1 = [40; 91; 123; 125; 124; 93; 124; 40; 63; 60; 33; 92; 92; 41; 40; 63; 58; 40; 63; 58; 91; 92; 92; 93; 123; 50; 125; 41; 42; 41; 92; 92; 40; 63; 33; 92; 92; 41; 41]%N.
Proof. reflexivity. Qed.
Lemma pin_wcparse_RE_WIN_DRIVE_PART : ReSrc.wcparse_RE_WIN_DRIVE_PART = [40; 40; 63; 58; 92; 92; 91; 94; 92; 92; 47; 93; 124; 91; 94; 92; 92; 47; 93; 41; 43; 41; 40; 40; 63; 58; 92; 92; 92; 92; 124; 47; 41; 124; 36; 41]%N.
Proof. reflexivity. Qed.
Lemma pin_wcparse_RE_WIN_DRIVE_START : ReSrc.wcparse_RE_WIN_DRIVE_START = [40; 40; 63; 58; 92; 92; 92; 92; 124; 47; 41; 123; 50; 125; 40; 40; 63; 58; 92; 92; 91; 94; 92; 92; 47; 93; 124; 91; 94; 92; 92; 47; 93; 41; 43; 41; 124; 40; 91; 92; 92; 93; 63; 91; 97; 45; 122; 93; 91; 92; 92; 93; 63; 58; 41; 41; 40; 40; 63; 58; 92; 92; 92; 92; 124; 47; 41; 124; 36; 41]%N.
Proof. reflexivity. Qed.
Lemma pin_wcparse_RE_WIN_DRIVE_UNESCAPE : ReSrc.wcparse_RE_WIN_DRIVE_UNESCAPE = [92; 92; 40; 46; 41]%N.
Proof. reflexivity. Qed.
Lemma pin_wcparse_RE_WIN_TILDE_0 : ReSrc.wcparse_RE_WIN_TILDE_0 = [126; 40; 63; 58; 92; 92; 40; 63; 33; 91; 92; 92; 47; 93; 41; 124; 91; 94; 92; 92; 47; 93; 41; 42; 40; 63; 61; 92; 92; 92; 92; 124; 47; 124; 36; 41]%N.
Proof. reflexivity. Qed.
Lemma pin_wcparse_RE_WIN_TILDE_1 : ReSrc.wcparse_RE_WIN_TILDE_1 = [126; 40; 63; 58; 92; 92; 40; 63; 33; 91; 92; 92; 47; 93; 41; 124; 91; 94; 92; 92; 47; 93; 41; 42; 40; 63; 61; 92; 92; 92; 92; 124; 47; 124; 36; 41]%N.
Proof. reflexivity. Qed.
Lemma pin_wcparse_RE_ANCHOR_flags : ReSrc.wcparse_RE_ANCHOR_flags = ""%string.
Proof. reflexivity. Qed.
Lemma pin_wcparse_RE_MAGIC_0_flags : ReSrc.wcparse_RE_MAGIC_0_flags = ""%string.
Proof. reflexivity. Qed.
Lemma pin_wcparse_RE_MAGIC_1_flags : ReSrc.wcparse_RE_MAGIC_1_flags = ""%string.
Proof. reflexivity. Qed.
Lemma pin_wcparse_RE_MAGIC_ESCAPE_0_flags : ReSrc.wcparse_RE_MAGIC_ESCAPE_0_flags = ""%string.
Proof. reflexivity. Qed.
Lemma pin_wcparse_RE_MAGIC_ESCAPE_1_flags : ReSrc.wcparse_RE_MAGIC_ESCAPE_1_flags = ""%string.
Proof. reflexivity. Qed.
Lemma pin_wcparse_RE_TILDE_0_flags : ReSrc.wcparse_RE_TILDE_0_flags = ""%string.
Proof. reflexivity. Qed.
Lemma pin_wcparse_RE_TILDE_1_flags : ReSrc.wcparse_RE_TILDE_1_flags = ""%string.
Proof. reflexivity. Qed.
Lemma pin_wcparse_RE_WIN_ANCHOR_flags : ReSrc.wcparse_RE_WIN_ANCHOR_flags = ""%string.
Proof. reflexivity. Qed.
Lemma pin_wcparse_RE_WIN_DRIVE_0_flags : ReSrc.wcparse_RE_WIN_DRIVE_0_flags = "re.I"%string.
Proof. reflexivity. Qed.
Lemma pin_wcparse_RE_WIN_DRIVE_1_flags : ReSrc.wcparse_RE_WIN_DRIVE_1_flags = "re.I"%string.
Proof. reflexivity. Qed.
Lemma pin_wcparse_RE_WIN_DRIVE_LETTER_flags : ReSrc.wcparse_RE_WIN_DRIVE_LETTER_flags = "re.I"%string.
Proof. reflexivity. Qed.
Lemma pin_wcparse_RE_WIN_DRIVE_MAGIC_0_flags : ReSrc.wcparse_RE_WIN_DRIVE_MAGIC_0_flags = ""%string.
Proof. reflexivity. Qed.
Lemma pin_wcparse_RE_WIN_DRIVE_MAGIC_1_flags : ReSrc.wcparse_RE_WIN_DRIVE_MAGIC_1_flags = ""%string.
Proof. reflexivity. Qed.
Lemma pin_wcparse_RE_WIN_DRIVE_PART_flags : ReSrc.wcparse_RE_WIN_DRIVE_PART_flags = "re.I"%string.
Proof. reflexivity. Qed.
Lemma pin_wcparse_RE_WIN_DRIVE_START_flags : ReSrc.wcparse_RE_WIN_DRIVE_START_flags = "re.I"%string.
Proof. reflexivity. Qed.
Lemma pin_wcparse_RE_WIN_DRIVE_UNESCAPE_flags : ReSrc.wcparse_RE_WIN_DRIVE_UNESCAPE_flags = "re.I"%string.
Proof. reflexivity. Qed.
Lemma pin_wcparse_RE_WIN_TILDE_0_flags : ReSrc.wcparse_RE_WIN_TILDE_0_flags = ""%string.
Proof. reflexivity. Qed.
Lemma pin_wcparse_RE_WIN_TILDE_1_flags : ReSrc.wcparse_RE_WIN_TILDE_1_flags = ""%string.
Proof. reflexivity. Qed.
