From WC Require Import Str Spec.
From Coq Require Import Lia.
Open Scope N_scope.

Lemma spec_example_star_segment :
  pden false false false true false false
       {| p_root := false; p_segs := [SPat [PLit 97]; SPat [PStar]; SPat [PLit 99]]; p_trail := false |}
       (S_ "a/c") = false
  /\ pden false false false true false false
       {| p_root := false; p_segs := [SPat [PLit 97]; SPat [PStar]; SPat [PLit 99]]; p_trail := false |}
       (S_ "a//b///c//") = true.
Proof. split; vm_compute; reflexivity. Qed.

Lemma cset_sep_false ci : cset_mem ci (CS true [(47, 47)]) 47 = false.
Proof. destruct ci; vm_compute; reflexivity. Qed.

Lemma spec_wild_no_sep : forall ci neg items,
  rx_match ci (den_pat false true (PBr neg items)) [47] = false
  /\ rx_match ci (den_pat false true PQm) [47] = false.
Proof.
  intros ci neg items. split.
  - cbn [den_pat restrict rx_match deriv]. rewrite cset_sep_false.
    destruct (cset_mem ci (CS neg (br_ranges items)) 47); reflexivity.
  - cbn [den_pat wild rx_match deriv]. rewrite cset_sep_false. reflexivity.
Qed.
