(* GENERATED ONCE by tools/mkpinned.py (committed snapshot; not regenerated at check time). *)
From Coq Require Import List NArith String.
Import ListNotations.
From WC.Gen Require Import Consts.

Lemma pin_glob_u_RE_PATHLIB_DOT_NORM_0 : ReSrc.glob_u_RE_PATHLIB_DOT_NORM_0 = [40; 63; 58; 40; 40; 63; 60; 61; 94; 41; 124; 40; 63; 60; 61; 47; 41; 41; 92; 46; 40; 63; 58; 47; 124; 92; 90; 41; 41; 43]%N.
Proof. reflexivity. Qed.
Lemma pin_glob_u_RE_PATHLIB_DOT_NORM_1 : ReSrc.glob_u_RE_PATHLIB_DOT_NORM_1 = [40; 63; 58; 40; 40; 63; 60; 61; 94; 41; 124; 40; 63; 60; 61; 47; 41; 41; 92; 46; 40; 63; 58; 47; 124; 92; 90; 41; 41; 43]%N.
Proof. reflexivity. Qed.
Lemma pin_glob_u_RE_WIN_PATHLIB_DOT_NORM_0 : ReSrc.glob_u_RE_WIN_PATHLIB_DOT_NORM_0 = [40; 63; 58; 40; 40; 63; 60; 61; 94; 41; 124; 40; 63; 60; 61; 91; 92; 92; 47; 93; 41; 41; 92; 46; 40; 63; 58; 91; 92; 92; 47; 93; 124; 92; 90; 41; 41; 43]%N.
Proof. reflexivity. Qed.
Lemma pin_glob_u_RE_WIN_PATHLIB_DOT_NORM_1 : ReSrc.glob_u_RE_WIN_PATHLIB_DOT_NORM_1 = [40; 63; 58; 40; 40; 63; 60; 61; 94; 41; 124; 40; 63; 60; 61; 91; 92; 92; 47; 93; 41; 41; 92; 46; 40; 63; 58; 91; 92; 92; 47; 93; 124; 92; 90; 41; 41; 43]%N.
Proof. reflexivity. Qed.
Lemma pin_glob_u_RE_PATHLIB_DOT_NORM_0_flags : ReSrc.glob_u_RE_PATHLIB_DOT_NORM_0_flags = ""%string.
Proof. reflexivity. Qed.
Lemma pin_glob_u_RE_PATHLIB_DOT_NORM_1_flags : ReSrc.glob_u_RE_PATHLIB_DOT_NORM_1_flags = ""%string.
Proof. reflexivity. Qed.
Lemma pin_glob_u_RE_WIN_PATHLIB_DOT_NORM_0_flags : ReSrc.glob_u_RE_WIN_PATHLIB_DOT_NORM_0_flags = ""%string.
Proof. reflexivity. Qed.
Lemma pin_glob_u_RE_WIN_PATHLIB_DOT_NORM_1_flags : ReSrc.glob_u_RE_WIN_PATHLIB_DOT_NORM_1_flags = ""%string.
Proof. reflexivity. Qed.
