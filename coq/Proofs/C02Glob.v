(* C02, flat path patterns WITH `**` segments, end to end.

   The regex fragments of `**` use the anchors `^` and `$`, so the semantics here is position-aware: [Xb r bol s rest]
   = r can consume exactly s when rest follows, [bol] telling whether nothing of the name has been consumed before.
   For regexes without `^` it coincides with the position-unaware semantics X of C02Path (lemma Xb_X), which is how the
   per-segment results of C02Path are reused. *)
From WC Require Import Str WcParse.
From WC.Gen Require Import Consts FlagFuns.
From WC.Proofs Require Import C01Flat C02Path.
From Coq Require Import Lia.
Import Mwcparse.
Open Scope N_scope.

Definition is_nil (s : str) : bool := match s with [] => true | _ => false end.

Inductive bstar (P : bool -> str -> str -> Prop) : bool -> str -> str -> Prop :=
| bstar_nil b rest : bstar P b [] rest
| bstar_step b s1 s2 rest : P b s1 (s2 ++ rest) -> bstar P (b && is_nil s1) s2 rest -> bstar P b (s1 ++ s2) rest.

Fixpoint Xb (r : rx) (bol : bool) (s rest : str) : Prop :=
  match r with
  | XEps => s = []
  | XChr c => s = [c]
  | XAny => exists x, s = [x]
  | XSet l => exists x, s = [x] /\ In x l
  | XNSet l => exists x, s = [x] /\ ~ In x l
  | XCat a b => exists s1 s2, s = s1 ++ s2 /\ Xb a bol s1 (s2 ++ rest) /\ Xb b (bol && is_nil s1) s2 rest
  | XLazy a => bstar (Xb a) bol s rest
  | XPlus a => exists s1 s2, s = s1 ++ s2 /\ Xb a bol s1 (s2 ++ rest) /\ bstar (Xb a) (bol && is_nil s1) s2 rest
  | XOpt a => s = [] \/ Xb a bol s rest
  | XGrp a => Xb a bol s rest
  | XRep12 a => Xb a bol s rest \/ exists s1 s2, s = s1 ++ s2 /\ Xb a bol s1 (s2 ++ rest) /\ Xb a (bol && is_nil s1) s2 rest
  | XAlt a b => Xb a bol s rest \/ Xb b bol s rest
  | XNLook a => s = [] /\ ~ (exists s' t, rest = s' ++ t /\ Xb a bol s' t)
  | XPLook a => s = [] /\ (exists s' t, rest = s' ++ t /\ Xb a bol s' t)
  | XEol => s = [] /\ (rest = [] \/ rest = [10])
  | XBol => s = [] /\ bol = true
  | XAlt3 a b c => Xb a bol s rest \/ Xb b bol s rest \/ Xb c bol s rest
  | XAltC a b => Xb a bol s rest \/ Xb b bol s rest
  end.

Fixpoint nobol (r : rx) : bool :=
  match r with
  | XBol => false
  | XCat a b | XAlt a b | XAltC a b => nobol a && nobol b
  | XAlt3 a b c => nobol a && nobol b && nobol c
  | XLazy a | XPlus a | XOpt a | XGrp a | XRep12 a | XNLook a | XPLook a => nobol a
  | _ => true
  end.

Lemma bstar_star (a : rx) :
  (forall b s rest, Xb a b s rest <-> X a s rest) ->
  forall b s rest, bstar (Xb a) b s rest <-> star (X a) s rest.
Proof.
  intros H b s rest. split.
  - intros B. induction B as [|b s1 s2 rest P _ IH]; [constructor|]. apply star_step; [apply H in P; exact P|exact IH].
  - intros S0. revert b. induction S0 as [|s1 s2 rest P _ IH]; intros b; [constructor|].
    apply bstar_step; [apply H; exact P|apply IH].
Qed.

(* without `^` the position does not matter *)
Lemma Xb_X : forall r, nobol r = true -> forall b s rest, Xb r b s rest <-> X r s rest.
Proof.
  induction r as [| | | | |a IHa b0 IHb|a IHa|a IHa|a IHa|a IHa|a IHa|a IHa b0 IHb|a IHa|a IHa| | |a IHa b0 IHb c IHc|a IHa b0 IHb];
    intros Hn b s rest; cbn [Xb X nobol] in *; try reflexivity; try discriminate.
  - apply andb_true_iff in Hn. destruct Hn as [Ha Hb]. split.
    + intros [s1 [s2 [E [P Q]]]]. exists s1, s2. split; [exact E|]. split; [exact (proj1 (IHa Ha _ _ _) P)|exact (proj1 (IHb Hb _ _ _) Q)].
    + intros [s1 [s2 [E [P Q]]]]. exists s1, s2. split; [exact E|]. split; [exact (proj2 (IHa Ha _ _ _) P)|exact (proj2 (IHb Hb _ _ _) Q)].
  - apply bstar_star. apply IHa. exact Hn.
  - split.
    + intros [s1 [s2 [E [P Q]]]]. exists s1, s2. split; [exact E|]. split; [exact (proj1 (IHa Hn _ _ _) P)|exact (proj1 (bstar_star a (IHa Hn) _ _ _) Q)].
    + intros [s1 [s2 [E [P Q]]]]. exists s1, s2. split; [exact E|]. split; [exact (proj2 (IHa Hn _ _ _) P)|exact (proj2 (bstar_star a (IHa Hn) _ _ _) Q)].
  - rewrite (IHa Hn). reflexivity.
  - apply IHa. exact Hn.
  - split.
    + intros [P|[s1 [s2 [E [P Q]]]]]; [left; exact (proj1 (IHa Hn _ _ _) P)|right].
      exists s1, s2. split; [exact E|]. split; [exact (proj1 (IHa Hn _ _ _) P)|exact (proj1 (IHa Hn _ _ _) Q)].
    + intros [P|[s1 [s2 [E [P Q]]]]]; [left; exact (proj2 (IHa Hn _ _ _) P)|right].
      exists s1, s2. split; [exact E|]. split; [exact (proj2 (IHa Hn _ _ _) P)|exact (proj2 (IHa Hn _ _ _) Q)].
  - apply andb_true_iff in Hn. destruct Hn as [Ha Hb]. rewrite (IHa Ha), (IHb Hb). reflexivity.
  - split; intros [E H]; (split; [exact E|]); intros [s' [t [E2 P]]]; apply H; exists s', t; (split; [exact E2|]).
    + exact (proj2 (IHa Hn _ _ _) P).
    + exact (proj1 (IHa Hn _ _ _) P).
  - split; intros [E [s' [t [E2 P]]]]; (split; [exact E|]); exists s', t; (split; [exact E2|]).
    + exact (proj1 (IHa Hn _ _ _) P).
    + exact (proj2 (IHa Hn _ _ _) P).
  - apply andb_true_iff in Hn. destruct Hn as [Hn Hc]. apply andb_true_iff in Hn. destruct Hn as [Ha Hb].
    rewrite (IHa Ha), (IHb Hb), (IHc Hc). reflexivity.
  - apply andb_true_iff in Hn. destruct Hn as [Ha Hb]. rewrite (IHa Ha), (IHb Hb). reflexivity.
Qed.

(* ---- the `**` fragments (DOTMATCH off) ---- *)
Definition xGuard : rx := XNLook (XCat (XAlt (XSet [47]) XBol) (XChr 46)).       (* (?!(?:[/]|^)\.) *)
Definition xGstar : rx := XLazy (XGrp (XCat xGuard XAny)).                         (* (?:(?!(?:[/]|^)\.).)*? *)
Definition xDiv : rx := XPlus (XAlt3 XBol XEol (XSet [47])).                       (* (?:^|$|[/])+ *)
Definition xNeedSep : rx := XPLook (XSet [47]).                                    (* (?=[/]) *)

(* "/." ahead: the start of a hidden segment *)
Definition slashdot (w : str) : Prop := exists y, w = 47 :: 46 :: y.

Lemma guard_iff b s rest :
  Xb xGuard b s rest <-> s = [] /\ ~ slashdot rest /\ ~ (b = true /\ exists y, rest = 46 :: y).
Proof.
  unfold xGuard. cbn [Xb]. split.
  - intros [-> H]. split; [reflexivity|]. split.
    + intros [y ->]. apply H. exists [47; 46], y. split; [reflexivity|].
      exists [47], [46]. split; [reflexivity|]. split; [left; exists 47; split; [reflexivity|left; reflexivity]|reflexivity].
    + intros [-> [y ->]]. apply H. exists [46], y. split; [reflexivity|].
      exists [], [46]. split; [reflexivity|]. split; [right; split; reflexivity|reflexivity].
  - intros [-> [H1 H2]]. split; [reflexivity|]. intros [s' [t [E [s1 [s2 [-> [[[x [-> [Hx|[]]]]|[-> Hb]] ->]]]]]]].
    + subst x. apply H1. exists t. exact E.
    + apply H2. split; [exact Hb|]. exists t. exact E.
Qed.

Fixpoint gs_ok (b : bool) (s rest : str) : Prop :=
  match s with
  | [] => True
  | x :: s' => ~ slashdot (x :: s' ++ rest) /\ ~ (b = true /\ x = 46) /\ gs_ok false s' rest
  end.

Lemma gstar_iff : forall s b rest, Xb xGstar b s rest <-> gs_ok b s rest.
Proof.
  unfold xGstar. cbn [Xb]. intros s b rest. split.
  - intros H. induction H as [|b s1 s2 rest P _ IH]; [exact I|].
    cbn [Xb] in P. destruct P as [g [a [-> [G [x ->]]]]]. apply guard_iff in G. destruct G as [-> [G1 G2]].
    cbn [app is_nil andb] in *. rewrite andb_false_r in IH. split; [exact G1|]. split; [|exact IH].
    intros HH. destruct HH as [Hb0 Hx0]. subst x. apply G2. split; [exact Hb0|]. eexists. reflexivity.
  - revert b. induction s as [|x s IH]; intros b H; [constructor|].
    destruct H as [H1 [H2 H3]]. change (x :: s) with ([x] ++ s). apply bstar_step.
    + cbn [Xb]. exists [], [x]. split; [reflexivity|]. split; [|exists x; reflexivity].
      apply guard_iff. split; [reflexivity|]. split; [exact H1|]. intros [Hb [y E]]. inversion E as [[Ex Ey]]. apply H2. split; [exact Hb|exact Ex].
    + cbn [is_nil]. rewrite andb_false_r. apply IH. exact H3.
Qed.

Lemma div_slashes : forall b d rest, bstar (Xb (XAlt3 XBol XEol (XSet [47]))) b d rest -> slashes d.
Proof.
  intros b d rest H. induction H as [|b s1 s2 rest P _ IH]; [intros x []|].
  cbn [Xb] in P. intros y Hy. apply in_app_or in Hy. destruct Hy as [Hy|Hy]; [|apply IH; exact Hy].
  destruct P as [[-> _]|[[-> _]|[x [-> [Hx|[]]]]]]; try (destruct Hy; fail).
  destruct Hy as [<-|[]]. symmetry. exact Hx.
Qed.

Lemma slashes_div : forall d b rest, slashes d -> bstar (Xb (XAlt3 XBol XEol (XSet [47]))) b d rest.
Proof.
  induction d as [|x d IH]; intros b rest H; [constructor|].
  change (x :: d) with ([x] ++ d). apply bstar_step.
  - cbn [Xb]. right. right. exists x. split; [reflexivity|]. left. symmetry. apply H. left. reflexivity.
  - apply IH. intros y Hy. apply H. right. exact Hy.
Qed.

Lemma div_iff b d rest :
  Xb xDiv b d rest <-> slashes d /\ (d <> [] \/ b = true \/ rest = [] \/ rest = [10]).
Proof.
  unfold xDiv. cbn [Xb]. split.
  - intros [s1 [s2 [-> [P Q]]]]. pose proof (div_slashes _ _ _ Q) as S2.
    destruct P as [[-> Hb]|[[-> He]|[x [-> [Hx|[]]]]]].
    + split; [exact S2|]. right. left. exact Hb.
    + split; [exact S2|]. destruct s2 as [|y s2']; [right; right; cbn in He; exact He|left; discriminate].
    + split; [|left; discriminate]. intros y [<-|Hy]; [symmetry; exact Hx|apply S2; exact Hy].
  - intros [Sd H]. destruct d as [|x d'].
    + exists [], []. split; [reflexivity|]. split; [|constructor].
      destruct H as [H|[H|H]]; [contradiction|left; split; [reflexivity|exact H]|right; left; split; [reflexivity|exact H]].
    + exists [x], d'. split; [reflexivity|]. split.
      * right. right. exists x. split; [reflexivity|]. left. symmetry. apply Sd. left. reflexivity.
      * apply slashes_div. intros y Hy. apply Sd. right. exact Hy.
Qed.

Lemma needsep_iff b s rest : Xb xNeedSep b s rest <-> s = [] /\ exists y, rest = 47 :: y.
Proof.
  unfold xNeedSep. cbn [Xb]. split.
  - intros [-> [s' [t [E [x [-> [Hx|[]]]]]]]]. subst x. split; [reflexivity|]. exists t. exact E.
  - intros [-> [y E]]. split; [reflexivity|]. exists [47], y. split; [exact E|]. exists 47. split; [reflexivity|left; reflexivity].
Qed.

(* ---- patterns with `**` segments ---- *)
Inductive pseg := PSeg (ts : list tok) | PGstar.

Fixpoint emit_pathG (prev : bool) (segs : list pseg) : rx :=
  match segs with
  | [] => xTrail
  | PSeg ts :: rest =>
      XCat (emit_seg false true ts)
           (match rest with
            | [] => xTrail
            | PSeg _ :: _ => XCat xSep (emit_pathG true rest)
            | PGstar :: _ => emit_pathG true rest
            end)
  | PGstar :: rest => XCat (if prev then xNeedSep else XEps) (XCat xGstar (XCat xDiv (emit_pathG true rest)))
  end.

(* documented meaning: [prev] = a segment precedes, [b] = nothing of the name has been consumed yet *)
Fixpoint DenG (prev b : bool) (segs : list pseg) (n : str) : Prop :=
  match segs with
  | [] => slashes n
  | PSeg ts :: rest =>
      exists s n', n = s ++ n' /\ ~ In 47 s /\ DenSeg false true ts s /\
        match rest with
        | [] => slashes n'
        | PSeg _ :: _ => exists sl n'', n' = sl ++ n'' /\ sl <> [] /\ slashes sl /\ DenG true false rest n''
        | PGstar :: _ => DenG true false rest n'
        end
  | PGstar :: rest =>
      (* `**`: a run r that never steps onto the start of a hidden segment (and does not begin with `.` at the very start
         of the name), then separators d - at least one, unless the name starts or ends here *)
      exists r d n', n = r ++ d ++ n' /\ (prev = true -> exists y, n = 47 :: y) /\
                     gs_ok b r (d ++ n') /\ slashes d /\
                     (d <> [] \/ (b && is_nil r) = true \/ n' = [] \/ n' = [10]) /\
                     DenG true (b && is_nil r && is_nil d) rest n'
  end.

Definition psegwf (p : pseg) : bool :=
  match p with PSeg ts => pwf ts && match ts with [] => false | _ => true end | PGstar => true end.

Lemma nobol_emit_seg dot : forall ts first, nobol (emit_seg dot first ts) = true.
Proof.
  induction ts as [|t ts IH]; intros first; [reflexivity|].
  destruct t as [c|c| | |neg l]; cbn [emit_seg nobol]; rewrite ?IH; try reflexivity.
  - destruct first; destruct dot; reflexivity.
  - destruct first; destruct dot; reflexivity.
  - destruct first; destruct dot; destruct neg; reflexivity.
Qed.

Lemma DenSeg_nonempty dot ts s : ts <> [] -> DenSeg dot true ts s -> s <> [].
Proof.
  destruct ts as [|t ts]; [contradiction|]. intros _. destruct t as [c|c| | |neg l]; cbn [DenSeg].
  - intros [s' [-> _]]. discriminate.
  - intros [s' [-> _]]. discriminate.
  - intros [x [s' [-> _]]]. discriminate.
  - intros [a [s' [E [_ [Hf _]]]]]. destruct (Hf eq_refl) as [Hne _]. exact Hne.
  - intros [x [s' [-> _]]]. discriminate.
Qed.

Lemma segb_equiv ts b s rest :
  pwf ts = true -> seg_ok rest -> nonl (s ++ rest) ->
  (Xb (emit_seg false true ts) b s rest <-> (~ In 47 s /\ DenSeg false true ts s)).
Proof.
  intros W Ok Hn. rewrite (Xb_X _ (nobol_emit_seg false ts true)). apply seg_equiv; assumption.
Qed.

Lemma trail_iffb b t : Xb xTrail b t [] <-> slashes t.
Proof. rewrite (Xb_X xTrail eq_refl). unfold xTrail. cbn [X]. apply star_set_iff. Qed.

Lemma sepb_iff b sl rest : Xb xSep b sl rest <-> sl <> [] /\ slashes sl.
Proof. rewrite (Xb_X xSep eq_refl). apply sep_iff. Qed.

Lemma is_nil_false (s : str) : s <> [] -> is_nil s = false.
Proof. destruct s; [contradiction|reflexivity]. Qed.

Lemma slashes_head (sl : str) (n' : str) : sl <> [] -> slashes sl -> seg_ok (sl ++ n').
Proof. intros H S0. destruct sl as [|x sl']; [contradiction|]. right. exists (sl' ++ n'). cbn. f_equal. apply S0. left. reflexivity. Qed.

Theorem pathG_equiv : forall segs prev b n,
  Forall (fun p => psegwf p = true) segs -> nonl n ->
  (Xb (emit_pathG prev segs) b n [] <-> DenG prev b segs n).
Proof.
  induction segs as [|p segs IH]; intros prev b n W Hn.
  - cbn [emit_pathG DenG]. apply trail_iffb.
  - inversion W as [|? ? Wp Wrest]; subst. destruct p as [ts|].
    + (* an ordinary segment *)
      cbn [psegwf] in Wp. apply andb_true_iff in Wp. destruct Wp as [Wts Wne].
      assert (Hts : ts <> []) by (destruct ts; [discriminate|discriminate]).
      destruct segs as [|q segs'].
      * cbn [emit_pathG DenG Xb]. split.
        -- intros [s [t [-> [HS HT]]]]. apply trail_iffb in HT. rewrite app_nil_r in HS.
           apply segb_equiv in HS; [|exact Wts|apply slashes_seg_ok; exact HT|exact Hn]. destruct HS as [A B].
           exists s, t. repeat split; assumption.
        -- intros [s [t [-> [A [B HT]]]]]. exists s, t. split; [reflexivity|]. split.
           ++ rewrite app_nil_r. apply segb_equiv; [exact Wts|apply slashes_seg_ok; exact HT|exact Hn|]. split; assumption.
           ++ apply trail_iffb. exact HT.
      * destruct q as [ts2|].
        -- (* followed by a separator and another segment *)
           change (emit_pathG prev (PSeg ts :: PSeg ts2 :: segs')) with
             (XCat (emit_seg false true ts) (XCat xSep (emit_pathG true (PSeg ts2 :: segs')))).
           change (DenG prev b (PSeg ts :: PSeg ts2 :: segs') n) with
             (exists s n', n = s ++ n' /\ ~ In 47 s /\ DenSeg false true ts s /\
                exists sl n'', n' = sl ++ n'' /\ sl <> [] /\ slashes sl /\ DenG true false (PSeg ts2 :: segs') n'').
           split.
           ++ intros H. cbn [Xb] in H. destruct H as [s [s2 [-> [HS [sl [n' [-> [HSep HP]]]]]]]].
              rewrite app_nil_r in HS, HSep. apply sepb_iff in HSep. destruct HSep as [Hsl1 Hsl2].
              apply segb_equiv in HS; [|exact Wts|apply slashes_head; assumption|exact Hn]. destruct HS as [A B].
              assert (Hn' : nonl n') by (eapply nonl_tail; rewrite app_assoc in Hn; exact Hn).
              rewrite (is_nil_false s (DenSeg_nonempty _ _ _ Hts B)) in HP. rewrite andb_false_r in HP. cbn [andb] in HP.
              apply (IH true false n' Wrest Hn') in HP.
              exists s, (sl ++ n'). split; [reflexivity|]. split; [exact A|]. split; [exact B|]. exists sl, n'. repeat split; assumption.
           ++ intros [s [n0 [-> [A [B [sl [n' [-> [Hsl1 [Hsl2 HP]]]]]]]]]].
              assert (Hn' : nonl n') by (eapply nonl_tail; rewrite app_assoc in Hn; exact Hn).
              cbn [Xb]. exists s, (sl ++ n'). split; [reflexivity|]. split.
              ** rewrite app_nil_r. apply segb_equiv; [exact Wts|apply slashes_head; assumption|exact Hn|]. split; assumption.
              ** exists sl, n'. split; [reflexivity|]. split; [rewrite app_nil_r; apply sepb_iff; split; assumption|].
                 rewrite (is_nil_false s (DenSeg_nonempty _ _ _ Hts B)). rewrite andb_false_r. cbn [andb].
                 apply (IH true false n' Wrest Hn'). exact HP.
        -- (* followed directly by `**` *)
           change (emit_pathG prev (PSeg ts :: PGstar :: segs')) with
             (XCat (emit_seg false true ts) (emit_pathG true (PGstar :: segs'))).
           change (DenG prev b (PSeg ts :: PGstar :: segs') n) with
             (exists s n', n = s ++ n' /\ ~ In 47 s /\ DenSeg false true ts s /\ DenG true false (PGstar :: segs') n').
           split.
           ++ intros H. cbn [Xb] in H. destruct H as [s [n' [-> [HS HP]]]]. rewrite app_nil_r in HS.
              assert (Hn' : nonl n') by (eapply nonl_tail; exact Hn).
              (* the `**` part starts with the need-separator look-ahead: what follows the segment begins with `/` *)
              assert (Ok : seg_ok n').
              { cbn [emit_pathG Xb] in HP. destruct HP as [s1 [s2 [E [HN _]]]]. apply needsep_iff in HN. destruct HN as [-> [y Ey]].
                cbn [app] in E. subst s2. rewrite app_nil_r in Ey. right. exists y. exact Ey. }
              apply segb_equiv in HS; [|exact Wts|exact Ok|exact Hn]. destruct HS as [A B].
              rewrite (is_nil_false s (DenSeg_nonempty _ _ _ Hts B)) in HP. rewrite andb_false_r in HP.
              apply (IH true false n' Wrest Hn') in HP.
              exists s, n'. repeat split; assumption.
           ++ intros [s [n' [-> [A [B HP]]]]].
              assert (Hn' : nonl n') by (eapply nonl_tail; exact Hn).
              assert (Ok : seg_ok n').
              { cbn [DenG] in HP. destruct HP as [r [d [n'' [E [Hprev _]]]]]. destruct (Hprev eq_refl) as [y Ey]. right. exists y. exact Ey. }
              cbn [Xb]. exists s, n'. split; [reflexivity|]. split.
              ** rewrite app_nil_r. apply segb_equiv; [exact Wts|exact Ok|exact Hn|]. split; assumption.
              ** rewrite (is_nil_false s (DenSeg_nonempty _ _ _ Hts B)). rewrite andb_false_r.
                 apply (IH true false n' Wrest Hn'). exact HP.
    + (* `**` *)
      cbn [emit_pathG DenG]. split.
      * intros H. cbn [Xb] in H. destruct H as [s0 [s1 [-> [HP0 [r [s2 [-> [HG [d [n' [-> [HD HK]]]]]]]]]]]].
        assert (s0 = [] /\ (prev = true -> exists y, (r ++ d ++ n') ++ [] = 47 :: y)).
        { destruct prev.
          - apply needsep_iff in HP0. destruct HP0 as [-> HY]. split; [reflexivity|intros _; exact HY].
          - cbn [Xb] in HP0. subst s0. split; [reflexivity|discriminate]. }
        destruct H as [-> Hprev]. cbn [app is_nil] in *. rewrite andb_true_r in HG, HD.
        rewrite app_nil_r in HG, HD, Hprev.
        apply gstar_iff in HG. apply div_iff in HD. destruct HD as [HD1 HD2].
        assert (Hn' : nonl n').
        { intros X0. apply Hn. apply in_or_app. right. apply in_or_app. right. exact X0. }
        apply (IH true _ n' Wrest Hn') in HK.
        exists r, d, n'. split; [reflexivity|]. split; [exact Hprev|]. split; [exact HG|]. split; [exact HD1|].
        rewrite andb_true_r in HK. split; [exact HD2|exact HK].
      * intros [r [d [n' [-> [Hprev [HG [HD1 [HD2 HK]]]]]]]].
        assert (Hn' : nonl n').
        { intros X0. apply Hn. apply in_or_app. right. apply in_or_app. right. exact X0. }
        cbn [Xb]. exists [], (r ++ d ++ n'). split; [reflexivity|]. split.
        -- destruct prev.
           ++ apply needsep_iff. split; [reflexivity|]. rewrite app_nil_r. apply Hprev. reflexivity.
           ++ cbn [Xb]. reflexivity.
        -- cbn [is_nil]. rewrite andb_true_r. exists r, (d ++ n'). split; [reflexivity|]. split.
           ++ apply gstar_iff. rewrite app_nil_r. exact HG.
           ++ exists d, n'. split; [reflexivity|]. split.
              ** apply div_iff. split; [exact HD1|]. rewrite app_nil_r. exact HD2.
              ** apply (IH true _ n' Wrest Hn'). exact HK.
Qed.

(* ==== (1) text: the parser model prints exactly [emit_pathG] ==== *)
From WC.Proofs Require Import C09Parse.
Open Scope Z_scope.

Section GlobText.
  Variable cf : cfg.
  Hypothesis Hpath : c_pathname cf = true.
  Hypothesis Hext : c_extend cf = false.
  Hypothesis Habort : c_bslash_abort cf = false.
  Hypothesis Hunix : c_unix cf = true.
  Hypothesis Hnodotdir : c_nodotdir cf = false.
  Hypothesis Hdot : c_dot cf = false.
  Hypothesis Hglong : c_globstarlong cf = false.
  Hypothesis Hsep : c_sep cf = S_ "[/]".
  Hypothesis Hneed : c_need_char cf = xprint xNeedChar.
  Hypothesis Hnodir : c_no_dir cf = xprint xNoDir.
  Hypothesis Hseq : c_seq_path cf = xprint xNoSlash.
  Hypothesis Hseqdot : c_seq_path_dot cf = xprint xNoSlashDot.
  Hypothesis Hstar : c_path_star cf = xprint xPathStar.
  Hypothesis Hstar1 : c_path_star_dot1 cf = xprint xNoDir ++ xprint xPathStar.
  Hypothesis Hstar2 : c_path_star_dot2 cf = xprint xNoDir ++ xprint xStarNoDot.
  Hypothesis Hg1 : c_path_gstar_dot1 cf = S_ "(?:(?!(?:[/]|^)(?:\.{1,2})($|[/])).)*?".
  Hypothesis Hg2 : c_path_gstar_dot2 cf = xprint xGstar.
  Hypothesis Hgcap : c_gcapture cf = false.

  Definition gmode (st : pst) : Prop := after_start st = true /\ globstar st = true /\ in_list st = false.

  (* `**` followed by `/` (the separator is consumed), called with the iterator after the first `*` *)
  Lemma handle_gstar_sep st i r last cur :
    gmode st -> nosep_head (r) = true ->
    str_eqb (itext last) (xprint xDiv) = false ->
    handle_star cf st {| idx := i; rest := 42%N :: 47%N :: r |} (last :: cur) =
    (set_start_dir (reset_dir_track (set_matchbase st false)), {| idx := i + 1 + 1; rest := r |},
     T (xprint xDiv) :: (if str_eqb (itext last) [] then T (xprint xGstar) :: cur
                         else T (xprint xGstar) :: T (xprint xNeedSep) :: cur)).
  Proof.
    intros [Ha [Hg Hi]] Hr Hl. unfold handle_star.
    rewrite Hpath, Ha, Hg, Hi, Hdot, Hglong, Hgcap, Hg2, Hneed, Hstar2, Hsep. cbn [andb negb next rest idx].
    change (N.eqb 42%N cSTAR) with true. cbv iota. cbn [next rest idx].
    change (N.eqb 47%N cBS) with false. change (N.eqb 47%N cSL) with true. cbv iota.
    replace (str_eqb (xprint xGstar) (xprint xGstar)) with true by reflexivity. cbn [negb andb].
    replace (format Frag.u_GLOBSTAR_DIV (S_ "[/]") []) with (xprint xDiv) by reflexivity.
    replace (format Frag.u_NEED_SEP (S_ "[/]") []) with (xprint xNeedSep) by reflexivity.
    rewrite Hl. cbn [negb].
    unfold consume_path_sep. rewrite Habort. cbn [rest idx]. rewrite (skip_slashes_noslash r _ Hr).
    destruct (str_eqb (itext last) []); reflexivity.
  Qed.

  (* `**` at the very end of the pattern *)
  Lemma handle_gstar_end st i last cur :
    gmode st -> str_eqb (itext last) (xprint xDiv) = false ->
    handle_star cf st {| idx := i; rest := [42%N] |} (last :: cur) =
    (set_start_dir (reset_dir_track st), {| idx := i + 1; rest := [] |},
     T (xprint xDiv) :: (if str_eqb (itext last) [] then T (xprint xGstar) :: cur
                         else T (xprint xGstar) :: T (xprint xNeedSep) :: cur)).
  Proof.
    intros [Ha [Hg Hi]] Hl. unfold handle_star.
    rewrite Hpath, Ha, Hg, Hi, Hdot, Hglong, Hgcap, Hg2, Hneed, Hstar2, Hsep. cbn [andb negb next rest idx].
    change (N.eqb 42%N cSTAR) with true. cbv iota. cbn [next rest idx].
    replace (str_eqb (xprint xGstar) (xprint xGstar)) with true by reflexivity. cbn [negb andb].
    replace (format Frag.u_GLOBSTAR_DIV (S_ "[/]") []) with (xprint xDiv) by reflexivity.
    replace (format Frag.u_NEED_SEP (S_ "[/]") []) with (xprint xNeedSep) by reflexivity.
    rewrite Hl. cbn [negb].
    unfold consume_path_sep. rewrite Habort. cbn [rest idx skip_slashes].
    destruct (str_eqb (itext last) []); reflexivity.
  Qed.

  Definition gcur (last : item) (cur : list item) : list item :=
    T (xprint xDiv) :: (if str_eqb (itext last) [] then T (xprint xGstar) :: cur else T (xprint xGstar) :: T (xprint xNeedSep) :: cur).

  Lemma pstep_gstar_sep f st i r last cur :
    gmode st -> nosep_head (r) = true ->
    str_eqb (itext last) (xprint xDiv) = false ->
    root_loop (S f) cf st {| idx := i; rest := 42%N :: 42%N :: 47%N :: r |} (last :: cur) =
    root_loop f cf (update_dir_state (set_start_dir (reset_dir_track (set_matchbase st false))))
              {| idx := i + 1 + 1 + 1; rest := r |} (gcur last cur).
  Proof.
    intros G Hr Hl. cbn [root_loop next rest idx]. rewrite Hext. cbn [andb].
    change (N.eqb 42%N cDOT) with false. change (N.eqb 42%N cSTAR) with true. cbv iota.
    rewrite (handle_gstar_sep st (i + 1) r last cur G Hr Hl). reflexivity.
  Qed.

  Lemma pstep_gstar_end f st i last cur :
    gmode st -> str_eqb (itext last) (xprint xDiv) = false ->
    root_loop (S f) cf st {| idx := i; rest := [42%N; 42%N] |} (last :: cur) =
    root_loop f cf (update_dir_state (set_start_dir (reset_dir_track st))) {| idx := i + 1 + 1; rest := [] |} (gcur last cur).
  Proof.
    intros G Hl. cbn [root_loop next rest idx]. rewrite Hext. cbn [andb].
    change (N.eqb 42%N cDOT) with false. change (N.eqb 42%N cSTAR) with true. cbv iota.
    rewrite (handle_gstar_end st (i + 1) last cur G Hl). reflexivity.
  Qed.

  (* a further `**` segment directly after a globstar (the text so far ends with the divider) is absorbed: nothing is
     added, the run of separators after it - however spelled - is consumed, and the parser stands at the start of a segment *)
  Lemma handle_gstar_merged st i bs r last cur :
    gmode st -> nosep_head r = true -> itext last = xprint xDiv ->
    handle_star cf st {| idx := i; rest := 42%N :: 47%N :: seprun bs ++ r |} (last :: cur) =
    (set_start_dir (reset_dir_track (set_matchbase st false)), {| idx := i + 1 + 1 + Z.of_nat (length (seprun bs)); rest := r |}, last :: cur).
  Proof.
    intros [Ha [Hg Hi]] Hr Hl. unfold handle_star.
    rewrite Hpath, Ha, Hg, Hi, Hdot, Hglong, Hgcap, Hg2, Hneed, Hstar2, Hsep. cbn [andb negb next rest idx].
    change (N.eqb 42%N cSTAR) with true. cbv iota. cbn [next rest idx].
    change (N.eqb 47%N cBS) with false. change (N.eqb 47%N cSL) with true. cbv iota.
    replace (str_eqb (xprint xGstar) (xprint xGstar)) with true by reflexivity. cbn [negb andb].
    replace (format Frag.u_GLOBSTAR_DIV (S_ "[/]") []) with (xprint xDiv) by reflexivity.
    rewrite Hl. replace (str_eqb (xprint xDiv) (xprint xDiv)) with true by reflexivity. cbn [negb andb].
    unfold consume_path_sep. rewrite Habort. cbn [rest idx].
    rewrite (skip_slashes_run bs r _ Hr). reflexivity.
  Qed.

  Lemma pstep_gstar_merged f st i bs r last cur :
    gmode st -> nosep_head r = true -> itext last = xprint xDiv ->
    root_loop (S f) cf st {| idx := i; rest := 42%N :: 42%N :: 47%N :: seprun bs ++ r |} (last :: cur) =
    root_loop f cf (update_dir_state (set_start_dir (reset_dir_track (set_matchbase st false))))
              {| idx := i + 1 + 1 + 1 + Z.of_nat (length (seprun bs)); rest := r |} (last :: cur).
  Proof.
    intros G Hr Hl. cbn [root_loop next rest idx]. rewrite Hext. cbn [andb].
    change (N.eqb 42%N cDOT) with false. change (N.eqb 42%N cSTAR) with true. cbv iota.
    rewrite (handle_gstar_merged st (i + 1) bs r last cur G Hr Hl). reflexivity.
  Qed.

  (* ---- patterns as units: an optional `**/` in front of each ordinary segment, an optional `/**` at the end ---- *)
  Definition unit_ := (bool * list tok)%type.

  Fixpoint punU (units : list unit_) (endg : bool) : str :=
    match units with
    | [] => if endg then [42%N; 42%N] else []
    | (g, ts) :: more =>
        (if g then [42%N; 42%N; 47%N] else []) ++ unparse ts ++
        (match more with
         | [] => if endg then 47%N :: punU more endg else []
         | _ :: _ => 47%N :: punU more endg
         end)
    end.

  Fixpoint EU (atstart : bool) (units : list unit_) (endg : bool) : rx :=
    match units with
    | [] => if endg then XCat (if atstart then XEps else xNeedSep) (XCat xGstar (XCat xDiv xTrail)) else xTrail
    | (g, ts) :: more =>
        XCat (if g then XCat (if atstart then XEps else xNeedSep) (XCat xGstar xDiv) else (if atstart then XEps else xSep))
             (XCat (emit_seg false true ts) (EU false more endg))
    end.

  Definition uwf (u : unit_) : bool := seg_wf (snd u).

  Lemma punU_head units endg : (units <> [] \/ endg = true) -> Forall (fun u => uwf u = true) units ->
    nosep_head (punU units endg) = true.
  Proof.
    intros Hne W. destruct units as [|[g ts] more].
    - destruct Hne as [Hne|Hne]; [contradiction|]. subst endg. reflexivity.
    - inversion W as [|? ? Wu _]; subst. destruct g; [reflexivity|].
      unfold uwf, seg_wf in Wu. cbn [snd] in Wu. apply andb_true_iff in Wu. destruct Wu as [Wp Wn].
      destruct ts as [|t ts']; [discriminate|]. cbn [punU app].
      apply punparse_head; [exact Wp|]. destruct more; [destruct endg|]; reflexivity.
  Qed.

  Lemma inv3_after_gstar st : inv3 true st ->
    inv3 true (update_dir_state (set_start_dir (reset_dir_track (set_matchbase st false)))).
  Proof. intros [A [B D]]. unfold update_dir_state. cbn. repeat split; assumption. Qed.
  Lemma inv3_after_gstar_end st : inv3 true st -> inv3 true (update_dir_state (set_start_dir (reset_dir_track st))).
  Proof. intros [A [B D]]. unfold update_dir_state. cbn. repeat split; assumption. Qed.

  Lemma sep_not_div : str_eqb (xprint xSep) (xprint xDiv) = false. Proof. reflexivity. Qed.
  Lemma nil_not_div : str_eqb [] (xprint xDiv) = false. Proof. reflexivity. Qed.
  Lemma sep_not_nil : str_eqb (xprint xSep) [] = false. Proof. reflexivity. Qed.

  Lemma gcur_jrev (last : item) (cur0 : list item) (atstart : bool) :
    itext last = (if atstart then [] else xprint xSep) ->
    jrev (gcur last cur0) = jrev cur0 ++ xprint (XCat (if atstart then XEps else xNeedSep) (XCat xGstar xDiv)).
  Proof.
    intros Hl. unfold gcur. rewrite Hl. destruct atstart.
    - cbn [str_eqb]. rewrite !jrev_cons. cbn [xprint app]. rewrite <- app_assoc. reflexivity.
    - rewrite sep_not_nil. rewrite !jrev_cons. cbn [xprint]. rewrite <- !app_assoc. reflexivity.
  Qed.

  Lemma last_not_div (last : item) (atstart : bool) : itext last = (if atstart then [] else xprint xSep) ->
    str_eqb (itext last) (xprint xDiv) = false.
  Proof. intros ->. destruct atstart; reflexivity. Qed.

  Lemma unit_loop : forall (units : list unit_) fuel st i (last : item) cur0 (atstart : bool) endg,
    (units <> [] \/ endg = true) -> Forall (fun u => uwf u = true) units ->
    (length (punU units endg) < fuel)%nat -> inv3 true st -> globstar st = true -> in_list st = false ->
    itext last = (if atstart then [] else xprint xSep) ->
    exists st' cur', root_loop fuel cf st {| idx := i; rest := punU units endg |} (last :: cur0) = Ok (st', cur') /\
                     jrev cur' ++ xprint xTrail = jrev cur0 ++ xprint (EU atstart units endg) /\ inv st'.
  Proof.
    pose proof (seg_advance cf) as SA. repeat match type of SA with (?A -> _) => specialize (SA ltac:(assumption)) end.
    pose proof (pstep_sep cf) as PS. repeat match type of PS with (?A -> _) => specialize (PS ltac:(assumption)) end.
    induction units as [|[g ts] more IH]; intros fuel st i last cur0 atstart endg Hne W Hf I2 Hgs Hil Hl.
    - destruct Hne as [Hne|Hne]; [contradiction|]. subst endg. cbn [punU] in *. cbn [length] in Hf.
      destruct fuel as [|f]; [lia|].
      assert (G : gmode st) by (destruct I2 as [_ [_ Ha]]; repeat split; assumption).
      rewrite (pstep_gstar_end f st i last cur0 G (last_not_div _ _ Hl)).
      destruct f as [|f']; [lia|].
      eexists. eexists. split; [reflexivity|]. split.
      + rewrite (gcur_jrev last cur0 atstart Hl). cbn [EU xprint]. rewrite <- !app_assoc. reflexivity.
      + eapply inv3_inv. apply inv3_after_gstar_end. exact I2.
    - inversion W as [|? ? Wu Wmore]; subst.
      pose proof Wu as Wu'. unfold uwf, seg_wf in Wu'. cbn [snd] in Wu'. apply andb_true_iff in Wu'. destruct Wu' as [Wp Wn].
      assert (Hts : exists t ts', ts = t :: ts') by (destruct ts as [|t ts']; [discriminate|eauto]).
      set (tail := match more with
                   | [] => if endg then 47%N :: punU more endg else []
                   | _ :: _ => 47%N :: punU more endg
                   end) in *.
      assert (Htail : tail_ok tail = true) by (unfold tail; destruct more; [destruct endg|]; reflexivity).
      assert (Tcases : (more = [] /\ endg = false /\ tail = []) \/ ((more <> [] \/ endg = true) /\ tail = 47%N :: punU more endg)).
      { unfold tail. destruct more as [|u more'].
        - destruct endg; [right; split; [right; reflexivity|reflexivity]|left; repeat split].
        - right. split; [left; discriminate|reflexivity]. }
      (* the optional `**/` in front *)
      assert (Pre : exists f1 st1 i1 cur1,
                 (fuel - (if g then 1 else 0) <= f1)%nat /\ (f1 <= fuel)%nat /\
                 root_loop fuel cf st {| idx := i; rest := punU ((g, ts) :: more) endg |} (last :: cur0) =
                 root_loop f1 cf st1 {| idx := i1; rest := unparse ts ++ tail |} cur1 /\
                 jrev cur1 = jrev cur0 ++ xprint (if g then XCat (if atstart then XEps else xNeedSep) (XCat xGstar xDiv)
                                                  else (if atstart then XEps else xSep)) /\
                 inv3 true st1 /\ globstar st1 = true /\ in_list st1 = false).
      { destruct g.
        - cbn [punU app]. fold tail. destruct fuel as [|f]; [cbn [punU app length] in Hf; lia|].
          assert (G : gmode st) by (destruct I2 as [_ [_ Ha]]; repeat split; assumption).
          destruct Hts as [t [ts' ->]].
          rewrite (pstep_gstar_sep f st i (unparse (t :: ts') ++ tail) last cur0 G (punparse_head t ts' tail Wp Htail) (last_not_div _ _ Hl)).
          eexists f, _, _, _. split; [lia|]. split; [lia|]. split; [reflexivity|]. split; [apply gcur_jrev; exact Hl|].
          split; [apply inv3_after_gstar; exact I2|]. split; [exact Hgs|exact Hil].
        - cbn [punU app]. fold tail. exists fuel, st, i, (last :: cur0). split; [lia|]. split; [lia|]. split; [reflexivity|].
          split.
          + destruct last as [x|x]; cbn [itext] in Hl; subst x; unfold jrev; cbn [rev map]; rewrite map_app, concat_app; cbn [map concat itext];
              rewrite app_nil_r; destruct atstart; reflexivity.
          + split; [exact I2|]. split; [exact Hgs|exact Hil]. }
      destruct Pre as [f1 [st1 [i1 [cur1 [Hf1 [Hf1' [E1 [J1 [I1 [G1 L1]]]]]]]]]].
      assert (Hlen : ((if g then 3 else 0) + length (unparse ts) + length tail < fuel)%nat).
      { clear - Hf. cbn [punU] in Hf. fold tail in Hf. rewrite !app_length in Hf. destruct g; cbn [length] in Hf; cbv delta [ch str] in *; lia. }
      assert (Hb : (length (unparse ts) <= f1)%nat).
      { clear - Hlen Hf1. cbv delta [ch str] in *. destruct g; cbv iota in *; lia. }
      destruct (SA ts f1 st1 i1 cur1 true tail Wp Htail Hb I1)
        as [f' [st' [i' [cur' [Hf' [E [J [K SM]]]]]]]].
      rewrite Hdot in J.
      destruct Tcases as [[Hm [He Ht]]|[Hne2 Ht]].
      + (* the pattern ends here *)
        rewrite Ht in Hlen. cbn [length] in Hlen. cbv delta [ch str] in *.
        destruct f' as [|f'']; [destruct g; cbv iota in *; lia|].
        exists st', cur'. split; [eapply eq_trans; [exact E1|]; eapply eq_trans; [exact E|]; rewrite Ht; reflexivity|]. split.
        * rewrite J, J1. subst more endg. cbn [EU xprint]. rewrite <- !app_assoc. reflexivity.
        * eapply inv3_inv. exact K.
      + rewrite Ht in Hlen. cbn [length] in Hlen. cbv delta [ch str] in *.
        destruct f' as [|f'']; [destruct g; cbv iota in *; lia|].
        destruct SM as [SMg SMi].
        destruct (IH f'' (update_dir_state (set_matchbase (set_start_dir st') false)) (i' + 1) (T (xprint xSep)) cur' false endg)
          as [st'' [cur'' [E2 [J2 K2]]]].
        { exact Hne2. } { exact Wmore. } { destruct g; cbv iota in *; lia. } { eapply inv3_after_sep. exact K. }
        { destruct (same_mode_upd (set_matchbase (set_start_dir st') false)) as [X1 _]. rewrite X1. cbn. congruence. }
        { destruct (same_mode_upd (set_matchbase (set_start_dir st') false)) as [_ X2]. rewrite X2. cbn. congruence. }
        { reflexivity. }
        exists st'', cur''. split; [|split; [|exact K2]].
        * eapply eq_trans; [exact E1|]. eapply eq_trans; [exact E|]. rewrite Ht.
          rewrite PS; [exact E2|apply K|apply punU_head; assumption].
        * rewrite J2, J, J1. cbn [EU xprint]. rewrite <- !app_assoc. reflexivity.
  Qed.

  (* ---- the same patterns with respelled separators and repeated globstars -----------------------------------------------
     front = None: no `**/` in front of the segment; Some (bs0, reps): `**/` + the run bs0, then for every run in reps a
     further `**/` + that run (these merge into the first);  after = the run written after the segment when something
     follows it (its first separator may be escaped) *)
  Definition front_t := option (list bool * list (list bool)).
  Definition unit_r := (front_t * list tok * (bool * list bool))%type.
  Definition gstar_run (bs : list bool) : str := [42%N; 42%N; 47%N] ++ seprun bs.
  Definition gfront (fr : front_t) : str :=
    match fr with
    | None => []
    | Some (bs0, reps) => gstar_run bs0 ++ flat_map gstar_run reps
    end.
  Definition strip (u : unit_r) : unit_ := (match fst (fst u) with None => false | Some _ => true end, snd (fst u)).

  Fixpoint punUr (units : list unit_r) (endg : bool) : str :=
    match units with
    | [] => if endg then [42%N; 42%N] else []
    | (fr, ts, (b, bs)) :: more =>
        gfront fr ++ unparse ts ++
        (match more with
         | [] => if endg then sepspell b ++ seprun bs ++ punUr more endg else []
         | _ :: _ => sepspell b ++ seprun bs ++ punUr more endg
         end)
    end.

  Definition uwf_r (u : unit_r) : bool := seg_wf (snd (fst u)).

  Lemma punUr_head units endg : (units <> [] \/ endg = true) -> Forall (fun u => uwf_r u = true) units ->
    nosep_head (punUr units endg) = true.
  Proof.
    intros Hne W. destruct units as [|[[fr ts] [b bs]] more].
    - destruct Hne as [Hne|Hne]; [contradiction|]. subst endg. reflexivity.
    - inversion W as [|? ? Wu _]; subst. destruct fr as [[bs0 reps]|]; [reflexivity|].
      unfold uwf_r, seg_wf in Wu. cbn [snd fst] in Wu. apply andb_true_iff in Wu. destruct Wu as [Wp Wn].
      destruct ts as [|t ts']; [discriminate|]. cbn [punUr gfront app].
      apply punparse_head; [exact Wp|]. destruct more; [destruct endg|]; destruct b; reflexivity.
  Qed.

  Lemma handle_gstar_sep_run st i bs r last cur :
    gmode st -> nosep_head (r) = true ->
    str_eqb (itext last) (xprint xDiv) = false ->
    handle_star cf st {| idx := i; rest := 42%N :: 47%N :: seprun bs ++ r |} (last :: cur) =
    (set_start_dir (reset_dir_track (set_matchbase st false)), {| idx := i + 1 + 1 + Z.of_nat (length (seprun bs)); rest := r |}, gcur last cur).
  Proof.
    intros [Ha [Hg Hi]] Hr Hl. unfold handle_star, gcur.
    rewrite Hpath, Ha, Hg, Hi, Hdot, Hglong, Hgcap, Hg2, Hneed, Hstar2, Hsep. cbn [andb negb next rest idx].
    change (N.eqb 42%N cSTAR) with true. cbv iota. cbn [next rest idx].
    change (N.eqb 47%N cBS) with false. change (N.eqb 47%N cSL) with true. cbv iota.
    replace (str_eqb (xprint xGstar) (xprint xGstar)) with true by reflexivity. cbn [negb andb].
    replace (format Frag.u_GLOBSTAR_DIV (S_ "[/]") []) with (xprint xDiv) by reflexivity.
    replace (format Frag.u_NEED_SEP (S_ "[/]") []) with (xprint xNeedSep) by reflexivity.
    rewrite Hl. cbn [negb].
    unfold consume_path_sep. rewrite Habort. cbn [rest idx]. rewrite (skip_slashes_run bs r _ Hr).
    destruct (str_eqb (itext last) []); reflexivity.
  Qed.

  Lemma pstep_gstar_sep_run f st i bs r last cur :
    gmode st -> nosep_head (r) = true ->
    str_eqb (itext last) (xprint xDiv) = false ->
    root_loop (S f) cf st {| idx := i; rest := gstar_run bs ++ r |} (last :: cur) =
    root_loop f cf (update_dir_state (set_start_dir (reset_dir_track (set_matchbase st false))))
              {| idx := i + 1 + 1 + 1 + Z.of_nat (length (seprun bs)); rest := r |} (gcur last cur).
  Proof.
    intros G Hr Hl. unfold gstar_run. cbn [app]. cbn [root_loop next rest idx]. rewrite Hext. cbn [andb].
    change (N.eqb 42%N cDOT) with false. change (N.eqb 42%N cSTAR) with true. cbv iota.
    rewrite (handle_gstar_sep_run st (i + 1) bs r last cur G Hr Hl). reflexivity.
  Qed.

  Lemma nosep_head_gstar_run bs r : nosep_head (gstar_run bs ++ r) = true.
  Proof. reflexivity. Qed.
  Lemma gstar_run_len bs : length (gstar_run bs) = (3 + length (seprun bs))%nat.
  Proof. reflexivity. Qed.
  Lemma reps_len reps : (length reps <= length (flat_map gstar_run reps))%nat.
  Proof. induction reps as [|x reps IHr]; [cbn; lia|]. cbn [flat_map length]. rewrite app_length, gstar_run_len. lia. Qed.

  (* the further `**/` of a front are absorbed one by one *)
  Lemma front_reps : forall reps f st i r last cur,
    inv3 true st -> globstar st = true -> in_list st = false -> nosep_head r = true -> itext last = xprint xDiv ->
    exists st1 i1, root_loop (length reps + f) cf st {| idx := i; rest := flat_map gstar_run reps ++ r |} (last :: cur) =
                   root_loop f cf st1 {| idx := i1; rest := r |} (last :: cur) /\
                   inv3 true st1 /\ globstar st1 = true /\ in_list st1 = false.
  Proof.
    induction reps as [|bs reps IH]; intros f st i r last cur I2 Hgs Hil Hr Hl.
    - exists st, i. cbn [length plus flat_map app]. repeat split; try assumption; apply I2.
    - cbn [length plus flat_map]. rewrite <- app_assoc.
      assert (G : gmode st) by (destruct I2 as [_ [_ Ha]]; repeat split; assumption).
      assert (Hnh : nosep_head (flat_map gstar_run reps ++ r) = true) by (destruct reps; [exact Hr|reflexivity]).
      unfold gstar_run at 1. cbn [app].
      rewrite (pstep_gstar_merged (length reps + f) st i bs (flat_map gstar_run reps ++ r) last cur G Hnh Hl).
      apply IH; [apply inv3_after_gstar; exact I2|exact Hgs|exact Hil|exact Hr|exact Hl].
  Qed.

  Lemma unit_loop_r : forall (units : list unit_r) fuel st i (last : item) cur0 (atstart : bool) endg,
    (units <> [] \/ endg = true) -> Forall (fun u => uwf_r u = true) units ->
    (length (punUr units endg) < fuel)%nat -> inv3 true st -> globstar st = true -> in_list st = false ->
    itext last = (if atstart then [] else xprint xSep) ->
    exists st' cur', root_loop fuel cf st {| idx := i; rest := punUr units endg |} (last :: cur0) = Ok (st', cur') /\
                     jrev cur' ++ xprint xTrail = jrev cur0 ++ xprint (EU atstart (map strip units) endg) /\ inv st'.
  Proof.
    pose proof (seg_advance cf) as SA. repeat match type of SA with (?A -> _) => specialize (SA ltac:(assumption)) end.
    pose proof (pstep_sep_run cf) as PS. repeat match type of PS with ((_ = _) -> _) => specialize (PS ltac:(assumption)) end.
    pose proof (pstep_escsep_run cf) as PE. repeat match type of PE with ((_ = _) -> _) => specialize (PE ltac:(assumption)) end.
    induction units as [|[[fr ts] [b bs]] more IH]; intros fuel st i last cur0 atstart endg Hne W Hf I2 Hgs Hil Hl.
    - destruct Hne as [Hne|Hne]; [contradiction|]. subst endg. cbn [punUr map] in *. cbn [length] in Hf.
      destruct fuel as [|f]; [lia|].
      assert (G : gmode st) by (destruct I2 as [_ [_ Ha]]; repeat split; assumption).
      rewrite (pstep_gstar_end f st i last cur0 G (last_not_div _ _ Hl)).
      destruct f as [|f']; [lia|].
      eexists. eexists. split; [reflexivity|]. split.
      + rewrite (gcur_jrev last cur0 atstart Hl). cbn [EU xprint]. rewrite <- !app_assoc. reflexivity.
      + eapply inv3_inv. apply inv3_after_gstar_end. exact I2.
    - inversion W as [|? ? Wu Wmore]; subst.
      pose proof Wu as Wu'. unfold uwf_r, seg_wf in Wu'. cbn [snd fst] in Wu'. apply andb_true_iff in Wu'. destruct Wu' as [Wp Wn].
      assert (Hts : exists t ts', ts = t :: ts') by (destruct ts as [|t ts']; [discriminate|eauto]).
      set (tail := match more with
                   | [] => if endg then sepspell b ++ seprun bs ++ punUr more endg else []
                   | _ :: _ => sepspell b ++ seprun bs ++ punUr more endg
                   end) in *.
      assert (Htail : tail_ok tail = true) by (unfold tail; destruct more; [destruct endg|]; destruct b; reflexivity).
      assert (Tcases : (more = [] /\ endg = false /\ tail = []) \/ ((more <> [] \/ endg = true) /\ tail = sepspell b ++ seprun bs ++ punUr more endg)).
      { unfold tail. destruct more as [|u more'].
        - destruct endg; [right; split; [right; reflexivity|reflexivity]|left; repeat split].
        - right. split; [left; discriminate|reflexivity]. }
      set (g := match fr with None => false | Some _ => true end).
      assert (Hlenf : (length (gfront fr) + length (unparse ts) + length tail < fuel)%nat).
      { clear - Hf. cbn [punUr] in Hf. fold tail in Hf. rewrite !app_length in Hf. cbv delta [ch str] in *. lia. }
      (* the optional front *)
      assert (Pre : exists f1 st1 i1 cur1,
                 (fuel - length (gfront fr) <= f1)%nat /\ (f1 <= fuel)%nat /\
                 root_loop fuel cf st {| idx := i; rest := punUr ((fr, ts, (b, bs)) :: more) endg |} (last :: cur0) =
                 root_loop f1 cf st1 {| idx := i1; rest := unparse ts ++ tail |} cur1 /\
                 jrev cur1 = jrev cur0 ++ xprint (if g then XCat (if atstart then XEps else xNeedSep) (XCat xGstar xDiv)
                                                  else (if atstart then XEps else xSep)) /\
                 inv3 true st1 /\ globstar st1 = true /\ in_list st1 = false).
      { destruct fr as [[bs0 reps]|].
        - cbn [punUr gfront]. fold tail. rewrite <- !app_assoc.
          assert (G : gmode st) by (destruct I2 as [_ [_ Ha]]; repeat split; assumption).
          destruct Hts as [t [ts' ->]].
          assert (Hseg : nosep_head (unparse (t :: ts') ++ tail) = true) by (apply punparse_head; [exact Wp|exact Htail]).
          assert (Hnh : nosep_head (flat_map gstar_run reps ++ unparse (t :: ts') ++ tail) = true) by (destruct reps; [exact Hseg|reflexivity]).
          assert (Hfu : exists f0, fuel = S (length reps + f0)).
          { cbn [gfront] in Hlenf. rewrite !app_length, gstar_run_len in Hlenf. pose proof (reps_len reps) as RL.
            exists (fuel - 1 - length reps)%nat. cbv delta [ch str] in *. lia. }
          destruct Hfu as [f0 ->].
          rewrite (pstep_gstar_sep_run (length reps + f0) st i bs0 (flat_map gstar_run reps ++ unparse (t :: ts') ++ tail) last cur0 G Hnh (last_not_div _ _ Hl)).
          destruct (front_reps reps f0 (update_dir_state (set_start_dir (reset_dir_track (set_matchbase st false))))
                               (i + 1 + 1 + 1 + Z.of_nat (length (seprun bs0))) (unparse (t :: ts') ++ tail)
                               (T (xprint xDiv)) (if str_eqb (itext last) [] then T (xprint xGstar) :: cur0 else T (xprint xGstar) :: T (xprint xNeedSep) :: cur0))
            as [st1 [i1 [E1 [I1 [G1 L1]]]]]; [apply inv3_after_gstar; exact I2|exact Hgs|exact Hil|exact Hseg|reflexivity|].
          exists f0, st1, i1, (gcur last cur0). split.
          { cbn [gfront]. rewrite !app_length, gstar_run_len. pose proof (reps_len reps) as RL. cbv delta [ch str] in *. lia. }
          split; [lia|]. split; [exact E1|]. split; [apply gcur_jrev; exact Hl|]. split; [exact I1|]. split; [exact G1|exact L1].
        - cbn [punUr gfront app]. fold tail. exists fuel, st, i, (last :: cur0). split; [cbn; lia|]. split; [lia|]. split; [reflexivity|].
          split.
          + destruct last as [x|x]; cbn [itext] in Hl; subst x; unfold jrev; cbn [rev map]; rewrite map_app, concat_app; cbn [map concat itext];
              rewrite app_nil_r; destruct atstart; reflexivity.
          + split; [exact I2|]. split; [exact Hgs|exact Hil]. }
      destruct Pre as [f1 [st1 [i1 [cur1 [Hf1 [Hf1' [E1 [J1 [I1 [G1 L1]]]]]]]]]].
      assert (Hb : (length (unparse ts) <= f1)%nat) by (clear - Hlenf Hf1; cbv delta [ch str] in *; lia).
      destruct (SA ts f1 st1 i1 cur1 true tail Wp Htail Hb I1)
        as [f' [st' [i' [cur' [Hf' [E [J [K SM]]]]]]]].
      rewrite Hdot in J.
      change (map strip ((fr, ts, (b, bs)) :: more)) with ((g, ts) :: map strip more).
      destruct Tcases as [[Hm [He Ht]]|[Hne2 Ht]].
      + (* the pattern ends here *)
        rewrite Ht in Hlenf. cbn [length] in Hlenf. cbv delta [ch str] in *.
        destruct f' as [|f'']; [lia|].
        exists st', cur'. split; [eapply eq_trans; [exact E1|]; eapply eq_trans; [exact E|]; rewrite Ht; reflexivity|]. split.
        * rewrite J, J1. subst more endg. cbn [EU xprint map]. rewrite <- !app_assoc. reflexivity.
        * eapply inv3_inv. exact K.
      + rewrite Ht in Hlenf. rewrite !app_length in Hlenf. cbv delta [ch str] in *.
        assert (Hsl : (1 <= length (sepspell b))%nat) by (destruct b; cbn; lia).
        destruct f' as [|f'']; [lia|].
        destruct SM as [SMg SMi].
        assert (Hnh2 : nosep_head (punUr more endg) = true) by (apply punUr_head; assumption).
        assert (Hstep : exists i2, root_loop (S f'') cf st' {| idx := i'; rest := sepspell b ++ seprun bs ++ punUr more endg |} cur' =
                  root_loop f'' cf (update_dir_state (set_matchbase (set_start_dir st') false)) {| idx := i2; rest := punUr more endg |}
                            (T (xprint xSep) :: cur')).
        { destruct b; cbn [sepspell app].
          - eexists. apply PE; [apply K|rewrite SMi; exact L1|exact Hnh2].
          - eexists. apply PS; [apply K|exact Hnh2]. }
        destruct Hstep as [i2 Hstep].
        destruct (IH f'' (update_dir_state (set_matchbase (set_start_dir st') false)) i2 (T (xprint xSep)) cur' false endg)
          as [st'' [cur'' [E2 [J2 K2]]]].
        { exact Hne2. } { exact Wmore. } { lia. } { eapply inv3_after_sep. exact K. }
        { destruct (same_mode_upd (set_matchbase (set_start_dir st') false)) as [X1 _]. rewrite X1. cbn. congruence. }
        { destruct (same_mode_upd (set_matchbase (set_start_dir st') false)) as [_ X2]. rewrite X2. cbn. congruence. }
        { reflexivity. }
        exists st'', cur''. split; [|split; [|exact K2]].
        * eapply eq_trans; [exact E1|]. eapply eq_trans; [exact E|]. rewrite Ht. rewrite Hstep. exact E2.
        * rewrite J2, J, J1. cbn [EU xprint]. rewrite <- !app_assoc. reflexivity.
  Qed.
End GlobText.

(* ---- units <-> segment lists ---- *)
Fixpoint to_psegs (units : list unit_) (endg : bool) : list pseg :=
  match units with
  | [] => if endg then [PGstar] else []
  | (g, ts) :: more => (if g then [PGstar] else []) ++ PSeg ts :: to_psegs more endg
  end.

Lemma EU_after endg : forall more ts0 p,
  xprint (emit_pathG p (PSeg ts0 :: to_psegs more endg)) = xprint (emit_seg false true ts0) ++ xprint (EU false more endg).
Proof.
  induction more as [|[g ts] more IH]; intros ts0 p.
  - destruct endg; reflexivity.
  - destruct g.
    + change (to_psegs ((true, ts) :: more) endg) with (PGstar :: PSeg ts :: to_psegs more endg).
      change (emit_pathG p (PSeg ts0 :: PGstar :: PSeg ts :: to_psegs more endg)) with
        (XCat (emit_seg false true ts0) (XCat xNeedSep (XCat xGstar (XCat xDiv (emit_pathG true (PSeg ts :: to_psegs more endg)))))).
      cbn [xprint EU]. rewrite (IH ts true). rewrite <- ?app_assoc. reflexivity.
    + change (to_psegs ((false, ts) :: more) endg) with (PSeg ts :: to_psegs more endg).
      change (emit_pathG p (PSeg ts0 :: PSeg ts :: to_psegs more endg)) with
        (XCat (emit_seg false true ts0) (XCat xSep (emit_pathG true (PSeg ts :: to_psegs more endg)))).
      cbn [xprint EU]. rewrite (IH ts true). rewrite <- ?app_assoc. reflexivity.
Qed.

Lemma EU_top units endg : xprint (EU true units endg) = xprint (emit_pathG false (to_psegs units endg)).
Proof.
  destruct units as [|[g ts] more].
  - destruct endg; reflexivity.
  - destruct g.
    + change (to_psegs ((true, ts) :: more) endg) with (PGstar :: PSeg ts :: to_psegs more endg).
      change (emit_pathG false (PGstar :: PSeg ts :: to_psegs more endg)) with
        (XCat XEps (XCat xGstar (XCat xDiv (emit_pathG true (PSeg ts :: to_psegs more endg))))).
      cbn [xprint EU]. rewrite (EU_after endg more ts true). rewrite <- ?app_assoc. reflexivity.
    + change (to_psegs ((false, ts) :: more) endg) with (PSeg ts :: to_psegs more endg).
      rewrite (EU_after endg more ts false). cbn [xprint EU app]. reflexivity.
Qed.

Lemma to_psegs_wf units endg : Forall (fun u => uwf u = true) units -> Forall (fun p => psegwf p = true) (to_psegs units endg).
Proof.
  induction units as [|[g ts] more IH]; intros W.
  - destruct endg; repeat constructor.
  - inversion W as [|? ? Wu Wm]; subst. cbn [to_psegs]. destruct g; cbn [app]; repeat constructor; try exact Wu; apply IH; exact Wm.
Qed.

Lemma punU_cons units endg : (units <> [] \/ endg = true) -> Forall (fun u => uwf u = true) units ->
  exists d r, punU units endg = d :: r /\ d <> 47%N.
Proof.
  intros Hne W. pose proof (punU_head units endg Hne W) as H.
  destruct (punU units endg) as [|d r] eqn:E.
  - exfalso. destruct units as [|[g ts] more].
    + destruct Hne as [Hne|Hne]; [contradiction|]. subst. discriminate.
    + inversion W as [|? ? Wu _]; subst. unfold uwf, seg_wf in Wu. cbn [snd] in Wu. apply andb_true_iff in Wu. destruct Wu as [_ Wn].
      destruct g; [discriminate|]. destruct ts as [|t ts']; [discriminate|]. destruct t; cbn in E; discriminate.
  - exists d, r. split; [reflexivity|]. unfold nosep_head in H. apply andb_true_iff in H. destruct H as [H _].
    apply negb_true_iff in H. apply N.eqb_neq in H. exact H.
Qed.

Lemma punU_not_lone_bs units endg : Forall (fun u => uwf u = true) units -> str_eqb (punU units endg) [cBS] = false.
Proof.
  intros W. destruct (str_eqb (punU units endg) [cBS]) eqn:E; [|reflexivity]. exfalso. apply str_eqb_true in E.
  destruct units as [|[g ts] more].
  - destruct endg; discriminate.
  - destruct g; [discriminate|]. inversion W as [|? ? Wu _]; subst. unfold uwf in Wu. cbn [snd] in Wu.
    cbn [punU app] in E.
    destruct (match more with [] => if endg then 47%N :: punU more endg else [] | _ :: _ => 47%N :: punU more endg end) as [|c tl] eqn:Et.
    + rewrite app_nil_r in E. pose proof (punparse_not_lone_bs [ts] (Forall_cons _ Wu (Forall_nil _))) as Q.
      cbn [punparse] in Q. rewrite E in Q. discriminate.
    + apply andb_true_iff in Wu. destruct Wu as [_ Wn]. destruct ts as [|t ts']; [discriminate|].
      pose proof (unparse_len_pos t ts') as L. apply (f_equal (@length N)) in E. rewrite app_length in E. cbn [length] in E.
      cbv delta [ch str] in *. lia.
Qed.

(* (1) text: the parser prints exactly [emit_pathG] for a pattern with `**` segments (GLOBSTAR, no DOTMATCH) *)
Theorem wcparse_pathG flags isb units endg :
  (units <> [] \/ endg = true) -> Forall (fun u => uwf u = true) units ->
  has flags PATHNAME = true -> has flags GLOBSTAR = true -> has flags GLOBSTARLONG = false -> has flags DOTMATCH = false ->
  is_unix_style linux flags = true -> has flags EXTMATCH = false ->
  has flags NODOTDIR = false -> has flags REALPATH = false ->
  has flags u_ANCHOR = false -> has flags MATCHBASE = false -> has flags u_EXTMATCHBASE = false ->
  has flags u_TRANSLATE = false ->
  wcparse linux flags isb (punU units endg) =
  inl (S_ "^(?s" ++ (if get_case linux flags then [] else S_ "i") ++ S_ ":" ++
       xprint (emit_pathG false (to_psegs units endg)) ++ S_ ")$").
Proof.
  intros Hne W Hp Hgs Hgl Hdm Hu Hx Hnd Hr Ha Hm He Ht. unfold wcparse.
  destruct (mk_cfg linux flags isb) as [cf st] eqn:E.
  assert (Ecf : cf = fst (mk_cfg linux flags isb)) by (rewrite E; reflexivity).
  assert (Est : st = snd (mk_cfg linux flags isb)) by (rewrite E; reflexivity).
  assert (Hpath : c_pathname cf = true) by (rewrite Ecf; exact Hp).
  assert (Hunix : c_unix cf = true) by (rewrite Ecf; exact Hu).
  assert (Hext : c_extend cf = false) by (rewrite Ecf; exact Hx).
  assert (Hnodot : c_nodotdir cf = false) by (rewrite Ecf; exact Hnd).
  assert (Hdot : c_dot cf = false) by (rewrite Ecf; exact Hdm).
  assert (Hglong : c_globstarlong cf = false) by (rewrite Ecf; unfold mk_cfg; cbn [fst c_globstarlong]; rewrite Hgl; apply andb_false_r).
  assert (Habort : c_bslash_abort cf = false) by (rewrite Ecf; unfold mk_cfg; cbn [fst c_bslash_abort]; rewrite Hu; reflexivity).
  assert (Hwd : c_windrive cf = false) by (rewrite Ecf; unfold mk_cfg; cbn [fst c_windrive]; rewrite Hu; reflexivity).
  assert (Hanchor : c_anchor cf = false) by (rewrite Ecf; exact Ha).
  assert (Hcap : c_capture cf = false) by (rewrite Ecf; exact Ht).
  assert (Hreal : c_realpath cf = false) by (rewrite Ecf; unfold mk_cfg; cbn [fst c_realpath]; rewrite Hr; reflexivity).
  assert (Hgcap : c_gcapture cf = false) by (rewrite Ecf; unfold mk_cfg; cbn [fst c_gcapture]; rewrite Hr; reflexivity).
  assert (Hcs : c_cs cf = get_case linux flags) by (rewrite Ecf; reflexivity).
  assert (Hsep : c_sep cf = S_ "[/]") by (rewrite Ecf; unfold mk_cfg; cbn [fst c_sep]; rewrite Hu; reflexivity).
  assert (Hneed : c_need_char cf = xprint xNeedChar) by (rewrite Ecf; unfold mk_cfg; cbn [fst c_need_char]; rewrite Hp, Hu; reflexivity).
  assert (Hnodir : c_no_dir cf = xprint xNoDir) by (rewrite Ecf; unfold mk_cfg; cbn [fst c_no_dir]; rewrite Hu; reflexivity).
  assert (Hseq : c_seq_path cf = xprint xNoSlash) by (rewrite Ecf; unfold mk_cfg; cbn [fst c_seq_path]; rewrite Hu; reflexivity).
  assert (Hseqdot : c_seq_path_dot cf = xprint xNoSlashDot) by (rewrite Ecf; unfold mk_cfg; cbn [fst c_seq_path_dot]; rewrite Hu; reflexivity).
  assert (Hstar : c_path_star cf = xprint xPathStar) by (rewrite Ecf; unfold mk_cfg; cbn [fst c_path_star]; rewrite Hu; reflexivity).
  assert (Hstar1 : c_path_star_dot1 cf = xprint xNoDir ++ xprint xPathStar) by (rewrite Ecf; unfold mk_cfg; cbn [fst c_path_star_dot1]; rewrite Hu; reflexivity).
  assert (Hstar2 : c_path_star_dot2 cf = xprint xNoDir ++ xprint xStarNoDot) by (rewrite Ecf; unfold mk_cfg; cbn [fst c_path_star_dot2]; rewrite Hu; reflexivity).
  assert (Hg1 : c_path_gstar_dot1 cf = S_ "(?:(?!(?:[/]|^)(?:\.{1,2})($|[/])).)*?") by (rewrite Ecf; unfold mk_cfg; cbn [fst c_path_gstar_dot1]; rewrite Hu; reflexivity).
  assert (Hg2 : c_path_gstar_dot2 cf = xprint xGstar) by (rewrite Ecf; unfold mk_cfg; cbn [fst c_path_gstar_dot2]; rewrite Hu; reflexivity).
  assert (Hmb : matchbase st = false) by (rewrite Est; exact Hm).
  assert (Hemb : extmatchbase st = false) by (rewrite Est; exact He).
  assert (Hds : dir_start st = false /\ inv_ext st = 0) by (rewrite Est; split; reflexivity).
  assert (Hgst : globstar st = true) by (rewrite Est; unfold mk_cfg; cbn [snd globstar]; rewrite Hp, Hgs; cbn; apply orb_true_r).
  assert (Hinl : in_list st = false) by (rewrite Est; reflexivity).
  unfold wcparse_cf. rewrite Hanchor, Hmb, Hemb. cbn [orb].
  rewrite (punU_not_lone_bs units endg W).
  destruct (punU_cons units endg Hne W) as [d [r [Er Hd47]]].
  remember (punU units endg) as p eqn:Ep. rewrite Er. rewrite <- Er.
  unfold root. rewrite Hwd, Hpath, Hreal. cbn [andb negb].
  replace (starts_with [cSL] p) with false.
  2:{ rewrite Er. change (starts_with [cSL] (d :: r)) with (N.eqb 47 d && true).
      destruct (N.eqb_spec 47 d) as [X0|X0]; [exfalso; apply Hd47; symmetry; exact X0|reflexivity]. }
  rewrite andb_false_r. cbn [negb andb].
  assert (I2 : inv3 true (set_after_start st)) by (destruct Hds; repeat split; cbn; auto).
  pose proof (unit_loop cf) as UL. repeat match type of UL with (?A -> _) => specialize (UL ltac:(assumption)) end.
  destruct (UL (fuel_for p) (set_after_start st) 0 (T []) [] true endg) as [st' [cur' [Eq [J [Hd' Hi']]]]].
  { exact Hne. } { exact W. } { rewrite <- Ep. unfold fuel_for. lia. } { exact I2. } { exact Hgst. } { exact Hinl. } { reflexivity. }
  rewrite <- Ep in Eq. rewrite Eq.
  unfold clean_up_inverse. rewrite Hi'. cbn [Z.eqb]. rewrite Hcap, Hcs, Hsep.
  replace (format Frag.u_PATH_TRAIL (S_ "[/]") []) with (xprint xTrail) by reflexivity.
  rewrite !jrev_cons, J, EU_top. cbn [jrev rev map concat app].
  destruct (matchbase st' || extmatchbase st'); reflexivity.
Qed.


(* ---- respelled separators and repeated globstars: the same text ---------------------------------------------------------- *)
Lemma punUr_cons units endg : (units <> [] \/ endg = true) -> Forall (fun u => uwf_r u = true) units ->
  exists d r, punUr units endg = d :: r /\ d <> 47%N.
Proof.
  intros Hne W. pose proof (punUr_head units endg Hne W) as H.
  destruct (punUr units endg) as [|d r] eqn:E.
  - exfalso. destruct units as [|[[fr ts] [b bs]] more].
    + destruct Hne as [Hne|Hne]; [contradiction|]. subst. discriminate.
    + inversion W as [|? ? Wu _]; subst. unfold uwf_r, seg_wf in Wu. cbn [snd fst] in Wu. apply andb_true_iff in Wu. destruct Wu as [_ Wn].
      destruct fr as [[bs0 reps]|]; [discriminate|]. destruct ts as [|t ts']; [discriminate|]. destruct t; cbn in E; discriminate.
  - exists d, r. split; [reflexivity|]. unfold nosep_head in H. apply andb_true_iff in H. destruct H as [H _].
    apply negb_true_iff in H. apply N.eqb_neq in H. exact H.
Qed.

Lemma punUr_not_lone_bs units endg : Forall (fun u => uwf_r u = true) units -> str_eqb (punUr units endg) [cBS] = false.
Proof.
  intros W. destruct (str_eqb (punUr units endg) [cBS]) eqn:E; [|reflexivity]. exfalso. apply str_eqb_true in E.
  destruct units as [|[[fr ts] [b bs]] more].
  - destruct endg; discriminate.
  - destruct fr as [[bs0 reps]|]; [discriminate|]. inversion W as [|? ? Wu _]; subst. unfold uwf_r in Wu. cbn [snd fst] in Wu.
    cbn [punUr gfront app] in E.
    destruct (match more with [] => if endg then sepspell b ++ seprun bs ++ punUr more endg else [] | _ :: _ => sepspell b ++ seprun bs ++ punUr more endg end) as [|c tl] eqn:Et.
    + rewrite app_nil_r in E. pose proof (punparse_not_lone_bs [ts] (Forall_cons _ Wu (Forall_nil _))) as Q.
      cbn [punparse] in Q. rewrite E in Q. discriminate.
    + apply andb_true_iff in Wu. destruct Wu as [_ Wn]. destruct ts as [|t ts']; [discriminate|].
      pose proof (unparse_len_pos t ts') as L. apply (f_equal (@length N)) in E. rewrite app_length in E. cbn [length] in E.
      cbv delta [ch str] in *. lia.
Qed.

Theorem wcparse_pathG_runs_text flags isb units endg :
  (units <> [] \/ endg = true) -> Forall (fun u => uwf_r u = true) units ->
  has flags PATHNAME = true -> has flags GLOBSTAR = true -> has flags GLOBSTARLONG = false -> has flags DOTMATCH = false ->
  is_unix_style linux flags = true -> has flags EXTMATCH = false ->
  has flags NODOTDIR = false -> has flags REALPATH = false ->
  has flags u_ANCHOR = false -> has flags MATCHBASE = false -> has flags u_EXTMATCHBASE = false ->
  has flags u_TRANSLATE = false ->
  wcparse linux flags isb (punUr units endg) =
  inl (S_ "^(?s" ++ (if get_case linux flags then [] else S_ "i") ++ S_ ":" ++
       xprint (emit_pathG false (to_psegs (map strip units) endg)) ++ S_ ")$").
Proof.
  intros Hne W Hp Hgs Hgl Hdm Hu Hx Hnd Hr Ha Hm He Ht. unfold wcparse.
  destruct (mk_cfg linux flags isb) as [cf st] eqn:E.
  assert (Ecf : cf = fst (mk_cfg linux flags isb)) by (rewrite E; reflexivity).
  assert (Est : st = snd (mk_cfg linux flags isb)) by (rewrite E; reflexivity).
  assert (Hpath : c_pathname cf = true) by (rewrite Ecf; exact Hp).
  assert (Hunix : c_unix cf = true) by (rewrite Ecf; exact Hu).
  assert (Hext : c_extend cf = false) by (rewrite Ecf; exact Hx).
  assert (Hnodot : c_nodotdir cf = false) by (rewrite Ecf; exact Hnd).
  assert (Hdot : c_dot cf = false) by (rewrite Ecf; exact Hdm).
  assert (Hglong : c_globstarlong cf = false) by (rewrite Ecf; unfold mk_cfg; cbn [fst c_globstarlong]; rewrite Hgl; apply andb_false_r).
  assert (Habort : c_bslash_abort cf = false) by (rewrite Ecf; unfold mk_cfg; cbn [fst c_bslash_abort]; rewrite Hu; reflexivity).
  assert (Hwd : c_windrive cf = false) by (rewrite Ecf; unfold mk_cfg; cbn [fst c_windrive]; rewrite Hu; reflexivity).
  assert (Hanchor : c_anchor cf = false) by (rewrite Ecf; exact Ha).
  assert (Hcap : c_capture cf = false) by (rewrite Ecf; exact Ht).
  assert (Hreal : c_realpath cf = false) by (rewrite Ecf; unfold mk_cfg; cbn [fst c_realpath]; rewrite Hr; reflexivity).
  assert (Hgcap : c_gcapture cf = false) by (rewrite Ecf; unfold mk_cfg; cbn [fst c_gcapture]; rewrite Hr; reflexivity).
  assert (Hcs : c_cs cf = get_case linux flags) by (rewrite Ecf; reflexivity).
  assert (Hsep : c_sep cf = S_ "[/]") by (rewrite Ecf; unfold mk_cfg; cbn [fst c_sep]; rewrite Hu; reflexivity).
  assert (Hneed : c_need_char cf = xprint xNeedChar) by (rewrite Ecf; unfold mk_cfg; cbn [fst c_need_char]; rewrite Hp, Hu; reflexivity).
  assert (Hnodir : c_no_dir cf = xprint xNoDir) by (rewrite Ecf; unfold mk_cfg; cbn [fst c_no_dir]; rewrite Hu; reflexivity).
  assert (Hseq : c_seq_path cf = xprint xNoSlash) by (rewrite Ecf; unfold mk_cfg; cbn [fst c_seq_path]; rewrite Hu; reflexivity).
  assert (Hseqdot : c_seq_path_dot cf = xprint xNoSlashDot) by (rewrite Ecf; unfold mk_cfg; cbn [fst c_seq_path_dot]; rewrite Hu; reflexivity).
  assert (Hstar : c_path_star cf = xprint xPathStar) by (rewrite Ecf; unfold mk_cfg; cbn [fst c_path_star]; rewrite Hu; reflexivity).
  assert (Hstar1 : c_path_star_dot1 cf = xprint xNoDir ++ xprint xPathStar) by (rewrite Ecf; unfold mk_cfg; cbn [fst c_path_star_dot1]; rewrite Hu; reflexivity).
  assert (Hstar2 : c_path_star_dot2 cf = xprint xNoDir ++ xprint xStarNoDot) by (rewrite Ecf; unfold mk_cfg; cbn [fst c_path_star_dot2]; rewrite Hu; reflexivity).
  assert (Hg1 : c_path_gstar_dot1 cf = S_ "(?:(?!(?:[/]|^)(?:\.{1,2})($|[/])).)*?") by (rewrite Ecf; unfold mk_cfg; cbn [fst c_path_gstar_dot1]; rewrite Hu; reflexivity).
  assert (Hg2 : c_path_gstar_dot2 cf = xprint xGstar) by (rewrite Ecf; unfold mk_cfg; cbn [fst c_path_gstar_dot2]; rewrite Hu; reflexivity).
  assert (Hmb : matchbase st = false) by (rewrite Est; exact Hm).
  assert (Hemb : extmatchbase st = false) by (rewrite Est; exact He).
  assert (Hds : dir_start st = false /\ inv_ext st = 0) by (rewrite Est; split; reflexivity).
  assert (Hgst : globstar st = true) by (rewrite Est; unfold mk_cfg; cbn [snd globstar]; rewrite Hp, Hgs; cbn; apply orb_true_r).
  assert (Hinl : in_list st = false) by (rewrite Est; reflexivity).
  unfold wcparse_cf. rewrite Hanchor, Hmb, Hemb. cbn [orb].
  rewrite (punUr_not_lone_bs units endg W).
  destruct (punUr_cons units endg Hne W) as [d [r [Er Hd47]]].
  remember (punUr units endg) as p eqn:Ep. rewrite Er. rewrite <- Er.
  unfold root. rewrite Hwd, Hpath, Hreal. cbn [andb negb].
  replace (starts_with [cSL] p) with false.
  2:{ rewrite Er. change (starts_with [cSL] (d :: r)) with (N.eqb 47 d && true).
      destruct (N.eqb_spec 47 d) as [X0|X0]; [exfalso; apply Hd47; symmetry; exact X0|reflexivity]. }
  rewrite andb_false_r. cbn [negb andb].
  assert (I2 : inv3 true (set_after_start st)) by (destruct Hds; repeat split; cbn; auto).
  pose proof (unit_loop_r cf) as UL. repeat match type of UL with (?A -> _) => specialize (UL ltac:(assumption)) end.
  destruct (UL (fuel_for p) (set_after_start st) 0 (T []) [] true endg) as [st' [cur' [Eq [J [Hd' Hi']]]]].
  { exact Hne. } { exact W. } { rewrite <- Ep. unfold fuel_for. lia. } { exact I2. } { exact Hgst. } { exact Hinl. } { reflexivity. }
  rewrite <- Ep in Eq. rewrite Eq.
  unfold clean_up_inverse. rewrite Hi'. cbn [Z.eqb]. rewrite Hcap, Hcs, Hsep.
  replace (format Frag.u_PATH_TRAIL (S_ "[/]") []) with (xprint xTrail) by reflexivity.
  rewrite !jrev_cons, J, EU_top. cbn [jrev rev map concat app].
  destruct (matchbase st' || extmatchbase st'); reflexivity.
Qed.


(* a pattern of the `**` fragment written with respelled separator runs (after segments and after `**`) and with repeated
   `**/` compiles to the very regex of its plain spelling *)
Theorem wcparse_pathG_runs flags isb units endg :
  (units <> [] \/ endg = true) -> Forall (fun u => uwf_r u = true) units ->
  has flags PATHNAME = true -> has flags GLOBSTAR = true -> has flags GLOBSTARLONG = false -> has flags DOTMATCH = false ->
  is_unix_style linux flags = true -> has flags EXTMATCH = false ->
  has flags NODOTDIR = false -> has flags REALPATH = false ->
  has flags u_ANCHOR = false -> has flags MATCHBASE = false -> has flags u_EXTMATCHBASE = false ->
  has flags u_TRANSLATE = false ->
  wcparse linux flags isb (punUr units endg) = wcparse linux flags isb (punU (map strip units) endg).
Proof.
  intros Hne W. intros. rewrite wcparse_pathG_runs_text by assumption. symmetry. apply wcparse_pathG; try assumption.
  - destruct Hne as [Hne|Hne]; [left; destruct units; [contradiction|discriminate]|right; exact Hne].
  - apply Forall_map. eapply Forall_impl; [|exact W]. intros [[fr ts] ru] Hu. exact Hu.
Qed.

Example globstar_runs_example :
  let u := [(Some ([true], [[]; [false; true]]), [TLit 97%N; TQ], (true, [false])); (None, [TLit 98%N], (false, [true]))] in
  wcparse linux (PATHNAME + GLOBSTAR) false (punUr u true) = wcparse linux (PATHNAME + GLOBSTAR) false (S_ "**/a?/b/**") /\
  punUr u true = S_ "**/\/**/**//\/a?\//b/\/**".
Proof. vm_compute. split; reflexivity. Qed.

(* both halves together: what the produced regex accepts is exactly [DenG] *)
Theorem C02_globstar_path_language flags isb units endg :
  (units <> [] \/ endg = true) -> Forall (fun u => uwf u = true) units ->
  has flags PATHNAME = true -> has flags GLOBSTAR = true -> has flags GLOBSTARLONG = false -> has flags DOTMATCH = false ->
  is_unix_style linux flags = true -> has flags EXTMATCH = false ->
  has flags NODOTDIR = false -> has flags REALPATH = false ->
  has flags u_ANCHOR = false -> has flags MATCHBASE = false -> has flags u_EXTMATCHBASE = false ->
  has flags u_TRANSLATE = false ->
  exists r,
    wcparse linux flags isb (punU units endg) =
      inl (S_ "^(?s" ++ (if get_case linux flags then [] else S_ "i") ++ S_ ":" ++ xprint r ++ S_ ")$") /\
    forall n, nonl n -> (Xb r true n [] <-> DenG false true (to_psegs units endg) n).
Proof.
  intros Hne W. intros. exists (emit_pathG false (to_psegs units endg)). split; [apply wcparse_pathG; assumption|].
  intros n Hn. apply pathG_equiv; [apply to_psegs_wf; exact W|exact Hn].
Qed.

(* non-vacuity: the text the model prints for `**/a?/b/**` (the same text CPython's wcmatch prints) *)
Example globstar_example_text :
  wcparse linux (PATHNAME + GLOBSTAR) false (punU [(true, [TLit 97%N; TQ]); (false, [TLit 98%N])] true) =
  inl (S_ "^(?s:(?:(?!(?:[/]|^)\.).)*?(?:^|$|[/])+a(?![/]).[/]+b(?=[/])(?:(?!(?:[/]|^)\.).)*?(?:^|$|[/])+[/]*?)$").
Proof. vm_compute. reflexivity. Qed.

Example globstar_example_hyps :
  has (PATHNAME + GLOBSTAR) PATHNAME = true /\ has (PATHNAME + GLOBSTAR) GLOBSTAR = true /\
  has (PATHNAME + GLOBSTAR) GLOBSTARLONG = false /\ has (PATHNAME + GLOBSTAR) DOTMATCH = false /\
  is_unix_style linux (PATHNAME + GLOBSTAR) = true /\ has (PATHNAME + GLOBSTAR) EXTMATCH = false /\
  has (PATHNAME + GLOBSTAR) NODOTDIR = false /\ has (PATHNAME + GLOBSTAR) REALPATH = false /\
  has (PATHNAME + GLOBSTAR) u_ANCHOR = false /\ has (PATHNAME + GLOBSTAR) MATCHBASE = false /\
  has (PATHNAME + GLOBSTAR) u_EXTMATCHBASE = false /\ has (PATHNAME + GLOBSTAR) u_TRANSLATE = false /\
  Forall (fun u => uwf u = true) [(true, [TLit 97%N; TQ]); (false, [TLit 98%N])].
Proof. vm_compute. repeat split; repeat constructor. Qed.

(* `**` crosses whole segments only: the segment that follows a `**` starts at the beginning of the name or right
   after a separator - `**/b` accepts `b`, `a/b`, `x/y/b`, never `ab` *)
Corollary globstar_whole_segments prev b ts rest n :
  psegwf (PSeg ts) = true -> nonl n ->
  DenG prev b (PGstar :: PSeg ts :: rest) n ->
  exists r d n', n = r ++ d ++ n' /\ slashes d /\ (d <> [] \/ (b = true /\ r = [])) /\
                 DenG true (b && is_nil r && is_nil d) (PSeg ts :: rest) n'.
Proof.
  intros W Hn H. cbn [DenG] in H. destruct H as [r [d [n' [E [_ [_ [Sd [Hc D]]]]]]]].
  exists r, d, n'. split; [exact E|]. split; [exact Sd|]. split; [|exact D].
  cbn [psegwf] in W. apply andb_true_iff in W. destruct W as [_ Wn]. assert (Hts : ts <> []) by (destruct ts; [discriminate|discriminate]).
  destruct D as [s [n'' [En' [_ [Ds _]]]]]. pose proof (DenSeg_nonempty false ts s Hts Ds) as Hs.
  destruct Hc as [Hc|[Hc|[Hc|Hc]]].
  - left. exact Hc.
  - right. apply andb_true_iff in Hc. destruct Hc as [Hb Hr]. split; [exact Hb|]. destruct r; [reflexivity|discriminate].
  - exfalso. subst n'. destruct s; [apply Hs; reflexivity|discriminate].
  - exfalso. apply Hn. subst n. rewrite Hc. apply in_or_app. right. apply in_or_app. right. left. reflexivity.
Qed.

Example globstar_not_partial : ~ DenG false true [PGstar; PSeg [TLit 98%N]] [97%N; 98%N].
Proof.
  intros H. apply globstar_whole_segments in H; [|reflexivity|intros [X0|[X0|[]]]; discriminate].
  destruct H as [r [d [n' [E [Sd [Hc D]]]]]]. cbn [DenG DenSeg] in D.
  destruct D as [s [n'' [En' [_ [[s' [Es Es']] Sn]]]]]. subst s' s n'. cbn [app] in E.
  destruct Hc as [Hc|[_ Hr]].
  - destruct r as [|x r']; cbn [app] in E.
    + destruct d as [|y d']; [apply Hc; reflexivity|]. cbn [app] in E. inversion E as [[Ey Et]]. assert (y = 47%N) by (apply Sd; left; reflexivity). subst y. discriminate.
    + inversion E as [[Ex Et]]. destruct r' as [|x2 r'']; cbn [app] in Et.
      * destruct d as [|y d']; [apply Hc; reflexivity|]. cbn [app] in Et. inversion Et as [[Ey Et2]]. assert (y = 47%N) by (apply Sd; left; reflexivity). subst y. discriminate.
      * inversion Et as [[Ex2 Et2]]. destruct r''; cbn in Et2; [destruct d; cbn in Et2; discriminate|discriminate].
  - subst r. cbn [app] in E. destruct d as [|y d']; cbn [app] in E; [discriminate|]. inversion E as [[Ey Et]]. assert (y = 47%N) by (apply Sd; left; reflexivity). subst y. discriminate.
Qed.

Example globstar_crosses_dirs : DenG false true [PGstar; PSeg [TLit 98%N]] [120%N; 47%N; 121%N; 47%N; 98%N].
Proof.
  cbn [DenG DenSeg]. exists [120%N; 47%N; 121%N], [47%N], [98%N]. split; [reflexivity|]. split; [discriminate|]. split.
  - cbn [gs_ok app]. repeat split; try (intros [y Hy]; discriminate); try (intros [_ Hx]; discriminate); intros [Hb _]; discriminate.
  - split; [intros x [<-|[]]; reflexivity|]. split; [left; discriminate|].
    exists [98%N], []. split; [reflexivity|]. split; [intros [X0|[]]; discriminate|]. split; [exists []; split; reflexivity|intros x []].
Qed.

(* C03 for `**`: without DOTMATCH the run matched by a `**` never steps onto a hidden segment: it contains no "/." that
   starts inside it, and it does not begin with "." at the very start of the name *)
Lemma gs_ok_no_hidden : forall r b rest u v,
  gs_ok b r rest -> r ++ rest = u ++ 47%N :: 46%N :: v -> (length u < length r)%nat -> False.
Proof.
  induction r as [|x r IH]; intros b rest u v G E L; [cbn in L; lia|].
  destruct G as [G1 [_ G3]]. destruct u as [|y u'].
  - apply G1. exists v. exact E.
  - cbn [app] in E. inversion E as [[Ex Et]]. apply (IH false rest u' v G3 Et). cbn [length] in L. lia.
Qed.

Corollary lone_globstar_no_hidden n :
  nonl n -> DenG false true [PGstar] n ->
  (forall y, n <> 46%N :: y) /\ (forall u v, n <> u ++ 47%N :: 46%N :: v).
Proof.
  intros Hn H. cbn [DenG] in H. destruct H as [r [d [n' [E [_ [G [Sd [_ Sn]]]]]]]].
  assert (Ss : slashes (d ++ n')) by (intros x Hx; apply in_app_or in Hx; destruct Hx as [Hx|Hx]; [apply Sd|apply Sn]; exact Hx).
  split.
  - intros y Ey. destruct r as [|x r'].
    + cbn [app] in E. rewrite E in Ey. assert (H46 : 46%N = 47%N) by (apply Ss; rewrite Ey; left; reflexivity). discriminate.
    + destruct G as [_ [G2 _]]. apply G2. split; [reflexivity|]. rewrite E in Ey. cbn [app] in Ey. inversion Ey. reflexivity.
  - intros u v Ev. rewrite E in Ev.
    destruct (Nat.lt_ge_cases (length u) (length r)) as [L|L].
    + exact (gs_ok_no_hidden r true (d ++ n') u v G Ev L).
    + (* the "." would lie in the separator-only tail *)
      assert (H46 : In 46%N (d ++ n')).
      { assert (Hsplit : exists w, u = r ++ w /\ d ++ n' = w ++ 47%N :: 46%N :: v).
        { clear - Ev L. revert u Ev L. induction r as [|x r IH]; intros u Ev L.
          - exists u. split; [reflexivity|exact Ev].
          - destruct u as [|y u']; [cbn in L; lia|]. cbn [app] in Ev. inversion Ev as [[Ex Et]]. cbn [length] in L.
            destruct (IH u' Et ltac:(lia)) as [w [Ew Hw]]. exists w. split; [cbn [app]; rewrite Ew; reflexivity|exact Hw]. }
        destruct Hsplit as [w [_ Hw]]. rewrite Hw. apply in_or_app. right. right. left. reflexivity. }
      apply Ss in H46. discriminate.
Qed.
