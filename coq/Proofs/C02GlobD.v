(* C02, `**` segments with DOTMATCH on or off: the development of C02Glob with the dot mode as a parameter.  Under DOTMATCH the
   `**` fragment is `(?:(?!(?:[/]|^)(?:\.{1,2})($|[/])).)*?`: the run never steps onto the start of a `.` or `..` segment. *)
From WC Require Import Str WcParse.
From WC.Gen Require Import Consts FlagFuns.
From WC.Proofs Require Import C01Flat C02Path C02Glob.
From Coq Require Import Lia.
Import Mwcparse.
Open Scope N_scope.

Definition xGuard1 : rx :=
  XNLook (XCat (XAlt (XSet [47]) XBol) (XCat (XGrp (XRep12 (XChr 46))) (XAltC XEol (XSet [47])))).   (* (?!(?:[/]|^)(?:\.{1,2})($|[/])) *)
Definition xGstar1 : rx := XLazy (XGrp (XCat xGuard1 XAny)).

Example xGstar1_text : xprint xGstar1 = S_ "(?:(?!(?:[/]|^)(?:\.{1,2})($|[/])).)*?".
Proof. reflexivity. Qed.

(* `.` or `..` as a whole segment: followed by the end (or a final line feed) or a separator *)
Definition eolish (y : str) : Prop := y = [] \/ y = [10] \/ exists z, y = 47 :: z.
Definition dotseg (w : str) : Prop := (exists y, w = 46 :: y /\ eolish y) \/ (exists y, w = 46 :: 46 :: y /\ eolish y).
(* ahead lies the start of a `.`/`..` segment *)
Definition dd_ahead (b : bool) (w : str) : Prop := (exists y, w = 47 :: y /\ dotseg y) \/ (b = true /\ dotseg w).

Lemma rep12_dot_b b s rest : Xb (XGrp (XRep12 (XChr 46))) b s rest <-> (s = [46] \/ s = [46; 46]).
Proof.
  cbn [Xb]. split.
  - intros [->|[s1 [s2 [-> [-> ->]]]]]; [left|right]; reflexivity.
  - intros [->| ->]; [left; reflexivity|right; exists [46], [46]; repeat split].
Qed.

Lemma altc_iff b s rest : Xb (XAltC XEol (XSet [47])) b s rest <-> (s = [] /\ (rest = [] \/ rest = [10])) \/ s = [47].
Proof.
  cbn [Xb]. split.
  - intros [H|[x [-> [Hx|[]]]]]; [left; exact H|right; subst; reflexivity].
  - intros [H| ->]; [left; exact H|right; exists 47; split; [reflexivity|left; reflexivity]].
Qed.

Lemma dotseg_iff b w : (exists s' t, w = s' ++ t /\ Xb (XCat (XGrp (XRep12 (XChr 46))) (XAltC XEol (XSet [47]))) b s' t) <-> dotseg w.
Proof.
  split.
  - intros [s' [t [-> H]]]. cbn [Xb] in H. destruct H as [d [e [-> [Hd He]]]].
    apply (rep12_dot_b b d (e ++ t)) in Hd. apply (altc_iff (b && is_nil d) e t) in He.
    destruct Hd as [->| ->]; destruct He as [[-> Ht]| ->]; cbn [app].
    + left. exists t. split; [reflexivity|]. destruct Ht as [->| ->]; [left; reflexivity|right; left; reflexivity].
    + left. exists (47 :: t). split; [reflexivity|]. right. right. exists t. reflexivity.
    + right. exists t. split; [reflexivity|]. destruct Ht as [->| ->]; [left; reflexivity|right; left; reflexivity].
    + right. exists (47 :: t). split; [reflexivity|]. right. right. exists t. reflexivity.
  - intros [[y [-> Hy]]|[y [-> Hy]]].
    + destruct Hy as [->|[->|[z ->]]].
      * exists [46], []. split; [reflexivity|]. cbn [Xb]. exists [46], []. split; [reflexivity|]. split; [left; reflexivity|left; split; [reflexivity|left; reflexivity]].
      * exists [46], [10]. split; [reflexivity|]. cbn [Xb]. exists [46], []. split; [reflexivity|]. split; [left; reflexivity|left; split; [reflexivity|right; reflexivity]].
      * exists [46; 47], z. split; [reflexivity|]. cbn [Xb]. exists [46], [47]. split; [reflexivity|]. split; [left; reflexivity|right; exists 47; split; [reflexivity|left; reflexivity]].
    + destruct Hy as [->|[->|[z ->]]].
      * exists [46; 46], []. split; [reflexivity|]. cbn [Xb]. exists [46; 46], []. split; [reflexivity|]. split; [right; exists [46], [46]; repeat split|left; split; [reflexivity|left; reflexivity]].
      * exists [46; 46], [10]. split; [reflexivity|]. cbn [Xb]. exists [46; 46], []. split; [reflexivity|]. split; [right; exists [46], [46]; repeat split|left; split; [reflexivity|right; reflexivity]].
      * exists [46; 46; 47], z. split; [reflexivity|]. cbn [Xb]. exists [46; 46], [47]. split; [reflexivity|]. split; [right; exists [46], [46]; repeat split|right; exists 47; split; [reflexivity|left; reflexivity]].
Qed.

Lemma guard1_iff b s rest : Xb xGuard1 b s rest <-> s = [] /\ ~ dd_ahead b rest.
Proof.
  unfold xGuard1. cbn [Xb]. split.
  - intros [-> H]. split; [reflexivity|]. intros [[y [-> Hy]]|[Hb Hw]].
    + apply H. apply (dotseg_iff false y) in Hy. destruct Hy as [s' [t [-> Hy]]].
      exists (47 :: s'), t. split; [reflexivity|]. exists [47], s'. split; [reflexivity|]. split.
      * left. exists 47. split; [reflexivity|left; reflexivity].
      * exact Hy.
    + subst b. apply (dotseg_iff true rest) in Hw. destruct Hw as [s' [t [-> Hy]]]. apply H.
      exists s', t. split; [reflexivity|]. exists [], s'. split; [reflexivity|]. split; [right; split; reflexivity|exact Hy].
  - intros [-> H]. split; [reflexivity|]. intros [s' [t [E [s1 [s2 [-> [[[x [-> [Hx|[]]]]|[-> Hb]] Hd]]]]]]].
    + subst x. apply H. left. exists (s2 ++ t). split; [exact E|].
      apply (dotseg_iff false). exists s2, t. split; [reflexivity|exact Hd].
    + apply H. right. split; [exact Hb|]. cbn [app] in E. subst rest. subst b.
      apply (dotseg_iff true). exists s2, t. split; [reflexivity|exact Hd].
Qed.

(* a `**` run under DOTMATCH: no position of it may be the start of a `.`/`..` segment *)
Fixpoint gs_ok1 (b : bool) (s rest : str) : Prop :=
  match s with
  | [] => True
  | x :: s' => ~ dd_ahead b (x :: s' ++ rest) /\ gs_ok1 false s' rest
  end.

Lemma gstar1_iff : forall s b rest, Xb xGstar1 b s rest <-> gs_ok1 b s rest.
Proof.
  unfold xGstar1. cbn [Xb]. intros s b rest. split.
  - intros H. induction H as [|b s1 s2 rest P _ IH]; [exact I|].
    cbn [Xb] in P. destruct P as [g [a [-> [G [x ->]]]]]. apply guard1_iff in G. destruct G as [-> G1].
    cbn [app is_nil andb] in *. rewrite andb_false_r in IH. split; [exact G1|exact IH].
  - revert b. induction s as [|x s IH]; intros b H; [constructor|].
    destruct H as [H1 H3]. change (x :: s) with ([x] ++ s). apply bstar_step.
    + cbn [Xb]. exists [], [x]. split; [reflexivity|]. split; [|exists x; reflexivity].
      apply guard1_iff. split; [reflexivity|exact H1].
    + cbn [is_nil]. rewrite andb_false_r. apply IH. exact H3.
Qed.

(* ---- the dot mode as a parameter ---- *)
Definition xGstarD (dot : bool) : rx := if dot then xGstar1 else xGstar.
Definition gs_okD (dot b : bool) (s rest : str) : Prop := if dot then gs_ok1 b s rest else gs_ok b s rest.
Lemma gstarD_iff dot s b rest : Xb (xGstarD dot) b s rest <-> gs_okD dot b s rest.
Proof. destruct dot; [apply gstar1_iff|apply gstar_iff]. Qed.

Fixpoint emit_pathGD (dot prev : bool) (segs : list pseg) : rx :=
  match segs with
  | [] => xTrail
  | PSeg ts :: rest =>
      XCat (emit_seg dot true ts)
           (match rest with
            | [] => xTrail
            | PSeg _ :: _ => XCat xSep (emit_pathGD dot true rest)
            | PGstar :: _ => emit_pathGD dot true rest
            end)
  | PGstar :: rest => XCat (if prev then xNeedSep else XEps) (XCat (xGstarD dot) (XCat xDiv (emit_pathGD dot true rest)))
  end.

Fixpoint DenGD (dot prev b : bool) (segs : list pseg) (n : str) : Prop :=
  match segs with
  | [] => slashes n
  | PSeg ts :: rest =>
      exists s n', n = s ++ n' /\ ~ In 47 s /\ DenSeg dot true ts s /\
        match rest with
        | [] => slashes n'
        | PSeg _ :: _ => exists sl n'', n' = sl ++ n'' /\ sl <> [] /\ slashes sl /\ DenGD dot true false rest n''
        | PGstar :: _ => DenGD dot true false rest n'
        end
  | PGstar :: rest =>
      exists r d n', n = r ++ d ++ n' /\ (prev = true -> exists y, n = 47 :: y) /\
                     gs_okD dot b r (d ++ n') /\ slashes d /\
                     (d <> [] \/ (b && is_nil r) = true \/ n' = [] \/ n' = [10]) /\
                     DenGD dot true (b && is_nil r && is_nil d) rest n'
  end.

Lemma segb_equivD dot ts b s rest :
  pwf ts = true -> seg_ok rest -> nonl (s ++ rest) ->
  (Xb (emit_seg dot true ts) b s rest <-> (~ In 47 s /\ DenSeg dot true ts s)).
Proof.
  intros W Ok Hn. rewrite (Xb_X _ (nobol_emit_seg dot ts true)). apply seg_equiv; assumption.
Qed.

Theorem pathGD_equiv dot : forall segs prev b n,
  Forall (fun p => psegwf p = true) segs -> nonl n ->
  (Xb (emit_pathGD dot prev segs) b n [] <-> DenGD dot prev b segs n).
Proof.
  induction segs as [|p segs IH]; intros prev b n W Hn.
  - cbn [emit_pathGD DenGD]. apply trail_iffb.
  - inversion W as [|? ? Wp Wrest]; subst. destruct p as [ts|].
    + (* an ordinary segment *)
      cbn [psegwf] in Wp. apply andb_true_iff in Wp. destruct Wp as [Wts Wne].
      assert (Hts : ts <> []) by (destruct ts; [discriminate|discriminate]).
      destruct segs as [|q segs'].
      * cbn [emit_pathGD DenGD Xb]. split.
        -- intros [s [t [-> [HS HT]]]]. apply trail_iffb in HT. rewrite app_nil_r in HS.
           apply segb_equivD in HS; [|exact Wts|apply slashes_seg_ok; exact HT|exact Hn]. destruct HS as [A B].
           exists s, t. repeat split; assumption.
        -- intros [s [t [-> [A [B HT]]]]]. exists s, t. split; [reflexivity|]. split.
           ++ rewrite app_nil_r. apply segb_equivD; [exact Wts|apply slashes_seg_ok; exact HT|exact Hn|]. split; assumption.
           ++ apply trail_iffb. exact HT.
      * destruct q as [ts2|].
        -- (* followed by a separator and another segment *)
           change (emit_pathGD dot prev (PSeg ts :: PSeg ts2 :: segs')) with
             (XCat (emit_seg dot true ts) (XCat xSep (emit_pathGD dot true (PSeg ts2 :: segs')))).
           change (DenGD dot prev b (PSeg ts :: PSeg ts2 :: segs') n) with
             (exists s n', n = s ++ n' /\ ~ In 47 s /\ DenSeg dot true ts s /\
                exists sl n'', n' = sl ++ n'' /\ sl <> [] /\ slashes sl /\ DenGD dot true false (PSeg ts2 :: segs') n'').
           split.
           ++ intros H. cbn [Xb] in H. destruct H as [s [s2 [-> [HS [sl [n' [-> [HSep HP]]]]]]]].
              rewrite app_nil_r in HS, HSep. apply sepb_iff in HSep. destruct HSep as [Hsl1 Hsl2].
              apply segb_equivD in HS; [|exact Wts|apply slashes_head; assumption|exact Hn]. destruct HS as [A B].
              assert (Hn' : nonl n') by (eapply nonl_tail; rewrite app_assoc in Hn; exact Hn).
              rewrite (is_nil_false s (DenSeg_nonempty _ _ _ Hts B)) in HP. rewrite andb_false_r in HP. cbn [andb] in HP.
              apply (IH true false n' Wrest Hn') in HP.
              exists s, (sl ++ n'). split; [reflexivity|]. split; [exact A|]. split; [exact B|]. exists sl, n'. repeat split; assumption.
           ++ intros [s [n0 [-> [A [B [sl [n' [-> [Hsl1 [Hsl2 HP]]]]]]]]]].
              assert (Hn' : nonl n') by (eapply nonl_tail; rewrite app_assoc in Hn; exact Hn).
              cbn [Xb]. exists s, (sl ++ n'). split; [reflexivity|]. split.
              ** rewrite app_nil_r. apply segb_equivD; [exact Wts|apply slashes_head; assumption|exact Hn|]. split; assumption.
              ** exists sl, n'. split; [reflexivity|]. split; [rewrite app_nil_r; apply sepb_iff; split; assumption|].
                 rewrite (is_nil_false s (DenSeg_nonempty _ _ _ Hts B)). rewrite andb_false_r. cbn [andb].
                 apply (IH true false n' Wrest Hn'). exact HP.
        -- (* followed directly by `**` *)
           change (emit_pathGD dot prev (PSeg ts :: PGstar :: segs')) with
             (XCat (emit_seg dot true ts) (emit_pathGD dot true (PGstar :: segs'))).
           change (DenGD dot prev b (PSeg ts :: PGstar :: segs') n) with
             (exists s n', n = s ++ n' /\ ~ In 47 s /\ DenSeg dot true ts s /\ DenGD dot true false (PGstar :: segs') n').
           split.
           ++ intros H. cbn [Xb] in H. destruct H as [s [n' [-> [HS HP]]]]. rewrite app_nil_r in HS.
              assert (Hn' : nonl n') by (eapply nonl_tail; exact Hn).
              (* the `**` part starts with the need-separator look-ahead: what follows the segment begins with `/` *)
              assert (Ok : seg_ok n').
              { cbn [emit_pathGD Xb] in HP. destruct HP as [s1 [s2 [E [HN _]]]]. apply needsep_iff in HN. destruct HN as [-> [y Ey]].
                cbn [app] in E. subst s2. rewrite app_nil_r in Ey. right. exists y. exact Ey. }
              apply segb_equivD in HS; [|exact Wts|exact Ok|exact Hn]. destruct HS as [A B].
              rewrite (is_nil_false s (DenSeg_nonempty _ _ _ Hts B)) in HP. rewrite andb_false_r in HP.
              apply (IH true false n' Wrest Hn') in HP.
              exists s, n'. repeat split; assumption.
           ++ intros [s [n' [-> [A [B HP]]]]].
              assert (Hn' : nonl n') by (eapply nonl_tail; exact Hn).
              assert (Ok : seg_ok n').
              { cbn [DenGD] in HP. destruct HP as [r [d [n'' [E [Hprev _]]]]]. destruct (Hprev eq_refl) as [y Ey]. right. exists y. exact Ey. }
              cbn [Xb]. exists s, n'. split; [reflexivity|]. split.
              ** rewrite app_nil_r. apply segb_equivD; [exact Wts|exact Ok|exact Hn|]. split; assumption.
              ** rewrite (is_nil_false s (DenSeg_nonempty _ _ _ Hts B)). rewrite andb_false_r.
                 apply (IH true false n' Wrest Hn'). exact HP.
    + (* `**` *)
      cbn [emit_pathGD DenGD]. split.
      * intros H. cbn [Xb] in H. destruct H as [s0 [s1 [-> [HP0 [r [s2 [-> [HG [d [n' [-> [HD HK]]]]]]]]]]]].
        assert (s0 = [] /\ (prev = true -> exists y, (r ++ d ++ n') ++ [] = 47 :: y)).
        { destruct prev.
          - apply needsep_iff in HP0. destruct HP0 as [-> HY]. split; [reflexivity|intros _; exact HY].
          - cbn [Xb] in HP0. subst s0. split; [reflexivity|discriminate]. }
        destruct H as [-> Hprev]. cbn [app is_nil] in *. rewrite andb_true_r in HG, HD.
        rewrite app_nil_r in HG, HD, Hprev.
        apply gstarD_iff in HG. apply div_iff in HD. destruct HD as [HD1 HD2].
        assert (Hn' : nonl n').
        { intros X0. apply Hn. apply in_or_app. right. apply in_or_app. right. exact X0. }
        apply (IH true _ n' Wrest Hn') in HK.
        exists r, d, n'. split; [reflexivity|]. split; [exact Hprev|]. split; [exact HG|]. split; [exact HD1|].
        rewrite andb_true_r in HK. split; [exact HD2|exact HK].
      * intros [r [d [n' [-> [Hprev [HG [HD1 [HD2 HK]]]]]]]].
        assert (Hn' : nonl n').
        { intros X0. apply Hn. apply in_or_app. right. apply in_or_app. right. exact X0. }
        cbn [Xb]. exists [], (r ++ d ++ n'). split; [reflexivity|]. split.
        -- destruct prev.
           ++ apply needsep_iff. split; [reflexivity|]. rewrite app_nil_r. apply Hprev. reflexivity.
           ++ cbn [Xb]. reflexivity.
        -- cbn [is_nil]. rewrite andb_true_r. exists r, (d ++ n'). split; [reflexivity|]. split.
           ++ apply gstarD_iff. rewrite app_nil_r. exact HG.
           ++ exists d, n'. split; [reflexivity|]. split.
              ** apply div_iff. split; [exact HD1|]. rewrite app_nil_r. exact HD2.
              ** apply (IH true _ n' Wrest Hn'). exact HK.
Qed.


(* ==== (1) text: the parser model prints exactly [emit_pathG] ==== *)
From WC.Proofs Require Import C09Parse.
Open Scope Z_scope.

Lemma str_eqb_refl : forall s : str, str_eqb s s = true.
Proof. induction s as [|c s IH]; [reflexivity|]. cbn. rewrite N.eqb_refl, IH. reflexivity. Qed.

Section GlobTextD.
  Variable cf : cfg.
  Variable dot : bool.
  Hypothesis Hpath : c_pathname cf = true.
  Hypothesis Hext : c_extend cf = false.
  Hypothesis Habort : c_bslash_abort cf = false.
  Hypothesis Hunix : c_unix cf = true.
  Hypothesis Hnodotdir : c_nodotdir cf = false.
  Hypothesis Hdot : c_dot cf = dot.
  Hypothesis Hglong : c_globstarlong cf = false.
  Hypothesis Hsep : c_sep cf = S_ "[/]".
  Hypothesis Hneed : c_need_char cf = xprint xNeedChar.
  Hypothesis Hnodir : c_no_dir cf = xprint xNoDir.
  Hypothesis Hseq : c_seq_path cf = xprint xNoSlash.
  Hypothesis Hseqdot : c_seq_path_dot cf = xprint xNoSlashDot.
  Hypothesis Hstar : c_path_star cf = xprint xPathStar.
  Hypothesis Hstar1 : c_path_star_dot1 cf = xprint xNoDir ++ xprint xPathStar.
  Hypothesis Hstar2 : c_path_star_dot2 cf = xprint xNoDir ++ xprint xStarNoDot.
  Hypothesis Hg1 : c_path_gstar_dot1 cf = xprint xGstar1.
  Hypothesis Hg2 : c_path_gstar_dot2 cf = xprint xGstar.
  Hypothesis Hgcap : c_gcapture cf = false.

  Definition gmode (st : pst) : Prop := after_start st = true /\ globstar st = true /\ in_list st = false.

  (* `**` followed by `/` (the separator is consumed), called with the iterator after the first `*` *)
  Lemma handle_gstar_sep st i r last cur :
    gmode st -> nosep_head (r) = true ->
    str_eqb (itext last) (xprint xDiv) = false ->
    handle_star cf st {| idx := i; rest := 42%N :: 47%N :: r |} (last :: cur) =
    (set_start_dir (reset_dir_track (set_matchbase st false)), {| idx := i + 1 + 1; rest := r |},
     T (xprint xDiv) :: (if str_eqb (itext last) [] then T (xprint (xGstarD dot)) :: cur
                         else T (xprint (xGstarD dot)) :: T (xprint xNeedSep) :: cur)).
  Proof.
    intros [Ha [Hg Hi]] Hr Hl. unfold handle_star.
    rewrite Hpath, Ha, Hg, Hi, Hdot, Hglong, Hgcap, Hg1, Hg2, Hneed, Hstar1, Hstar2, Hsep.
    destruct dot; cbn [andb negb next rest idx xGstarD];
      change (N.eqb 42%N cSTAR) with true; cbv iota; cbn [next rest idx];
      change (N.eqb 47%N cBS) with false; change (N.eqb 47%N cSL) with true; cbv iota;
      rewrite !str_eqb_refl; cbn [negb andb]; rewrite ?str_eqb_refl;
      replace (format Frag.u_GLOBSTAR_DIV (S_ "[/]") []) with (xprint xDiv) by reflexivity;
      replace (format Frag.u_NEED_SEP (S_ "[/]") []) with (xprint xNeedSep) by reflexivity;
      rewrite Hl; cbn [negb];
      unfold consume_path_sep; rewrite Habort; cbn [rest idx]; rewrite (skip_slashes_noslash r _ Hr);
      destruct (str_eqb (itext last) []); reflexivity.
  Qed.

  (* `**` at the very end of the pattern *)
  Lemma handle_gstar_end st i last cur :
    gmode st -> str_eqb (itext last) (xprint xDiv) = false ->
    handle_star cf st {| idx := i; rest := [42%N] |} (last :: cur) =
    (set_start_dir (reset_dir_track st), {| idx := i + 1; rest := [] |},
     T (xprint xDiv) :: (if str_eqb (itext last) [] then T (xprint (xGstarD dot)) :: cur
                         else T (xprint (xGstarD dot)) :: T (xprint xNeedSep) :: cur)).
  Proof.
    intros [Ha [Hg Hi]] Hl. unfold handle_star.
    rewrite Hpath, Ha, Hg, Hi, Hdot, Hglong, Hgcap, Hg1, Hg2, Hneed, Hstar1, Hstar2, Hsep.
    destruct dot; cbn [andb negb next rest idx xGstarD];
      change (N.eqb 42%N cSTAR) with true; cbv iota; cbn [next rest idx];
      rewrite !str_eqb_refl; cbn [negb andb]; rewrite ?str_eqb_refl;
      replace (format Frag.u_GLOBSTAR_DIV (S_ "[/]") []) with (xprint xDiv) by reflexivity;
      replace (format Frag.u_NEED_SEP (S_ "[/]") []) with (xprint xNeedSep) by reflexivity;
      rewrite Hl; cbn [negb];
      unfold consume_path_sep; rewrite Habort; cbn [rest idx skip_slashes];
      destruct (str_eqb (itext last) []); reflexivity.
  Qed.

  Definition gcur (last : item) (cur : list item) : list item :=
    T (xprint xDiv) :: (if str_eqb (itext last) [] then T (xprint (xGstarD dot)) :: cur else T (xprint (xGstarD dot)) :: T (xprint xNeedSep) :: cur).

  Lemma pstep_gstar_sep f st i r last cur :
    gmode st -> nosep_head (r) = true ->
    str_eqb (itext last) (xprint xDiv) = false ->
    root_loop (S f) cf st {| idx := i; rest := 42%N :: 42%N :: 47%N :: r |} (last :: cur) =
    root_loop f cf (update_dir_state (set_start_dir (reset_dir_track (set_matchbase st false))))
              {| idx := i + 1 + 1 + 1; rest := r |} (gcur last cur).
  Proof.
    intros G Hr Hl. cbn [root_loop next rest idx]. rewrite Hext. cbn [andb].
    change (N.eqb 42%N cDOT) with false. change (N.eqb 42%N cSTAR) with true. cbv iota.
    rewrite (handle_gstar_sep st (i + 1) r last cur G Hr Hl). reflexivity.
  Qed.

  Lemma pstep_gstar_end f st i last cur :
    gmode st -> str_eqb (itext last) (xprint xDiv) = false ->
    root_loop (S f) cf st {| idx := i; rest := [42%N; 42%N] |} (last :: cur) =
    root_loop f cf (update_dir_state (set_start_dir (reset_dir_track st))) {| idx := i + 1 + 1; rest := [] |} (gcur last cur).
  Proof.
    intros G Hl. cbn [root_loop next rest idx]. rewrite Hext. cbn [andb].
    change (N.eqb 42%N cDOT) with false. change (N.eqb 42%N cSTAR) with true. cbv iota.
    rewrite (handle_gstar_end st (i + 1) last cur G Hl). reflexivity.
  Qed.

  (* ---- patterns as units: an optional `**/` in front of each ordinary segment, an optional `/**` at the end ---- *)
  Definition unit_ := (bool * list tok)%type.

  Fixpoint punU (units : list unit_) (endg : bool) : str :=
    match units with
    | [] => if endg then [42%N; 42%N] else []
    | (g, ts) :: more =>
        (if g then [42%N; 42%N; 47%N] else []) ++ unparse ts ++
        (match more with
         | [] => if endg then 47%N :: punU more endg else []
         | _ :: _ => 47%N :: punU more endg
         end)
    end.

  Fixpoint EU (atstart : bool) (units : list unit_) (endg : bool) : rx :=
    match units with
    | [] => if endg then XCat (if atstart then XEps else xNeedSep) (XCat (xGstarD dot) (XCat xDiv xTrail)) else xTrail
    | (g, ts) :: more =>
        XCat (if g then XCat (if atstart then XEps else xNeedSep) (XCat (xGstarD dot) xDiv) else (if atstart then XEps else xSep))
             (XCat (emit_seg dot true ts) (EU false more endg))
    end.

  Definition uwf (u : unit_) : bool := seg_wf (snd u).

  Lemma punU_head units endg : (units <> [] \/ endg = true) -> Forall (fun u => uwf u = true) units ->
    nosep_head (punU units endg) = true.
  Proof.
    intros Hne W. destruct units as [|[g ts] more].
    - destruct Hne as [Hne|Hne]; [contradiction|]. subst endg. reflexivity.
    - inversion W as [|? ? Wu _]; subst. destruct g; [reflexivity|].
      unfold uwf, seg_wf in Wu. cbn [snd] in Wu. apply andb_true_iff in Wu. destruct Wu as [Wp Wn].
      destruct ts as [|t ts']; [discriminate|]. cbn [punU app].
      apply punparse_head; [exact Wp|]. destruct more; [destruct endg|]; reflexivity.
  Qed.

  Lemma inv3_after_gstar st : inv3 true st ->
    inv3 true (update_dir_state (set_start_dir (reset_dir_track (set_matchbase st false)))).
  Proof. intros [A [B D]]. unfold update_dir_state. cbn. repeat split; assumption. Qed.
  Lemma inv3_after_gstar_end st : inv3 true st -> inv3 true (update_dir_state (set_start_dir (reset_dir_track st))).
  Proof. intros [A [B D]]. unfold update_dir_state. cbn. repeat split; assumption. Qed.

  Lemma sep_not_div : str_eqb (xprint xSep) (xprint xDiv) = false. Proof. reflexivity. Qed.
  Lemma nil_not_div : str_eqb [] (xprint xDiv) = false. Proof. reflexivity. Qed.
  Lemma sep_not_nil : str_eqb (xprint xSep) [] = false. Proof. reflexivity. Qed.

  Lemma gcur_jrev (last : item) (cur0 : list item) (atstart : bool) :
    itext last = (if atstart then [] else xprint xSep) ->
    jrev (gcur last cur0) = jrev cur0 ++ xprint (XCat (if atstart then XEps else xNeedSep) (XCat (xGstarD dot) xDiv)).
  Proof.
    intros Hl. unfold gcur. rewrite Hl. destruct atstart.
    - cbn [str_eqb]. rewrite !jrev_cons. cbn [xprint app]. rewrite <- app_assoc. reflexivity.
    - rewrite sep_not_nil. rewrite !jrev_cons. cbn [xprint]. rewrite <- !app_assoc. reflexivity.
  Qed.

  Lemma last_not_div (last : item) (atstart : bool) : itext last = (if atstart then [] else xprint xSep) ->
    str_eqb (itext last) (xprint xDiv) = false.
  Proof. intros ->. destruct atstart; reflexivity. Qed.

  Lemma unit_loop : forall (units : list unit_) fuel st i (last : item) cur0 (atstart : bool) endg,
    (units <> [] \/ endg = true) -> Forall (fun u => uwf u = true) units ->
    (length (punU units endg) < fuel)%nat -> inv3 true st -> globstar st = true -> in_list st = false ->
    itext last = (if atstart then [] else xprint xSep) ->
    exists st' cur', root_loop fuel cf st {| idx := i; rest := punU units endg |} (last :: cur0) = Ok (st', cur') /\
                     jrev cur' ++ xprint xTrail = jrev cur0 ++ xprint (EU atstart units endg) /\ inv st'.
  Proof.
    pose proof (seg_advance cf) as SA. repeat match type of SA with (?A -> _) => specialize (SA ltac:(assumption)) end.
    pose proof (pstep_sep cf) as PS. repeat match type of PS with (?A -> _) => specialize (PS ltac:(assumption)) end.
    induction units as [|[g ts] more IH]; intros fuel st i last cur0 atstart endg Hne W Hf I2 Hgs Hil Hl.
    - destruct Hne as [Hne|Hne]; [contradiction|]. subst endg. cbn [punU] in *. cbn [length] in Hf.
      destruct fuel as [|f]; [lia|].
      assert (G : gmode st) by (destruct I2 as [_ [_ Ha]]; repeat split; assumption).
      rewrite (pstep_gstar_end f st i last cur0 G (last_not_div _ _ Hl)).
      destruct f as [|f']; [lia|].
      eexists. eexists. split; [reflexivity|]. split.
      + rewrite (gcur_jrev last cur0 atstart Hl). cbn [EU xprint]. rewrite <- !app_assoc. reflexivity.
      + eapply inv3_inv. apply inv3_after_gstar_end. exact I2.
    - inversion W as [|? ? Wu Wmore]; subst.
      pose proof Wu as Wu'. unfold uwf, seg_wf in Wu'. cbn [snd] in Wu'. apply andb_true_iff in Wu'. destruct Wu' as [Wp Wn].
      assert (Hts : exists t ts', ts = t :: ts') by (destruct ts as [|t ts']; [discriminate|eauto]).
      set (tail := match more with
                   | [] => if endg then 47%N :: punU more endg else []
                   | _ :: _ => 47%N :: punU more endg
                   end) in *.
      assert (Htail : tail_ok tail = true) by (unfold tail; destruct more; [destruct endg|]; reflexivity).
      assert (Tcases : (more = [] /\ endg = false /\ tail = []) \/ ((more <> [] \/ endg = true) /\ tail = 47%N :: punU more endg)).
      { unfold tail. destruct more as [|u more'].
        - destruct endg; [right; split; [right; reflexivity|reflexivity]|left; repeat split].
        - right. split; [left; discriminate|reflexivity]. }
      (* the optional `**/` in front *)
      assert (Pre : exists f1 st1 i1 cur1,
                 (fuel - (if g then 1 else 0) <= f1)%nat /\ (f1 <= fuel)%nat /\
                 root_loop fuel cf st {| idx := i; rest := punU ((g, ts) :: more) endg |} (last :: cur0) =
                 root_loop f1 cf st1 {| idx := i1; rest := unparse ts ++ tail |} cur1 /\
                 jrev cur1 = jrev cur0 ++ xprint (if g then XCat (if atstart then XEps else xNeedSep) (XCat (xGstarD dot) xDiv)
                                                  else (if atstart then XEps else xSep)) /\
                 inv3 true st1 /\ globstar st1 = true /\ in_list st1 = false).
      { destruct g.
        - cbn [punU app]. fold tail. destruct fuel as [|f]; [cbn [punU app length] in Hf; lia|].
          assert (G : gmode st) by (destruct I2 as [_ [_ Ha]]; repeat split; assumption).
          destruct Hts as [t [ts' ->]].
          rewrite (pstep_gstar_sep f st i (unparse (t :: ts') ++ tail) last cur0 G (punparse_head t ts' tail Wp Htail) (last_not_div _ _ Hl)).
          eexists f, _, _, _. split; [lia|]. split; [lia|]. split; [reflexivity|]. split; [apply gcur_jrev; exact Hl|].
          split; [apply inv3_after_gstar; exact I2|]. split; [exact Hgs|exact Hil].
        - cbn [punU app]. fold tail. exists fuel, st, i, (last :: cur0). split; [lia|]. split; [lia|]. split; [reflexivity|].
          split.
          + destruct last as [x|x]; cbn [itext] in Hl; subst x; unfold jrev; cbn [rev map]; rewrite map_app, concat_app; cbn [map concat itext];
              rewrite app_nil_r; destruct atstart; reflexivity.
          + split; [exact I2|]. split; [exact Hgs|exact Hil]. }
      destruct Pre as [f1 [st1 [i1 [cur1 [Hf1 [Hf1' [E1 [J1 [I1 [G1 L1]]]]]]]]]].
      assert (Hlen : ((if g then 3 else 0) + length (unparse ts) + length tail < fuel)%nat).
      { clear - Hf. cbn [punU] in Hf. fold tail in Hf. rewrite !app_length in Hf. destruct g; cbn [length] in Hf; cbv delta [ch str] in *; lia. }
      assert (Hb : (length (unparse ts) <= f1)%nat).
      { clear - Hlen Hf1. cbv delta [ch str] in *. destruct g; cbv iota in *; lia. }
      destruct (SA ts f1 st1 i1 cur1 true tail Wp Htail Hb I1)
        as [f' [st' [i' [cur' [Hf' [E [J [K SM]]]]]]]].
      rewrite Hdot in J.
      destruct Tcases as [[Hm [He Ht]]|[Hne2 Ht]].
      + (* the pattern ends here *)
        rewrite Ht in Hlen. cbn [length] in Hlen. cbv delta [ch str] in *.
        destruct f' as [|f'']; [destruct g; cbv iota in *; lia|].
        exists st', cur'. split; [eapply eq_trans; [exact E1|]; eapply eq_trans; [exact E|]; rewrite Ht; reflexivity|]. split.
        * rewrite J, J1. subst more endg. cbn [EU xprint]. rewrite <- !app_assoc. reflexivity.
        * eapply inv3_inv. exact K.
      + rewrite Ht in Hlen. cbn [length] in Hlen. cbv delta [ch str] in *.
        destruct f' as [|f'']; [destruct g; cbv iota in *; lia|].
        destruct SM as [SMg SMi].
        destruct (IH f'' (update_dir_state (set_matchbase (set_start_dir st') false)) (i' + 1) (T (xprint xSep)) cur' false endg)
          as [st'' [cur'' [E2 [J2 K2]]]].
        { exact Hne2. } { exact Wmore. } { destruct g; cbv iota in *; lia. } { eapply inv3_after_sep. exact K. }
        { destruct (same_mode_upd (set_matchbase (set_start_dir st') false)) as [X1 _]. rewrite X1. cbn. congruence. }
        { destruct (same_mode_upd (set_matchbase (set_start_dir st') false)) as [_ X2]. rewrite X2. cbn. congruence. }
        { reflexivity. }
        exists st'', cur''. split; [|split; [|exact K2]].
        * eapply eq_trans; [exact E1|]. eapply eq_trans; [exact E|]. rewrite Ht.
          rewrite PS; [exact E2|apply K|apply punU_head; assumption].
        * rewrite J2, J, J1. cbn [EU xprint]. rewrite <- !app_assoc. reflexivity.
  Qed.
End GlobTextD.

(* ---- units <-> segment lists ---- *)
Fixpoint to_psegs (units : list unit_) (endg : bool) : list pseg :=
  match units with
  | [] => if endg then [PGstar] else []
  | (g, ts) :: more => (if g then [PGstar] else []) ++ PSeg ts :: to_psegs more endg
  end.

Lemma EU_after dot endg : forall more ts0 p,
  xprint (emit_pathGD dot p (PSeg ts0 :: to_psegs more endg)) = xprint (emit_seg dot true ts0) ++ xprint (EU dot false more endg).
Proof.
  induction more as [|[g ts] more IH]; intros ts0 p.
  - destruct endg; reflexivity.
  - destruct g.
    + change (to_psegs ((true, ts) :: more) endg) with (PGstar :: PSeg ts :: to_psegs more endg).
      change (emit_pathGD dot p (PSeg ts0 :: PGstar :: PSeg ts :: to_psegs more endg)) with
        (XCat (emit_seg dot true ts0) (XCat xNeedSep (XCat (xGstarD dot) (XCat xDiv (emit_pathGD dot true (PSeg ts :: to_psegs more endg)))))).
      cbn [xprint EU]. rewrite (IH ts true). rewrite <- ?app_assoc. reflexivity.
    + change (to_psegs ((false, ts) :: more) endg) with (PSeg ts :: to_psegs more endg).
      change (emit_pathGD dot p (PSeg ts0 :: PSeg ts :: to_psegs more endg)) with
        (XCat (emit_seg dot true ts0) (XCat xSep (emit_pathGD dot true (PSeg ts :: to_psegs more endg)))).
      cbn [xprint EU]. rewrite (IH ts true). rewrite <- ?app_assoc. reflexivity.
Qed.

Lemma EU_top dot units endg : xprint (EU dot true units endg) = xprint (emit_pathGD dot false (to_psegs units endg)).
Proof.
  destruct units as [|[g ts] more].
  - destruct endg; reflexivity.
  - destruct g.
    + change (to_psegs ((true, ts) :: more) endg) with (PGstar :: PSeg ts :: to_psegs more endg).
      change (emit_pathGD dot false (PGstar :: PSeg ts :: to_psegs more endg)) with
        (XCat XEps (XCat (xGstarD dot) (XCat xDiv (emit_pathGD dot true (PSeg ts :: to_psegs more endg))))).
      cbn [xprint EU]. rewrite (EU_after dot endg more ts true). rewrite <- ?app_assoc. reflexivity.
    + change (to_psegs ((false, ts) :: more) endg) with (PSeg ts :: to_psegs more endg).
      rewrite (EU_after dot endg more ts false). cbn [xprint EU app]. reflexivity.
Qed.

Lemma to_psegs_wf units endg : Forall (fun u => uwf u = true) units -> Forall (fun p => psegwf p = true) (to_psegs units endg).
Proof.
  induction units as [|[g ts] more IH]; intros W.
  - destruct endg; repeat constructor.
  - inversion W as [|? ? Wu Wm]; subst. cbn [to_psegs]. destruct g; cbn [app]; repeat constructor; try exact Wu; apply IH; exact Wm.
Qed.

Lemma punU_cons units endg : (units <> [] \/ endg = true) -> Forall (fun u => uwf u = true) units ->
  exists d r, punU units endg = d :: r /\ d <> 47%N.
Proof.
  intros Hne W. pose proof (punU_head units endg Hne W) as H.
  destruct (punU units endg) as [|d r] eqn:E.
  - exfalso. destruct units as [|[g ts] more].
    + destruct Hne as [Hne|Hne]; [contradiction|]. subst. discriminate.
    + inversion W as [|? ? Wu _]; subst. unfold uwf, seg_wf in Wu. cbn [snd] in Wu. apply andb_true_iff in Wu. destruct Wu as [_ Wn].
      destruct g; [discriminate|]. destruct ts as [|t ts']; [discriminate|]. destruct t; cbn in E; discriminate.
  - exists d, r. split; [reflexivity|]. unfold nosep_head in H. apply andb_true_iff in H. destruct H as [H _].
    apply negb_true_iff in H. apply N.eqb_neq in H. exact H.
Qed.

Lemma punU_not_lone_bs units endg : Forall (fun u => uwf u = true) units -> str_eqb (punU units endg) [cBS] = false.
Proof.
  intros W. destruct (str_eqb (punU units endg) [cBS]) eqn:E; [|reflexivity]. exfalso. apply str_eqb_true in E.
  destruct units as [|[g ts] more].
  - destruct endg; discriminate.
  - destruct g; [discriminate|]. inversion W as [|? ? Wu _]; subst. unfold uwf in Wu. cbn [snd] in Wu.
    cbn [punU app] in E.
    destruct (match more with [] => if endg then 47%N :: punU more endg else [] | _ :: _ => 47%N :: punU more endg end) as [|c tl] eqn:Et.
    + rewrite app_nil_r in E. pose proof (punparse_not_lone_bs [ts] (Forall_cons _ Wu (Forall_nil _))) as Q.
      cbn [punparse] in Q. rewrite E in Q. discriminate.
    + apply andb_true_iff in Wu. destruct Wu as [_ Wn]. destruct ts as [|t ts']; [discriminate|].
      pose proof (unparse_len_pos t ts') as L. apply (f_equal (@length N)) in E. rewrite app_length in E. cbn [length] in E.
      cbv delta [ch str] in *. lia.
Qed.

(* (1) text: the parser prints exactly [emit_pathG] for a pattern with `**` segments (GLOBSTAR, no DOTMATCH) *)
Theorem wcparse_pathGD flags isb units endg :
  (units <> [] \/ endg = true) -> Forall (fun u => uwf u = true) units ->
  has flags PATHNAME = true -> has flags GLOBSTAR = true -> has flags GLOBSTARLONG = false ->
  is_unix_style linux flags = true -> has flags EXTMATCH = false ->
  has flags NODOTDIR = false -> has flags REALPATH = false ->
  has flags u_ANCHOR = false -> has flags MATCHBASE = false -> has flags u_EXTMATCHBASE = false ->
  has flags u_TRANSLATE = false ->
  wcparse linux flags isb (punU units endg) =
  inl (S_ "^(?s" ++ (if get_case linux flags then [] else S_ "i") ++ S_ ":" ++
       xprint (emit_pathGD (has flags DOTMATCH) false (to_psegs units endg)) ++ S_ ")$").
Proof.
  intros Hne W Hp Hgs Hgl Hu Hx Hnd Hr Ha Hm He Ht. unfold wcparse.
  destruct (mk_cfg linux flags isb) as [cf st] eqn:E.
  assert (Ecf : cf = fst (mk_cfg linux flags isb)) by (rewrite E; reflexivity).
  assert (Est : st = snd (mk_cfg linux flags isb)) by (rewrite E; reflexivity).
  assert (Hpath : c_pathname cf = true) by (rewrite Ecf; exact Hp).
  assert (Hunix : c_unix cf = true) by (rewrite Ecf; exact Hu).
  assert (Hext : c_extend cf = false) by (rewrite Ecf; exact Hx).
  assert (Hnodot : c_nodotdir cf = false) by (rewrite Ecf; exact Hnd).
  assert (Hdot : c_dot cf = has flags DOTMATCH) by (rewrite Ecf; reflexivity).
  assert (Hglong : c_globstarlong cf = false) by (rewrite Ecf; unfold mk_cfg; cbn [fst c_globstarlong]; rewrite Hgl; apply andb_false_r).
  assert (Habort : c_bslash_abort cf = false) by (rewrite Ecf; unfold mk_cfg; cbn [fst c_bslash_abort]; rewrite Hu; reflexivity).
  assert (Hwd : c_windrive cf = false) by (rewrite Ecf; unfold mk_cfg; cbn [fst c_windrive]; rewrite Hu; reflexivity).
  assert (Hanchor : c_anchor cf = false) by (rewrite Ecf; exact Ha).
  assert (Hcap : c_capture cf = false) by (rewrite Ecf; exact Ht).
  assert (Hreal : c_realpath cf = false) by (rewrite Ecf; unfold mk_cfg; cbn [fst c_realpath]; rewrite Hr; reflexivity).
  assert (Hgcap : c_gcapture cf = false) by (rewrite Ecf; unfold mk_cfg; cbn [fst c_gcapture]; rewrite Hr; reflexivity).
  assert (Hcs : c_cs cf = get_case linux flags) by (rewrite Ecf; reflexivity).
  assert (Hsep : c_sep cf = S_ "[/]") by (rewrite Ecf; unfold mk_cfg; cbn [fst c_sep]; rewrite Hu; reflexivity).
  assert (Hneed : c_need_char cf = xprint xNeedChar) by (rewrite Ecf; unfold mk_cfg; cbn [fst c_need_char]; rewrite Hp, Hu; reflexivity).
  assert (Hnodir : c_no_dir cf = xprint xNoDir) by (rewrite Ecf; unfold mk_cfg; cbn [fst c_no_dir]; rewrite Hu; reflexivity).
  assert (Hseq : c_seq_path cf = xprint xNoSlash) by (rewrite Ecf; unfold mk_cfg; cbn [fst c_seq_path]; rewrite Hu; reflexivity).
  assert (Hseqdot : c_seq_path_dot cf = xprint xNoSlashDot) by (rewrite Ecf; unfold mk_cfg; cbn [fst c_seq_path_dot]; rewrite Hu; reflexivity).
  assert (Hstar : c_path_star cf = xprint xPathStar) by (rewrite Ecf; unfold mk_cfg; cbn [fst c_path_star]; rewrite Hu; reflexivity).
  assert (Hstar1 : c_path_star_dot1 cf = xprint xNoDir ++ xprint xPathStar) by (rewrite Ecf; unfold mk_cfg; cbn [fst c_path_star_dot1]; rewrite Hu; reflexivity).
  assert (Hstar2 : c_path_star_dot2 cf = xprint xNoDir ++ xprint xStarNoDot) by (rewrite Ecf; unfold mk_cfg; cbn [fst c_path_star_dot2]; rewrite Hu; reflexivity).
  assert (Hg1 : c_path_gstar_dot1 cf = xprint xGstar1) by (rewrite Ecf; unfold mk_cfg; cbn [fst c_path_gstar_dot1]; rewrite Hu; reflexivity).
  assert (Hg2 : c_path_gstar_dot2 cf = xprint xGstar) by (rewrite Ecf; unfold mk_cfg; cbn [fst c_path_gstar_dot2]; rewrite Hu; reflexivity).
  assert (Hmb : matchbase st = false) by (rewrite Est; exact Hm).
  assert (Hemb : extmatchbase st = false) by (rewrite Est; exact He).
  assert (Hds : dir_start st = false /\ inv_ext st = 0) by (rewrite Est; split; reflexivity).
  assert (Hgst : globstar st = true) by (rewrite Est; unfold mk_cfg; cbn [snd globstar]; rewrite Hp, Hgs; cbn; apply orb_true_r).
  assert (Hinl : in_list st = false) by (rewrite Est; reflexivity).
  unfold wcparse_cf. rewrite Hanchor, Hmb, Hemb. cbn [orb].
  rewrite (punU_not_lone_bs units endg W).
  destruct (punU_cons units endg Hne W) as [d [r [Er Hd47]]].
  remember (punU units endg) as p eqn:Ep. rewrite Er. rewrite <- Er.
  unfold root. rewrite Hwd, Hpath, Hreal. cbn [andb negb].
  replace (starts_with [cSL] p) with false.
  2:{ rewrite Er. change (starts_with [cSL] (d :: r)) with (N.eqb 47 d && true).
      destruct (N.eqb_spec 47 d) as [X0|X0]; [exfalso; apply Hd47; symmetry; exact X0|reflexivity]. }
  rewrite andb_false_r. cbn [negb andb].
  assert (I2 : inv3 true (set_after_start st)) by (destruct Hds; repeat split; cbn; auto).
  pose proof (unit_loop cf (has flags DOTMATCH)) as UL. repeat match type of UL with ((_ = _) -> _) => specialize (UL ltac:(assumption)) end.
  destruct (UL units (fuel_for p) (set_after_start st) 0 (T []) [] true endg) as [st' [cur' [Eq [J [Hd' Hi']]]]].
  { exact Hne. } { exact W. } { rewrite <- Ep. unfold fuel_for. lia. } { exact I2. } { exact Hgst. } { exact Hinl. } { reflexivity. }
  rewrite <- Ep in Eq. rewrite Eq.
  unfold clean_up_inverse. rewrite Hi'. cbn [Z.eqb]. rewrite Hcap, Hcs, Hsep.
  replace (format Frag.u_PATH_TRAIL (S_ "[/]") []) with (xprint xTrail) by reflexivity.
  rewrite !jrev_cons, J, EU_top. cbn [jrev rev map concat app].
  destruct (matchbase st' || extmatchbase st'); reflexivity.
Qed.

(* both halves together: what the produced regex accepts is exactly [DenG] *)
Theorem C02_globstar_path_language_dot flags isb units endg :
  (units <> [] \/ endg = true) -> Forall (fun u => uwf u = true) units ->
  has flags PATHNAME = true -> has flags GLOBSTAR = true -> has flags GLOBSTARLONG = false ->
  is_unix_style linux flags = true -> has flags EXTMATCH = false ->
  has flags NODOTDIR = false -> has flags REALPATH = false ->
  has flags u_ANCHOR = false -> has flags MATCHBASE = false -> has flags u_EXTMATCHBASE = false ->
  has flags u_TRANSLATE = false ->
  exists r,
    wcparse linux flags isb (punU units endg) =
      inl (S_ "^(?s" ++ (if get_case linux flags then [] else S_ "i") ++ S_ ":" ++ xprint r ++ S_ ")$") /\
    forall n, nonl n -> (Xb r true n [] <-> DenGD (has flags DOTMATCH) false true (to_psegs units endg) n).
Proof.
  intros Hne W. intros. exists (emit_pathGD (has flags DOTMATCH) false (to_psegs units endg)). split; [apply wcparse_pathGD; assumption|].
  intros n Hn. apply pathGD_equiv; [apply to_psegs_wf; exact W|exact Hn].
Qed.

(* non-vacuity: the text the model prints for `**/a?/b/**` (the same text CPython's wcmatch prints) *)

Corollary globstar_whole_segments_dot dot prev b ts rest n :
  psegwf (PSeg ts) = true -> nonl n ->
  DenGD dot prev b (PGstar :: PSeg ts :: rest) n ->
  exists r d n', n = r ++ d ++ n' /\ slashes d /\ (d <> [] \/ (b = true /\ r = [])) /\
                 DenGD dot true (b && is_nil r && is_nil d) (PSeg ts :: rest) n'.
Proof.
  intros W Hn H. cbn [DenG] in H. destruct H as [r [d [n' [E [_ [_ [Sd [Hc D]]]]]]]].
  exists r, d, n'. split; [exact E|]. split; [exact Sd|]. split; [|exact D].
  cbn [psegwf] in W. apply andb_true_iff in W. destruct W as [_ Wn]. assert (Hts : ts <> []) by (destruct ts; [discriminate|discriminate]).
  destruct D as [s [n'' [En' [_ [Ds _]]]]]. pose proof (DenSeg_nonempty dot ts s Hts Ds) as Hs.
  destruct Hc as [Hc|[Hc|[Hc|Hc]]].
  - left. exact Hc.
  - right. apply andb_true_iff in Hc. destruct Hc as [Hb Hr]. split; [exact Hb|]. destruct r; [reflexivity|discriminate].
  - exfalso. subst n'. destruct s; [apply Hs; reflexivity|discriminate].
  - exfalso. apply Hn. subst n. rewrite Hc. apply in_or_app. right. apply in_or_app. right. left. reflexivity.
Qed.


(* non-vacuity under DOTMATCH: the text the model prints for `**/a?/b/**` (the same text CPython's wcmatch prints) *)
Example globstar_dot_example_text :
  wcparse linux (PATHNAME + GLOBSTAR + DOTMATCH) false (punU [(true, [TLit 97%N; TQ]); (false, [TLit 98%N])] true) =
  inl (S_ "^(?s:(?:(?!(?:[/]|^)(?:\.{1,2})($|[/])).)*?(?:^|$|[/])+a(?![/]).[/]+b(?=[/])(?:(?!(?:[/]|^)(?:\.{1,2})($|[/])).)*?(?:^|$|[/])+[/]*?)$").
Proof. vm_compute. reflexivity. Qed.

(* under DOTMATCH a `**` run may contain hidden segments but never `.` or `..` as a whole segment *)
Example globstar_dot_runs :
  gs_ok1 true (S_ ".h/x") (S_ "/b") /\ ~ gs_ok1 true (S_ "a/../x") (S_ "/b") /\ ~ gs_ok1 true (S_ "./x") [].
Proof.
  split; [|split].
  - cbn [gs_ok1 S_ map String.list_ascii_of_string app]. repeat split; try exact I;
      intros [[y [E D]]|[Hb D]]; try discriminate;
      try (inversion E; subst; destruct D as [[z [E2 _]]|[z [E2 _]]]; discriminate);
      try (destruct D as [[z [E2 Hz]]|[z [E2 Hz]]]; inversion E2; subst; destruct Hz as [Hz|[Hz|[w Hz]]]; discriminate).
  - intros H. cbn [gs_ok1 S_ map String.list_ascii_of_string app] in H. destruct H as [_ [H _]]. apply H.
    left. eexists. split; [reflexivity|]. right. eexists. split; [reflexivity|]. right. right. eexists. reflexivity.
  - intros H. cbn [gs_ok1 S_ map String.list_ascii_of_string app] in H. destruct H as [H _]. apply H.
    right. split; [reflexivity|]. left. eexists. split; [reflexivity|]. right. right. eexists. reflexivity.
Qed.
