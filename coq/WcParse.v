(* Functional mirror of wcmatch/_wcparse.py : class WcParse  (text level: the model builds the same
   list of regex text fragments the Python code builds, so its output can be compared character by
   character with WcParse(p, flags).parse()).  No proofs in this file.

   Mutable fields of the Python object  -> record [pst] threaded through.
   util.StringIter with rewinds         -> [iter] values (a rewind = reuse of a saved value).
   StopIteration / DotException / PathNameException -> result constructors.
   Loops over the input                 -> recursion on explicit fuel; [Fuel] is a distinct outcome. *)
From WC Require Import Str WinDrive.
From WC.Gen Require Import Consts Posix FlagFuns.
Import Mwcparse.
Open Scope Z_scope.

Definition linux : platform := {| plat_windows := false; os_nt := false; fs_case_sensitive := true |}.

Definition has (f m : Z) : bool := negb (Z.eqb (Z.land f m) 0).

(* ---- re.escape (CPython 3.7+): the special set of re._special_chars_map ---- *)
Definition re_special : str := S_ "()[]{}?*+-|^$\.&~# " ++ [9; 10; 13; 11; 12]%N.
Definition re_escape_ch (c : ch) : str := if ch_in c re_special then [92%N; c] else [c].
Definition re_escape (s : str) : str := flat_map re_escape_ch s.

(* ---- configuration computed by WcParse.__init__ (lines 928-977) ---- *)
Record cfg := {
  c_flags : Z; c_bytes : bool;
  c_noabs : bool; c_pathname : bool; c_globstarlong : bool; c_follow : bool; c_realpath : bool;
  c_capture : bool; c_gcapture : bool; c_dot : bool; c_extend : bool; c_anchor : bool; c_nodotdir : bool;
  c_cs : bool; c_unix : bool; c_windrive : bool; c_bslash_abort : bool;
  c_bare_sep : str; c_sep : str; c_path_eop : str; c_no_dir : str; c_seq_path : str; c_seq_path_dot : str;
  c_path_star : str; c_path_star_dot1 : str; c_path_star_dot2 : str; c_path_gstar_dot1 : str;
  c_path_gstar_dot2 : str; c_need_char : str
}.

Record pst := {
  after_start : bool; dir_start : bool; in_list : bool; inv_nest : bool; inv_ext : Z;
  matchbase : bool; extmatchbase : bool; globstar : bool; match_dot_dir : bool
}.

Definition mk_cfg (P : platform) (flags : Z) (is_bytes : bool) : cfg * pst :=
  let pathname := has flags PATHNAME in
  let globstarlong := pathname && has flags GLOBSTARLONG in
  let globstar0 := pathname && (globstarlong || has flags GLOBSTAR) in
  let realpath := has flags REALPATH && pathname in
  let translate := has flags u_TRANSLATE in
  let unix := is_unix_style P flags in
  let bare := if unix then re_escape (S_ "/") else re_escape (S_ "\/") in
  let fs t := format t [] bare in
  ({| c_flags := flags; c_bytes := is_bytes;
      c_noabs := has flags u_NOABSOLUTE; c_pathname := pathname; c_globstarlong := globstarlong;
      c_follow := has flags FOLLOW; c_realpath := realpath; c_capture := translate;
      c_gcapture := realpath && negb translate && negb (has flags u_NO_GLOBSTAR_CAPTURE);
      c_dot := has flags DOTMATCH; c_extend := has flags EXTMATCH; c_anchor := has flags u_ANCHOR;
      c_nodotdir := has flags NODOTDIR; c_cs := get_case P flags; c_unix := unix;
      c_windrive := if unix then false else pathname; c_bslash_abort := if unix then false else pathname;
      c_bare_sep := bare; c_sep := S_ "[" ++ bare ++ S_ "]";
      c_path_eop := fs Frag.u_PATH_EOP; c_no_dir := fs Frag.u_NO_DIR; c_seq_path := fs Frag.u_PATH_NO_SLASH;
      c_seq_path_dot := fs Frag.u_PATH_NO_SLASH_DOT; c_path_star := fs Frag.u_PATH_STAR;
      c_path_star_dot1 := fs Frag.u_PATH_STAR_DOTMATCH; c_path_star_dot2 := fs Frag.u_PATH_STAR_NO_DOTMATCH;
      c_path_gstar_dot1 := fs Frag.u_PATH_GSTAR_DOTMATCH; c_path_gstar_dot2 := fs Frag.u_PATH_GSTAR_NO_DOTMATCH;
      c_need_char := if pathname then fs Frag.u_NEED_CHAR_PATH else Frag.u_NEED_CHAR |},
   {| after_start := false; dir_start := false; in_list := false; inv_nest := false; inv_ext := 0;
      matchbase := has flags MATCHBASE; extmatchbase := has flags u_EXTMATCHBASE; globstar := globstar0;
      match_dot_dir := false |}).

(* ---- state helpers ---- *)
Definition upd_dir (st : pst) (a d : bool) : pst :=
  {| after_start := a; dir_start := d; in_list := in_list st; inv_nest := inv_nest st; inv_ext := inv_ext st;
     matchbase := matchbase st; extmatchbase := extmatchbase st; globstar := globstar st;
     match_dot_dir := match_dot_dir st |}.
Definition set_after_start st := upd_dir st true false.
Definition set_start_dir st := upd_dir st false true.
Definition reset_dir_track st := upd_dir st false false.
Definition update_dir_state st :=
  if dir_start st && negb (after_start st) then set_after_start st
  else if negb (dir_start st) && after_start st then reset_dir_track st else st.
Definition set_matchbase (st : pst) (b : bool) : pst :=
  {| after_start := after_start st; dir_start := dir_start st; in_list := in_list st; inv_nest := inv_nest st;
     inv_ext := inv_ext st; matchbase := b; extmatchbase := extmatchbase st; globstar := globstar st;
     match_dot_dir := match_dot_dir st |}.
Definition set_extmatchbase (st : pst) (b : bool) : pst :=
  {| after_start := after_start st; dir_start := dir_start st; in_list := in_list st; inv_nest := inv_nest st;
     inv_ext := inv_ext st; matchbase := matchbase st; extmatchbase := b; globstar := globstar st;
     match_dot_dir := match_dot_dir st |}.
Definition set_globstar (st : pst) (b : bool) : pst :=
  {| after_start := after_start st; dir_start := dir_start st; in_list := in_list st; inv_nest := inv_nest st;
     inv_ext := inv_ext st; matchbase := matchbase st; extmatchbase := extmatchbase st; globstar := b;
     match_dot_dir := match_dot_dir st |}.
Definition set_lists (st : pst) (il inn : bool) : pst :=
  {| after_start := after_start st; dir_start := dir_start st; in_list := il; inv_nest := inn;
     inv_ext := inv_ext st; matchbase := matchbase st; extmatchbase := extmatchbase st; globstar := globstar st;
     match_dot_dir := match_dot_dir st |}.
Definition set_inv_ext (st : pst) (n : Z) : pst :=
  {| after_start := after_start st; dir_start := dir_start st; in_list := in_list st; inv_nest := inv_nest st;
     inv_ext := n; matchbase := matchbase st; extmatchbase := extmatchbase st; globstar := globstar st;
     match_dot_dir := match_dot_dir st |}.
Definition set_mdd (st : pst) (b : bool) : pst :=
  {| after_start := after_start st; dir_start := dir_start st; in_list := in_list st; inv_nest := inv_nest st;
     inv_ext := inv_ext st; matchbase := matchbase st; extmatchbase := extmatchbase st; globstar := globstar st;
     match_dot_dir := b |}.

(* ---- iterator ---- *)
Record iter := { idx : Z; rest : str }.
Definition next (it : iter) : option (ch * iter) :=
  match rest it with [] => None | c :: r => Some (c, {| idx := idx it + 1; rest := r |}) end.

(* ---- output items: text, or the InvPlaceholder of an open !( ... ) ---- *)
Inductive item := T (s : str) | H (star : str).
Definition itext (x : item) : str := match x with T s => s | H s => s end.
(* `cur` lists are kept reversed: head = last appended *)
Definition jrev (cur : list item) : str := concat (map itext (rev cur)).

Inductive res (A : Type) := Ok (a : A) | Stop | Fuel.
Arguments Ok {A} a. Arguments Stop {A}. Arguments Fuel {A}.

Definition cBS : ch := 92%N.  Definition cSL : ch := 47%N.  Definition cDOT : ch := 46%N.
Definition cSTAR : ch := 42%N. Definition cQM : ch := 63%N.  Definition cLB : ch := 91%N.
Definition cRB : ch := 93%N.   Definition cLP : ch := 40%N.  Definition cRP : ch := 41%N.
Definition cBAR : ch := 124%N. Definition cEX : ch := 33%N.  Definition cHAT : ch := 94%N.
Definition cMINUS : ch := 45%N. Definition cPLUS : ch := 43%N. Definition cAT : ch := 64%N.
Definition cCOLON : ch := 58%N.

Definition restrict_extended_slash (cf : cfg) : str := if c_pathname cf then c_seq_path cf else [].

(* _restrict_sequence (1016-1027) *)
Definition restrict_sequence (cf : cfg) (st : pst) : str * pst :=
  let v :=
    if c_pathname cf then
      let v0 := if after_start st && negb (c_dot cf) then c_seq_path_dot cf else c_seq_path cf in
      if after_start st then c_no_dir cf ++ v0 else v0
    else if after_start st && negb (c_dot cf) then Frag.u_NO_DOT else [] in
  (v, reset_dir_track st).

(* _references (1171-1209) *)
Inductive refres := RVal (v : str) (st : pst) (it : iter) | RStop | RDot (it : iter) | RPath.
Definition references (cf : cfg) (st : pst) (it : iter) (sequence : bool) : refres :=
  match next it with
  | None => RStop
  | Some (c, it1) =>
    if N.eqb c cBS then
      if sequence && c_bslash_abort cf then RPath
      else if c_bslash_abort cf then
        if negb (in_list st) then RVal (c_sep cf ++ Frag.u_ONE_OR_MORE) (set_start_dir st) it1
        else RVal (restrict_extended_slash cf ++ c_sep cf) st it1
      else if negb (c_unix cf) then RVal (if sequence then c_bare_sep cf else c_sep cf) st it1
      else RVal (S_ "\\") st it1
    else if N.eqb c cSL then
      if sequence && c_pathname cf then RPath
      else if c_pathname cf then
        if negb (in_list st) then RVal (c_sep cf ++ Frag.u_ONE_OR_MORE) (set_start_dir st) it1
        else RVal (restrict_extended_slash cf ++ c_sep cf) st it1
      else RVal (if sequence then c_bare_sep cf else c_sep cf) st it1
    else if N.eqb c cDOT then RDot it
    else RVal (re_escape_ch c) st it1
  end.

(* ---- POSIX classes inside brackets: RE_POSIX at the iterator position (1054-1067) ---- *)
Definition posix_table (is_bytes : bool) := if is_bytes then table_a else table_u.
Fixpoint posix_find (tab : list (string * bool * list N * list (N * N))) (r : str) : option (str * nat) :=
  match tab with
  | [] => None
  | (name, neg, txt, _) :: tab' =>
      let key := S_ ":" ++ S_ name ++ S_ ":]" in
      if negb neg && starts_with key r then Some (txt, length key) else posix_find tab' r
  end.
Definition posix_match (cf : cfg) (it : iter) : option (str * iter) :=
  match posix_find (posix_table (c_bytes cf)) (rest it) with
  | Some (txt, n) => Some (txt, {| idx := idx it + Z.of_nat n; rest := drop n (rest it) |})
  | None => None
  end.

(* `result` lists reversed as well: head = last appended *)
Definition ord_of (s : str) : N :=
  match s with
  | [c] => c
  | _ :: c :: _ => c
  | [] => 0%N
  end.
(* _sequence_range_check (1029-1052): returns (result', removed) *)
Definition range_check (result : list str) (last : str) : list str * bool :=
  match result with
  | d :: first :: r' =>
      if N.ltb (ord_of last) (ord_of first) then (r', true) else (last :: result, false)
  | _ => (last :: result, false)
  end.

(* _handle_posix: (result', it', last_posix) *)
Definition handle_posix (cf : cfg) (it : iter) (result : list str) (end_range : Z) : list str * iter * bool :=
  match posix_match cf it with
  | None => (result, it, false)
  | Some (txt, it') =>
      let result1 :=
        if negb (Z.eqb end_range 0) && Z.leb end_range (idx it' - 1)
        then match result with x :: r => (cBS :: x) :: r | [] => [] end
        else result in
      (txt :: result1, it', true)
  end.

Definition set_operators : str := Sets.SET_OPERATORS.

(* the `while c != ']'` loop of _sequence (1092-1148); recursion on fuel (each turn consumes >= 1 char) *)
Fixpoint seq_loop (fuel : nat) (cf : cfg) (st : pst) (c : ch) (it : iter) (result : list str)
         (end_range escape_hyphen : Z) (removed last_posix : bool) : res (list str * iter * bool) :=
  match fuel with
  | O => Fuel
  | S f =>
    if N.eqb c cRB then Ok (result, it, removed)
    else if N.eqb c cMINUS then
      let '(result1, escape_hyphen1, end_range1, removed1) :=
        if last_posix then ((S_ "\-") :: result, escape_hyphen, end_range, removed)
        else if Z.ltb escape_hyphen (idx it - 1) then ([cMINUS] :: result, idx it + 1, idx it, removed)
        else if negb (Z.eqb end_range 0) && Z.leb end_range (idx it - 1) then
          let '(r, rm) := range_check result (S_ "\-") in (r, escape_hyphen, 0, removed || rm)
        else ((S_ "\-") :: result, escape_hyphen, end_range, removed) in
      match next it with
      | None => Stop
      | Some (c', it') => seq_loop f cf st c' it' result1 end_range1 escape_hyphen1 removed1 false
      end
    else
      let '(result0, it0, lp) :=
        if N.eqb c cLB then handle_posix cf it result end_range else (result, it, false) in
      if lp then
        match next it0 with
        | None => Stop
        | Some (c', it') => seq_loop f cf st c' it' result0 0 escape_hyphen removed true     (* a class ends the pending range *)
        end
      else
        let vres : res (str * iter) :=
          if N.eqb c cBS then
            match references cf st it0 true with
            | RVal v _ it1 => Ok (v, it1)
            | RDot itd => match next itd with Some (d, it1) => Ok (re_escape_ch d, it1) | None => Stop end
            | RPath => Stop
            | RStop => Stop
            end
          else if N.eqb c cSL then (if c_pathname cf then Stop else Ok ([c], it0))
          else if ch_in c set_operators then Ok ([cBS; c], it0)
          else if N.eqb c 35 then Ok ([cBS; c], it0)   (* `#`: never lets a literal `(?#)` through *)
          else Ok ([c], it0) in
        match vres with
        | Stop => Stop | Fuel => Fuel
        | Ok (value, it1) =>
          (* the end of a range may be an escape (two characters): the position after it is where a hyphen is literal *)
          let '(result1, end_range1, removed1, escape_hyphen1) :=
            if negb (Z.eqb end_range 0) && Z.leb end_range (idx it1 - 1) then
              let '(r, rm) := range_check result0 value in (r, 0, removed || rm, idx it1)
            else (value :: result0, end_range, removed, escape_hyphen) in
          match next it1 with
          | None => Stop
          | Some (c', it') => seq_loop f cf st c' it' result1 end_range1 escape_hyphen1 removed1 false
          end
        end
  end.

(* _sequence (1069-1169): Ok (text, st', it') or Stop *)
Definition sequence (cf : cfg) (st : pst) (it : iter) : res (str * pst * iter) :=
  match next it with
  | None => Stop
  | Some (c0, it0) =>
    let start : res (ch * iter * list str) :=
      if N.eqb c0 cEX || N.eqb c0 cHAT then
        match next it0 with None => Stop | Some (c1, it1) => Ok (c1, it1, [[cHAT]; [cLB]]) end
      else Ok (c0, it0, [[cLB]]) in
    match start with
    | Stop => Stop | Fuel => Fuel
    | Ok (c1, it1, result1) =>
      let first : res (ch * iter * list str * bool) :=
        if N.eqb c1 cLB then
          let '(r, it2, lp) := handle_posix cf it1 result1 0 in
          let r2 := if lp then r else re_escape_ch c1 :: r in
          match next it2 with None => Stop | Some (c2, it3) => Ok (c2, it3, r2, lp) end
        else if N.eqb c1 cMINUS || N.eqb c1 cRB then
          match next it1 with None => Stop | Some (c2, it3) => Ok (c2, it3, re_escape_ch c1 :: result1, false) end
        else Ok (c1, it1, result1, false) in
      match first with
      | Stop => Stop | Fuel => Fuel
      | Ok (c2, it2, result2, lp) =>
        match seq_loop (S (length (rest it2))) cf st c2 it2 result2 0 (-1) false lp with
        | Stop => Stop | Fuel => Fuel
        | Ok (result3, it3, removed) =>
          let result4 := [cRB] :: result3 in
          let value := concat (rev result4) in
          let range := if c_bytes cf then Frag.ASCII_RANGE else Frag.UNICODE_RANGE in
          let text :=
            if removed then
              if str_eqb value (S_ "[]") then S_ "[^" ++ range ++ S_ "]"
              else if str_eqb value (S_ "[^]") then S_ "[" ++ range ++ S_ "]"
              else value
            else value in
          if c_pathname cf || after_start st then
            let '(g, st') := restrict_sequence cf st in Ok (g ++ text, st', it3)
          else Ok (text, st, it3)
        end
      end
    end
  end.

(* _handle_dot (1211-1260): the look-ahead scan is pure (the iterator is always rewound) *)
Fixpoint dot_scan (fuel : nat) (cf : cfg) (st : pst) (it : iter) (is_current is_previous : bool) : bool * bool :=
  match fuel with
  | O => (is_current, is_previous)
  | S f =>
    match next it with
    | None => (is_current, is_previous)
    | Some (c, it1) =>
      if N.eqb c cDOT && is_current then dot_scan f cf st it1 false true
      else if N.eqb c cDOT && is_previous then (is_current, false)
      else if (N.eqb c cBAR || N.eqb c cRP) && in_list st then (is_current, is_previous)
      else if N.eqb c cBS then
        match references cf st it1 true with
        | RVal _ _ _ => (false, false)
        | RDot itd =>
            if is_current then
              match next itd with
              | Some (_, it2) => dot_scan f cf st it2 false true
              | None => (false, true)
              end
            else (is_current, false)
        | RPath => (is_current, is_previous)
        | RStop => (is_current, is_previous)
        end
      else if N.eqb c cSL then (is_current, is_previous)
      else (false, false)
    end
  end.
Definition handle_dot (cf : cfg) (st : pst) (it : iter) : str :=
  let '(is_current, is_previous) :=
    if after_start st && c_pathname cf && c_nodotdir cf
    then dot_scan (S (length (rest it))) cf st it true false else (true, false) in
  if negb is_current && negb is_previous
  then S_ "(?!\.[.]?" ++ c_path_eop cf ++ S_ ")\." else re_escape_ch cDOT.

(* consume_path_sep (1525-1548) *)
(* Unix rules: a run of `/`, an escaped `\/` counting as a separator too *)
Fixpoint skip_slashes (r : str) (i : Z) : iter :=
  match r with
  | c :: r' =>
      if N.eqb c cSL then skip_slashes r' (i + 1)
      else if N.eqb c cBS then
        match r' with
        | c2 :: r'' => if N.eqb c2 cSL then skip_slashes r'' (i + 2) else {| idx := i; rest := r |}
        | [] => {| idx := i; rest := r |}
        end
      else {| idx := i; rest := r |}
  | [] => {| idx := i; rest := [] |}
  end.
(* To rewind two characters we need the character before; thread explicit history instead. *)
Fixpoint win_seps2 (fuel : nat) (c : ch) (count : Z) (hist2 hist1 it : iter) : iter :=
  (* hist1 = iterator positioned before c ; hist2 = iterator positioned one character before hist1 *)
  match fuel with
  | O => it
  | S f =>
    if N.eqb c cBS || N.eqb c cSL then
      let count' := if negb (N.eqb c cSL) || negb (Z.eqb (count mod 2) 0) then count + 1 else count + 2 in
      match next it with
      | None => it
      | Some (c', it') => win_seps2 f c' count' hist1 it it'
      end
    else
      if Z.ltb 0 count && negb (Z.eqb (count mod 2) 0) then hist2 else hist1
  end.
Definition consume_path_sep (cf : cfg) (it : iter) : iter :=
  if c_bslash_abort cf then
    (* the loop starts with the pseudo character '\\' and count = -1; there is no real history yet:
       hist1 = hist2 = it (a rewind cannot go before the starting point because count>0 needs >= 1 read) *)
    win_seps2 (S (S (length (rest it)))) cBS (-1) it it it
  else skip_slashes (rest it) (idx it).

(* _handle_star (1262-1367): returns (st', it', cur') *)
Fixpoint skip_stars (r : str) (i : Z) : iter :=
  match r with
  | c :: r' => if N.eqb c cSTAR then skip_stars r' (i + 1) else {| idx := i; rest := r |}
  | [] => {| idx := i; rest := [] |}
  end.

Definition handle_star (cf : cfg) (st : pst) (it : iter) (cur : list item) : pst * iter * list item :=
  let '(star, gstar0) :=
    if c_pathname cf then
      if after_start st && negb (c_dot cf) then (c_path_star_dot2 cf, c_path_gstar_dot2 cf)
      else if after_start st then (c_path_star_dot1 cf, c_path_gstar_dot1 cf)
      else (c_path_star cf, c_path_gstar_dot1 cf)
    else ((if after_start st && negb (c_dot cf) then Frag.u_NO_DOT ++ Frag.u_STAR else Frag.u_STAR), []) in
  let capture0 := c_gcapture cf in
  (* globstar detection *)
  let '(value, gstar, st1, it1, captured) :=
    if after_start st && globstar st && negb (in_list st) then
      (* first try-block: second (and third) star *)
      let '(skip, capture, ita) :=
        match next it with
        | Some (c, i1) =>
          if N.eqb c cSTAR then
            if c_globstarlong cf then
              match next i1 with
              | Some (c2, i2) => if N.eqb c2 cSTAR then (false, false, i2) else (false, capture0, i1)
              | None => (false, capture0, i1)
              end
            else (false, capture0, i1)
          else (true, capture0, it)
        | None => (true, capture0, it)
        end in
      let gstar := if capture then S_ "(" ++ gstar0 ++ S_ ")" else gstar0 in
      if skip then (star, gstar, st, ita, capture)
      else
        match next ita with
        | None => (gstar, gstar, st, ita, capture)
        | Some (c, i1) =>
          if N.eqb c cBS then
            match references cf st i1 true with
            | RVal _ _ _ => (star, gstar, st, ita, capture)
            | RDot _ => (star, gstar, st, ita, capture)
            | RPath =>
                (* _references consumed the separator character before raising *)
                let i2 := match next i1 with Some (_, x) => x | None => i1 end in
                (gstar, gstar, set_matchbase st false, i2, capture)
            | RStop => (gstar, gstar, st, i1, capture)
            end
          else if N.eqb c cSL then (gstar, gstar, set_matchbase st false, i1, capture)
          else (star, gstar, st, ita, capture)
        end
    else (star, gstar0, st, it, capture0) in
  let is_g := str_eqb value gstar in
  (* Python compares `value != globstar` by text; when it is equal *by accident* the rewind is skipped.
     The rewind to `index` is already reflected above (we returned `ita`). *)
  let '(value2, it2) :=
    if after_start st && negb is_g then (c_need_char cf ++ value, skip_stars (rest it1) (idx it1))
    else (value, it1) in
  let st2 := reset_dir_track st1 in
  if str_eqb value2 gstar then
    let sepd := format Frag.u_GLOBSTAR_DIV (c_sep cf) [] in
    match cur with
    | last :: cur' =>
      if negb (str_eqb (itext last) sepd) then
        let cur1 := if str_eqb (itext last) [] then T value2 :: cur'
                    else T value2 :: T (format Frag.u_NEED_SEP (c_sep cf) []) :: cur' in
        let it3 := consume_path_sep cf it2 in
        (set_start_dir st2, it3, T sepd :: cur1)
      else
        (* merged with the previous globstar: `***` (capture switched off here) un-captures the merged one *)
        let cur2 := if c_gcapture cf && negb captured
                    then match cur' with _ :: cur'' => last :: T value2 :: cur'' | [] => cur end
                    else cur in
        (set_start_dir st2, consume_path_sep cf it2, cur2)
    | [] => (set_start_dir st2, it2, cur)   (* IndexError in Python; unreachable: root starts with [''] *)
    end
  else (st2, it2, T value2 :: cur).

(* clean_up_inverse (1369-1398) on a reversed list; returns (items, text after, number of holes closed) *)
Fixpoint cui_go (cf : cfg) (nested : bool) (cur : list item) (after : str) : list item * str * Z :=
  (* walks from the last item to the first; `after` = text of everything after the current index *)
  match cur with
  | [] => ([], after, 0)
  | x :: cur' =>
    match x with
    | H star =>
      let content := if nested then after
                     else after ++ (if c_pathname cf then c_path_eop cf else Frag.u_EOP) in
      let content' := if c_capture cf then replace_all (S_ "(?#)") (S_ "?:") content else content in
      let new := content' ++ format Frag.u_EXCLA_GROUP_CLOSE star [] in
      let '(done, _, n) := cui_go cf nested cur' (new ++ after) in
      (T new :: done, after, n + 1)
    | T s =>
      let '(done, _, n) := cui_go cf nested cur' (s ++ after) in
      (T s :: done, after, n)
    end
  end.
Definition clean_up_inverse (cf : cfg) (st : pst) (cur : list item) (nested : bool) : pst * list item :=
  if Z.eqb (inv_ext st) 0 then (st, cur)
  else let '(done, _, n) := cui_go cf nested cur [] in (set_inv_ext st (inv_ext st - n), done).

Definition ext_types : str := Sets.EXT_TYPES.

Definition group_text (cf : cfg) (ty : ch) (body : str) : str :=
  let pick a b := format (if c_capture cf then a else b) body [] in
  if N.eqb ty cQM then pick Frag.u_QMARK_CAPTURE_GROUP Frag.u_QMARK_GROUP
  else if N.eqb ty cSTAR then pick Frag.u_STAR_CAPTURE_GROUP Frag.u_STAR_GROUP
  else if N.eqb ty cPLUS then pick Frag.u_PLUS_CAPTURE_GROUP Frag.u_PLUS_GROUP
  else if N.eqb ty cAT then pick Frag.u_CAPTURE_GROUP Frag.u_GROUP
  else pick Frag.u_EXCLA_CAPTURE_GROUP Frag.u_EXCLA_GROUP.

(* parse_extend (1400-1523) and its while loop *)
Fixpoint ext (fuel : nat) (cf : cfg) (st : pst) (ty : ch) (it : iter) (cur : list item) (reset_dot : bool)
  : res (bool * pst * iter * list item) :=
  match fuel with
  | O => Fuel
  | S f =>
    let t_dir := dir_start st in let t_after := after_start st in let t_in := in_list st in
    let t_ie := inv_ext st in let t_nest := inv_nest st in
    let st0 := set_lists st true (N.eqb ty cEX) in
    let st1 := if reset_dot then set_mdd st0 false else st0 in
    let finish (success : bool) (stx : pst) (itx : iter) (curx : list item) :=
      let stx1 := if negb t_in then set_lists stx false (inv_nest stx) else stx in
      let stx2 := if negb t_nest then set_lists stx1 (in_list stx1) false else stx1 in
      let stx3 := if success then reset_dir_track stx2 else upd_dir stx2 t_after t_dir in
      Ok (success, stx3, itx, curx) in
    let fail (stx : pst) := finish false (set_inv_ext stx t_ie) it cur in
    match next it with
    | None => fail st1
    | Some (c, it1) =>
      if negb (N.eqb c cLP) then fail st1
      else
        match ext_loop f cf st1 it1 [] t_after t_nest with
        | Fuel => Fuel
        | Stop => fail st1   (* NB: state changes made inside the failed attempt other than those restored
                                by [finish] are lost here; see ext_loop for how that is kept faithful *)
        | Ok (st2, it2, extended, stfail) =>
          match extended with
          | None => fail stfail
          | Some extd =>
            let body := jrev extd in
            if N.eqb ty cEX then
              let st3 := set_inv_ext st2 (inv_ext st2 + 1) in
              let star0 :=
                if c_pathname cf then
                  if negb t_after || match_dot_dir st3 then c_path_star cf
                  else if t_after && negb (c_dot cf) then c_path_star_dot2 cf
                  else c_path_star_dot1 cf
                else if negb t_after || c_dot cf then Frag.u_STAR else Frag.u_NO_DOT ++ Frag.u_STAR in
              let star := if t_after then c_need_char cf ++ star0 else star0 in
              let cur1 := H star :: T (group_text cf ty body) :: cur in
              let '(st4, cur2) :=
                if t_in then clean_up_inverse cf st3 cur1 (t_nest && inv_nest st3) else (st3, cur1) in
              finish true st4 it2 cur2
            else
              let cur1 := T (group_text cf ty body) :: cur in
              let '(st4, cur2) :=
                if t_in then clean_up_inverse cf st2 cur1 (t_nest && inv_nest st2) else (st2, cur1) in
              finish true st4 it2 cur2
          end
        end
    end
  end
(* returns Ok (state, iterator, Some extended | None on StopIteration, state at the point of StopIteration) *)
with ext_loop (fuel : nat) (cf : cfg) (st : pst) (it : iter) (extended : list item) (t_after t_nest : bool)
  : res (pst * iter * option (list item) * pst) :=
  match fuel with
  | O => Fuel
  | S f =>
    match next it with
    | None => Ok (st, it, None, st)
    | Some (c, it1) =>
      let continue_ (stx : pst) (itx : iter) (extx : list item) :=
        let stx' := update_dir_state stx in
        if N.eqb c cRP then Ok (stx', itx, Some extx, stx')
        else ext_loop f cf stx' itx extx t_after t_nest in
      let try_ext : res (option (pst * iter * list item) * pst) :=
        if c_extend cf && ch_in c ext_types then
          match ext f cf st c it1 extended false with
          | Fuel => Fuel | Stop => Stop
          | Ok (true, st', it', ext') => Ok (Some (st', it', ext'), st')
          | Ok (false, st', _, _) => Ok (None, st')
          end
        else Ok (None, st) in
      match try_ext with
      | Fuel => Fuel | Stop => Stop
      | Ok (Some (st', it', ext'), _) => continue_ st' it' ext'
      | Ok (None, st) =>
        if N.eqb c cSTAR then
          let '(st', it', ext') := handle_star cf st it1 extended in continue_ st' it' ext'
        else if N.eqb c cDOT then
          let v := handle_dot cf st it1 in
          let st' := if after_start st
                     then reset_dir_track (set_mdd st (c_dot cf && negb (c_nodotdir cf))) else st in
          continue_ st' it1 (T v :: extended)
        else if N.eqb c cQM then
          let '(g, st') := restrict_sequence cf st in continue_ st' it1 (T (g ++ Frag.u_QMARK) :: extended)
        else if N.eqb c cSL then
          let e1 := if c_pathname cf then T (restrict_extended_slash cf) :: extended else extended in
          continue_ st it1 (T (c_sep cf) :: e1)
        else if N.eqb c cBAR then
          let '(st', e1) := if inv_nest st then clean_up_inverse cf st extended t_nest else (st, extended) in
          let st'' := if t_after then set_start_dir st' else st' in
          continue_ st'' it1 (T [cBAR] :: e1)
        else if N.eqb c cBS then
          match references cf st it1 false with
          | RVal v st' it' => continue_ st' it' (T v :: extended)
          | RDot itd => ext_loop f cf st itd extended t_after t_nest     (* `continue`: no update_dir_state *)
          | RStop => continue_ st it1 extended
          | RPath => continue_ st it1 extended   (* unreachable: sequence = False never raises it *)
          end
        else if N.eqb c cLB then
          match sequence cf st it1 with
          | Ok (v, st', it') => continue_ st' it' (T v :: extended)
          | Stop => continue_ st it1 (T (S_ "\[") :: extended)
          | Fuel => Fuel
          end
        else if negb (N.eqb c cRP) then continue_ st it1 (T (re_escape_ch c) :: extended)
        else continue_ st it1 extended
      end
    end
  end.

Inductive perr := EValue | EFuel | EUnsupported.

(* the `for c in i` loop of root (1581-1626) *)
Fixpoint root_loop (fuel : nat) (cf : cfg) (st : pst) (it : iter) (cur : list item) : res (pst * list item) :=
  match fuel with
  | O => Fuel
  | S f =>
    match next it with
    | None => Ok (st, cur)
    | Some (c, it1) =>
      let continue_ (stx : pst) (itx : iter) (curx : list item) :=
        root_loop f cf (update_dir_state stx) itx curx in
      let try_ext : res (option (pst * iter * list item) * pst) :=
        if c_extend cf && ch_in c ext_types then
          match ext f cf st c it1 cur true with
          | Fuel => Fuel | Stop => Stop
          | Ok (true, st', it', cur') => Ok (Some (st', it', cur'), st')
          | Ok (false, st', _, _) => Ok (None, st')
          end
        else Ok (None, st) in
      match try_ext with
      | Fuel => Fuel | Stop => Stop
      | Ok (Some (st', it', cur'), _) => continue_ st' it' cur'
      | Ok (None, st) =>
        if N.eqb c cDOT then continue_ st it1 (T (handle_dot cf st it1) :: cur)
        else if N.eqb c cSTAR then
          let '(st', it', cur') := handle_star cf st it1 cur in continue_ st' it' cur'
        else if N.eqb c cQM then
          let '(g, st') := restrict_sequence cf st in continue_ st' it1 (T (g ++ Frag.u_QMARK) :: cur)
        else if N.eqb c cSL then
          if c_pathname cf then
            let st1 := set_start_dir st in
            let '(st2, cur1) := clean_up_inverse cf st1 cur false in
            let it2 := consume_path_sep cf it1 in
            continue_ (set_matchbase st2 false) it2 (T (c_sep cf ++ Frag.u_ONE_OR_MORE) :: cur1)
          else continue_ st it1 (T (c_sep cf) :: cur)
        else if N.eqb c cBS then
          match references cf st it1 false with
          | RVal v st' it' =>
              if dir_start st' then
                let '(st2, cur1) := clean_up_inverse cf st' cur false in
                let it2 := consume_path_sep cf it' in
                continue_ (set_matchbase st2 false) it2 (T v :: cur1)
              else continue_ st' it' (T v :: cur)
          | RDot itd => root_loop f cf st itd cur          (* `continue`: no update_dir_state *)
          | RStop => continue_ st it1 cur                   (* escapes nothing: rewind, loop ends *)
          | RPath => continue_ st it1 cur                   (* unreachable *)
          end
        else if N.eqb c cLB then
          match sequence cf st it1 with
          | Ok (v, st', it') => continue_ st' it' (T v :: cur)
          | Stop => continue_ st it1 (T (re_escape_ch c) :: cur)
          | Fuel => Fuel
          end
        else continue_ st it1 (T (re_escape_ch c) :: cur)
      end
    end
  end.

Definition fuel_for (p : str) : nat := 2 * length p + 4.

(* Windows drive / UNC prefixes (_get_win_drive) are not modelled: a pattern that could start with one is
   answered EUnsupported and left out of the correspondence.  RE_WIN_DRIVE_START can only match a text that
   starts with two separators (`/` or an escaped backslash each) or with `[\]?<letter>[\]?:`. *)
Definition is_letter (c : ch) : bool := ((65 <=? c) && (c <=? 90) || (97 <=? c) && (c <=? 122))%N.
Definition strip_sep (p : str) : option str :=
  match p with
  | 47 :: r => Some r
  | 92 :: 92 :: r => Some r
  | _ => None
  end%N.
Definition maybe_drive (p : str) : bool :=
  match strip_sep p with
  | Some r => match strip_sep r with Some _ => true | None => false end
  | None =>
    let q := match p with 92 :: r => r | _ => p end%N in
    match q with
    | c :: r => is_letter c && match r with 58 :: _ => true | 92 :: 58 :: _ => true | _ => false end%N
    | [] => false
    end
  end.

(* root (1550-1631) *)
(* escape_drive (563-566) and the regex text of a Windows drive / UNC prefix (_get_win_drive with regex=True) *)
Definition escape_drive (cs : bool) (d : str) : str := if cs then S_ "(?i:" ++ re_escape d ++ S_ ")" else re_escape d.
Definition drive_regex (cs : bool) (d : drive) : option str :=
  match d with
  | DNone => None
  | DLetter t => Some (escape_drive cs t)
  | DUnc parts => Some (S_ "[\\/]{2}" ++ join_with (S_ "[\\/]") (map (escape_drive cs) parts))
  end.

Definition root (cf : cfg) (st : pst) (p : str) (cur : list item) : res (pst * list item) + perr :=
  let st0 := set_after_start st in
  let '(root_specified, dtext, dslash, dend) :=
    if c_windrive cf then
      let '(rs, d, sl, e) := get_win_drive p in (rs, drive_regex (c_cs cf) d, sl, e)
    else (c_pathname cf && starts_with [cSL] p, None, false, 0%N) in
  if c_noabs cf && root_specified then inr EValue
  else
    let st1 := if root_specified then set_extmatchbase (set_matchbase st0 false) false else st0 in
    let cur1 := if negb root_specified && c_realpath cf
                then T [] :: T (if c_windrive cf then Frag.u_NO_WIN_ROOT else Frag.u_NO_ROOT) :: cur else cur in
    let '(cur2, it0) :=
      match dtext with
      | Some t =>
          (if dslash then T (c_sep cf ++ Frag.u_ONE_OR_MORE) :: T t :: cur1 else T t :: cur1,
           consume_path_sep cf {| idx := Z.of_N dend; rest := drop (N.to_nat dend) p |})
      | None => (cur1, {| idx := 0; rest := p |})
      end in
    match root_loop (fuel_for p) cf st1 it0 cur2 with
    | Fuel => inr EFuel
    | Stop => inl Stop
    | Ok (st2, cur2') =>
      let '(st3, cur3) := clean_up_inverse cf st2 cur2' false in
      let cur4 := if c_pathname cf then T (format Frag.u_PATH_TRAIL (c_sep cf) []) :: cur3 else cur3 in
      inl (Ok (st3, cur4))
    end.

Fixpoint strip_slashes (p : str) : str * bool :=
  match p with
  | c :: p' => if N.eqb c cSL then (fst (strip_slashes p'), true) else (p, false)
  | [] => ([], false)
  end.
(* RE_WIN_ANCHOR = ^(?:\\\\|/)+ : leading `/` or escaped-backslash pairs *)
Fixpoint strip_win_seps (fuel : nat) (p : str) : str * bool :=
  match fuel with
  | O => (p, false)
  | S f =>
    match strip_sep p with
    | Some r => (fst (strip_win_seps f r), true)
    | None => (p, false)
    end
  end.

(* _parse (1633-1671) + parse: the regex text, or an error *)
Definition wcparse_cf (cf : cfg) (st : pst) (p : str) : str + perr :=
  let '(p1, st1) :=
    if c_anchor cf then
      let '(p', n) := if c_windrive cf then strip_win_seps (length p) p else strip_slashes p in
      (p', if n then set_extmatchbase (set_matchbase st false) false else st)
    else (p, st) in
  let pre : (pst * list item) + perr :=
    if matchbase st1 || extmatchbase st1 then
      if c_globstarlong cf && c_follow cf then
        match root cf st1 (S_ "***") [T []] with
        | inl (Ok x) => inl x | inl _ => inr EFuel | inr e => inr e end
      else
        let g := globstar st1 in
        match root cf (set_globstar st1 true) (S_ "**") [T []] with
        | inl (Ok (s, c)) => inl (set_globstar s g, c) | inl _ => inr EFuel | inr e => inr e end
    else inl (st1, [T []]) in
  match pre with
  | inr e => inr e
  | inl (st2, prepend) =>
    let p2 := if str_eqb p1 [cBS] then [] else p1 in
    let main : (pst * list item) + perr :=
      match p2 with
      | [] => inl (st2, [T []])
      | _ => match root cf st2 p2 [T []] with
             | inl (Ok x) => inl x | inl _ => inr EFuel | inr e => inr e end
      end in
    match main with
    | inr e => inr e
    | inl (st3, result) =>
      let body :=
        match p2 with
        | [] => jrev result
        | _ => if matchbase st3 || extmatchbase st3 then jrev prepend ++ jrev result else jrev result
        end in
      let pattern := S_ "^(?s" ++ (if c_cs cf then [] else S_ "i") ++ S_ ":" ++ body ++ S_ ")$" in
      inl (if c_capture cf then replace_all (S_ "(?#)") [] pattern else pattern)
    end
  end.

Definition wcparse (P : platform) (flags : Z) (is_bytes : bool) (p : str) : str + perr :=
  let '(cf, st) := mk_cfg P flags is_bytes in wcparse_cf cf st p.
