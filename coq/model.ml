
(** val negb : bool -> bool **)

let negb = function
| true -> false
| false -> true

type nat =
| O
| S of nat

type ('a, 'b) sum =
| Inl of 'a
| Inr of 'b

(** val fst : ('a1 * 'a2) -> 'a1 **)

let fst = function
| (x, _) -> x

(** val length : 'a1 list -> nat **)

let rec length = function
| [] -> O
| _ :: l' -> S (length l')

(** val app : 'a1 list -> 'a1 list -> 'a1 list **)

let rec app l m =
  match l with
  | [] -> m
  | a :: l1 -> a :: (app l1 m)

type comparison =
| Eq
| Lt
| Gt

(** val compOpp : comparison -> comparison **)

let compOpp = function
| Eq -> Eq
| Lt -> Gt
| Gt -> Lt

(** val pred : nat -> nat **)

let pred n0 = match n0 with
| O -> n0
| S u -> u

(** val add : nat -> nat -> nat **)

let rec add n0 m =
  match n0 with
  | O -> m
  | S p -> S (add p m)

(** val mul : nat -> nat -> nat **)

let rec mul n0 m =
  match n0 with
  | O -> O
  | S p -> add m (mul p m)

type positive =
| XI of positive
| XO of positive
| XH

type n =
| N0
| Npos of positive

type z =
| Z0
| Zpos of positive
| Zneg of positive

module Pos =
 struct
  (** val succ : positive -> positive **)

  let rec succ = function
  | XI p -> XO (succ p)
  | XO p -> XI p
  | XH -> XO XH

  (** val add : positive -> positive -> positive **)

  let rec add x y =
    match x with
    | XI p ->
      (match y with
       | XI q -> XO (add_carry p q)
       | XO q -> XI (add p q)
       | XH -> XO (succ p))
    | XO p ->
      (match y with
       | XI q -> XI (add p q)
       | XO q -> XO (add p q)
       | XH -> XI p)
    | XH -> (match y with
             | XI q -> XO (succ q)
             | XO q -> XI q
             | XH -> XO XH)

  (** val add_carry : positive -> positive -> positive **)

  and add_carry x y =
    match x with
    | XI p ->
      (match y with
       | XI q -> XI (add_carry p q)
       | XO q -> XO (add_carry p q)
       | XH -> XI (succ p))
    | XO p ->
      (match y with
       | XI q -> XO (add_carry p q)
       | XO q -> XI (add p q)
       | XH -> XO (succ p))
    | XH ->
      (match y with
       | XI q -> XI (succ q)
       | XO q -> XO (succ q)
       | XH -> XI XH)

  (** val pred_double : positive -> positive **)

  let rec pred_double = function
  | XI p -> XI (XO p)
  | XO p -> XI (pred_double p)
  | XH -> XH

  (** val pred_N : positive -> n **)

  let pred_N = function
  | XI p -> Npos (XO p)
  | XO p -> Npos (pred_double p)
  | XH -> N0

  (** val mul : positive -> positive -> positive **)

  let rec mul x y =
    match x with
    | XI p -> add y (XO (mul p y))
    | XO p -> XO (mul p y)
    | XH -> y

  (** val compare_cont : comparison -> positive -> positive -> comparison **)

  let rec compare_cont r x y =
    match x with
    | XI p ->
      (match y with
       | XI q -> compare_cont r p q
       | XO q -> compare_cont Gt p q
       | XH -> Gt)
    | XO p ->
      (match y with
       | XI q -> compare_cont Lt p q
       | XO q -> compare_cont r p q
       | XH -> Gt)
    | XH -> (match y with
             | XH -> r
             | _ -> Lt)

  (** val compare : positive -> positive -> comparison **)

  let compare =
    compare_cont Eq

  (** val eqb : positive -> positive -> bool **)

  let rec eqb p q =
    match p with
    | XI p0 -> (match q with
                | XI q0 -> eqb p0 q0
                | _ -> false)
    | XO p0 -> (match q with
                | XO q0 -> eqb p0 q0
                | _ -> false)
    | XH -> (match q with
             | XH -> true
             | _ -> false)

  (** val coq_Nsucc_double : n -> n **)

  let coq_Nsucc_double = function
  | N0 -> Npos XH
  | Npos p -> Npos (XI p)

  (** val coq_Ndouble : n -> n **)

  let coq_Ndouble = function
  | N0 -> N0
  | Npos p -> Npos (XO p)

  (** val coq_lor : positive -> positive -> positive **)

  let rec coq_lor p q =
    match p with
    | XI p0 ->
      (match q with
       | XI q0 -> XI (coq_lor p0 q0)
       | XO q0 -> XI (coq_lor p0 q0)
       | XH -> p)
    | XO p0 ->
      (match q with
       | XI q0 -> XI (coq_lor p0 q0)
       | XO q0 -> XO (coq_lor p0 q0)
       | XH -> XI p0)
    | XH -> (match q with
             | XO q0 -> XI q0
             | _ -> q)

  (** val coq_land : positive -> positive -> n **)

  let rec coq_land p q =
    match p with
    | XI p0 ->
      (match q with
       | XI q0 -> coq_Nsucc_double (coq_land p0 q0)
       | XO q0 -> coq_Ndouble (coq_land p0 q0)
       | XH -> Npos XH)
    | XO p0 ->
      (match q with
       | XI q0 -> coq_Ndouble (coq_land p0 q0)
       | XO q0 -> coq_Ndouble (coq_land p0 q0)
       | XH -> N0)
    | XH -> (match q with
             | XO _ -> N0
             | _ -> Npos XH)

  (** val ldiff : positive -> positive -> n **)

  let rec ldiff p q =
    match p with
    | XI p0 ->
      (match q with
       | XI q0 -> coq_Ndouble (ldiff p0 q0)
       | XO q0 -> coq_Nsucc_double (ldiff p0 q0)
       | XH -> Npos (XO p0))
    | XO p0 ->
      (match q with
       | XI q0 -> coq_Ndouble (ldiff p0 q0)
       | XO q0 -> coq_Ndouble (ldiff p0 q0)
       | XH -> Npos p)
    | XH -> (match q with
             | XO _ -> Npos XH
             | _ -> N0)

  (** val of_succ_nat : nat -> positive **)

  let rec of_succ_nat = function
  | O -> XH
  | S x -> succ (of_succ_nat x)
 end

module N =
 struct
  (** val succ_pos : n -> positive **)

  let succ_pos = function
  | N0 -> XH
  | Npos p -> Pos.succ p

  (** val add : n -> n -> n **)

  let add n0 m =
    match n0 with
    | N0 -> m
    | Npos p -> (match m with
                 | N0 -> n0
                 | Npos q -> Npos (Pos.add p q))

  (** val mul : n -> n -> n **)

  let mul n0 m =
    match n0 with
    | N0 -> N0
    | Npos p -> (match m with
                 | N0 -> N0
                 | Npos q -> Npos (Pos.mul p q))

  (** val compare : n -> n -> comparison **)

  let compare n0 m =
    match n0 with
    | N0 -> (match m with
             | N0 -> Eq
             | Npos _ -> Lt)
    | Npos n' -> (match m with
                  | N0 -> Gt
                  | Npos m' -> Pos.compare n' m')

  (** val eqb : n -> n -> bool **)

  let eqb n0 m =
    match n0 with
    | N0 -> (match m with
             | N0 -> true
             | Npos _ -> false)
    | Npos p -> (match m with
                 | N0 -> false
                 | Npos q -> Pos.eqb p q)

  (** val ltb : n -> n -> bool **)

  let ltb x y =
    match compare x y with
    | Lt -> true
    | _ -> false

  (** val coq_lor : n -> n -> n **)

  let coq_lor n0 m =
    match n0 with
    | N0 -> m
    | Npos p -> (match m with
                 | N0 -> n0
                 | Npos q -> Npos (Pos.coq_lor p q))

  (** val ldiff : n -> n -> n **)

  let ldiff n0 m =
    match n0 with
    | N0 -> N0
    | Npos p -> (match m with
                 | N0 -> n0
                 | Npos q -> Pos.ldiff p q)
 end

(** val rev : 'a1 list -> 'a1 list **)

let rec rev = function
| [] -> []
| x :: l' -> app (rev l') (x :: [])

(** val concat : 'a1 list list -> 'a1 list **)

let rec concat = function
| [] -> []
| x :: l0 -> app x (concat l0)

(** val map : ('a1 -> 'a2) -> 'a1 list -> 'a2 list **)

let rec map f = function
| [] -> []
| a :: t -> (f a) :: (map f t)

(** val flat_map : ('a1 -> 'a2 list) -> 'a1 list -> 'a2 list **)

let rec flat_map f = function
| [] -> []
| x :: t -> app (f x) (flat_map f t)

(** val existsb : ('a1 -> bool) -> 'a1 list -> bool **)

let rec existsb f = function
| [] -> false
| a :: l0 -> (||) (f a) (existsb f l0)

type ascii =
| Ascii of bool * bool * bool * bool * bool * bool * bool * bool

(** val n_of_digits : bool list -> n **)

let rec n_of_digits = function
| [] -> N0
| b :: l' ->
  N.add (if b then Npos XH else N0) (N.mul (Npos (XO XH)) (n_of_digits l'))

(** val n_of_ascii : ascii -> n **)

let n_of_ascii = function
| Ascii (a0, a1, a2, a3, a4, a5, a6, a7) ->
  n_of_digits
    (a0 :: (a1 :: (a2 :: (a3 :: (a4 :: (a5 :: (a6 :: (a7 :: []))))))))

module Z =
 struct
  (** val double : z -> z **)

  let double = function
  | Z0 -> Z0
  | Zpos p -> Zpos (XO p)
  | Zneg p -> Zneg (XO p)

  (** val succ_double : z -> z **)

  let succ_double = function
  | Z0 -> Zpos XH
  | Zpos p -> Zpos (XI p)
  | Zneg p -> Zneg (Pos.pred_double p)

  (** val pred_double : z -> z **)

  let pred_double = function
  | Z0 -> Zneg XH
  | Zpos p -> Zpos (Pos.pred_double p)
  | Zneg p -> Zneg (XI p)

  (** val pos_sub : positive -> positive -> z **)

  let rec pos_sub x y =
    match x with
    | XI p ->
      (match y with
       | XI q -> double (pos_sub p q)
       | XO q -> succ_double (pos_sub p q)
       | XH -> Zpos (XO p))
    | XO p ->
      (match y with
       | XI q -> pred_double (pos_sub p q)
       | XO q -> double (pos_sub p q)
       | XH -> Zpos (Pos.pred_double p))
    | XH ->
      (match y with
       | XI q -> Zneg (XO q)
       | XO q -> Zneg (Pos.pred_double q)
       | XH -> Z0)

  (** val add : z -> z -> z **)

  let add x y =
    match x with
    | Z0 -> y
    | Zpos x' ->
      (match y with
       | Z0 -> x
       | Zpos y' -> Zpos (Pos.add x' y')
       | Zneg y' -> pos_sub x' y')
    | Zneg x' ->
      (match y with
       | Z0 -> x
       | Zpos y' -> pos_sub y' x'
       | Zneg y' -> Zneg (Pos.add x' y'))

  (** val opp : z -> z **)

  let opp = function
  | Z0 -> Z0
  | Zpos x0 -> Zneg x0
  | Zneg x0 -> Zpos x0

  (** val sub : z -> z -> z **)

  let sub m n0 =
    add m (opp n0)

  (** val mul : z -> z -> z **)

  let mul x y =
    match x with
    | Z0 -> Z0
    | Zpos x' ->
      (match y with
       | Z0 -> Z0
       | Zpos y' -> Zpos (Pos.mul x' y')
       | Zneg y' -> Zneg (Pos.mul x' y'))
    | Zneg x' ->
      (match y with
       | Z0 -> Z0
       | Zpos y' -> Zneg (Pos.mul x' y')
       | Zneg y' -> Zpos (Pos.mul x' y'))

  (** val compare : z -> z -> comparison **)

  let compare x y =
    match x with
    | Z0 -> (match y with
             | Z0 -> Eq
             | Zpos _ -> Lt
             | Zneg _ -> Gt)
    | Zpos x' -> (match y with
                  | Zpos y' -> Pos.compare x' y'
                  | _ -> Gt)
    | Zneg x' ->
      (match y with
       | Zneg y' -> compOpp (Pos.compare x' y')
       | _ -> Lt)

  (** val leb : z -> z -> bool **)

  let leb x y =
    match compare x y with
    | Gt -> false
    | _ -> true

  (** val ltb : z -> z -> bool **)

  let ltb x y =
    match compare x y with
    | Lt -> true
    | _ -> false

  (** val eqb : z -> z -> bool **)

  let eqb x y =
    match x with
    | Z0 -> (match y with
             | Z0 -> true
             | _ -> false)
    | Zpos p -> (match y with
                 | Zpos q -> Pos.eqb p q
                 | _ -> false)
    | Zneg p -> (match y with
                 | Zneg q -> Pos.eqb p q
                 | _ -> false)

  (** val of_nat : nat -> z **)

  let of_nat = function
  | O -> Z0
  | S n1 -> Zpos (Pos.of_succ_nat n1)

  (** val of_N : n -> z **)

  let of_N = function
  | N0 -> Z0
  | Npos p -> Zpos p

  (** val pos_div_eucl : positive -> z -> z * z **)

  let rec pos_div_eucl a b =
    match a with
    | XI a' ->
      let (q, r) = pos_div_eucl a' b in
      let r' = add (mul (Zpos (XO XH)) r) (Zpos XH) in
      if ltb r' b
      then ((mul (Zpos (XO XH)) q), r')
      else ((add (mul (Zpos (XO XH)) q) (Zpos XH)), (sub r' b))
    | XO a' ->
      let (q, r) = pos_div_eucl a' b in
      let r' = mul (Zpos (XO XH)) r in
      if ltb r' b
      then ((mul (Zpos (XO XH)) q), r')
      else ((add (mul (Zpos (XO XH)) q) (Zpos XH)), (sub r' b))
    | XH -> if leb (Zpos (XO XH)) b then (Z0, (Zpos XH)) else ((Zpos XH), Z0)

  (** val div_eucl : z -> z -> z * z **)

  let div_eucl a b =
    match a with
    | Z0 -> (Z0, Z0)
    | Zpos a' ->
      (match b with
       | Z0 -> (Z0, a)
       | Zpos _ -> pos_div_eucl a' b
       | Zneg b' ->
         let (q, r) = pos_div_eucl a' (Zpos b') in
         (match r with
          | Z0 -> ((opp q), Z0)
          | _ -> ((opp (add q (Zpos XH))), (add b r))))
    | Zneg a' ->
      (match b with
       | Z0 -> (Z0, a)
       | Zpos _ ->
         let (q, r) = pos_div_eucl a' b in
         (match r with
          | Z0 -> ((opp q), Z0)
          | _ -> ((opp (add q (Zpos XH))), (sub b r)))
       | Zneg b' -> let (q, r) = pos_div_eucl a' (Zpos b') in (q, (opp r)))

  (** val modulo : z -> z -> z **)

  let modulo a b =
    let (_, r) = div_eucl a b in r

  (** val coq_land : z -> z -> z **)

  let coq_land a b =
    match a with
    | Z0 -> Z0
    | Zpos a0 ->
      (match b with
       | Z0 -> Z0
       | Zpos b0 -> of_N (Pos.coq_land a0 b0)
       | Zneg b0 -> of_N (N.ldiff (Npos a0) (Pos.pred_N b0)))
    | Zneg a0 ->
      (match b with
       | Z0 -> Z0
       | Zpos b0 -> of_N (N.ldiff (Npos b0) (Pos.pred_N a0))
       | Zneg b0 ->
         Zneg (N.succ_pos (N.coq_lor (Pos.pred_N a0) (Pos.pred_N b0))))
 end

type string =
| EmptyString
| String of ascii * string

(** val list_ascii_of_string : string -> ascii list **)

let rec list_ascii_of_string = function
| EmptyString -> []
| String (ch0, s0) -> ch0 :: (list_ascii_of_string s0)

type ch = n

type str = n list

(** val s_ : string -> str **)

let s_ s =
  map n_of_ascii (list_ascii_of_string s)

(** val str_eqb : str -> str -> bool **)

let rec str_eqb a b =
  match a with
  | [] -> (match b with
           | [] -> true
           | _ :: _ -> false)
  | x :: a' ->
    (match b with
     | [] -> false
     | y :: b' -> (&&) (N.eqb x y) (str_eqb a' b'))

(** val ch_in : ch -> str -> bool **)

let ch_in c l =
  existsb (N.eqb c) l

(** val starts_with : str -> str -> bool **)

let rec starts_with p s =
  match p with
  | [] -> true
  | x :: p' ->
    (match s with
     | [] -> false
     | y :: s' -> (&&) (N.eqb x y) (starts_with p' s'))

(** val drop : nat -> str -> str **)

let rec drop n0 s =
  match n0 with
  | O -> s
  | S n' -> (match s with
             | [] -> []
             | _ :: s' -> drop n' s')

(** val replace_go : str -> str -> nat -> str -> str **)

let rec replace_go old new0 skip s = match s with
| [] -> []
| c :: s' ->
  (match skip with
   | O ->
     if starts_with old s
     then app new0 (replace_go old new0 (pred (length old)) s')
     else c :: (replace_go old new0 O s')
   | S k -> replace_go old new0 k s')

(** val replace_all : str -> str -> str -> str **)

let replace_all old new0 s =
  match old with
  | [] -> s
  | _ :: _ -> replace_go old new0 O s

(** val format_go : nat -> str -> str -> str -> str **)

let rec format_go fuel pos sep t =
  match fuel with
  | O -> t
  | S f ->
    (match t with
     | [] -> []
     | c :: t' ->
       (match c with
        | N0 -> c :: (format_go f pos sep t')
        | Npos p ->
          (match p with
           | XI p0 ->
             (match p0 with
              | XI p1 ->
                (match p1 with
                 | XO p2 ->
                   (match p2 with
                    | XI p3 ->
                      (match p3 with
                       | XI p4 ->
                         (match p4 with
                          | XI p5 ->
                            (match p5 with
                             | XH ->
                               (match t' with
                                | [] -> c :: (format_go f pos sep t')
                                | n0 :: t'0 ->
                                  (match n0 with
                                   | N0 -> c :: (format_go f pos sep t')
                                   | Npos p6 ->
                                     (match p6 with
                                      | XI p7 ->
                                        (match p7 with
                                         | XI p8 ->
                                           (match p8 with
                                            | XO p9 ->
                                              (match p9 with
                                               | XI p10 ->
                                                 (match p10 with
                                                  | XI p11 ->
                                                    (match p11 with
                                                     | XI p12 ->
                                                       (match p12 with
                                                        | XH ->
                                                          (Npos (XI (XI (XO
                                                            (XI (XI (XI
                                                            XH))))))) :: 
                                                            (format_go f pos
                                                              sep t'0)
                                                        | _ ->
                                                          c :: (format_go f
                                                                 pos sep t'))
                                                     | _ ->
                                                       c :: (format_go f pos
                                                              sep t'))
                                                  | _ ->
                                                    c :: (format_go f pos sep
                                                           t'))
                                               | XO p10 ->
                                                 (match p10 with
                                                  | XI p11 ->
                                                    (match p11 with
                                                     | XI p12 ->
                                                       (match p12 with
                                                        | XH ->
                                                          (match t'0 with
                                                           | [] ->
                                                             c :: (format_go
                                                                    f pos sep
                                                                    t')
                                                           | n1 :: l ->
                                                             (match n1 with
                                                              | N0 ->
                                                                c :: 
                                                                  (format_go
                                                                    f pos sep
                                                                    t')
                                                              | Npos p13 ->
                                                                (match p13 with
                                                                 | XI p14 ->
                                                                   (match p14 with
                                                                    | XO p15 ->
                                                                    (match p15 with
                                                                    | XI p16 ->
                                                                    (match p16 with
                                                                    | XO p17 ->
                                                                    (match p17 with
                                                                    | XO p18 ->
                                                                    (match p18 with
                                                                    | XI p19 ->
                                                                    (match p19 with
                                                                    | XH ->
                                                                    (match l with
                                                                    | [] ->
                                                                    c :: 
                                                                    (format_go
                                                                    f pos sep
                                                                    t')
                                                                    | n2 :: l0 ->
                                                                    (match n2 with
                                                                    | N0 ->
                                                                    c :: 
                                                                    (format_go
                                                                    f pos sep
                                                                    t')
                                                                    | Npos p20 ->
                                                                    (match p20 with
                                                                    | XO p21 ->
                                                                    (match p21 with
                                                                    | XO p22 ->
                                                                    (match p22 with
                                                                    | XO p23 ->
                                                                    (match p23 with
                                                                    | XO p24 ->
                                                                    (match p24 with
                                                                    | XI p25 ->
                                                                    (match p25 with
                                                                    | XI p26 ->
                                                                    (match p26 with
                                                                    | XH ->
                                                                    (match l0 with
                                                                    | [] ->
                                                                    c :: 
                                                                    (format_go
                                                                    f pos sep
                                                                    t')
                                                                    | n3 :: t'1 ->
                                                                    (match n3 with
                                                                    | N0 ->
                                                                    c :: 
                                                                    (format_go
                                                                    f pos sep
                                                                    t')
                                                                    | Npos p27 ->
                                                                    (match p27 with
                                                                    | XI p28 ->
                                                                    (match p28 with
                                                                    | XO p29 ->
                                                                    (match p29 with
                                                                    | XI p30 ->
                                                                    (match p30 with
                                                                    | XI p31 ->
                                                                    (match p31 with
                                                                    | XI p32 ->
                                                                    (match p32 with
                                                                    | XI p33 ->
                                                                    (match p33 with
                                                                    | XH ->
                                                                    app sep
                                                                    (format_go
                                                                    f pos sep
                                                                    t'1)
                                                                    | _ ->
                                                                    c :: 
                                                                    (format_go
                                                                    f pos sep
                                                                    t'))
                                                                    | _ ->
                                                                    c :: 
                                                                    (format_go
                                                                    f pos sep
                                                                    t'))
                                                                    | _ ->
                                                                    c :: 
                                                                    (format_go
                                                                    f pos sep
                                                                    t'))
                                                                    | _ ->
                                                                    c :: 
                                                                    (format_go
                                                                    f pos sep
                                                                    t'))
                                                                    | _ ->
                                                                    c :: 
                                                                    (format_go
                                                                    f pos sep
                                                                    t'))
                                                                    | _ ->
                                                                    c :: 
                                                                    (format_go
                                                                    f pos sep
                                                                    t'))
                                                                    | _ ->
                                                                    c :: 
                                                                    (format_go
                                                                    f pos sep
                                                                    t'))))
                                                                    | _ ->
                                                                    c :: 
                                                                    (format_go
                                                                    f pos sep
                                                                    t'))
                                                                    | _ ->
                                                                    c :: 
                                                                    (format_go
                                                                    f pos sep
                                                                    t'))
                                                                    | _ ->
                                                                    c :: 
                                                                    (format_go
                                                                    f pos sep
                                                                    t'))
                                                                    | _ ->
                                                                    c :: 
                                                                    (format_go
                                                                    f pos sep
                                                                    t'))
                                                                    | _ ->
                                                                    c :: 
                                                                    (format_go
                                                                    f pos sep
                                                                    t'))
                                                                    | _ ->
                                                                    c :: 
                                                                    (format_go
                                                                    f pos sep
                                                                    t'))
                                                                    | _ ->
                                                                    c :: 
                                                                    (format_go
                                                                    f pos sep
                                                                    t'))))
                                                                    | _ ->
                                                                    c :: 
                                                                    (format_go
                                                                    f pos sep
                                                                    t'))
                                                                    | _ ->
                                                                    c :: 
                                                                    (format_go
                                                                    f pos sep
                                                                    t'))
                                                                    | _ ->
                                                                    c :: 
                                                                    (format_go
                                                                    f pos sep
                                                                    t'))
                                                                    | _ ->
                                                                    c :: 
                                                                    (format_go
                                                                    f pos sep
                                                                    t'))
                                                                    | _ ->
                                                                    c :: 
                                                                    (format_go
                                                                    f pos sep
                                                                    t'))
                                                                    | _ ->
                                                                    c :: 
                                                                    (format_go
                                                                    f pos sep
                                                                    t'))
                                                                 | _ ->
                                                                   c :: 
                                                                    (format_go
                                                                    f pos sep
                                                                    t'))))
                                                        | _ ->
                                                          c :: (format_go f
                                                                 pos sep t'))
                                                     | _ ->
                                                       c :: (format_go f pos
                                                              sep t'))
                                                  | _ ->
                                                    c :: (format_go f pos sep
                                                           t'))
                                               | XH ->
                                                 c :: (format_go f pos sep t'))
                                            | _ ->
                                              c :: (format_go f pos sep t'))
                                         | XO p8 ->
                                           (match p8 with
                                            | XI p9 ->
                                              (match p9 with
                                               | XI p10 ->
                                                 (match p10 with
                                                  | XI p11 ->
                                                    (match p11 with
                                                     | XI p12 ->
                                                       (match p12 with
                                                        | XH ->
                                                          app pos
                                                            (format_go f pos
                                                              sep t'0)
                                                        | _ ->
                                                          c :: (format_go f
                                                                 pos sep t'))
                                                     | _ ->
                                                       c :: (format_go f pos
                                                              sep t'))
                                                  | _ ->
                                                    c :: (format_go f pos sep
                                                           t'))
                                               | _ ->
                                                 c :: (format_go f pos sep t'))
                                            | _ ->
                                              c :: (format_go f pos sep t'))
                                         | XH -> c :: (format_go f pos sep t'))
                                      | _ -> c :: (format_go f pos sep t'))))
                             | _ -> c :: (format_go f pos sep t'))
                          | _ -> c :: (format_go f pos sep t'))
                       | _ -> c :: (format_go f pos sep t'))
                    | _ -> c :: (format_go f pos sep t'))
                 | _ -> c :: (format_go f pos sep t'))
              | XO p1 ->
                (match p1 with
                 | XI p2 ->
                   (match p2 with
                    | XI p3 ->
                      (match p3 with
                       | XI p4 ->
                         (match p4 with
                          | XI p5 ->
                            (match p5 with
                             | XH ->
                               (match t' with
                                | [] -> c :: (format_go f pos sep t')
                                | n0 :: t'0 ->
                                  (match n0 with
                                   | N0 -> c :: (format_go f pos sep t')
                                   | Npos p6 ->
                                     (match p6 with
                                      | XI p7 ->
                                        (match p7 with
                                         | XO p8 ->
                                           (match p8 with
                                            | XI p9 ->
                                              (match p9 with
                                               | XI p10 ->
                                                 (match p10 with
                                                  | XI p11 ->
                                                    (match p11 with
                                                     | XI p12 ->
                                                       (match p12 with
                                                        | XH ->
                                                          (Npos (XI (XO (XI
                                                            (XI (XI (XI
                                                            XH))))))) :: 
                                                            (format_go f pos
                                                              sep t'0)
                                                        | _ ->
                                                          c :: (format_go f
                                                                 pos sep t'))
                                                     | _ ->
                                                       c :: (format_go f pos
                                                              sep t'))
                                                  | _ ->
                                                    c :: (format_go f pos sep
                                                           t'))
                                               | _ ->
                                                 c :: (format_go f pos sep t'))
                                            | _ ->
                                              c :: (format_go f pos sep t'))
                                         | _ -> c :: (format_go f pos sep t'))
                                      | _ -> c :: (format_go f pos sep t'))))
                             | _ -> c :: (format_go f pos sep t'))
                          | _ -> c :: (format_go f pos sep t'))
                       | _ -> c :: (format_go f pos sep t'))
                    | _ -> c :: (format_go f pos sep t'))
                 | _ -> c :: (format_go f pos sep t'))
              | XH -> c :: (format_go f pos sep t'))
           | _ -> c :: (format_go f pos sep t'))))

(** val format : str -> str -> str -> str **)

let format t pos sep =
  format_go (length t) pos sep t

module Mwcparse =
 struct
  (** val coq_PATHNAME : z **)

  let coq_PATHNAME =
    Zpos (XO (XO (XO (XO (XO XH)))))

  (** val coq_DOTMATCH : z **)

  let coq_DOTMATCH =
    Zpos (XO (XO (XO (XO (XO (XO XH))))))

  (** val coq_EXTMATCH : z **)

  let coq_EXTMATCH =
    Zpos (XO (XO (XO (XO (XO (XO (XO XH)))))))

  (** val coq_GLOBSTAR : z **)

  let coq_GLOBSTAR =
    Zpos (XO (XO (XO (XO (XO (XO (XO (XO XH))))))))

  (** val coq_REALPATH : z **)

  let coq_REALPATH =
    Zpos (XO (XO (XO (XO (XO (XO (XO (XO (XO (XO XH))))))))))

  (** val coq_FOLLOW : z **)

  let coq_FOLLOW =
    Zpos (XO (XO (XO (XO (XO (XO (XO (XO (XO (XO (XO XH)))))))))))

  (** val coq_MATCHBASE : z **)

  let coq_MATCHBASE =
    Zpos (XO (XO (XO (XO (XO (XO (XO (XO (XO (XO (XO (XO (XO XH)))))))))))))

  (** val coq_NODOTDIR : z **)

  let coq_NODOTDIR =
    Zpos (XO (XO (XO (XO (XO (XO (XO (XO (XO (XO (XO (XO (XO (XO (XO (XO (XO
      (XO (XO (XO XH))))))))))))))))))))

  (** val coq_GLOBSTARLONG : z **)

  let coq_GLOBSTARLONG =
    Zpos (XO (XO (XO (XO (XO (XO (XO (XO (XO (XO (XO (XO (XO (XO (XO (XO (XO
      (XO (XO (XO (XO XH)))))))))))))))))))))

  (** val u_TRANSLATE : z **)

  let u_TRANSLATE =
    Zpos (XO (XO (XO (XO (XO (XO (XO (XO (XO (XO (XO (XO (XO (XO (XO (XO (XO
      (XO (XO (XO (XO (XO (XO (XO (XO (XO (XO (XO (XO (XO (XO (XO
      XH))))))))))))))))))))))))))))))))

  (** val u_ANCHOR : z **)

  let u_ANCHOR =
    Zpos (XO (XO (XO (XO (XO (XO (XO (XO (XO (XO (XO (XO (XO (XO (XO (XO (XO
      (XO (XO (XO (XO (XO (XO (XO (XO (XO (XO (XO (XO (XO (XO (XO (XO
      XH)))))))))))))))))))))))))))))))))

  (** val u_EXTMATCHBASE : z **)

  let u_EXTMATCHBASE =
    Zpos (XO (XO (XO (XO (XO (XO (XO (XO (XO (XO (XO (XO (XO (XO (XO (XO (XO
      (XO (XO (XO (XO (XO (XO (XO (XO (XO (XO (XO (XO (XO (XO (XO (XO (XO
      XH))))))))))))))))))))))))))))))))))

  (** val u_NOABSOLUTE : z **)

  let u_NOABSOLUTE =
    Zpos (XO (XO (XO (XO (XO (XO (XO (XO (XO (XO (XO (XO (XO (XO (XO (XO (XO
      (XO (XO (XO (XO (XO (XO (XO (XO (XO (XO (XO (XO (XO (XO (XO (XO (XO (XO
      XH)))))))))))))))))))))))))))))))))))

  (** val u_NO_GLOBSTAR_CAPTURE : z **)

  let u_NO_GLOBSTAR_CAPTURE =
    Zpos (XO (XO (XO (XO (XO (XO (XO (XO (XO (XO (XO (XO (XO (XO (XO (XO (XO
      (XO (XO (XO (XO (XO (XO (XO (XO (XO (XO (XO (XO (XO (XO (XO (XO (XO (XO
      (XO XH))))))))))))))))))))))))))))))))))))
 end

module Frag =
 struct
  (** val u_QMARK : n list **)

  let u_QMARK =
    (Npos (XO (XI (XI (XI (XO XH)))))) :: []

  (** val u_STAR : n list **)

  let u_STAR =
    (Npos (XO (XI (XI (XI (XO XH)))))) :: ((Npos (XO (XI (XO (XI (XO
      XH)))))) :: ((Npos (XI (XI (XI (XI (XI XH)))))) :: []))

  (** val u_PATH_TRAIL : n list **)

  let u_PATH_TRAIL =
    (Npos (XI (XI (XO (XI (XI (XI XH))))))) :: ((Npos (XI (XO (XI (XI (XI (XI
      XH))))))) :: ((Npos (XO (XI (XO (XI (XO XH)))))) :: ((Npos (XI (XI (XI
      (XI (XI XH)))))) :: [])))

  (** val u_NO_DIR : n list **)

  let u_NO_DIR =
    (Npos (XO (XO (XO (XI (XO XH)))))) :: ((Npos (XI (XI (XI (XI (XI
      XH)))))) :: ((Npos (XI (XO (XO (XO (XO XH)))))) :: ((Npos (XO (XO (XO
      (XI (XO XH)))))) :: ((Npos (XI (XI (XI (XI (XI XH)))))) :: ((Npos (XO
      (XI (XO (XI (XI XH)))))) :: ((Npos (XO (XO (XI (XI (XI (XO
      XH))))))) :: ((Npos (XO (XI (XI (XI (XO XH)))))) :: ((Npos (XI (XI (XO
      (XI (XI (XI XH))))))) :: ((Npos (XI (XI (XO (XI (XI (XI
      XH))))))) :: ((Npos (XI (XO (XO (XO (XI XH)))))) :: ((Npos (XO (XO (XI
      (XI (XO XH)))))) :: ((Npos (XO (XI (XO (XO (XI XH)))))) :: ((Npos (XI
      (XO (XI (XI (XI (XI XH))))))) :: ((Npos (XI (XO (XI (XI (XI (XI
      XH))))))) :: ((Npos (XI (XO (XO (XI (XO XH)))))) :: ((Npos (XO (XO (XO
      (XI (XO XH)))))) :: ((Npos (XI (XI (XI (XI (XI XH)))))) :: ((Npos (XO
      (XI (XO (XI (XI XH)))))) :: ((Npos (XO (XO (XI (XO (XO
      XH)))))) :: ((Npos (XO (XO (XI (XI (XI (XI XH))))))) :: ((Npos (XI (XI
      (XO (XI (XI (XO XH))))))) :: ((Npos (XI (XI (XO (XI (XI (XI
      XH))))))) :: ((Npos (XI (XI (XO (XO (XI (XI XH))))))) :: ((Npos (XI (XO
      (XI (XO (XO (XI XH))))))) :: ((Npos (XO (XO (XO (XO (XI (XI
      XH))))))) :: ((Npos (XI (XO (XI (XI (XI (XI XH))))))) :: ((Npos (XI (XO
      (XI (XI (XI (XO XH))))))) :: ((Npos (XI (XO (XO (XI (XO
      XH)))))) :: ((Npos (XI (XO (XO (XI (XO
      XH)))))) :: [])))))))))))))))))))))))))))))

  (** val u_PATH_STAR : n list **)

  let u_PATH_STAR =
    (Npos (XI (XI (XO (XI (XI (XO XH))))))) :: ((Npos (XO (XI (XI (XI (XI (XO
      XH))))))) :: ((Npos (XI (XI (XO (XI (XI (XI XH))))))) :: ((Npos (XI (XI
      (XO (XO (XI (XI XH))))))) :: ((Npos (XI (XO (XI (XO (XO (XI
      XH))))))) :: ((Npos (XO (XO (XO (XO (XI (XI XH))))))) :: ((Npos (XI (XO
      (XI (XI (XI (XI XH))))))) :: ((Npos (XI (XO (XI (XI (XI (XO
      XH))))))) :: ((Npos (XO (XI (XO (XI (XO XH)))))) :: ((Npos (XI (XI (XI
      (XI (XI XH)))))) :: [])))))))))

  (** val u_PATH_STAR_DOTMATCH : n list **)

  let u_PATH_STAR_DOTMATCH =
    (Npos (XO (XO (XO (XI (XO XH)))))) :: ((Npos (XI (XI (XI (XI (XI
      XH)))))) :: ((Npos (XI (XO (XO (XO (XO XH)))))) :: ((Npos (XO (XO (XO
      (XI (XO XH)))))) :: ((Npos (XI (XI (XI (XI (XI XH)))))) :: ((Npos (XO
      (XI (XO (XI (XI XH)))))) :: ((Npos (XO (XO (XI (XI (XI (XO
      XH))))))) :: ((Npos (XO (XI (XI (XI (XO XH)))))) :: ((Npos (XI (XI (XO
      (XI (XI (XI XH))))))) :: ((Npos (XI (XI (XO (XI (XI (XI
      XH))))))) :: ((Npos (XI (XO (XO (XO (XI XH)))))) :: ((Npos (XO (XO (XI
      (XI (XO XH)))))) :: ((Npos (XO (XI (XO (XO (XI XH)))))) :: ((Npos (XI
      (XO (XI (XI (XI (XI XH))))))) :: ((Npos (XI (XO (XI (XI (XI (XI
      XH))))))) :: ((Npos (XI (XO (XO (XI (XO XH)))))) :: ((Npos (XO (XO (XO
      (XI (XO XH)))))) :: ((Npos (XI (XI (XI (XI (XI XH)))))) :: ((Npos (XO
      (XI (XO (XI (XI XH)))))) :: ((Npos (XO (XO (XI (XO (XO
      XH)))))) :: ((Npos (XO (XO (XI (XI (XI (XI XH))))))) :: ((Npos (XI (XI
      (XO (XI (XI (XO XH))))))) :: ((Npos (XI (XI (XO (XI (XI (XI
      XH))))))) :: ((Npos (XI (XI (XO (XO (XI (XI XH))))))) :: ((Npos (XI (XO
      (XI (XO (XO (XI XH))))))) :: ((Npos (XO (XO (XO (XO (XI (XI
      XH))))))) :: ((Npos (XI (XO (XI (XI (XI (XI XH))))))) :: ((Npos (XI (XO
      (XI (XI (XI (XO XH))))))) :: ((Npos (XI (XO (XO (XI (XO
      XH)))))) :: ((Npos (XI (XO (XO (XI (XO XH)))))) :: ((Npos (XI (XI (XO
      (XI (XI (XO XH))))))) :: ((Npos (XO (XI (XI (XI (XI (XO
      XH))))))) :: ((Npos (XI (XI (XO (XI (XI (XI XH))))))) :: ((Npos (XI (XI
      (XO (XO (XI (XI XH))))))) :: ((Npos (XI (XO (XI (XO (XO (XI
      XH))))))) :: ((Npos (XO (XO (XO (XO (XI (XI XH))))))) :: ((Npos (XI (XO
      (XI (XI (XI (XI XH))))))) :: ((Npos (XI (XO (XI (XI (XI (XO
      XH))))))) :: ((Npos (XO (XI (XO (XI (XO XH)))))) :: ((Npos (XI (XI (XI
      (XI (XI XH)))))) :: [])))))))))))))))))))))))))))))))))))))))

  (** val u_PATH_STAR_NO_DOTMATCH : n list **)

  let u_PATH_STAR_NO_DOTMATCH =
    (Npos (XO (XO (XO (XI (XO XH)))))) :: ((Npos (XI (XI (XI (XI (XI
      XH)))))) :: ((Npos (XI (XO (XO (XO (XO XH)))))) :: ((Npos (XO (XO (XO
      (XI (XO XH)))))) :: ((Npos (XI (XI (XI (XI (XI XH)))))) :: ((Npos (XO
      (XI (XO (XI (XI XH)))))) :: ((Npos (XO (XO (XI (XI (XI (XO
      XH))))))) :: ((Npos (XO (XI (XI (XI (XO XH)))))) :: ((Npos (XI (XI (XO
      (XI (XI (XI XH))))))) :: ((Npos (XI (XI (XO (XI (XI (XI
      XH))))))) :: ((Npos (XI (XO (XO (XO (XI XH)))))) :: ((Npos (XO (XO (XI
      (XI (XO XH)))))) :: ((Npos (XO (XI (XO (XO (XI XH)))))) :: ((Npos (XI
      (XO (XI (XI (XI (XI XH))))))) :: ((Npos (XI (XO (XI (XI (XI (XI
      XH))))))) :: ((Npos (XI (XO (XO (XI (XO XH)))))) :: ((Npos (XO (XO (XO
      (XI (XO XH)))))) :: ((Npos (XI (XI (XI (XI (XI XH)))))) :: ((Npos (XO
      (XI (XO (XI (XI XH)))))) :: ((Npos (XO (XO (XI (XO (XO
      XH)))))) :: ((Npos (XO (XO (XI (XI (XI (XI XH))))))) :: ((Npos (XI (XI
      (XO (XI (XI (XO XH))))))) :: ((Npos (XI (XI (XO (XI (XI (XI
      XH))))))) :: ((Npos (XI (XI (XO (XO (XI (XI XH))))))) :: ((Npos (XI (XO
      (XI (XO (XO (XI XH))))))) :: ((Npos (XO (XO (XO (XO (XI (XI
      XH))))))) :: ((Npos (XI (XO (XI (XI (XI (XI XH))))))) :: ((Npos (XI (XO
      (XI (XI (XI (XO XH))))))) :: ((Npos (XI (XO (XO (XI (XO
      XH)))))) :: ((Npos (XI (XO (XO (XI (XO XH)))))) :: ((Npos (XO (XO (XO
      (XI (XO XH)))))) :: ((Npos (XI (XI (XI (XI (XI XH)))))) :: ((Npos (XO
      (XI (XO (XI (XI XH)))))) :: ((Npos (XO (XO (XO (XI (XO
      XH)))))) :: ((Npos (XI (XI (XI (XI (XI XH)))))) :: ((Npos (XI (XO (XO
      (XO (XO XH)))))) :: ((Npos (XO (XO (XI (XI (XI (XO XH))))))) :: ((Npos
      (XO (XI (XI (XI (XO XH)))))) :: ((Npos (XI (XO (XO (XI (XO
      XH)))))) :: ((Npos (XI (XI (XO (XI (XI (XO XH))))))) :: ((Npos (XO (XI
      (XI (XI (XI (XO XH))))))) :: ((Npos (XI (XI (XO (XI (XI (XI
      XH))))))) :: ((Npos (XI (XI (XO (XO (XI (XI XH))))))) :: ((Npos (XI (XO
      (XI (XO (XO (XI XH))))))) :: ((Npos (XO (XO (XO (XO (XI (XI
      XH))))))) :: ((Npos (XI (XO (XI (XI (XI (XI XH))))))) :: ((Npos (XI (XO
      (XI (XI (XI (XO XH))))))) :: ((Npos (XO (XI (XO (XI (XO
      XH)))))) :: ((Npos (XI (XI (XI (XI (XI XH)))))) :: ((Npos (XI (XO (XO
      (XI (XO XH)))))) :: ((Npos (XI (XI (XI (XI (XI
      XH)))))) :: []))))))))))))))))))))))))))))))))))))))))))))))))))

  (** val u_PATH_GSTAR_DOTMATCH : n list **)

  let u_PATH_GSTAR_DOTMATCH =
    (Npos (XO (XO (XO (XI (XO XH)))))) :: ((Npos (XI (XI (XI (XI (XI
      XH)))))) :: ((Npos (XO (XI (XO (XI (XI XH)))))) :: ((Npos (XO (XO (XO
      (XI (XO XH)))))) :: ((Npos (XI (XI (XI (XI (XI XH)))))) :: ((Npos (XI
      (XO (XO (XO (XO XH)))))) :: ((Npos (XO (XO (XO (XI (XO
      XH)))))) :: ((Npos (XI (XI (XI (XI (XI XH)))))) :: ((Npos (XO (XI (XO
      (XI (XI XH)))))) :: ((Npos (XI (XI (XO (XI (XI (XO XH))))))) :: ((Npos
      (XI (XI (XO (XI (XI (XI XH))))))) :: ((Npos (XI (XI (XO (XO (XI (XI
      XH))))))) :: ((Npos (XI (XO (XI (XO (XO (XI XH))))))) :: ((Npos (XO (XO
      (XO (XO (XI (XI XH))))))) :: ((Npos (XI (XO (XI (XI (XI (XI
      XH))))))) :: ((Npos (XI (XO (XI (XI (XI (XO XH))))))) :: ((Npos (XO (XO
      (XI (XI (XI (XI XH))))))) :: ((Npos (XO (XI (XI (XI (XI (XO
      XH))))))) :: ((Npos (XI (XO (XO (XI (XO XH)))))) :: ((Npos (XO (XO (XO
      (XI (XO XH)))))) :: ((Npos (XI (XI (XI (XI (XI XH)))))) :: ((Npos (XO
      (XI (XO (XI (XI XH)))))) :: ((Npos (XO (XO (XI (XI (XI (XO
      XH))))))) :: ((Npos (XO (XI (XI (XI (XO XH)))))) :: ((Npos (XI (XI (XO
      (XI (XI (XI XH))))))) :: ((Npos (XI (XI (XO (XI (XI (XI
      XH))))))) :: ((Npos (XI (XO (XO (XO (XI XH)))))) :: ((Npos (XO (XO (XI
      (XI (XO XH)))))) :: ((Npos (XO (XI (XO (XO (XI XH)))))) :: ((Npos (XI
      (XO (XI (XI (XI (XI XH))))))) :: ((Npos (XI (XO (XI (XI (XI (XI
      XH))))))) :: ((Npos (XI (XO (XO (XI (XO XH)))))) :: ((Npos (XO (XO (XO
      (XI (XO XH)))))) :: ((Npos (XO (XO (XI (XO (XO XH)))))) :: ((Npos (XO
      (XO (XI (XI (XI (XI XH))))))) :: ((Npos (XI (XI (XO (XI (XI (XO
      XH))))))) :: ((Npos (XI (XI (XO (XI (XI (XI XH))))))) :: ((Npos (XI (XI
      (XO (XO (XI (XI XH))))))) :: ((Npos (XI (XO (XI (XO (XO (XI
      XH))))))) :: ((Npos (XO (XO (XO (XO (XI (XI XH))))))) :: ((Npos (XI (XO
      (XI (XI (XI (XI XH))))))) :: ((Npos (XI (XO (XI (XI (XI (XO
      XH))))))) :: ((Npos (XI (XO (XO (XI (XO XH)))))) :: ((Npos (XI (XO (XO
      (XI (XO XH)))))) :: ((Npos (XO (XI (XI (XI (XO XH)))))) :: ((Npos (XI
      (XO (XO (XI (XO XH)))))) :: ((Npos (XO (XI (XO (XI (XO
      XH)))))) :: ((Npos (XI (XI (XI (XI (XI
      XH)))))) :: [])))))))))))))))))))))))))))))))))))))))))))))))

  (** val u_PATH_GSTAR_NO_DOTMATCH : n list **)

  let u_PATH_GSTAR_NO_DOTMATCH =
    (Npos (XO (XO (XO (XI (XO XH)))))) :: ((Npos (XI (XI (XI (XI (XI
      XH)))))) :: ((Npos (XO (XI (XO (XI (XI XH)))))) :: ((Npos (XO (XO (XO
      (XI (XO XH)))))) :: ((Npos (XI (XI (XI (XI (XI XH)))))) :: ((Npos (XI
      (XO (XO (XO (XO XH)))))) :: ((Npos (XO (XO (XO (XI (XO
      XH)))))) :: ((Npos (XI (XI (XI (XI (XI XH)))))) :: ((Npos (XO (XI (XO
      (XI (XI XH)))))) :: ((Npos (XI (XI (XO (XI (XI (XO XH))))))) :: ((Npos
      (XI (XI (XO (XI (XI (XI XH))))))) :: ((Npos (XI (XI (XO (XO (XI (XI
      XH))))))) :: ((Npos (XI (XO (XI (XO (XO (XI XH))))))) :: ((Npos (XO (XO
      (XO (XO (XI (XI XH))))))) :: ((Npos (XI (XO (XI (XI (XI (XI
      XH))))))) :: ((Npos (XI (XO (XI (XI (XI (XO XH))))))) :: ((Npos (XO (XO
      (XI (XI (XI (XI XH))))))) :: ((Npos (XO (XI (XI (XI (XI (XO
      XH))))))) :: ((Npos (XI (XO (XO (XI (XO XH)))))) :: ((Npos (XO (XO (XI
      (XI (XI (XO XH))))))) :: ((Npos (XO (XI (XI (XI (XO XH)))))) :: ((Npos
      (XI (XO (XO (XI (XO XH)))))) :: ((Npos (XO (XI (XI (XI (XO
      XH)))))) :: ((Npos (XI (XO (XO (XI (XO XH)))))) :: ((Npos (XO (XI (XO
      (XI (XO XH)))))) :: ((Npos (XI (XI (XI (XI (XI
      XH)))))) :: [])))))))))))))))))))))))))

  (** val u_NO_DOT : n list **)

  let u_NO_DOT =
    (Npos (XO (XO (XO (XI (XO XH)))))) :: ((Npos (XI (XI (XI (XI (XI
      XH)))))) :: ((Npos (XI (XO (XO (XO (XO XH)))))) :: ((Npos (XI (XI (XO
      (XI (XI (XO XH))))))) :: ((Npos (XO (XI (XI (XI (XO XH)))))) :: ((Npos
      (XI (XO (XI (XI (XI (XO XH))))))) :: ((Npos (XI (XO (XO (XI (XO
      XH)))))) :: []))))))

  (** val u_PATH_NO_SLASH_DOT : n list **)

  let u_PATH_NO_SLASH_DOT =
    (Npos (XO (XO (XO (XI (XO XH)))))) :: ((Npos (XI (XI (XI (XI (XI
      XH)))))) :: ((Npos (XI (XO (XO (XO (XO XH)))))) :: ((Npos (XI (XI (XO
      (XI (XI (XO XH))))))) :: ((Npos (XI (XI (XO (XI (XI (XI
      XH))))))) :: ((Npos (XI (XI (XO (XO (XI (XI XH))))))) :: ((Npos (XI (XO
      (XI (XO (XO (XI XH))))))) :: ((Npos (XO (XO (XO (XO (XI (XI
      XH))))))) :: ((Npos (XI (XO (XI (XI (XI (XI XH))))))) :: ((Npos (XO (XI
      (XI (XI (XO XH)))))) :: ((Npos (XI (XO (XI (XI (XI (XO
      XH))))))) :: ((Npos (XI (XO (XO (XI (XO XH)))))) :: [])))))))))))

  (** val u_PATH_NO_SLASH : n list **)

  let u_PATH_NO_SLASH =
    (Npos (XO (XO (XO (XI (XO XH)))))) :: ((Npos (XI (XI (XI (XI (XI
      XH)))))) :: ((Npos (XI (XO (XO (XO (XO XH)))))) :: ((Npos (XI (XI (XO
      (XI (XI (XO XH))))))) :: ((Npos (XI (XI (XO (XI (XI (XI
      XH))))))) :: ((Npos (XI (XI (XO (XO (XI (XI XH))))))) :: ((Npos (XI (XO
      (XI (XO (XO (XI XH))))))) :: ((Npos (XO (XO (XO (XO (XI (XI
      XH))))))) :: ((Npos (XI (XO (XI (XI (XI (XI XH))))))) :: ((Npos (XI (XO
      (XI (XI (XI (XO XH))))))) :: ((Npos (XI (XO (XO (XI (XO
      XH)))))) :: []))))))))))

  (** val u_ONE_OR_MORE : n list **)

  let u_ONE_OR_MORE =
    (Npos (XI (XI (XO (XI (XO XH)))))) :: []

  (** val u_EOP : n list **)

  let u_EOP =
    (Npos (XO (XO (XI (XO (XO XH)))))) :: []

  (** val u_PATH_EOP : n list **)

  let u_PATH_EOP =
    (Npos (XO (XO (XO (XI (XO XH)))))) :: ((Npos (XI (XI (XI (XI (XI
      XH)))))) :: ((Npos (XO (XI (XO (XI (XI XH)))))) :: ((Npos (XO (XO (XI
      (XO (XO XH)))))) :: ((Npos (XO (XO (XI (XI (XI (XI XH))))))) :: ((Npos
      (XI (XI (XO (XI (XI (XO XH))))))) :: ((Npos (XI (XI (XO (XI (XI (XI
      XH))))))) :: ((Npos (XI (XI (XO (XO (XI (XI XH))))))) :: ((Npos (XI (XO
      (XI (XO (XO (XI XH))))))) :: ((Npos (XO (XO (XO (XO (XI (XI
      XH))))))) :: ((Npos (XI (XO (XI (XI (XI (XI XH))))))) :: ((Npos (XI (XO
      (XI (XI (XI (XO XH))))))) :: ((Npos (XI (XO (XO (XI (XO
      XH)))))) :: []))))))))))))

  (** val u_GLOBSTAR_DIV : n list **)

  let u_GLOBSTAR_DIV =
    (Npos (XO (XO (XO (XI (XO XH)))))) :: ((Npos (XI (XI (XI (XI (XI
      XH)))))) :: ((Npos (XO (XI (XO (XI (XI XH)))))) :: ((Npos (XO (XI (XI
      (XI (XI (XO XH))))))) :: ((Npos (XO (XO (XI (XI (XI (XI
      XH))))))) :: ((Npos (XO (XO (XI (XO (XO XH)))))) :: ((Npos (XO (XO (XI
      (XI (XI (XI XH))))))) :: ((Npos (XI (XI (XO (XI (XI (XI
      XH))))))) :: ((Npos (XI (XO (XI (XI (XI (XI XH))))))) :: ((Npos (XI (XO
      (XO (XI (XO XH)))))) :: ((Npos (XI (XI (XO (XI (XO
      XH)))))) :: []))))))))))

  (** val u_NEED_CHAR_PATH : n list **)

  let u_NEED_CHAR_PATH =
    (Npos (XO (XO (XO (XI (XO XH)))))) :: ((Npos (XI (XI (XI (XI (XI
      XH)))))) :: ((Npos (XI (XO (XI (XI (XI XH)))))) :: ((Npos (XI (XI (XO
      (XI (XI (XO XH))))))) :: ((Npos (XO (XI (XI (XI (XI (XO
      XH))))))) :: ((Npos (XI (XI (XO (XI (XI (XI XH))))))) :: ((Npos (XI (XI
      (XO (XO (XI (XI XH))))))) :: ((Npos (XI (XO (XI (XO (XO (XI
      XH))))))) :: ((Npos (XO (XO (XO (XO (XI (XI XH))))))) :: ((Npos (XI (XO
      (XI (XI (XI (XI XH))))))) :: ((Npos (XI (XO (XI (XI (XI (XO
      XH))))))) :: ((Npos (XI (XO (XO (XI (XO XH)))))) :: [])))))))))))

  (** val u_NEED_CHAR : n list **)

  let u_NEED_CHAR =
    (Npos (XO (XO (XO (XI (XO XH)))))) :: ((Npos (XI (XI (XI (XI (XI
      XH)))))) :: ((Npos (XI (XO (XI (XI (XI XH)))))) :: ((Npos (XO (XI (XI
      (XI (XO XH)))))) :: ((Npos (XI (XO (XO (XI (XO XH)))))) :: []))))

  (** val u_NEED_SEP : n list **)

  let u_NEED_SEP =
    (Npos (XO (XO (XO (XI (XO XH)))))) :: ((Npos (XI (XI (XI (XI (XI
      XH)))))) :: ((Npos (XI (XO (XI (XI (XI XH)))))) :: ((Npos (XI (XI (XO
      (XI (XI (XI XH))))))) :: ((Npos (XI (XO (XI (XI (XI (XI
      XH))))))) :: ((Npos (XI (XO (XO (XI (XO XH)))))) :: [])))))

  (** val u_QMARK_GROUP : n list **)

  let u_QMARK_GROUP =
    (Npos (XO (XO (XO (XI (XO XH)))))) :: ((Npos (XI (XI (XI (XI (XI
      XH)))))) :: ((Npos (XO (XI (XO (XI (XI XH)))))) :: ((Npos (XI (XI (XO
      (XI (XI (XI XH))))))) :: ((Npos (XI (XO (XI (XI (XI (XI
      XH))))))) :: ((Npos (XI (XO (XO (XI (XO XH)))))) :: ((Npos (XI (XI (XI
      (XI (XI XH)))))) :: []))))))

  (** val u_QMARK_CAPTURE_GROUP : n list **)

  let u_QMARK_CAPTURE_GROUP =
    (Npos (XO (XO (XO (XI (XO XH)))))) :: ((Npos (XO (XO (XO (XI (XO
      XH)))))) :: ((Npos (XI (XI (XI (XI (XI XH)))))) :: ((Npos (XI (XI (XO
      (XO (XO XH)))))) :: ((Npos (XI (XO (XO (XI (XO XH)))))) :: ((Npos (XO
      (XO (XO (XI (XO XH)))))) :: ((Npos (XI (XI (XI (XI (XI
      XH)))))) :: ((Npos (XO (XI (XO (XI (XI XH)))))) :: ((Npos (XI (XI (XO
      (XI (XI (XI XH))))))) :: ((Npos (XI (XO (XI (XI (XI (XI
      XH))))))) :: ((Npos (XI (XO (XO (XI (XO XH)))))) :: ((Npos (XI (XI (XI
      (XI (XI XH)))))) :: ((Npos (XI (XO (XO (XI (XO
      XH)))))) :: []))))))))))))

  (** val u_STAR_GROUP : n list **)

  let u_STAR_GROUP =
    (Npos (XO (XO (XO (XI (XO XH)))))) :: ((Npos (XI (XI (XI (XI (XI
      XH)))))) :: ((Npos (XO (XI (XO (XI (XI XH)))))) :: ((Npos (XI (XI (XO
      (XI (XI (XI XH))))))) :: ((Npos (XI (XO (XI (XI (XI (XI
      XH))))))) :: ((Npos (XI (XO (XO (XI (XO XH)))))) :: ((Npos (XO (XI (XO
      (XI (XO XH)))))) :: []))))))

  (** val u_STAR_CAPTURE_GROUP : n list **)

  let u_STAR_CAPTURE_GROUP =
    (Npos (XO (XO (XO (XI (XO XH)))))) :: ((Npos (XO (XO (XO (XI (XO
      XH)))))) :: ((Npos (XI (XI (XI (XI (XI XH)))))) :: ((Npos (XI (XI (XO
      (XO (XO XH)))))) :: ((Npos (XI (XO (XO (XI (XO XH)))))) :: ((Npos (XO
      (XO (XO (XI (XO XH)))))) :: ((Npos (XI (XI (XI (XI (XI
      XH)))))) :: ((Npos (XO (XI (XO (XI (XI XH)))))) :: ((Npos (XI (XI (XO
      (XI (XI (XI XH))))))) :: ((Npos (XI (XO (XI (XI (XI (XI
      XH))))))) :: ((Npos (XI (XO (XO (XI (XO XH)))))) :: ((Npos (XO (XI (XO
      (XI (XO XH)))))) :: ((Npos (XI (XO (XO (XI (XO
      XH)))))) :: []))))))))))))

  (** val u_PLUS_GROUP : n list **)

  let u_PLUS_GROUP =
    (Npos (XO (XO (XO (XI (XO XH)))))) :: ((Npos (XI (XI (XI (XI (XI
      XH)))))) :: ((Npos (XO (XI (XO (XI (XI XH)))))) :: ((Npos (XI (XI (XO
      (XI (XI (XI XH))))))) :: ((Npos (XI (XO (XI (XI (XI (XI
      XH))))))) :: ((Npos (XI (XO (XO (XI (XO XH)))))) :: ((Npos (XI (XI (XO
      (XI (XO XH)))))) :: []))))))

  (** val u_PLUS_CAPTURE_GROUP : n list **)

  let u_PLUS_CAPTURE_GROUP =
    (Npos (XO (XO (XO (XI (XO XH)))))) :: ((Npos (XO (XO (XO (XI (XO
      XH)))))) :: ((Npos (XI (XI (XI (XI (XI XH)))))) :: ((Npos (XI (XI (XO
      (XO (XO XH)))))) :: ((Npos (XI (XO (XO (XI (XO XH)))))) :: ((Npos (XO
      (XO (XO (XI (XO XH)))))) :: ((Npos (XI (XI (XI (XI (XI
      XH)))))) :: ((Npos (XO (XI (XO (XI (XI XH)))))) :: ((Npos (XI (XI (XO
      (XI (XI (XI XH))))))) :: ((Npos (XI (XO (XI (XI (XI (XI
      XH))))))) :: ((Npos (XI (XO (XO (XI (XO XH)))))) :: ((Npos (XI (XI (XO
      (XI (XO XH)))))) :: ((Npos (XI (XO (XO (XI (XO
      XH)))))) :: []))))))))))))

  (** val u_GROUP : n list **)

  let u_GROUP =
    (Npos (XO (XO (XO (XI (XO XH)))))) :: ((Npos (XI (XI (XI (XI (XI
      XH)))))) :: ((Npos (XO (XI (XO (XI (XI XH)))))) :: ((Npos (XI (XI (XO
      (XI (XI (XI XH))))))) :: ((Npos (XI (XO (XI (XI (XI (XI
      XH))))))) :: ((Npos (XI (XO (XO (XI (XO XH)))))) :: [])))))

  (** val u_CAPTURE_GROUP : n list **)

  let u_CAPTURE_GROUP =
    (Npos (XO (XO (XO (XI (XO XH)))))) :: ((Npos (XO (XO (XO (XI (XO
      XH)))))) :: ((Npos (XI (XI (XI (XI (XI XH)))))) :: ((Npos (XI (XI (XO
      (XO (XO XH)))))) :: ((Npos (XI (XO (XO (XI (XO XH)))))) :: ((Npos (XI
      (XI (XO (XI (XI (XI XH))))))) :: ((Npos (XI (XO (XI (XI (XI (XI
      XH))))))) :: ((Npos (XI (XO (XO (XI (XO XH)))))) :: [])))))))

  (** val u_EXCLA_GROUP : n list **)

  let u_EXCLA_GROUP =
    (Npos (XO (XO (XO (XI (XO XH)))))) :: ((Npos (XI (XI (XI (XI (XI
      XH)))))) :: ((Npos (XO (XI (XO (XI (XI XH)))))) :: ((Npos (XO (XO (XO
      (XI (XO XH)))))) :: ((Npos (XI (XI (XI (XI (XI XH)))))) :: ((Npos (XI
      (XO (XO (XO (XO XH)))))) :: ((Npos (XO (XO (XO (XI (XO
      XH)))))) :: ((Npos (XI (XI (XI (XI (XI XH)))))) :: ((Npos (XO (XI (XO
      (XI (XI XH)))))) :: ((Npos (XI (XI (XO (XI (XI (XI XH))))))) :: ((Npos
      (XI (XO (XI (XI (XI (XI XH))))))) :: ((Npos (XI (XO (XO (XI (XO
      XH)))))) :: [])))))))))))

  (** val u_EXCLA_CAPTURE_GROUP : n list **)

  let u_EXCLA_CAPTURE_GROUP =
    (Npos (XO (XO (XO (XI (XO XH)))))) :: ((Npos (XO (XO (XO (XI (XO
      XH)))))) :: ((Npos (XI (XI (XI (XI (XI XH)))))) :: ((Npos (XI (XI (XO
      (XO (XO XH)))))) :: ((Npos (XI (XO (XO (XI (XO XH)))))) :: ((Npos (XO
      (XO (XO (XI (XO XH)))))) :: ((Npos (XI (XI (XI (XI (XI
      XH)))))) :: ((Npos (XI (XO (XO (XO (XO XH)))))) :: ((Npos (XO (XO (XO
      (XI (XO XH)))))) :: ((Npos (XI (XI (XI (XI (XI XH)))))) :: ((Npos (XO
      (XI (XO (XI (XI XH)))))) :: ((Npos (XI (XI (XO (XI (XI (XI
      XH))))))) :: ((Npos (XI (XO (XI (XI (XI (XI XH))))))) :: ((Npos (XI (XO
      (XO (XI (XO XH)))))) :: [])))))))))))))

  (** val u_EXCLA_GROUP_CLOSE : n list **)

  let u_EXCLA_GROUP_CLOSE =
    (Npos (XI (XO (XO (XI (XO XH)))))) :: ((Npos (XI (XI (XO (XI (XI (XI
      XH))))))) :: ((Npos (XI (XO (XI (XI (XI (XI XH))))))) :: ((Npos (XI (XO
      (XO (XI (XO XH)))))) :: [])))

  (** val u_NO_ROOT : n list **)

  let u_NO_ROOT =
    (Npos (XO (XO (XO (XI (XO XH)))))) :: ((Npos (XI (XI (XI (XI (XI
      XH)))))) :: ((Npos (XI (XO (XO (XO (XO XH)))))) :: ((Npos (XI (XI (XI
      (XI (XO XH)))))) :: ((Npos (XI (XO (XO (XI (XO XH)))))) :: []))))

  (** val coq_UNICODE_RANGE : n list **)

  let coq_UNICODE_RANGE =
    N0 :: ((Npos (XI (XO (XI (XI (XO XH)))))) :: ((Npos (XI (XI (XI (XI (XI
      (XI (XI (XI (XI (XI (XI (XI (XI (XI (XI (XI (XO (XO (XO (XO
      XH))))))))))))))))))))) :: []))

  (** val coq_ASCII_RANGE : n list **)

  let coq_ASCII_RANGE =
    N0 :: ((Npos (XI (XO (XI (XI (XO XH)))))) :: ((Npos (XI (XI (XI (XI (XI
      (XI (XI XH)))))))) :: []))
 end

module Sets =
 struct
  (** val coq_SET_OPERATORS : n list **)

  let coq_SET_OPERATORS =
    (Npos (XO (XI (XI (XO (XO XH)))))) :: ((Npos (XO (XO (XI (XI (XI (XI
      XH))))))) :: ((Npos (XO (XI (XI (XI (XI (XI XH))))))) :: []))

  (** val coq_EXT_TYPES : n list **)

  let coq_EXT_TYPES =
    (Npos (XI (XO (XO (XO (XO XH)))))) :: ((Npos (XO (XI (XO (XI (XO
      XH)))))) :: ((Npos (XI (XI (XO (XI (XO XH)))))) :: ((Npos (XI (XI (XI
      (XI (XI XH)))))) :: ((Npos (XO (XO (XO (XO (XO (XO XH))))))) :: []))))
 end

(** val table_u : (((string * bool) * n list) * (n * n) list) list **)

let table_u =
  ((((String ((Ascii (true, false, false, false, false, true, true, false)),
    (String ((Ascii (false, false, true, true, false, true, true, false)),
    (String ((Ascii (false, true, true, true, false, true, true, false)),
    (String ((Ascii (true, false, true, false, true, true, true, false)),
    (String ((Ascii (true, false, true, true, false, true, true, false)),
    EmptyString)))))))))), false), ((Npos (XO (XO (XO (XO (XI
    XH)))))) :: ((Npos (XI (XO (XI (XI (XO XH)))))) :: ((Npos (XI (XO (XO (XI
    (XI XH)))))) :: ((Npos (XI (XO (XO (XO (XO (XO XH))))))) :: ((Npos (XI
    (XO (XI (XI (XO XH)))))) :: ((Npos (XO (XI (XO (XI (XI (XO
    XH))))))) :: ((Npos (XI (XO (XO (XO (XO (XI XH))))))) :: ((Npos (XI (XO
    (XI (XI (XO XH)))))) :: ((Npos (XO (XI (XO (XI (XI (XI
    XH))))))) :: [])))))))))), (((Npos (XO (XO (XO (XO (XI XH)))))), (Npos
    (XI (XO (XO (XI (XI XH))))))) :: (((Npos (XI (XO (XO (XO (XO (XO
    XH))))))), (Npos (XO (XI (XO (XI (XI (XO XH)))))))) :: (((Npos (XI (XO
    (XO (XO (XO (XI XH))))))), (Npos (XO (XI (XO (XI (XI (XI
    XH)))))))) :: [])))) :: (((((String ((Ascii (true, false, false, false,
    false, true, true, false)), (String ((Ascii (false, false, true, true,
    false, true, true, false)), (String ((Ascii (false, true, true, true,
    false, true, true, false)), (String ((Ascii (true, false, true, false,
    true, true, true, false)), (String ((Ascii (true, false, true, true,
    false, true, true, false)), EmptyString)))))))))), true), (N0 :: ((Npos
    (XI (XO (XI (XI (XO XH)))))) :: ((Npos (XI (XI (XI (XI (XO
    XH)))))) :: ((Npos (XO (XI (XO (XI (XI XH)))))) :: ((Npos (XI (XO (XI (XI
    (XO XH)))))) :: ((Npos (XO (XO (XO (XO (XO (XO XH))))))) :: ((Npos (XO
    (XO (XI (XI (XI (XO XH))))))) :: ((Npos (XI (XI (XO (XI (XI (XO
    XH))))))) :: ((Npos (XI (XO (XI (XI (XO XH)))))) :: ((Npos (XO (XO (XO
    (XO (XO (XI XH))))))) :: ((Npos (XI (XI (XO (XI (XI (XI
    XH))))))) :: ((Npos (XI (XO (XI (XI (XO XH)))))) :: ((Npos (XI (XI (XI
    (XI (XI (XI (XI (XI (XI (XI (XI (XI (XI (XI (XI (XI (XO (XO (XO (XO
    XH))))))))))))))))))))) :: [])))))))))))))), ((N0, (Npos (XI (XI (XI (XI
    (XO XH))))))) :: (((Npos (XO (XI (XO (XI (XI XH)))))), (Npos (XO (XO (XO
    (XO (XO (XO XH)))))))) :: (((Npos (XI (XI (XO (XI (XI (XO XH))))))),
    (Npos (XO (XO (XO (XO (XO (XI XH)))))))) :: (((Npos (XI (XI (XO (XI (XI
    (XI XH))))))), (Npos (XI (XI (XI (XI (XI (XI (XI (XI (XI (XI (XI (XI (XI
    (XI (XI (XI (XO (XO (XO (XO
    XH)))))))))))))))))))))) :: []))))) :: (((((String ((Ascii (true, false,
    false, false, false, true, true, false)), (String ((Ascii (false, false,
    true, true, false, true, true, false)), (String ((Ascii (false, false,
    false, false, true, true, true, false)), (String ((Ascii (false, false,
    false, true, false, true, true, false)), (String ((Ascii (true, false,
    false, false, false, true, true, false)), EmptyString)))))))))), false),
    ((Npos (XI (XO (XO (XO (XO (XO XH))))))) :: ((Npos (XI (XO (XI (XI (XO
    XH)))))) :: ((Npos (XO (XI (XO (XI (XI (XO XH))))))) :: ((Npos (XI (XO
    (XO (XO (XO (XI XH))))))) :: ((Npos (XI (XO (XI (XI (XO
    XH)))))) :: ((Npos (XO (XI (XO (XI (XI (XI XH))))))) :: []))))))),
    (((Npos (XI (XO (XO (XO (XO (XO XH))))))), (Npos (XO (XI (XO (XI (XI (XO
    XH)))))))) :: (((Npos (XI (XO (XO (XO (XO (XI XH))))))), (Npos (XO (XI
    (XO (XI (XI (XI XH)))))))) :: []))) :: (((((String ((Ascii (true, false,
    false, false, false, true, true, false)), (String ((Ascii (false, false,
    true, true, false, true, true, false)), (String ((Ascii (false, false,
    false, false, true, true, true, false)), (String ((Ascii (false, false,
    false, true, false, true, true, false)), (String ((Ascii (true, false,
    false, false, false, true, true, false)), EmptyString)))))))))), true),
    (N0 :: ((Npos (XI (XO (XI (XI (XO XH)))))) :: ((Npos (XO (XO (XO (XO (XO
    (XO XH))))))) :: ((Npos (XI (XI (XO (XI (XI (XO XH))))))) :: ((Npos (XI
    (XO (XI (XI (XO XH)))))) :: ((Npos (XO (XO (XO (XO (XO (XI
    XH))))))) :: ((Npos (XI (XI (XO (XI (XI (XI XH))))))) :: ((Npos (XI (XO
    (XI (XI (XO XH)))))) :: ((Npos (XI (XI (XI (XI (XI (XI (XI (XI (XI (XI
    (XI (XI (XI (XI (XI (XI (XO (XO (XO (XO
    XH))))))))))))))))))))) :: [])))))))))), ((N0, (Npos (XO (XO (XO (XO (XO
    (XO XH)))))))) :: (((Npos (XI (XI (XO (XI (XI (XO XH))))))), (Npos (XO
    (XO (XO (XO (XO (XI XH)))))))) :: (((Npos (XI (XI (XO (XI (XI (XI
    XH))))))), (Npos (XI (XI (XI (XI (XI (XI (XI (XI (XI (XI (XI (XI (XI (XI
    (XI (XI (XO (XO (XO (XO XH)))))))))))))))))))))) :: [])))) :: (((((String
    ((Ascii (true, false, false, false, false, true, true, false)), (String
    ((Ascii (true, true, false, false, true, true, true, false)), (String
    ((Ascii (true, true, false, false, false, true, true, false)), (String
    ((Ascii (true, false, false, true, false, true, true, false)), (String
    ((Ascii (true, false, false, true, false, true, true, false)),
    EmptyString)))))))))), false), (N0 :: ((Npos (XI (XO (XI (XI (XO
    XH)))))) :: ((Npos (XI (XI (XI (XI (XI (XI XH))))))) :: [])))), ((N0,
    (Npos (XI (XI (XI (XI (XI (XI XH)))))))) :: [])) :: (((((String ((Ascii
    (true, false, false, false, false, true, true, false)), (String ((Ascii
    (true, true, false, false, true, true, true, false)), (String ((Ascii
    (true, true, false, false, false, true, true, false)), (String ((Ascii
    (true, false, false, true, false, true, true, false)), (String ((Ascii
    (true, false, false, true, false, true, true, false)),
    EmptyString)))))))))), true), ((Npos (XO (XO (XO (XO (XO (XO (XO
    XH)))))))) :: ((Npos (XI (XO (XI (XI (XO XH)))))) :: ((Npos (XI (XI (XI
    (XI (XI (XI (XI (XI (XI (XI (XI (XI (XI (XI (XI (XI (XO (XO (XO (XO
    XH))))))))))))))))))))) :: [])))), (((Npos (XO (XO (XO (XO (XO (XO (XO
    XH)))))))), (Npos (XI (XI (XI (XI (XI (XI (XI (XI (XI (XI (XI (XI (XI (XI
    (XI (XI (XO (XO (XO (XO XH)))))))))))))))))))))) :: [])) :: (((((String
    ((Ascii (false, true, false, false, false, true, true, false)), (String
    ((Ascii (false, false, true, true, false, true, true, false)), (String
    ((Ascii (true, false, false, false, false, true, true, false)), (String
    ((Ascii (false, true, true, true, false, true, true, false)), (String
    ((Ascii (true, true, false, true, false, true, true, false)),
    EmptyString)))))))))), false), ((Npos (XI (XO (XO XH)))) :: ((Npos (XO
    (XO (XO (XO (XO XH)))))) :: []))), (((Npos (XI (XO (XO XH)))), (Npos (XI
    (XO (XO XH))))) :: (((Npos (XO (XO (XO (XO (XO XH)))))), (Npos (XO (XO
    (XO (XO (XO XH))))))) :: []))) :: (((((String ((Ascii (false, true,
    false, false, false, true, true, false)), (String ((Ascii (false, false,
    true, true, false, true, true, false)), (String ((Ascii (true, false,
    false, false, false, true, true, false)), (String ((Ascii (false, true,
    true, true, false, true, true, false)), (String ((Ascii (true, true,
    false, true, false, true, true, false)), EmptyString)))))))))), true),
    (N0 :: ((Npos (XI (XO (XI (XI (XO XH)))))) :: ((Npos (XO (XO (XO
    XH)))) :: ((Npos (XO (XI (XO XH)))) :: ((Npos (XI (XO (XI (XI (XO
    XH)))))) :: ((Npos (XI (XI (XI (XI XH))))) :: ((Npos (XI (XO (XO (XO (XO
    XH)))))) :: ((Npos (XI (XO (XI (XI (XO XH)))))) :: ((Npos (XI (XI (XI (XI
    (XI (XI (XI (XI (XI (XI (XI (XI (XI (XI (XI (XI (XO (XO (XO (XO
    XH))))))))))))))))))))) :: [])))))))))), ((N0, (Npos (XO (XO (XO
    XH))))) :: (((Npos (XO (XI (XO XH)))), (Npos (XI (XI (XI (XI
    XH)))))) :: (((Npos (XI (XO (XO (XO (XO XH)))))), (Npos (XI (XI (XI (XI
    (XI (XI (XI (XI (XI (XI (XI (XI (XI (XI (XI (XI (XO (XO (XO (XO
    XH)))))))))))))))))))))) :: [])))) :: (((((String ((Ascii (true, true,
    false, false, false, true, true, false)), (String ((Ascii (false, true,
    true, true, false, true, true, false)), (String ((Ascii (false, false,
    true, false, true, true, true, false)), (String ((Ascii (false, true,
    false, false, true, true, true, false)), (String ((Ascii (false, false,
    true, true, false, true, true, false)), EmptyString)))))))))), false),
    (N0 :: ((Npos (XI (XO (XI (XI (XO XH)))))) :: ((Npos (XI (XI (XI (XI
    XH))))) :: ((Npos (XI (XI (XI (XI (XI (XI XH))))))) :: []))))), ((N0,
    (Npos (XI (XI (XI (XI XH)))))) :: (((Npos (XI (XI (XI (XI (XI (XI
    XH))))))), (Npos (XI (XI (XI (XI (XI (XI
    XH)))))))) :: []))) :: (((((String ((Ascii (true, true, false, false,
    false, true, true, false)), (String ((Ascii (false, true, true, true,
    false, true, true, false)), (String ((Ascii (false, false, true, false,
    true, true, true, false)), (String ((Ascii (false, true, false, false,
    true, true, true, false)), (String ((Ascii (false, false, true, true,
    false, true, true, false)), EmptyString)))))))))), true), ((Npos (XO (XO
    (XO (XO (XO XH)))))) :: ((Npos (XI (XO (XI (XI (XO XH)))))) :: ((Npos (XO
    (XO (XI (XI (XI (XO XH))))))) :: ((Npos (XO (XI (XI (XI (XI (XI
    XH))))))) :: ((Npos (XO (XO (XO (XO (XO (XO (XO XH)))))))) :: ((Npos (XI
    (XO (XI (XI (XO XH)))))) :: ((Npos (XI (XI (XI (XI (XI (XI (XI (XI (XI
    (XI (XI (XI (XI (XI (XI (XI (XO (XO (XO (XO
    XH))))))))))))))))))))) :: [])))))))), (((Npos (XO (XO (XO (XO (XO
    XH)))))), (Npos (XO (XI (XI (XI (XI (XI XH)))))))) :: (((Npos (XO (XO (XO
    (XO (XO (XO (XO XH)))))))), (Npos (XI (XI (XI (XI (XI (XI (XI (XI (XI (XI
    (XI (XI (XI (XI (XI (XI (XO (XO (XO (XO
    XH)))))))))))))))))))))) :: []))) :: (((((String ((Ascii (false, false,
    true, false, false, true, true, false)), (String ((Ascii (true, false,
    false, true, false, true, true, false)), (String ((Ascii (true, true,
    true, false, false, true, true, false)), (String ((Ascii (true, false,
    false, true, false, true, true, false)), (String ((Ascii (false, false,
    true, false, true, true, true, false)), EmptyString)))))))))), false),
    ((Npos (XO (XO (XO (XO (XI XH)))))) :: ((Npos (XI (XO (XI (XI (XO
    XH)))))) :: ((Npos (XI (XO (XO (XI (XI XH)))))) :: [])))), (((Npos (XO
    (XO (XO (XO (XI XH)))))), (Npos (XI (XO (XO (XI (XI
    XH))))))) :: [])) :: (((((String ((Ascii (false, false, true, false,
    false, true, true, false)), (String ((Ascii (true, false, false, true,
    false, true, true, false)), (String ((Ascii (true, true, true, false,
    false, true, true, false)), (String ((Ascii (true, false, false, true,
    false, true, true, false)), (String ((Ascii (false, false, true, false,
    true, true, true, false)), EmptyString)))))))))), true), (N0 :: ((Npos
    (XI (XO (XI (XI (XO XH)))))) :: ((Npos (XI (XI (XI (XI (XO
    XH)))))) :: ((Npos (XO (XI (XO (XI (XI XH)))))) :: ((Npos (XI (XO (XI (XI
    (XO XH)))))) :: ((Npos (XI (XI (XI (XI (XI (XI (XI (XI (XI (XI (XI (XI
    (XI (XI (XI (XI (XO (XO (XO (XO XH))))))))))))))))))))) :: []))))))),
    ((N0, (Npos (XI (XI (XI (XI (XO XH))))))) :: (((Npos (XO (XI (XO (XI (XI
    XH)))))), (Npos (XI (XI (XI (XI (XI (XI (XI (XI (XI (XI (XI (XI (XI (XI
    (XI (XI (XO (XO (XO (XO XH)))))))))))))))))))))) :: []))) :: (((((String
    ((Ascii (true, true, true, false, false, true, true, false)), (String
    ((Ascii (false, true, false, false, true, true, true, false)), (String
    ((Ascii (true, false, false, false, false, true, true, false)), (String
    ((Ascii (false, false, false, false, true, true, true, false)), (String
    ((Ascii (false, false, false, true, false, true, true, false)),
    EmptyString)))))))))), false), ((Npos (XI (XO (XO (XO (XO
    XH)))))) :: ((Npos (XI (XO (XI (XI (XO XH)))))) :: ((Npos (XO (XO (XI (XI
    (XI (XO XH))))))) :: ((Npos (XO (XI (XI (XI (XI (XI XH))))))) :: []))))),
    (((Npos (XI (XO (XO (XO (XO XH)))))), (Npos (XO (XI (XI (XI (XI (XI
    XH)))))))) :: [])) :: (((((String ((Ascii (true, true, true, false,
    false, true, true, false)), (String ((Ascii (false, true, false, false,
    true, true, true, false)), (String ((Ascii (true, false, false, false,
    false, true, true, false)), (String ((Ascii (false, false, false, false,
    true, true, true, false)), (String ((Ascii (false, false, false, true,
    false, true, true, false)), EmptyString)))))))))), true), (N0 :: ((Npos
    (XI (XO (XI (XI (XO XH)))))) :: ((Npos (XO (XO (XO (XO (XO
    XH)))))) :: ((Npos (XI (XI (XI (XI (XI (XI XH))))))) :: ((Npos (XI (XO
    (XI (XI (XO XH)))))) :: ((Npos (XI (XI (XI (XI (XI (XI (XI (XI (XI (XI
    (XI (XI (XI (XI (XI (XI (XO (XO (XO (XO
    XH))))))))))))))))))))) :: []))))))), ((N0, (Npos (XO (XO (XO (XO (XO
    XH))))))) :: (((Npos (XI (XI (XI (XI (XI (XI XH))))))), (Npos (XI (XI (XI
    (XI (XI (XI (XI (XI (XI (XI (XI (XI (XI (XI (XI (XI (XO (XO (XO (XO
    XH)))))))))))))))))))))) :: []))) :: (((((String ((Ascii (false, false,
    true, true, false, true, true, false)), (String ((Ascii (true, true,
    true, true, false, true, true, false)), (String ((Ascii (true, true,
    true, false, true, true, true, false)), (String ((Ascii (true, false,
    true, false, false, true, true, false)), (String ((Ascii (false, true,
    false, false, true, true, true, false)), EmptyString)))))))))), false),
    ((Npos (XI (XO (XO (XO (XO (XI XH))))))) :: ((Npos (XI (XO (XI (XI (XO
    XH)))))) :: ((Npos (XO (XI (XO (XI (XI (XI XH))))))) :: [])))), (((Npos
    (XI (XO (XO (XO (XO (XI XH))))))), (Npos (XO (XI (XO (XI (XI (XI
    XH)))))))) :: [])) :: (((((String ((Ascii (false, false, true, true,
    false, true, true, false)), (String ((Ascii (true, true, true, true,
    false, true, true, false)), (String ((Ascii (true, true, true, false,
    true, true, true, false)), (String ((Ascii (true, false, true, false,
    false, true, true, false)), (String ((Ascii (false, true, false, false,
    true, true, true, false)), EmptyString)))))))))), true), (N0 :: ((Npos
    (XI (XO (XI (XI (XO XH)))))) :: ((Npos (XO (XO (XO (XO (XO (XI
    XH))))))) :: ((Npos (XI (XI (XO (XI (XI (XI XH))))))) :: ((Npos (XI (XO
    (XI (XI (XO XH)))))) :: ((Npos (XI (XI (XI (XI (XI (XI (XI (XI (XI (XI
    (XI (XI (XI (XI (XI (XI (XO (XO (XO (XO
    XH))))))))))))))))))))) :: []))))))), ((N0, (Npos (XO (XO (XO (XO (XO (XI
    XH)))))))) :: (((Npos (XI (XI (XO (XI (XI (XI XH))))))), (Npos (XI (XI
    (XI (XI (XI (XI (XI (XI (XI (XI (XI (XI (XI (XI (XI (XI (XO (XO (XO (XO
    XH)))))))))))))))))))))) :: []))) :: (((((String ((Ascii (false, false,
    false, false, true, true, true, false)), (String ((Ascii (false, true,
    false, false, true, true, true, false)), (String ((Ascii (true, false,
    false, true, false, true, true, false)), (String ((Ascii (false, true,
    true, true, false, true, true, false)), (String ((Ascii (false, false,
    true, false, true, true, true, false)), EmptyString)))))))))), false),
    ((Npos (XO (XO (XO (XO (XO XH)))))) :: ((Npos (XI (XO (XI (XI (XO
    XH)))))) :: ((Npos (XO (XO (XI (XI (XI (XO XH))))))) :: ((Npos (XO (XI
    (XI (XI (XI (XI XH))))))) :: []))))), (((Npos (XO (XO (XO (XO (XO
    XH)))))), (Npos (XO (XI (XI (XI (XI (XI XH)))))))) :: [])) :: (((((String
    ((Ascii (false, false, false, false, true, true, true, false)), (String
    ((Ascii (false, true, false, false, true, true, true, false)), (String
    ((Ascii (true, false, false, true, false, true, true, false)), (String
    ((Ascii (false, true, true, true, false, true, true, false)), (String
    ((Ascii (false, false, true, false, true, true, true, false)),
    EmptyString)))))))))), true), (N0 :: ((Npos (XI (XO (XI (XI (XO
    XH)))))) :: ((Npos (XI (XI (XI (XI XH))))) :: ((Npos (XI (XI (XI (XI (XI
    (XI XH))))))) :: ((Npos (XI (XO (XI (XI (XO XH)))))) :: ((Npos (XI (XI
    (XI (XI (XI (XI (XI (XI (XI (XI (XI (XI (XI (XI (XI (XI (XO (XO (XO (XO
    XH))))))))))))))))))))) :: []))))))), ((N0, (Npos (XI (XI (XI (XI
    XH)))))) :: (((Npos (XI (XI (XI (XI (XI (XI XH))))))), (Npos (XI (XI (XI
    (XI (XI (XI (XI (XI (XI (XI (XI (XI (XI (XI (XI (XI (XO (XO (XO (XO
    XH)))))))))))))))))))))) :: []))) :: (((((String ((Ascii (false, false,
    false, false, true, true, true, false)), (String ((Ascii (true, false,
    true, false, true, true, true, false)), (String ((Ascii (false, true,
    true, true, false, true, true, false)), (String ((Ascii (true, true,
    false, false, false, true, true, false)), (String ((Ascii (false, false,
    true, false, true, true, true, false)), EmptyString)))))))))), false),
    ((Npos (XI (XO (XO (XO (XO XH)))))) :: ((Npos (XI (XO (XI (XI (XO
    XH)))))) :: ((Npos (XI (XI (XI (XI (XO XH)))))) :: ((Npos (XO (XI (XO (XI
    (XI XH)))))) :: ((Npos (XI (XO (XI (XI (XO XH)))))) :: ((Npos (XO (XO (XO
    (XO (XO (XO XH))))))) :: ((Npos (XO (XO (XI (XI (XI (XO
    XH))))))) :: ((Npos (XI (XI (XO (XI (XI (XO XH))))))) :: ((Npos (XI (XO
    (XI (XI (XO XH)))))) :: ((Npos (XO (XO (XO (XO (XO (XI
    XH))))))) :: ((Npos (XI (XI (XO (XI (XI (XI XH))))))) :: ((Npos (XI (XO
    (XI (XI (XO XH)))))) :: ((Npos (XO (XO (XI (XI (XI (XO
    XH))))))) :: ((Npos (XO (XI (XI (XI (XI (XI
    XH))))))) :: []))))))))))))))), (((Npos (XI (XO (XO (XO (XO XH)))))),
    (Npos (XI (XI (XI (XI (XO XH))))))) :: (((Npos (XO (XI (XO (XI (XI
    XH)))))), (Npos (XO (XO (XO (XO (XO (XO XH)))))))) :: (((Npos (XI (XI (XO
    (XI (XI (XO XH))))))), (Npos (XO (XO (XO (XO (XO (XI
    XH)))))))) :: (((Npos (XI (XI (XO (XI (XI (XI XH))))))), (Npos (XO (XI
    (XI (XI (XI (XI XH)))))))) :: []))))) :: (((((String ((Ascii (false,
    false, false, false, true, true, true, false)), (String ((Ascii (true,
    false, true, false, true, true, true, false)), (String ((Ascii (false,
    true, true, true, false, true, true, false)), (String ((Ascii (true,
    true, false, false, false, true, true, false)), (String ((Ascii (false,
    false, true, false, true, true, true, false)), EmptyString)))))))))),
    true), (N0 :: ((Npos (XI (XO (XI (XI (XO XH)))))) :: ((Npos (XO (XO (XO
    (XO (XO XH)))))) :: ((Npos (XO (XO (XO (XO (XI XH)))))) :: ((Npos (XI (XO
    (XI (XI (XO XH)))))) :: ((Npos (XI (XO (XO (XI (XI XH)))))) :: ((Npos (XI
    (XO (XO (XO (XO (XO XH))))))) :: ((Npos (XI (XO (XI (XI (XO
    XH)))))) :: ((Npos (XO (XI (XO (XI (XI (XO XH))))))) :: ((Npos (XI (XO
    (XO (XO (XO (XI XH))))))) :: ((Npos (XI (XO (XI (XI (XO
    XH)))))) :: ((Npos (XO (XI (XO (XI (XI (XI XH))))))) :: ((Npos (XI (XI
    (XI (XI (XI (XI XH))))))) :: ((Npos (XI (XO (XI (XI (XO
    XH)))))) :: ((Npos (XI (XI (XI (XI (XI (XI (XI (XI (XI (XI (XI (XI (XI
    (XI (XI (XI (XO (XO (XO (XO
    XH))))))))))))))))))))) :: [])))))))))))))))), ((N0, (Npos (XO (XO (XO
    (XO (XO XH))))))) :: (((Npos (XO (XO (XO (XO (XI XH)))))), (Npos (XI (XO
    (XO (XI (XI XH))))))) :: (((Npos (XI (XO (XO (XO (XO (XO XH))))))), (Npos
    (XO (XI (XO (XI (XI (XO XH)))))))) :: (((Npos (XI (XO (XO (XO (XO (XI
    XH))))))), (Npos (XO (XI (XO (XI (XI (XI XH)))))))) :: (((Npos (XI (XI
    (XI (XI (XI (XI XH))))))), (Npos (XI (XI (XI (XI (XI (XI (XI (XI (XI (XI
    (XI (XI (XI (XI (XI (XI (XO (XO (XO (XO
    XH)))))))))))))))))))))) :: [])))))) :: (((((String ((Ascii (true, true,
    false, false, true, true, true, false)), (String ((Ascii (false, false,
    false, false, true, true, true, false)), (String ((Ascii (true, false,
    false, false, false, true, true, false)), (String ((Ascii (true, true,
    false, false, false, true, true, false)), (String ((Ascii (true, false,
    true, false, false, true, true, false)), EmptyString)))))))))), false),
    ((Npos (XI (XO (XO XH)))) :: ((Npos (XI (XO (XI (XI (XO
    XH)))))) :: ((Npos (XI (XO (XI XH)))) :: ((Npos (XO (XO (XO (XO (XO
    XH)))))) :: []))))), (((Npos (XI (XO (XO XH)))), (Npos (XI (XO (XI
    XH))))) :: (((Npos (XO (XO (XO (XO (XO XH)))))), (Npos (XO (XO (XO (XO
    (XO XH))))))) :: []))) :: (((((String ((Ascii (true, true, false, false,
    true, true, true, false)), (String ((Ascii (false, false, false, false,
    true, true, true, false)), (String ((Ascii (true, false, false, false,
    false, true, true, false)), (String ((Ascii (true, true, false, false,
    false, true, true, false)), (String ((Ascii (true, false, true, false,
    false, true, true, false)), EmptyString)))))))))), true), (N0 :: ((Npos
    (XI (XO (XI (XI (XO XH)))))) :: ((Npos (XO (XO (XO XH)))) :: ((Npos (XO
    (XI (XI XH)))) :: ((Npos (XI (XO (XI (XI (XO XH)))))) :: ((Npos (XI (XI
    (XI (XI XH))))) :: ((Npos (XI (XO (XO (XO (XO XH)))))) :: ((Npos (XI (XO
    (XI (XI (XO XH)))))) :: ((Npos (XI (XI (XI (XI (XI (XI (XI (XI (XI (XI
    (XI (XI (XI (XI (XI (XI (XO (XO (XO (XO
    XH))))))))))))))))))))) :: [])))))))))), ((N0, (Npos (XO (XO (XO
    XH))))) :: (((Npos (XO (XI (XI XH)))), (Npos (XI (XI (XI (XI
    XH)))))) :: (((Npos (XI (XO (XO (XO (XO XH)))))), (Npos (XI (XI (XI (XI
    (XI (XI (XI (XI (XI (XI (XI (XI (XI (XI (XI (XI (XO (XO (XO (XO
    XH)))))))))))))))))))))) :: [])))) :: (((((String ((Ascii (true, false,
    true, false, true, true, true, false)), (String ((Ascii (false, false,
    false, false, true, true, true, false)), (String ((Ascii (false, false,
    false, false, true, true, true, false)), (String ((Ascii (true, false,
    true, false, false, true, true, false)), (String ((Ascii (false, true,
    false, false, true, true, true, false)), EmptyString)))))))))), false),
    ((Npos (XI (XO (XO (XO (XO (XO XH))))))) :: ((Npos (XI (XO (XI (XI (XO
    XH)))))) :: ((Npos (XO (XI (XO (XI (XI (XO XH))))))) :: [])))), (((Npos
    (XI (XO (XO (XO (XO (XO XH))))))), (Npos (XO (XI (XO (XI (XI (XO
    XH)))))))) :: [])) :: (((((String ((Ascii (true, false, true, false,
    true, true, true, false)), (String ((Ascii (false, false, false, false,
    true, true, true, false)), (String ((Ascii (false, false, false, false,
    true, true, true, false)), (String ((Ascii (true, false, true, false,
    false, true, true, false)), (String ((Ascii (false, true, false, false,
    true, true, true, false)), EmptyString)))))))))), true), (N0 :: ((Npos
    (XI (XO (XI (XI (XO XH)))))) :: ((Npos (XO (XO (XO (XO (XO (XO
    XH))))))) :: ((Npos (XO (XO (XI (XI (XI (XO XH))))))) :: ((Npos (XI (XI
    (XO (XI (XI (XO XH))))))) :: ((Npos (XI (XO (XI (XI (XO
    XH)))))) :: ((Npos (XI (XI (XI (XI (XI (XI (XI (XI (XI (XI (XI (XI (XI
    (XI (XI (XI (XO (XO (XO (XO XH))))))))))))))))))))) :: [])))))))), ((N0,
    (Npos (XO (XO (XO (XO (XO (XO XH)))))))) :: (((Npos (XI (XI (XO (XI (XI
    (XO XH))))))), (Npos (XI (XI (XI (XI (XI (XI (XI (XI (XI (XI (XI (XI (XI
    (XI (XI (XI (XO (XO (XO (XO
    XH)))))))))))))))))))))) :: []))) :: (((((String ((Ascii (true, true,
    true, false, true, true, true, false)), (String ((Ascii (true, true,
    true, true, false, true, true, false)), (String ((Ascii (false, true,
    false, false, true, true, true, false)), (String ((Ascii (false, false,
    true, false, false, true, true, false)), EmptyString)))))))), false),
    ((Npos (XO (XO (XO (XO (XI XH)))))) :: ((Npos (XI (XO (XI (XI (XO
    XH)))))) :: ((Npos (XI (XO (XO (XI (XI XH)))))) :: ((Npos (XI (XO (XO (XO
    (XO (XO XH))))))) :: ((Npos (XI (XO (XI (XI (XO XH)))))) :: ((Npos (XO
    (XI (XO (XI (XI (XO XH))))))) :: ((Npos (XI (XI (XI (XI (XI (XO
    XH))))))) :: ((Npos (XI (XO (XO (XO (XO (XI XH))))))) :: ((Npos (XI (XO
    (XI (XI (XO XH)))))) :: ((Npos (XO (XI (XO (XI (XI (XI
    XH))))))) :: []))))))))))), (((Npos (XO (XO (XO (XO (XI XH)))))), (Npos
    (XI (XO (XO (XI (XI XH))))))) :: (((Npos (XI (XO (XO (XO (XO (XO
    XH))))))), (Npos (XO (XI (XO (XI (XI (XO XH)))))))) :: (((Npos (XI (XI
    (XI (XI (XI (XO XH))))))), (Npos (XI (XI (XI (XI (XI (XO
    XH)))))))) :: (((Npos (XI (XO (XO (XO (XO (XI XH))))))), (Npos (XO (XI
    (XO (XI (XI (XI XH)))))))) :: []))))) :: (((((String ((Ascii (true, true,
    true, false, true, true, true, false)), (String ((Ascii (true, true,
    true, true, false, true, true, false)), (String ((Ascii (false, true,
    false, false, true, true, true, false)), (String ((Ascii (false, false,
    true, false, false, true, true, false)), EmptyString)))))))), true),
    (N0 :: ((Npos (XI (XO (XI (XI (XO XH)))))) :: ((Npos (XI (XI (XI (XI (XO
    XH)))))) :: ((Npos (XO (XI (XO (XI (XI XH)))))) :: ((Npos (XI (XO (XI (XI
    (XO XH)))))) :: ((Npos (XO (XO (XO (XO (XO (XO XH))))))) :: ((Npos (XO
    (XO (XI (XI (XI (XO XH))))))) :: ((Npos (XI (XI (XO (XI (XI (XO
    XH))))))) :: ((Npos (XI (XO (XI (XI (XO XH)))))) :: ((Npos (XO (XI (XI
    (XI (XI (XO XH))))))) :: ((Npos (XO (XO (XO (XO (XO (XI
    XH))))))) :: ((Npos (XI (XI (XO (XI (XI (XI XH))))))) :: ((Npos (XI (XO
    (XI (XI (XO XH)))))) :: ((Npos (XI (XI (XI (XI (XI (XI (XI (XI (XI (XI
    (XI (XI (XI (XI (XI (XI (XO (XO (XO (XO
    XH))))))))))))))))))))) :: []))))))))))))))), ((N0, (Npos (XI (XI (XI (XI
    (XO XH))))))) :: (((Npos (XO (XI (XO (XI (XI XH)))))), (Npos (XO (XO (XO
    (XO (XO (XO XH)))))))) :: (((Npos (XI (XI (XO (XI (XI (XO XH))))))),
    (Npos (XO (XI (XI (XI (XI (XO XH)))))))) :: (((Npos (XO (XO (XO (XO (XO
    (XI XH))))))), (Npos (XO (XO (XO (XO (XO (XI XH)))))))) :: (((Npos (XI
    (XI (XO (XI (XI (XI XH))))))), (Npos (XI (XI (XI (XI (XI (XI (XI (XI (XI
    (XI (XI (XI (XI (XI (XI (XI (XO (XO (XO (XO
    XH)))))))))))))))))))))) :: [])))))) :: (((((String ((Ascii (false,
    false, false, true, true, true, true, false)), (String ((Ascii (false,
    false, true, false, false, true, true, false)), (String ((Ascii (true,
    false, false, true, false, true, true, false)), (String ((Ascii (true,
    true, true, false, false, true, true, false)), (String ((Ascii (true,
    false, false, true, false, true, true, false)), (String ((Ascii (false,
    false, true, false, true, true, true, false)), EmptyString)))))))))))),
    false), ((Npos (XO (XO (XO (XO (XI XH)))))) :: ((Npos (XI (XO (XI (XI (XO
    XH)))))) :: ((Npos (XI (XO (XO (XI (XI XH)))))) :: ((Npos (XI (XO (XO (XO
    (XO (XO XH))))))) :: ((Npos (XI (XO (XI (XI (XO XH)))))) :: ((Npos (XO
    (XI (XI (XO (XO (XO XH))))))) :: ((Npos (XI (XO (XO (XO (XO (XI
    XH))))))) :: ((Npos (XI (XO (XI (XI (XO XH)))))) :: ((Npos (XO (XI (XI
    (XO (XO (XI XH))))))) :: [])))))))))), (((Npos (XO (XO (XO (XO (XI
    XH)))))), (Npos (XI (XO (XO (XI (XI XH))))))) :: (((Npos (XI (XO (XO (XO
    (XO (XO XH))))))), (Npos (XO (XI (XI (XO (XO (XO XH)))))))) :: (((Npos
    (XI (XO (XO (XO (XO (XI XH))))))), (Npos (XO (XI (XI (XO (XO (XI
    XH)))))))) :: [])))) :: (((((String ((Ascii (false, false, false, true,
    true, true, true, false)), (String ((Ascii (false, false, true, false,
    false, true, true, false)), (String ((Ascii (true, false, false, true,
    false, true, true, false)), (String ((Ascii (true, true, true, false,
    false, true, true, false)), (String ((Ascii (true, false, false, true,
    false, true, true, false)), (String ((Ascii (false, false, true, false,
    true, true, true, false)), EmptyString)))))))))))), true), (N0 :: ((Npos
    (XI (XO (XI (XI (XO XH)))))) :: ((Npos (XI (XI (XI (XI (XO
    XH)))))) :: ((Npos (XO (XI (XO (XI (XI XH)))))) :: ((Npos (XI (XO (XI (XI
    (XO XH)))))) :: ((Npos (XO (XO (XO (XO (XO (XO XH))))))) :: ((Npos (XI
    (XI (XI (XO (XO (XO XH))))))) :: ((Npos (XI (XO (XI (XI (XO
    XH)))))) :: ((Npos (XO (XO (XO (XO (XO (XI XH))))))) :: ((Npos (XI (XI
    (XI (XO (XO (XI XH))))))) :: ((Npos (XI (XO (XI (XI (XO
    XH)))))) :: ((Npos (XI (XI (XI (XI (XI (XI (XI (XI (XI (XI (XI (XI (XI
    (XI (XI (XI (XO (XO (XO (XO XH))))))))))))))))))))) :: []))))))))))))),
    ((N0, (Npos (XI (XI (XI (XI (XO XH))))))) :: (((Npos (XO (XI (XO (XI (XI
    XH)))))), (Npos (XO (XO (XO (XO (XO (XO XH)))))))) :: (((Npos (XI (XI (XI
    (XO (XO (XO XH))))))), (Npos (XO (XO (XO (XO (XO (XI
    XH)))))))) :: (((Npos (XI (XI (XI (XO (XO (XI XH))))))), (Npos (XI (XI
    (XI (XI (XI (XI (XI (XI (XI (XI (XI (XI (XI (XI (XI (XI (XO (XO (XO (XO
    XH)))))))))))))))))))))) :: []))))) :: [])))))))))))))))))))))))))))

(** val table_a : (((string * bool) * n list) * (n * n) list) list **)

let table_a =
  ((((String ((Ascii (true, false, false, false, false, true, true, false)),
    (String ((Ascii (false, false, true, true, false, true, true, false)),
    (String ((Ascii (false, true, true, true, false, true, true, false)),
    (String ((Ascii (true, false, true, false, true, true, true, false)),
    (String ((Ascii (true, false, true, true, false, true, true, false)),
    EmptyString)))))))))), false), ((Npos (XO (XO (XO (XO (XI
    XH)))))) :: ((Npos (XI (XO (XI (XI (XO XH)))))) :: ((Npos (XI (XO (XO (XI
    (XI XH)))))) :: ((Npos (XI (XO (XO (XO (XO (XO XH))))))) :: ((Npos (XI
    (XO (XI (XI (XO XH)))))) :: ((Npos (XO (XI (XO (XI (XI (XO
    XH))))))) :: ((Npos (XI (XO (XO (XO (XO (XI XH))))))) :: ((Npos (XI (XO
    (XI (XI (XO XH)))))) :: ((Npos (XO (XI (XO (XI (XI (XI
    XH))))))) :: [])))))))))), (((Npos (XO (XO (XO (XO (XI XH)))))), (Npos
    (XI (XO (XO (XI (XI XH))))))) :: (((Npos (XI (XO (XO (XO (XO (XO
    XH))))))), (Npos (XO (XI (XO (XI (XI (XO XH)))))))) :: (((Npos (XI (XO
    (XO (XO (XO (XI XH))))))), (Npos (XO (XI (XO (XI (XI (XI
    XH)))))))) :: [])))) :: (((((String ((Ascii (true, false, false, false,
    false, true, true, false)), (String ((Ascii (false, false, true, true,
    false, true, true, false)), (String ((Ascii (false, true, true, true,
    false, true, true, false)), (String ((Ascii (true, false, true, false,
    true, true, true, false)), (String ((Ascii (true, false, true, true,
    false, true, true, false)), EmptyString)))))))))), true), (N0 :: ((Npos
    (XI (XO (XI (XI (XO XH)))))) :: ((Npos (XI (XI (XI (XI (XO
    XH)))))) :: ((Npos (XO (XI (XO (XI (XI XH)))))) :: ((Npos (XI (XO (XI (XI
    (XO XH)))))) :: ((Npos (XO (XO (XO (XO (XO (XO XH))))))) :: ((Npos (XO
    (XO (XI (XI (XI (XO XH))))))) :: ((Npos (XI (XI (XO (XI (XI (XO
    XH))))))) :: ((Npos (XI (XO (XI (XI (XO XH)))))) :: ((Npos (XO (XO (XO
    (XO (XO (XI XH))))))) :: ((Npos (XI (XI (XO (XI (XI (XI
    XH))))))) :: ((Npos (XI (XO (XI (XI (XO XH)))))) :: ((Npos (XI (XI (XI
    (XI (XI (XI (XI XH)))))))) :: [])))))))))))))), ((N0, (Npos (XI (XI (XI
    (XI (XO XH))))))) :: (((Npos (XO (XI (XO (XI (XI XH)))))), (Npos (XO (XO
    (XO (XO (XO (XO XH)))))))) :: (((Npos (XI (XI (XO (XI (XI (XO XH))))))),
    (Npos (XO (XO (XO (XO (XO (XI XH)))))))) :: (((Npos (XI (XI (XO (XI (XI
    (XI XH))))))), (Npos (XI (XI (XI (XI (XI (XI (XI
    XH))))))))) :: []))))) :: (((((String ((Ascii (true, false, false, false,
    false, true, true, false)), (String ((Ascii (false, false, true, true,
    false, true, true, false)), (String ((Ascii (false, false, false, false,
    true, true, true, false)), (String ((Ascii (false, false, false, true,
    false, true, true, false)), (String ((Ascii (true, false, false, false,
    false, true, true, false)), EmptyString)))))))))), false), ((Npos (XI (XO
    (XO (XO (XO (XO XH))))))) :: ((Npos (XI (XO (XI (XI (XO
    XH)))))) :: ((Npos (XO (XI (XO (XI (XI (XO XH))))))) :: ((Npos (XI (XO
    (XO (XO (XO (XI XH))))))) :: ((Npos (XI (XO (XI (XI (XO
    XH)))))) :: ((Npos (XO (XI (XO (XI (XI (XI XH))))))) :: []))))))),
    (((Npos (XI (XO (XO (XO (XO (XO XH))))))), (Npos (XO (XI (XO (XI (XI (XO
    XH)))))))) :: (((Npos (XI (XO (XO (XO (XO (XI XH))))))), (Npos (XO (XI
    (XO (XI (XI (XI XH)))))))) :: []))) :: (((((String ((Ascii (true, false,
    false, false, false, true, true, false)), (String ((Ascii (false, false,
    true, true, false, true, true, false)), (String ((Ascii (false, false,
    false, false, true, true, true, false)), (String ((Ascii (false, false,
    false, true, false, true, true, false)), (String ((Ascii (true, false,
    false, false, false, true, true, false)), EmptyString)))))))))), true),
    (N0 :: ((Npos (XI (XO (XI (XI (XO XH)))))) :: ((Npos (XO (XO (XO (XO (XO
    (XO XH))))))) :: ((Npos (XI (XI (XO (XI (XI (XO XH))))))) :: ((Npos (XI
    (XO (XI (XI (XO XH)))))) :: ((Npos (XO (XO (XO (XO (XO (XI
    XH))))))) :: ((Npos (XI (XI (XO (XI (XI (XI XH))))))) :: ((Npos (XI (XO
    (XI (XI (XO XH)))))) :: ((Npos (XI (XI (XI (XI (XI (XI (XI
    XH)))))))) :: [])))))))))), ((N0, (Npos (XO (XO (XO (XO (XO (XO
    XH)))))))) :: (((Npos (XI (XI (XO (XI (XI (XO XH))))))), (Npos (XO (XO
    (XO (XO (XO (XI XH)))))))) :: (((Npos (XI (XI (XO (XI (XI (XI XH))))))),
    (Npos (XI (XI (XI (XI (XI (XI (XI XH))))))))) :: [])))) :: (((((String
    ((Ascii (true, false, false, false, false, true, true, false)), (String
    ((Ascii (true, true, false, false, true, true, true, false)), (String
    ((Ascii (true, true, false, false, false, true, true, false)), (String
    ((Ascii (true, false, false, true, false, true, true, false)), (String
    ((Ascii (true, false, false, true, false, true, true, false)),
    EmptyString)))))))))), false), (N0 :: ((Npos (XI (XO (XI (XI (XO
    XH)))))) :: ((Npos (XI (XI (XI (XI (XI (XI XH))))))) :: [])))), ((N0,
    (Npos (XI (XI (XI (XI (XI (XI XH)))))))) :: [])) :: (((((String ((Ascii
    (true, false, false, false, false, true, true, false)), (String ((Ascii
    (true, true, false, false, true, true, true, false)), (String ((Ascii
    (true, true, false, false, false, true, true, false)), (String ((Ascii
    (true, false, false, true, false, true, true, false)), (String ((Ascii
    (true, false, false, true, false, true, true, false)),
    EmptyString)))))))))), true), ((Npos (XO (XO (XO (XO (XO (XO (XO
    XH)))))))) :: ((Npos (XI (XO (XI (XI (XO XH)))))) :: ((Npos (XI (XI (XI
    (XI (XI (XI (XI XH)))))))) :: [])))), (((Npos (XO (XO (XO (XO (XO (XO (XO
    XH)))))))), (Npos (XI (XI (XI (XI (XI (XI (XI
    XH))))))))) :: [])) :: (((((String ((Ascii (false, true, false, false,
    false, true, true, false)), (String ((Ascii (false, false, true, true,
    false, true, true, false)), (String ((Ascii (true, false, false, false,
    false, true, true, false)), (String ((Ascii (false, true, true, true,
    false, true, true, false)), (String ((Ascii (true, true, false, true,
    false, true, true, false)), EmptyString)))))))))), false), ((Npos (XI (XO
    (XO XH)))) :: ((Npos (XO (XO (XO (XO (XO XH)))))) :: []))), (((Npos (XI
    (XO (XO XH)))), (Npos (XI (XO (XO XH))))) :: (((Npos (XO (XO (XO (XO (XO
    XH)))))), (Npos (XO (XO (XO (XO (XO XH))))))) :: []))) :: (((((String
    ((Ascii (false, true, false, false, false, true, true, false)), (String
    ((Ascii (false, false, true, true, false, true, true, false)), (String
    ((Ascii (true, false, false, false, false, true, true, false)), (String
    ((Ascii (false, true, true, true, false, true, true, false)), (String
    ((Ascii (true, true, false, true, false, true, true, false)),
    EmptyString)))))))))), true), (N0 :: ((Npos (XI (XO (XI (XI (XO
    XH)))))) :: ((Npos (XO (XO (XO XH)))) :: ((Npos (XO (XI (XO
    XH)))) :: ((Npos (XI (XO (XI (XI (XO XH)))))) :: ((Npos (XI (XI (XI (XI
    XH))))) :: ((Npos (XI (XO (XO (XO (XO XH)))))) :: ((Npos (XI (XO (XI (XI
    (XO XH)))))) :: ((Npos (XI (XI (XI (XI (XI (XI (XI
    XH)))))))) :: [])))))))))), ((N0, (Npos (XO (XO (XO XH))))) :: (((Npos
    (XO (XI (XO XH)))), (Npos (XI (XI (XI (XI XH)))))) :: (((Npos (XI (XO (XO
    (XO (XO XH)))))), (Npos (XI (XI (XI (XI (XI (XI (XI
    XH))))))))) :: [])))) :: (((((String ((Ascii (true, true, false, false,
    false, true, true, false)), (String ((Ascii (false, true, true, true,
    false, true, true, false)), (String ((Ascii (false, false, true, false,
    true, true, true, false)), (String ((Ascii (false, true, false, false,
    true, true, true, false)), (String ((Ascii (false, false, true, true,
    false, true, true, false)), EmptyString)))))))))), false), (N0 :: ((Npos
    (XI (XO (XI (XI (XO XH)))))) :: ((Npos (XI (XI (XI (XI XH))))) :: ((Npos
    (XI (XI (XI (XI (XI (XI XH))))))) :: []))))), ((N0, (Npos (XI (XI (XI (XI
    XH)))))) :: (((Npos (XI (XI (XI (XI (XI (XI XH))))))), (Npos (XI (XI (XI
    (XI (XI (XI XH)))))))) :: []))) :: (((((String ((Ascii (true, true,
    false, false, false, true, true, false)), (String ((Ascii (false, true,
    true, true, false, true, true, false)), (String ((Ascii (false, false,
    true, false, true, true, true, false)), (String ((Ascii (false, true,
    false, false, true, true, true, false)), (String ((Ascii (false, false,
    true, true, false, true, true, false)), EmptyString)))))))))), true),
    ((Npos (XO (XO (XO (XO (XO XH)))))) :: ((Npos (XI (XO (XI (XI (XO
    XH)))))) :: ((Npos (XO (XO (XI (XI (XI (XO XH))))))) :: ((Npos (XO (XI
    (XI (XI (XI (XI XH))))))) :: ((Npos (XO (XO (XO (XO (XO (XO (XO
    XH)))))))) :: ((Npos (XI (XO (XI (XI (XO XH)))))) :: ((Npos (XI (XI (XI
    (XI (XI (XI (XI XH)))))))) :: [])))))))), (((Npos (XO (XO (XO (XO (XO
    XH)))))), (Npos (XO (XI (XI (XI (XI (XI XH)))))))) :: (((Npos (XO (XO (XO
    (XO (XO (XO (XO XH)))))))), (Npos (XI (XI (XI (XI (XI (XI (XI
    XH))))))))) :: []))) :: (((((String ((Ascii (false, false, true, false,
    false, true, true, false)), (String ((Ascii (true, false, false, true,
    false, true, true, false)), (String ((Ascii (true, true, true, false,
    false, true, true, false)), (String ((Ascii (true, false, false, true,
    false, true, true, false)), (String ((Ascii (false, false, true, false,
    true, true, true, false)), EmptyString)))))))))), false), ((Npos (XO (XO
    (XO (XO (XI XH)))))) :: ((Npos (XI (XO (XI (XI (XO XH)))))) :: ((Npos (XI
    (XO (XO (XI (XI XH)))))) :: [])))), (((Npos (XO (XO (XO (XO (XI XH)))))),
    (Npos (XI (XO (XO (XI (XI XH))))))) :: [])) :: (((((String ((Ascii
    (false, false, true, false, false, true, true, false)), (String ((Ascii
    (true, false, false, true, false, true, true, false)), (String ((Ascii
    (true, true, true, false, false, true, true, false)), (String ((Ascii
    (true, false, false, true, false, true, true, false)), (String ((Ascii
    (false, false, true, false, true, true, true, false)),
    EmptyString)))))))))), true), (N0 :: ((Npos (XI (XO (XI (XI (XO
    XH)))))) :: ((Npos (XI (XI (XI (XI (XO XH)))))) :: ((Npos (XO (XI (XO (XI
    (XI XH)))))) :: ((Npos (XI (XO (XI (XI (XO XH)))))) :: ((Npos (XI (XI (XI
    (XI (XI (XI (XI XH)))))))) :: []))))))), ((N0, (Npos (XI (XI (XI (XI (XO
    XH))))))) :: (((Npos (XO (XI (XO (XI (XI XH)))))), (Npos (XI (XI (XI (XI
    (XI (XI (XI XH))))))))) :: []))) :: (((((String ((Ascii (true, true,
    true, false, false, true, true, false)), (String ((Ascii (false, true,
    false, false, true, true, true, false)), (String ((Ascii (true, false,
    false, false, false, true, true, false)), (String ((Ascii (false, false,
    false, false, true, true, true, false)), (String ((Ascii (false, false,
    false, true, false, true, true, false)), EmptyString)))))))))), false),
    ((Npos (XI (XO (XO (XO (XO XH)))))) :: ((Npos (XI (XO (XI (XI (XO
    XH)))))) :: ((Npos (XO (XO (XI (XI (XI (XO XH))))))) :: ((Npos (XO (XI
    (XI (XI (XI (XI XH))))))) :: []))))), (((Npos (XI (XO (XO (XO (XO
    XH)))))), (Npos (XO (XI (XI (XI (XI (XI XH)))))))) :: [])) :: (((((String
    ((Ascii (true, true, true, false, false, true, true, false)), (String
    ((Ascii (false, true, false, false, true, true, true, false)), (String
    ((Ascii (true, false, false, false, false, true, true, false)), (String
    ((Ascii (false, false, false, false, true, true, true, false)), (String
    ((Ascii (false, false, false, true, false, true, true, false)),
    EmptyString)))))))))), true), (N0 :: ((Npos (XI (XO (XI (XI (XO
    XH)))))) :: ((Npos (XO (XO (XO (XO (XO XH)))))) :: ((Npos (XI (XI (XI (XI
    (XI (XI XH))))))) :: ((Npos (XI (XO (XI (XI (XO XH)))))) :: ((Npos (XI
    (XI (XI (XI (XI (XI (XI XH)))))))) :: []))))))), ((N0, (Npos (XO (XO (XO
    (XO (XO XH))))))) :: (((Npos (XI (XI (XI (XI (XI (XI XH))))))), (Npos (XI
    (XI (XI (XI (XI (XI (XI XH))))))))) :: []))) :: (((((String ((Ascii
    (false, false, true, true, false, true, true, false)), (String ((Ascii
    (true, true, true, true, false, true, true, false)), (String ((Ascii
    (true, true, true, false, true, true, true, false)), (String ((Ascii
    (true, false, true, false, false, true, true, false)), (String ((Ascii
    (false, true, false, false, true, true, true, false)),
    EmptyString)))))))))), false), ((Npos (XI (XO (XO (XO (XO (XI
    XH))))))) :: ((Npos (XI (XO (XI (XI (XO XH)))))) :: ((Npos (XO (XI (XO
    (XI (XI (XI XH))))))) :: [])))), (((Npos (XI (XO (XO (XO (XO (XI
    XH))))))), (Npos (XO (XI (XO (XI (XI (XI
    XH)))))))) :: [])) :: (((((String ((Ascii (false, false, true, true,
    false, true, true, false)), (String ((Ascii (true, true, true, true,
    false, true, true, false)), (String ((Ascii (true, true, true, false,
    true, true, true, false)), (String ((Ascii (true, false, true, false,
    false, true, true, false)), (String ((Ascii (false, true, false, false,
    true, true, true, false)), EmptyString)))))))))), true), (N0 :: ((Npos
    (XI (XO (XI (XI (XO XH)))))) :: ((Npos (XO (XO (XO (XO (XO (XI
    XH))))))) :: ((Npos (XI (XI (XO (XI (XI (XI XH))))))) :: ((Npos (XI (XO
    (XI (XI (XO XH)))))) :: ((Npos (XI (XI (XI (XI (XI (XI (XI
    XH)))))))) :: []))))))), ((N0, (Npos (XO (XO (XO (XO (XO (XI
    XH)))))))) :: (((Npos (XI (XI (XO (XI (XI (XI XH))))))), (Npos (XI (XI
    (XI (XI (XI (XI (XI XH))))))))) :: []))) :: (((((String ((Ascii (false,
    false, false, false, true, true, true, false)), (String ((Ascii (false,
    true, false, false, true, true, true, false)), (String ((Ascii (true,
    false, false, true, false, true, true, false)), (String ((Ascii (false,
    true, true, true, false, true, true, false)), (String ((Ascii (false,
    false, true, false, true, true, true, false)), EmptyString)))))))))),
    false), ((Npos (XO (XO (XO (XO (XO XH)))))) :: ((Npos (XI (XO (XI (XI (XO
    XH)))))) :: ((Npos (XO (XO (XI (XI (XI (XO XH))))))) :: ((Npos (XO (XI
    (XI (XI (XI (XI XH))))))) :: []))))), (((Npos (XO (XO (XO (XO (XO
    XH)))))), (Npos (XO (XI (XI (XI (XI (XI XH)))))))) :: [])) :: (((((String
    ((Ascii (false, false, false, false, true, true, true, false)), (String
    ((Ascii (false, true, false, false, true, true, true, false)), (String
    ((Ascii (true, false, false, true, false, true, true, false)), (String
    ((Ascii (false, true, true, true, false, true, true, false)), (String
    ((Ascii (false, false, true, false, true, true, true, false)),
    EmptyString)))))))))), true), (N0 :: ((Npos (XI (XO (XI (XI (XO
    XH)))))) :: ((Npos (XI (XI (XI (XI XH))))) :: ((Npos (XI (XI (XI (XI (XI
    (XI XH))))))) :: ((Npos (XI (XO (XI (XI (XO XH)))))) :: ((Npos (XI (XI
    (XI (XI (XI (XI (XI XH)))))))) :: []))))))), ((N0, (Npos (XI (XI (XI (XI
    XH)))))) :: (((Npos (XI (XI (XI (XI (XI (XI XH))))))), (Npos (XI (XI (XI
    (XI (XI (XI (XI XH))))))))) :: []))) :: (((((String ((Ascii (false,
    false, false, false, true, true, true, false)), (String ((Ascii (true,
    false, true, false, true, true, true, false)), (String ((Ascii (false,
    true, true, true, false, true, true, false)), (String ((Ascii (true,
    true, false, false, false, true, true, false)), (String ((Ascii (false,
    false, true, false, true, true, true, false)), EmptyString)))))))))),
    false), ((Npos (XI (XO (XO (XO (XO XH)))))) :: ((Npos (XI (XO (XI (XI (XO
    XH)))))) :: ((Npos (XI (XI (XI (XI (XO XH)))))) :: ((Npos (XO (XI (XO (XI
    (XI XH)))))) :: ((Npos (XI (XO (XI (XI (XO XH)))))) :: ((Npos (XO (XO (XO
    (XO (XO (XO XH))))))) :: ((Npos (XO (XO (XI (XI (XI (XO
    XH))))))) :: ((Npos (XI (XI (XO (XI (XI (XO XH))))))) :: ((Npos (XI (XO
    (XI (XI (XO XH)))))) :: ((Npos (XO (XO (XO (XO (XO (XI
    XH))))))) :: ((Npos (XI (XI (XO (XI (XI (XI XH))))))) :: ((Npos (XI (XO
    (XI (XI (XO XH)))))) :: ((Npos (XO (XO (XI (XI (XI (XO
    XH))))))) :: ((Npos (XO (XI (XI (XI (XI (XI
    XH))))))) :: []))))))))))))))), (((Npos (XI (XO (XO (XO (XO XH)))))),
    (Npos (XI (XI (XI (XI (XO XH))))))) :: (((Npos (XO (XI (XO (XI (XI
    XH)))))), (Npos (XO (XO (XO (XO (XO (XO XH)))))))) :: (((Npos (XI (XI (XO
    (XI (XI (XO XH))))))), (Npos (XO (XO (XO (XO (XO (XI
    XH)))))))) :: (((Npos (XI (XI (XO (XI (XI (XI XH))))))), (Npos (XO (XI
    (XI (XI (XI (XI XH)))))))) :: []))))) :: (((((String ((Ascii (false,
    false, false, false, true, true, true, false)), (String ((Ascii (true,
    false, true, false, true, true, true, false)), (String ((Ascii (false,
    true, true, true, false, true, true, false)), (String ((Ascii (true,
    true, false, false, false, true, true, false)), (String ((Ascii (false,
    false, true, false, true, true, true, false)), EmptyString)))))))))),
    true), (N0 :: ((Npos (XI (XO (XI (XI (XO XH)))))) :: ((Npos (XO (XO (XO
    (XO (XO XH)))))) :: ((Npos (XO (XO (XO (XO (XI XH)))))) :: ((Npos (XI (XO
    (XI (XI (XO XH)))))) :: ((Npos (XI (XO (XO (XI (XI XH)))))) :: ((Npos (XI
    (XO (XO (XO (XO (XO XH))))))) :: ((Npos (XI (XO (XI (XI (XO
    XH)))))) :: ((Npos (XO (XI (XO (XI (XI (XO XH))))))) :: ((Npos (XI (XO
    (XO (XO (XO (XI XH))))))) :: ((Npos (XI (XO (XI (XI (XO
    XH)))))) :: ((Npos (XO (XI (XO (XI (XI (XI XH))))))) :: ((Npos (XI (XI
    (XI (XI (XI (XI XH))))))) :: ((Npos (XI (XO (XI (XI (XO
    XH)))))) :: ((Npos (XI (XI (XI (XI (XI (XI (XI
    XH)))))))) :: [])))))))))))))))), ((N0, (Npos (XO (XO (XO (XO (XO
    XH))))))) :: (((Npos (XO (XO (XO (XO (XI XH)))))), (Npos (XI (XO (XO (XI
    (XI XH))))))) :: (((Npos (XI (XO (XO (XO (XO (XO XH))))))), (Npos (XO (XI
    (XO (XI (XI (XO XH)))))))) :: (((Npos (XI (XO (XO (XO (XO (XI XH))))))),
    (Npos (XO (XI (XO (XI (XI (XI XH)))))))) :: (((Npos (XI (XI (XI (XI (XI
    (XI XH))))))), (Npos (XI (XI (XI (XI (XI (XI (XI
    XH))))))))) :: [])))))) :: (((((String ((Ascii (true, true, false, false,
    true, true, true, false)), (String ((Ascii (false, false, false, false,
    true, true, true, false)), (String ((Ascii (true, false, false, false,
    false, true, true, false)), (String ((Ascii (true, true, false, false,
    false, true, true, false)), (String ((Ascii (true, false, true, false,
    false, true, true, false)), EmptyString)))))))))), false), ((Npos (XI (XO
    (XO XH)))) :: ((Npos (XI (XO (XI (XI (XO XH)))))) :: ((Npos (XI (XO (XI
    XH)))) :: ((Npos (XO (XO (XO (XO (XO XH)))))) :: []))))), (((Npos (XI (XO
    (XO XH)))), (Npos (XI (XO (XI XH))))) :: (((Npos (XO (XO (XO (XO (XO
    XH)))))), (Npos (XO (XO (XO (XO (XO XH))))))) :: []))) :: (((((String
    ((Ascii (true, true, false, false, true, true, true, false)), (String
    ((Ascii (false, false, false, false, true, true, true, false)), (String
    ((Ascii (true, false, false, false, false, true, true, false)), (String
    ((Ascii (true, true, false, false, false, true, true, false)), (String
    ((Ascii (true, false, true, false, false, true, true, false)),
    EmptyString)))))))))), true), (N0 :: ((Npos (XI (XO (XI (XI (XO
    XH)))))) :: ((Npos (XO (XO (XO XH)))) :: ((Npos (XO (XI (XI
    XH)))) :: ((Npos (XI (XO (XI (XI (XO XH)))))) :: ((Npos (XI (XI (XI (XI
    XH))))) :: ((Npos (XI (XO (XO (XO (XO XH)))))) :: ((Npos (XI (XO (XI (XI
    (XO XH)))))) :: ((Npos (XI (XI (XI (XI (XI (XI (XI
    XH)))))))) :: [])))))))))), ((N0, (Npos (XO (XO (XO XH))))) :: (((Npos
    (XO (XI (XI XH)))), (Npos (XI (XI (XI (XI XH)))))) :: (((Npos (XI (XO (XO
    (XO (XO XH)))))), (Npos (XI (XI (XI (XI (XI (XI (XI
    XH))))))))) :: [])))) :: (((((String ((Ascii (true, false, true, false,
    true, true, true, false)), (String ((Ascii (false, false, false, false,
    true, true, true, false)), (String ((Ascii (false, false, false, false,
    true, true, true, false)), (String ((Ascii (true, false, true, false,
    false, true, true, false)), (String ((Ascii (false, true, false, false,
    true, true, true, false)), EmptyString)))))))))), false), ((Npos (XI (XO
    (XO (XO (XO (XO XH))))))) :: ((Npos (XI (XO (XI (XI (XO
    XH)))))) :: ((Npos (XO (XI (XO (XI (XI (XO XH))))))) :: [])))), (((Npos
    (XI (XO (XO (XO (XO (XO XH))))))), (Npos (XO (XI (XO (XI (XI (XO
    XH)))))))) :: [])) :: (((((String ((Ascii (true, false, true, false,
    true, true, true, false)), (String ((Ascii (false, false, false, false,
    true, true, true, false)), (String ((Ascii (false, false, false, false,
    true, true, true, false)), (String ((Ascii (true, false, true, false,
    false, true, true, false)), (String ((Ascii (false, true, false, false,
    true, true, true, false)), EmptyString)))))))))), true), (N0 :: ((Npos
    (XI (XO (XI (XI (XO XH)))))) :: ((Npos (XO (XO (XO (XO (XO (XO
    XH))))))) :: ((Npos (XO (XO (XI (XI (XI (XO XH))))))) :: ((Npos (XI (XI
    (XO (XI (XI (XO XH))))))) :: ((Npos (XI (XO (XI (XI (XO
    XH)))))) :: ((Npos (XI (XI (XI (XI (XI (XI (XI XH)))))))) :: [])))))))),
    ((N0, (Npos (XO (XO (XO (XO (XO (XO XH)))))))) :: (((Npos (XI (XI (XO (XI
    (XI (XO XH))))))), (Npos (XI (XI (XI (XI (XI (XI (XI
    XH))))))))) :: []))) :: (((((String ((Ascii (true, true, true, false,
    true, true, true, false)), (String ((Ascii (true, true, true, true,
    false, true, true, false)), (String ((Ascii (false, true, false, false,
    true, true, true, false)), (String ((Ascii (false, false, true, false,
    false, true, true, false)), EmptyString)))))))), false), ((Npos (XO (XO
    (XO (XO (XI XH)))))) :: ((Npos (XI (XO (XI (XI (XO XH)))))) :: ((Npos (XI
    (XO (XO (XI (XI XH)))))) :: ((Npos (XI (XO (XO (XO (XO (XO
    XH))))))) :: ((Npos (XI (XO (XI (XI (XO XH)))))) :: ((Npos (XO (XI (XO
    (XI (XI (XO XH))))))) :: ((Npos (XI (XI (XI (XI (XI (XO
    XH))))))) :: ((Npos (XI (XO (XO (XO (XO (XI XH))))))) :: ((Npos (XI (XO
    (XI (XI (XO XH)))))) :: ((Npos (XO (XI (XO (XI (XI (XI
    XH))))))) :: []))))))))))), (((Npos (XO (XO (XO (XO (XI XH)))))), (Npos
    (XI (XO (XO (XI (XI XH))))))) :: (((Npos (XI (XO (XO (XO (XO (XO
    XH))))))), (Npos (XO (XI (XO (XI (XI (XO XH)))))))) :: (((Npos (XI (XI
    (XI (XI (XI (XO XH))))))), (Npos (XI (XI (XI (XI (XI (XO
    XH)))))))) :: (((Npos (XI (XO (XO (XO (XO (XI XH))))))), (Npos (XO (XI
    (XO (XI (XI (XI XH)))))))) :: []))))) :: (((((String ((Ascii (true, true,
    true, false, true, true, true, false)), (String ((Ascii (true, true,
    true, true, false, true, true, false)), (String ((Ascii (false, true,
    false, false, true, true, true, false)), (String ((Ascii (false, false,
    true, false, false, true, true, false)), EmptyString)))))))), true),
    (N0 :: ((Npos (XI (XO (XI (XI (XO XH)))))) :: ((Npos (XI (XI (XI (XI (XO
    XH)))))) :: ((Npos (XO (XI (XO (XI (XI XH)))))) :: ((Npos (XI (XO (XI (XI
    (XO XH)))))) :: ((Npos (XO (XO (XO (XO (XO (XO XH))))))) :: ((Npos (XO
    (XO (XI (XI (XI (XO XH))))))) :: ((Npos (XI (XI (XO (XI (XI (XO
    XH))))))) :: ((Npos (XI (XO (XI (XI (XO XH)))))) :: ((Npos (XO (XI (XI
    (XI (XI (XO XH))))))) :: ((Npos (XO (XO (XO (XO (XO (XI
    XH))))))) :: ((Npos (XI (XI (XO (XI (XI (XI XH))))))) :: ((Npos (XI (XO
    (XI (XI (XO XH)))))) :: ((Npos (XI (XI (XI (XI (XI (XI (XI
    XH)))))))) :: []))))))))))))))), ((N0, (Npos (XI (XI (XI (XI (XO
    XH))))))) :: (((Npos (XO (XI (XO (XI (XI XH)))))), (Npos (XO (XO (XO (XO
    (XO (XO XH)))))))) :: (((Npos (XI (XI (XO (XI (XI (XO XH))))))), (Npos
    (XO (XI (XI (XI (XI (XO XH)))))))) :: (((Npos (XO (XO (XO (XO (XO (XI
    XH))))))), (Npos (XO (XO (XO (XO (XO (XI XH)))))))) :: (((Npos (XI (XI
    (XO (XI (XI (XI XH))))))), (Npos (XI (XI (XI (XI (XI (XI (XI
    XH))))))))) :: [])))))) :: (((((String ((Ascii (false, false, false,
    true, true, true, true, false)), (String ((Ascii (false, false, true,
    false, false, true, true, false)), (String ((Ascii (true, false, false,
    true, false, true, true, false)), (String ((Ascii (true, true, true,
    false, false, true, true, false)), (String ((Ascii (true, false, false,
    true, false, true, true, false)), (String ((Ascii (false, false, true,
    false, true, true, true, false)), EmptyString)))))))))))), false), ((Npos
    (XO (XO (XO (XO (XI XH)))))) :: ((Npos (XI (XO (XI (XI (XO
    XH)))))) :: ((Npos (XI (XO (XO (XI (XI XH)))))) :: ((Npos (XI (XO (XO (XO
    (XO (XO XH))))))) :: ((Npos (XI (XO (XI (XI (XO XH)))))) :: ((Npos (XO
    (XI (XI (XO (XO (XO XH))))))) :: ((Npos (XI (XO (XO (XO (XO (XI
    XH))))))) :: ((Npos (XI (XO (XI (XI (XO XH)))))) :: ((Npos (XO (XI (XI
    (XO (XO (XI XH))))))) :: [])))))))))), (((Npos (XO (XO (XO (XO (XI
    XH)))))), (Npos (XI (XO (XO (XI (XI XH))))))) :: (((Npos (XI (XO (XO (XO
    (XO (XO XH))))))), (Npos (XO (XI (XI (XO (XO (XO XH)))))))) :: (((Npos
    (XI (XO (XO (XO (XO (XI XH))))))), (Npos (XO (XI (XI (XO (XO (XI
    XH)))))))) :: [])))) :: (((((String ((Ascii (false, false, false, true,
    true, true, true, false)), (String ((Ascii (false, false, true, false,
    false, true, true, false)), (String ((Ascii (true, false, false, true,
    false, true, true, false)), (String ((Ascii (true, true, true, false,
    false, true, true, false)), (String ((Ascii (true, false, false, true,
    false, true, true, false)), (String ((Ascii (false, false, true, false,
    true, true, true, false)), EmptyString)))))))))))), true), (N0 :: ((Npos
    (XI (XO (XI (XI (XO XH)))))) :: ((Npos (XI (XI (XI (XI (XO
    XH)))))) :: ((Npos (XO (XI (XO (XI (XI XH)))))) :: ((Npos (XI (XO (XI (XI
    (XO XH)))))) :: ((Npos (XO (XO (XO (XO (XO (XO XH))))))) :: ((Npos (XI
    (XI (XI (XO (XO (XO XH))))))) :: ((Npos (XI (XO (XI (XI (XO
    XH)))))) :: ((Npos (XO (XO (XO (XO (XO (XI XH))))))) :: ((Npos (XI (XI
    (XI (XO (XO (XI XH))))))) :: ((Npos (XI (XO (XI (XI (XO
    XH)))))) :: ((Npos (XI (XI (XI (XI (XI (XI (XI
    XH)))))))) :: []))))))))))))), ((N0, (Npos (XI (XI (XI (XI (XO
    XH))))))) :: (((Npos (XO (XI (XO (XI (XI XH)))))), (Npos (XO (XO (XO (XO
    (XO (XO XH)))))))) :: (((Npos (XI (XI (XI (XO (XO (XO XH))))))), (Npos
    (XO (XO (XO (XO (XO (XI XH)))))))) :: (((Npos (XI (XI (XI (XO (XO (XI
    XH))))))), (Npos (XI (XI (XI (XI (XI (XI (XI
    XH))))))))) :: []))))) :: [])))))))))))))))))))))))))))

type platform = { plat_windows : bool; os_nt : bool; fs_case_sensitive : bool }

(** val is_case_sensitive : platform -> z -> bool **)

let is_case_sensitive p flags =
  if negb
       (Z.eqb
         (Z.coq_land flags (Zpos (XO (XO (XO (XO (XO (XO (XO (XO (XO (XO (XO
           (XO (XO (XO (XO (XO XH)))))))))))))))))) Z0)
  then false
  else if negb
            (Z.eqb
              (Z.coq_land flags (Zpos (XO (XO (XO (XO (XO (XO (XO (XO (XO (XO
                (XO (XO (XO (XO (XO (XO (XO XH))))))))))))))))))) Z0)
       then true
       else p.fs_case_sensitive

(** val get_case : platform -> z -> bool **)

let get_case p flags =
  if negb (negb (Z.eqb (Z.coq_land flags (Zpos (XI XH))) Z0))
  then is_case_sensitive p flags
  else negb (Z.eqb (Z.coq_land flags (Zpos XH)) Z0)

(** val is_unix_style : platform -> z -> bool **)

let is_unix_style p flags =
  (&&)
    ((||) (negb p.plat_windows)
      ((&&)
        (negb
          (negb
            (Z.eqb
              (Z.coq_land flags (Zpos (XO (XO (XO (XO (XO (XO (XO (XO (XO (XO
                XH)))))))))))) Z0)))
        (negb
          (Z.eqb
            (Z.coq_land flags (Zpos (XO (XO (XO (XO (XO (XO (XO (XO (XO (XO
              (XO (XO (XO (XO (XO (XO (XO XH))))))))))))))))))) Z0))))
    (negb
      (negb
        (Z.eqb
          (Z.coq_land flags (Zpos (XO (XO (XO (XO (XO (XO (XO (XO (XO (XO (XO
            (XO (XO (XO (XO (XO XH)))))))))))))))))) Z0)))

(** val linux : platform **)

let linux =
  { plat_windows = false; os_nt = false; fs_case_sensitive = true }

(** val has : z -> z -> bool **)

let has f m =
  negb (Z.eqb (Z.coq_land f m) Z0)

(** val re_special : str **)

let re_special =
  app
    (s_ (String ((Ascii (false, false, false, true, false, true, false,
      false)), (String ((Ascii (true, false, false, true, false, true, false,
      false)), (String ((Ascii (true, true, false, true, true, false, true,
      false)), (String ((Ascii (true, false, true, true, true, false, true,
      false)), (String ((Ascii (true, true, false, true, true, true, true,
      false)), (String ((Ascii (true, false, true, true, true, true, true,
      false)), (String ((Ascii (true, true, true, true, true, true, false,
      false)), (String ((Ascii (false, true, false, true, false, true, false,
      false)), (String ((Ascii (true, true, false, true, false, true, false,
      false)), (String ((Ascii (true, false, true, true, false, true, false,
      false)), (String ((Ascii (false, false, true, true, true, true, true,
      false)), (String ((Ascii (false, true, true, true, true, false, true,
      false)), (String ((Ascii (false, false, true, false, false, true,
      false, false)), (String ((Ascii (false, false, true, true, true, false,
      true, false)), (String ((Ascii (false, true, true, true, false, true,
      false, false)), (String ((Ascii (false, true, true, false, false, true,
      false, false)), (String ((Ascii (false, true, true, true, true, true,
      true, false)), (String ((Ascii (true, true, false, false, false, true,
      false, false)), (String ((Ascii (false, false, false, false, false,
      true, false, false)), EmptyString)))))))))))))))))))))))))))))))))))))))
    ((Npos (XI (XO (XO XH)))) :: ((Npos (XO (XI (XO XH)))) :: ((Npos (XI (XO
    (XI XH)))) :: ((Npos (XI (XI (XO XH)))) :: ((Npos (XO (XO (XI
    XH)))) :: [])))))

(** val re_escape_ch : ch -> str **)

let re_escape_ch c =
  if ch_in c re_special
  then (Npos (XO (XO (XI (XI (XI (XO XH))))))) :: (c :: [])
  else c :: []

(** val re_escape : str -> str **)

let re_escape s =
  flat_map re_escape_ch s

type cfg = { c_flags : z; c_bytes : bool; c_noabs : bool; c_pathname : 
             bool; c_globstarlong : bool; c_follow : bool; c_realpath : 
             bool; c_capture : bool; c_gcapture : bool; c_dot : bool;
             c_extend : bool; c_anchor : bool; c_nodotdir : bool;
             c_cs : bool; c_unix : bool; c_windrive : bool;
             c_bslash_abort : bool; c_bare_sep : str; c_sep : str;
             c_path_eop : str; c_no_dir : str; c_seq_path : str;
             c_seq_path_dot : str; c_path_star : str; c_path_star_dot1 : 
             str; c_path_star_dot2 : str; c_path_gstar_dot1 : str;
             c_path_gstar_dot2 : str; c_need_char : str }

type pst = { after_start : bool; dir_start : bool; in_list : bool;
             inv_nest : bool; inv_ext : z; matchbase : bool;
             extmatchbase : bool; globstar : bool; match_dot_dir : bool }

(** val mk_cfg : platform -> z -> bool -> cfg * pst **)

let mk_cfg p flags is_bytes =
  let pathname = has flags Mwcparse.coq_PATHNAME in
  let globstarlong = (&&) pathname (has flags Mwcparse.coq_GLOBSTARLONG) in
  let globstar0 =
    (&&) pathname ((||) globstarlong (has flags Mwcparse.coq_GLOBSTAR))
  in
  let realpath = (&&) (has flags Mwcparse.coq_REALPATH) pathname in
  let translate = has flags Mwcparse.u_TRANSLATE in
  let unix = is_unix_style p flags in
  let bare =
    if unix
    then re_escape
           (s_ (String ((Ascii (true, true, true, true, false, true, false,
             false)), EmptyString)))
    else re_escape
           (s_ (String ((Ascii (false, false, true, true, true, false, true,
             false)), (String ((Ascii (true, true, true, true, false, true,
             false, false)), EmptyString)))))
  in
  let fs = fun t -> format t [] bare in
  ({ c_flags = flags; c_bytes = is_bytes; c_noabs =
  (has flags Mwcparse.u_NOABSOLUTE); c_pathname = pathname; c_globstarlong =
  globstarlong; c_follow = (has flags Mwcparse.coq_FOLLOW); c_realpath =
  realpath; c_capture = translate; c_gcapture =
  ((&&) ((&&) realpath (negb translate))
    (negb (has flags Mwcparse.u_NO_GLOBSTAR_CAPTURE))); c_dot =
  (has flags Mwcparse.coq_DOTMATCH); c_extend =
  (has flags Mwcparse.coq_EXTMATCH); c_anchor =
  (has flags Mwcparse.u_ANCHOR); c_nodotdir =
  (has flags Mwcparse.coq_NODOTDIR); c_cs = (get_case p flags); c_unix =
  unix; c_windrive = (if unix then false else pathname); c_bslash_abort =
  (if unix then false else pathname); c_bare_sep = bare; c_sep =
  (app
    (s_ (String ((Ascii (true, true, false, true, true, false, true, false)),
      EmptyString)))
    (app bare
      (s_ (String ((Ascii (true, false, true, true, true, false, true,
        false)), EmptyString))))); c_path_eop = (fs Frag.u_PATH_EOP);
  c_no_dir = (fs Frag.u_NO_DIR); c_seq_path = (fs Frag.u_PATH_NO_SLASH);
  c_seq_path_dot = (fs Frag.u_PATH_NO_SLASH_DOT); c_path_star =
  (fs Frag.u_PATH_STAR); c_path_star_dot1 = (fs Frag.u_PATH_STAR_DOTMATCH);
  c_path_star_dot2 = (fs Frag.u_PATH_STAR_NO_DOTMATCH); c_path_gstar_dot1 =
  (fs Frag.u_PATH_GSTAR_DOTMATCH); c_path_gstar_dot2 =
  (fs Frag.u_PATH_GSTAR_NO_DOTMATCH); c_need_char =
  (if pathname then fs Frag.u_NEED_CHAR_PATH else Frag.u_NEED_CHAR) },
  { after_start = false; dir_start = false; in_list = false; inv_nest =
  false; inv_ext = Z0; matchbase = (has flags Mwcparse.coq_MATCHBASE);
  extmatchbase = (has flags Mwcparse.u_EXTMATCHBASE); globstar = globstar0;
  match_dot_dir = false })

(** val upd_dir : pst -> bool -> bool -> pst **)

let upd_dir st a d =
  { after_start = a; dir_start = d; in_list = st.in_list; inv_nest =
    st.inv_nest; inv_ext = st.inv_ext; matchbase = st.matchbase;
    extmatchbase = st.extmatchbase; globstar = st.globstar; match_dot_dir =
    st.match_dot_dir }

(** val set_after_start : pst -> pst **)

let set_after_start st =
  upd_dir st true false

(** val set_start_dir : pst -> pst **)

let set_start_dir st =
  upd_dir st false true

(** val reset_dir_track : pst -> pst **)

let reset_dir_track st =
  upd_dir st false false

(** val update_dir_state : pst -> pst **)

let update_dir_state st =
  if (&&) st.dir_start (negb st.after_start)
  then set_after_start st
  else if (&&) (negb st.dir_start) st.after_start
       then reset_dir_track st
       else st

(** val set_matchbase : pst -> bool -> pst **)

let set_matchbase st b =
  { after_start = st.after_start; dir_start = st.dir_start; in_list =
    st.in_list; inv_nest = st.inv_nest; inv_ext = st.inv_ext; matchbase = b;
    extmatchbase = st.extmatchbase; globstar = st.globstar; match_dot_dir =
    st.match_dot_dir }

(** val set_extmatchbase : pst -> bool -> pst **)

let set_extmatchbase st b =
  { after_start = st.after_start; dir_start = st.dir_start; in_list =
    st.in_list; inv_nest = st.inv_nest; inv_ext = st.inv_ext; matchbase =
    st.matchbase; extmatchbase = b; globstar = st.globstar; match_dot_dir =
    st.match_dot_dir }

(** val set_globstar : pst -> bool -> pst **)

let set_globstar st b =
  { after_start = st.after_start; dir_start = st.dir_start; in_list =
    st.in_list; inv_nest = st.inv_nest; inv_ext = st.inv_ext; matchbase =
    st.matchbase; extmatchbase = st.extmatchbase; globstar = b;
    match_dot_dir = st.match_dot_dir }

(** val set_lists : pst -> bool -> bool -> pst **)

let set_lists st il inn =
  { after_start = st.after_start; dir_start = st.dir_start; in_list = il;
    inv_nest = inn; inv_ext = st.inv_ext; matchbase = st.matchbase;
    extmatchbase = st.extmatchbase; globstar = st.globstar; match_dot_dir =
    st.match_dot_dir }

(** val set_inv_ext : pst -> z -> pst **)

let set_inv_ext st n0 =
  { after_start = st.after_start; dir_start = st.dir_start; in_list =
    st.in_list; inv_nest = st.inv_nest; inv_ext = n0; matchbase =
    st.matchbase; extmatchbase = st.extmatchbase; globstar = st.globstar;
    match_dot_dir = st.match_dot_dir }

(** val set_mdd : pst -> bool -> pst **)

let set_mdd st b =
  { after_start = st.after_start; dir_start = st.dir_start; in_list =
    st.in_list; inv_nest = st.inv_nest; inv_ext = st.inv_ext; matchbase =
    st.matchbase; extmatchbase = st.extmatchbase; globstar = st.globstar;
    match_dot_dir = b }

type iter = { idx : z; rest : str }

(** val next : iter -> (ch * iter) option **)

let next it =
  match it.rest with
  | [] -> None
  | c :: r -> Some (c, { idx = (Z.add it.idx (Zpos XH)); rest = r })

type item =
| T of str
| H of str

(** val itext : item -> str **)

let itext = function
| T s -> s
| H s -> s

(** val jrev : item list -> str **)

let jrev cur =
  concat (map itext (rev cur))

type 'a res =
| Ok of 'a
| Stop
| Fuel

(** val cBS : ch **)

let cBS =
  Npos (XO (XO (XI (XI (XI (XO XH))))))

(** val cSL : ch **)

let cSL =
  Npos (XI (XI (XI (XI (XO XH)))))

(** val cDOT : ch **)

let cDOT =
  Npos (XO (XI (XI (XI (XO XH)))))

(** val cSTAR : ch **)

let cSTAR =
  Npos (XO (XI (XO (XI (XO XH)))))

(** val cQM : ch **)

let cQM =
  Npos (XI (XI (XI (XI (XI XH)))))

(** val cLB : ch **)

let cLB =
  Npos (XI (XI (XO (XI (XI (XO XH))))))

(** val cRB : ch **)

let cRB =
  Npos (XI (XO (XI (XI (XI (XO XH))))))

(** val cLP : ch **)

let cLP =
  Npos (XO (XO (XO (XI (XO XH)))))

(** val cRP : ch **)

let cRP =
  Npos (XI (XO (XO (XI (XO XH)))))

(** val cBAR : ch **)

let cBAR =
  Npos (XO (XO (XI (XI (XI (XI XH))))))

(** val cEX : ch **)

let cEX =
  Npos (XI (XO (XO (XO (XO XH)))))

(** val cHAT : ch **)

let cHAT =
  Npos (XO (XI (XI (XI (XI (XO XH))))))

(** val cMINUS : ch **)

let cMINUS =
  Npos (XI (XO (XI (XI (XO XH)))))

(** val cPLUS : ch **)

let cPLUS =
  Npos (XI (XI (XO (XI (XO XH)))))

(** val cAT : ch **)

let cAT =
  Npos (XO (XO (XO (XO (XO (XO XH))))))

(** val restrict_extended_slash : cfg -> str **)

let restrict_extended_slash cf =
  if cf.c_pathname then cf.c_seq_path else []

(** val restrict_sequence : cfg -> pst -> str * pst **)

let restrict_sequence cf st =
  let v =
    if cf.c_pathname
    then let v0 =
           if (&&) st.after_start (negb cf.c_dot)
           then cf.c_seq_path_dot
           else cf.c_seq_path
         in
         if st.after_start then app cf.c_no_dir v0 else v0
    else if (&&) st.after_start (negb cf.c_dot) then Frag.u_NO_DOT else []
  in
  (v, (reset_dir_track st))

type refres =
| RVal of str * pst * iter
| RStop
| RDot of iter
| RPath

(** val references : cfg -> pst -> iter -> bool -> refres **)

let references cf st it sequence0 =
  match next it with
  | Some p ->
    let (c, it1) = p in
    if N.eqb c cBS
    then if (&&) sequence0 cf.c_bslash_abort
         then RPath
         else if cf.c_bslash_abort
              then if negb st.in_list
                   then RVal ((app cf.c_sep Frag.u_ONE_OR_MORE),
                          (set_start_dir st), it1)
                   else RVal ((app (restrict_extended_slash cf) cf.c_sep),
                          st, it1)
              else if negb cf.c_unix
                   then RVal
                          ((if sequence0 then cf.c_bare_sep else cf.c_sep),
                          st, it1)
                   else RVal
                          ((s_ (String ((Ascii (false, false, true, true,
                             true, false, true, false)), (String ((Ascii
                             (false, false, true, true, true, false, true,
                             false)), EmptyString))))), st, it1)
    else if N.eqb c cSL
         then if (&&) sequence0 cf.c_pathname
              then RPath
              else if cf.c_pathname
                   then if negb st.in_list
                        then RVal ((app cf.c_sep Frag.u_ONE_OR_MORE),
                               (set_start_dir st), it1)
                        else RVal
                               ((app (restrict_extended_slash cf) cf.c_sep),
                               st, it1)
                   else RVal
                          ((if sequence0 then cf.c_bare_sep else cf.c_sep),
                          st, it1)
         else if N.eqb c cDOT
              then RDot it
              else RVal ((re_escape_ch c), st, it1)
  | None -> RStop

(** val posix_table :
    bool -> (((string * bool) * n list) * (n * n) list) list **)

let posix_table = function
| true -> table_a
| false -> table_u

(** val posix_find :
    (((string * bool) * n list) * (n * n) list) list -> str -> (str * nat)
    option **)

let rec posix_find tab r =
  match tab with
  | [] -> None
  | p :: tab' ->
    let (p0, _) = p in
    let (p1, txt) = p0 in
    let (name, neg) = p1 in
    let key =
      app
        (s_ (String ((Ascii (false, true, false, true, true, true, false,
          false)), EmptyString)))
        (app (s_ name)
          (s_ (String ((Ascii (false, true, false, true, true, true, false,
            false)), (String ((Ascii (true, false, true, true, true, false,
            true, false)), EmptyString))))))
    in
    if (&&) (negb neg) (starts_with key r)
    then Some (txt, (length key))
    else posix_find tab' r

(** val posix_match : cfg -> iter -> (str * iter) option **)

let posix_match cf it =
  match posix_find (posix_table cf.c_bytes) it.rest with
  | Some p ->
    let (txt, n0) = p in
    Some (txt, { idx = (Z.add it.idx (Z.of_nat n0)); rest =
    (drop n0 it.rest) })
  | None -> None

(** val ord_of : str -> n **)

let ord_of = function
| [] -> N0
| c :: l -> (match l with
             | [] -> c
             | c0 :: _ -> c0)

(** val range_check : str list -> str -> str list * bool **)

let range_check result last =
  match result with
  | [] -> ((last :: result), false)
  | _ :: l ->
    (match l with
     | [] -> ((last :: result), false)
     | first :: r' ->
       if N.ltb (ord_of last) (ord_of first)
       then (r', true)
       else ((last :: result), false))

(** val handle_posix :
    cfg -> iter -> str list -> z -> (str list * iter) * bool **)

let handle_posix cf it result end_range =
  match posix_match cf it with
  | Some p ->
    let (txt, it') = p in
    let result1 =
      if (&&) (negb (Z.eqb end_range Z0))
           (Z.leb end_range (Z.sub it'.idx (Zpos XH)))
      then (match result with
            | [] -> []
            | x :: r -> (cBS :: x) :: r)
      else result
    in
    (((txt :: result1), it'), true)
  | None -> ((result, it), false)

(** val set_operators : str **)

let set_operators =
  Sets.coq_SET_OPERATORS

(** val seq_loop :
    nat -> cfg -> pst -> ch -> iter -> str list -> z -> z -> bool -> bool ->
    ((str list * iter) * bool) res **)

let rec seq_loop fuel cf st c it result end_range escape_hyphen removed last_posix =
  match fuel with
  | O -> Fuel
  | S f ->
    if N.eqb c cRB
    then Ok ((result, it), removed)
    else if N.eqb c cMINUS
         then if last_posix
              then let p =
                     ((((s_ (String ((Ascii (false, false, true, true, true,
                          false, true, false)), (String ((Ascii (true, false,
                          true, true, false, true, false, false)),
                          EmptyString))))) :: result), escape_hyphen),
                     end_range)
                   in
                   let (p0, end_range1) = p in
                   let (result1, escape_hyphen1) = p0 in
                   (match next it with
                    | Some p1 ->
                      let (c', it') = p1 in
                      seq_loop f cf st c' it' result1 end_range1
                        escape_hyphen1 removed false
                    | None -> Stop)
              else if Z.ltb escape_hyphen (Z.sub it.idx (Zpos XH))
                   then let p = ((((cMINUS :: []) :: result),
                          (Z.add it.idx (Zpos XH))), it.idx)
                        in
                        let (p0, end_range1) = p in
                        let (result1, escape_hyphen1) = p0 in
                        (match next it with
                         | Some p1 ->
                           let (c', it') = p1 in
                           seq_loop f cf st c' it' result1 end_range1
                             escape_hyphen1 removed false
                         | None -> Stop)
                   else if (&&) (negb (Z.eqb end_range Z0))
                             (Z.leb end_range (Z.sub it.idx (Zpos XH)))
                        then let (r, rm) =
                               range_check result
                                 (s_ (String ((Ascii (false, false, true,
                                   true, true, false, true, false)), (String
                                   ((Ascii (true, false, true, true, false,
                                   true, false, false)), EmptyString)))))
                             in
                             let p = ((r, escape_hyphen), Z0) in
                             let removed1 = (||) removed rm in
                             let (p0, end_range1) = p in
                             let (result1, escape_hyphen1) = p0 in
                             (match next it with
                              | Some p1 ->
                                let (c', it') = p1 in
                                seq_loop f cf st c' it' result1 end_range1
                                  escape_hyphen1 removed1 false
                              | None -> Stop)
                        else let p =
                               ((((s_ (String ((Ascii (false, false, true,
                                    true, true, false, true, false)), (String
                                    ((Ascii (true, false, true, true, false,
                                    true, false, false)), EmptyString))))) :: result),
                               escape_hyphen), end_range)
                             in
                             let (p0, end_range1) = p in
                             let (result1, escape_hyphen1) = p0 in
                             (match next it with
                              | Some p1 ->
                                let (c', it') = p1 in
                                seq_loop f cf st c' it' result1 end_range1
                                  escape_hyphen1 removed false
                              | None -> Stop)
         else let (p, lp) =
                if N.eqb c cLB
                then handle_posix cf it result end_range
                else ((result, it), false)
              in
              let (result0, it0) = p in
              if lp
              then (match next it0 with
                    | Some p0 ->
                      let (c', it') = p0 in
                      seq_loop f cf st c' it' result0 end_range escape_hyphen
                        removed true
                    | None -> Stop)
              else let vres =
                     if N.eqb c cBS
                     then (match references cf st it0 true with
                           | RVal (v, _, it1) -> Ok (v, it1)
                           | RDot itd ->
                             (match next itd with
                              | Some p0 ->
                                let (d, it1) = p0 in
                                Ok ((re_escape_ch d), it1)
                              | None -> Stop)
                           | _ -> Stop)
                     else if N.eqb c cSL
                          then if cf.c_pathname
                               then Stop
                               else Ok ((c :: []), it0)
                          else if ch_in c set_operators
                               then Ok ((cBS :: (c :: [])), it0)
                               else Ok ((c :: []), it0)
                   in
                   (match vres with
                    | Ok a ->
                      let (value, it1) = a in
                      if (&&) (negb (Z.eqb end_range Z0))
                           (Z.leb end_range (Z.sub it1.idx (Zpos XH)))
                      then let (r, rm) = range_check result0 value in
                           let p0 = (r, Z0) in
                           let removed1 = (||) removed rm in
                           let (result1, end_range1) = p0 in
                           (match next it1 with
                            | Some p1 ->
                              let (c', it') = p1 in
                              seq_loop f cf st c' it' result1 end_range1
                                escape_hyphen removed1 false
                            | None -> Stop)
                      else let p0 = ((value :: result0), end_range) in
                           let (result1, end_range1) = p0 in
                           (match next it1 with
                            | Some p1 ->
                              let (c', it') = p1 in
                              seq_loop f cf st c' it' result1 end_range1
                                escape_hyphen removed false
                            | None -> Stop)
                    | Stop -> Stop
                    | Fuel -> Fuel)

(** val sequence : cfg -> pst -> iter -> ((str * pst) * iter) res **)

let sequence cf st it =
  match next it with
  | Some p ->
    let (c0, it0) = p in
    let start =
      if (||) (N.eqb c0 cEX) (N.eqb c0 cHAT)
      then (match next it0 with
            | Some p0 -> Ok (p0, ((cHAT :: []) :: ((cLB :: []) :: [])))
            | None -> Stop)
      else Ok ((c0, it0), ((cLB :: []) :: []))
    in
    (match start with
     | Ok a ->
       let (p0, result1) = a in
       let (c1, it1) = p0 in
       let first =
         if N.eqb c1 cLB
         then let (p1, lp) = handle_posix cf it1 result1 Z0 in
              let (r, it2) = p1 in
              let r2 = if lp then r else (re_escape_ch c1) :: r in
              (match next it2 with
               | Some p2 -> Ok ((p2, r2), lp)
               | None -> Stop)
         else if (||) (N.eqb c1 cMINUS) (N.eqb c1 cRB)
              then (match next it1 with
                    | Some p1 ->
                      Ok ((p1, ((re_escape_ch c1) :: result1)), false)
                    | None -> Stop)
              else Ok (((c1, it1), result1), false)
       in
       (match first with
        | Ok a0 ->
          let (p1, lp) = a0 in
          let (p2, result2) = p1 in
          let (c2, it2) = p2 in
          (match seq_loop (S (length it2.rest)) cf st c2 it2 result2 Z0 (Zneg
                   XH) false lp with
           | Ok a1 ->
             let (p3, removed) = a1 in
             let (result3, it3) = p3 in
             let result4 = (cRB :: []) :: result3 in
             let value = concat (rev result4) in
             let range =
               if cf.c_bytes
               then Frag.coq_ASCII_RANGE
               else Frag.coq_UNICODE_RANGE
             in
             let text =
               if removed
               then if str_eqb value
                         (s_ (String ((Ascii (true, true, false, true, true,
                           false, true, false)), (String ((Ascii (true,
                           false, true, true, true, false, true, false)),
                           EmptyString)))))
                    then app
                           (s_ (String ((Ascii (true, true, false, true,
                             true, false, true, false)), (String ((Ascii
                             (false, true, true, true, true, false, true,
                             false)), EmptyString)))))
                           (app range
                             (s_ (String ((Ascii (true, false, true, true,
                               true, false, true, false)), EmptyString))))
                    else if str_eqb value
                              (s_ (String ((Ascii (true, true, false, true,
                                true, false, true, false)), (String ((Ascii
                                (false, true, true, true, true, false, true,
                                false)), (String ((Ascii (true, false, true,
                                true, true, false, true, false)),
                                EmptyString)))))))
                         then app
                                (s_ (String ((Ascii (true, true, false, true,
                                  true, false, true, false)), EmptyString)))
                                (app range
                                  (s_ (String ((Ascii (true, false, true,
                                    true, true, false, true, false)),
                                    EmptyString))))
                         else value
               else value
             in
             if (||) cf.c_pathname st.after_start
             then let (g, st') = restrict_sequence cf st in
                  Ok (((app g text), st'), it3)
             else Ok ((text, st), it3)
           | Stop -> Stop
           | Fuel -> Fuel)
        | Stop -> Stop
        | Fuel -> Fuel)
     | Stop -> Stop
     | Fuel -> Fuel)
  | None -> Stop

(** val dot_scan :
    nat -> cfg -> pst -> iter -> bool -> bool -> bool * bool **)

let rec dot_scan fuel cf st it is_current is_previous =
  match fuel with
  | O -> (is_current, is_previous)
  | S f ->
    (match next it with
     | Some p ->
       let (c, it1) = p in
       if (&&) (N.eqb c cDOT) is_current
       then dot_scan f cf st it1 false true
       else if (&&) (N.eqb c cDOT) is_previous
            then (is_current, false)
            else if (&&) ((||) (N.eqb c cBAR) (N.eqb c cRP)) st.in_list
                 then (is_current, is_previous)
                 else if N.eqb c cBS
                      then (match references cf st it1 true with
                            | RVal (_, _, _) -> (false, false)
                            | RDot itd ->
                              if is_current
                              then (match next itd with
                                    | Some p0 ->
                                      let (_, it2) = p0 in
                                      dot_scan f cf st it2 false true
                                    | None -> (false, true))
                              else (is_current, false)
                            | _ -> (is_current, is_previous))
                      else if N.eqb c cSL
                           then (is_current, is_previous)
                           else (false, false)
     | None -> (is_current, is_previous))

(** val handle_dot : cfg -> pst -> iter -> str **)

let handle_dot cf st it =
  let (is_current, is_previous) =
    if (&&) ((&&) st.after_start cf.c_pathname) cf.c_nodotdir
    then dot_scan (S (length it.rest)) cf st it true false
    else (true, false)
  in
  if (&&) (negb is_current) (negb is_previous)
  then app
         (s_ (String ((Ascii (false, false, false, true, false, true, false,
           false)), (String ((Ascii (true, true, true, true, true, true,
           false, false)), (String ((Ascii (true, false, false, false, false,
           true, false, false)), (String ((Ascii (false, false, true, true,
           true, false, true, false)), (String ((Ascii (false, true, true,
           true, false, true, false, false)), (String ((Ascii (true, true,
           false, true, true, false, true, false)), (String ((Ascii (false,
           true, true, true, false, true, false, false)), (String ((Ascii
           (true, false, true, true, true, false, true, false)), (String
           ((Ascii (true, true, true, true, true, true, false, false)),
           EmptyString)))))))))))))))))))
         (app cf.c_path_eop
           (s_ (String ((Ascii (true, false, false, true, false, true, false,
             false)), (String ((Ascii (false, false, true, true, true, false,
             true, false)), (String ((Ascii (false, true, true, true, false,
             true, false, false)), EmptyString))))))))
  else re_escape_ch cDOT

(** val skip_slashes : str -> z -> iter **)

let rec skip_slashes r i =
  match r with
  | [] -> { idx = i; rest = [] }
  | c :: r' ->
    if N.eqb c cSL
    then skip_slashes r' (Z.add i (Zpos XH))
    else { idx = i; rest = r }

(** val win_seps2 : nat -> ch -> z -> iter -> iter -> iter -> iter **)

let rec win_seps2 fuel c count hist2 hist1 it =
  match fuel with
  | O -> it
  | S f ->
    if (||) (N.eqb c cBS) (N.eqb c cSL)
    then let count' =
           if (||) (negb (N.eqb c cSL))
                (negb (Z.eqb (Z.modulo count (Zpos (XO XH))) Z0))
           then Z.add count (Zpos XH)
           else Z.add count (Zpos (XO XH))
         in
         (match next it with
          | Some p -> let (c', it') = p in win_seps2 f c' count' hist1 it it'
          | None -> it)
    else if (&&) (Z.ltb Z0 count)
              (negb (Z.eqb (Z.modulo count (Zpos (XO XH))) Z0))
         then hist2
         else hist1

(** val consume_path_sep : cfg -> iter -> iter **)

let consume_path_sep cf it =
  if cf.c_bslash_abort
  then win_seps2 (S (S (length it.rest))) cBS (Zneg XH) it it it
  else skip_slashes it.rest it.idx

(** val skip_stars : str -> z -> iter **)

let rec skip_stars r i =
  match r with
  | [] -> { idx = i; rest = [] }
  | c :: r' ->
    if N.eqb c cSTAR
    then skip_stars r' (Z.add i (Zpos XH))
    else { idx = i; rest = r }

(** val handle_star :
    cfg -> pst -> iter -> item list -> (pst * iter) * item list **)

let handle_star cf st it cur =
  if cf.c_pathname
  then if (&&) st.after_start (negb cf.c_dot)
       then let star = cf.c_path_star_dot2 in
            let gstar0 = cf.c_path_gstar_dot2 in
            let capture0 = cf.c_gcapture in
            let (p, it1) =
              if (&&) ((&&) st.after_start st.globstar) (negb st.in_list)
              then (match next it with
                    | Some p ->
                      let (c, i1) = p in
                      if N.eqb c cSTAR
                      then if cf.c_globstarlong
                           then (match next i1 with
                                 | Some p0 ->
                                   let (c2, i2) = p0 in
                                   if N.eqb c2 cSTAR
                                   then let p1 = (false, false) in
                                        let (skip, capture) = p1 in
                                        let gstar =
                                          if capture
                                          then app
                                                 (s_ (String ((Ascii (false,
                                                   false, false, true, false,
                                                   true, false, false)),
                                                   EmptyString)))
                                                 (app gstar0
                                                   (s_ (String ((Ascii (true,
                                                     false, false, true,
                                                     false, true, false,
                                                     false)), EmptyString))))
                                          else gstar0
                                        in
                                        if skip
                                        then (((star, gstar), st), i2)
                                        else (match next i2 with
                                              | Some p2 ->
                                                let (c0, i3) = p2 in
                                                if N.eqb c0 cBS
                                                then (match references cf st
                                                              i3 true with
                                                      | RStop ->
                                                        (((gstar, gstar),
                                                          st), i3)
                                                      | RPath ->
                                                        let i4 =
                                                          match next i3 with
                                                          | Some p3 ->
                                                            let (_, x) = p3 in
                                                            x
                                                          | None -> i3
                                                        in
                                                        (((gstar, gstar),
                                                        (set_matchbase st
                                                          false)), i4)
                                                      | _ ->
                                                        (((star, gstar), st),
                                                          i2))
                                                else if N.eqb c0 cSL
                                                     then (((gstar, gstar),
                                                            (set_matchbase st
                                                              false)), i3)
                                                     else (((star, gstar),
                                                            st), i2)
                                              | None ->
                                                (((gstar, gstar), st), i2))
                                   else let p1 = (false, capture0) in
                                        let (skip, capture) = p1 in
                                        let gstar =
                                          if capture
                                          then app
                                                 (s_ (String ((Ascii (false,
                                                   false, false, true, false,
                                                   true, false, false)),
                                                   EmptyString)))
                                                 (app gstar0
                                                   (s_ (String ((Ascii (true,
                                                     false, false, true,
                                                     false, true, false,
                                                     false)), EmptyString))))
                                          else gstar0
                                        in
                                        if skip
                                        then (((star, gstar), st), i1)
                                        else (match next i1 with
                                              | Some p2 ->
                                                let (c0, i3) = p2 in
                                                if N.eqb c0 cBS
                                                then (match references cf st
                                                              i3 true with
                                                      | RStop ->
                                                        (((gstar, gstar),
                                                          st), i3)
                                                      | RPath ->
                                                        let i4 =
                                                          match next i3 with
                                                          | Some p3 ->
                                                            let (_, x) = p3 in
                                                            x
                                                          | None -> i3
                                                        in
                                                        (((gstar, gstar),
                                                        (set_matchbase st
                                                          false)), i4)
                                                      | _ ->
                                                        (((star, gstar), st),
                                                          i1))
                                                else if N.eqb c0 cSL
                                                     then (((gstar, gstar),
                                                            (set_matchbase st
                                                              false)), i3)
                                                     else (((star, gstar),
                                                            st), i1)
                                              | None ->
                                                (((gstar, gstar), st), i1))
                                 | None ->
                                   let p0 = (false, capture0) in
                                   let (skip, capture) = p0 in
                                   let gstar =
                                     if capture
                                     then app
                                            (s_ (String ((Ascii (false,
                                              false, false, true, false,
                                              true, false, false)),
                                              EmptyString)))
                                            (app gstar0
                                              (s_ (String ((Ascii (true,
                                                false, false, true, false,
                                                true, false, false)),
                                                EmptyString))))
                                     else gstar0
                                   in
                                   if skip
                                   then (((star, gstar), st), i1)
                                   else (match next i1 with
                                         | Some p1 ->
                                           let (c0, i2) = p1 in
                                           if N.eqb c0 cBS
                                           then (match references cf st i2
                                                         true with
                                                 | RStop ->
                                                   (((gstar, gstar), st), i2)
                                                 | RPath ->
                                                   let i3 =
                                                     match next i2 with
                                                     | Some p2 ->
                                                       let (_, x) = p2 in x
                                                     | None -> i2
                                                   in
                                                   (((gstar, gstar),
                                                   (set_matchbase st false)),
                                                   i3)
                                                 | _ ->
                                                   (((star, gstar), st), i1))
                                           else if N.eqb c0 cSL
                                                then (((gstar, gstar),
                                                       (set_matchbase st
                                                         false)), i2)
                                                else (((star, gstar), st), i1)
                                         | None -> (((gstar, gstar), st), i1)))
                           else let p0 = (false, capture0) in
                                let (skip, capture) = p0 in
                                let gstar =
                                  if capture
                                  then app
                                         (s_ (String ((Ascii (false, false,
                                           false, true, false, true, false,
                                           false)), EmptyString)))
                                         (app gstar0
                                           (s_ (String ((Ascii (true, false,
                                             false, true, false, true, false,
                                             false)), EmptyString))))
                                  else gstar0
                                in
                                if skip
                                then (((star, gstar), st), i1)
                                else (match next i1 with
                                      | Some p1 ->
                                        let (c0, i2) = p1 in
                                        if N.eqb c0 cBS
                                        then (match references cf st i2 true with
                                              | RStop ->
                                                (((gstar, gstar), st), i2)
                                              | RPath ->
                                                let i3 =
                                                  match next i2 with
                                                  | Some p2 ->
                                                    let (_, x) = p2 in x
                                                  | None -> i2
                                                in
                                                (((gstar, gstar),
                                                (set_matchbase st false)), i3)
                                              | _ -> (((star, gstar), st), i1))
                                        else if N.eqb c0 cSL
                                             then (((gstar, gstar),
                                                    (set_matchbase st false)),
                                                    i2)
                                             else (((star, gstar), st), i1)
                                      | None -> (((gstar, gstar), st), i1))
                      else let p0 = (true, capture0) in
                           let (skip, capture) = p0 in
                           let gstar =
                             if capture
                             then app
                                    (s_ (String ((Ascii (false, false, false,
                                      true, false, true, false, false)),
                                      EmptyString)))
                                    (app gstar0
                                      (s_ (String ((Ascii (true, false,
                                        false, true, false, true, false,
                                        false)), EmptyString))))
                             else gstar0
                           in
                           if skip
                           then (((star, gstar), st), it)
                           else (match next it with
                                 | Some p1 ->
                                   let (c0, i2) = p1 in
                                   if N.eqb c0 cBS
                                   then (match references cf st i2 true with
                                         | RStop -> (((gstar, gstar), st), i2)
                                         | RPath ->
                                           let i3 =
                                             match next i2 with
                                             | Some p2 -> let (_, x) = p2 in x
                                             | None -> i2
                                           in
                                           (((gstar, gstar),
                                           (set_matchbase st false)), i3)
                                         | _ -> (((star, gstar), st), it))
                                   else if N.eqb c0 cSL
                                        then (((gstar, gstar),
                                               (set_matchbase st false)), i2)
                                        else (((star, gstar), st), it)
                                 | None -> (((gstar, gstar), st), it))
                    | None ->
                      let p = (true, capture0) in
                      let (skip, capture) = p in
                      let gstar =
                        if capture
                        then app
                               (s_ (String ((Ascii (false, false, false,
                                 true, false, true, false, false)),
                                 EmptyString)))
                               (app gstar0
                                 (s_ (String ((Ascii (true, false, false,
                                   true, false, true, false, false)),
                                   EmptyString))))
                        else gstar0
                      in
                      if skip
                      then (((star, gstar), st), it)
                      else (match next it with
                            | Some p0 ->
                              let (c, i1) = p0 in
                              if N.eqb c cBS
                              then (match references cf st i1 true with
                                    | RStop -> (((gstar, gstar), st), i1)
                                    | RPath ->
                                      let i2 =
                                        match next i1 with
                                        | Some p1 -> let (_, x) = p1 in x
                                        | None -> i1
                                      in
                                      (((gstar, gstar),
                                      (set_matchbase st false)), i2)
                                    | _ -> (((star, gstar), st), it))
                              else if N.eqb c cSL
                                   then (((gstar, gstar),
                                          (set_matchbase st false)), i1)
                                   else (((star, gstar), st), it)
                            | None -> (((gstar, gstar), st), it)))
              else (((star, gstar0), st), it)
            in
            let (p0, st1) = p in
            let (value, gstar) = p0 in
            let is_g = str_eqb value gstar in
            if (&&) st.after_start (negb is_g)
            then let value2 = app cf.c_need_char value in
                 let it2 = skip_stars it1.rest it1.idx in
                 let st2 = reset_dir_track st1 in
                 if str_eqb value2 gstar
                 then let sepd = format Frag.u_GLOBSTAR_DIV cf.c_sep [] in
                      (match cur with
                       | [] -> (((set_start_dir st2), it2), cur)
                       | last :: cur' ->
                         if negb (str_eqb (itext last) sepd)
                         then let cur1 =
                                if str_eqb (itext last) []
                                then (T value2) :: cur'
                                else (T value2) :: ((T
                                       (format Frag.u_NEED_SEP cf.c_sep [])) :: cur')
                              in
                              let it3 = consume_path_sep cf it2 in
                              (((set_start_dir st2), it3), ((T sepd) :: cur1))
                         else (((set_start_dir st2), it2), cur))
                 else ((st2, it2), ((T value2) :: cur))
            else let st2 = reset_dir_track st1 in
                 if str_eqb value gstar
                 then let sepd = format Frag.u_GLOBSTAR_DIV cf.c_sep [] in
                      (match cur with
                       | [] -> (((set_start_dir st2), it1), cur)
                       | last :: cur' ->
                         if negb (str_eqb (itext last) sepd)
                         then let cur1 =
                                if str_eqb (itext last) []
                                then (T value) :: cur'
                                else (T value) :: ((T
                                       (format Frag.u_NEED_SEP cf.c_sep [])) :: cur')
                              in
                              let it3 = consume_path_sep cf it1 in
                              (((set_start_dir st2), it3), ((T sepd) :: cur1))
                         else (((set_start_dir st2), it1), cur))
                 else ((st2, it1), ((T value) :: cur))
       else if st.after_start
            then let star = cf.c_path_star_dot1 in
                 let gstar0 = cf.c_path_gstar_dot1 in
                 let capture0 = cf.c_gcapture in
                 let (p, it1) =
                   if (&&) ((&&) st.after_start st.globstar) (negb st.in_list)
                   then (match next it with
                         | Some p ->
                           let (c, i1) = p in
                           if N.eqb c cSTAR
                           then if cf.c_globstarlong
                                then (match next i1 with
                                      | Some p0 ->
                                        let (c2, i2) = p0 in
                                        if N.eqb c2 cSTAR
                                        then let p1 = (false, false) in
                                             let (skip, capture) = p1 in
                                             let gstar =
                                               if capture
                                               then app
                                                      (s_ (String ((Ascii
                                                        (false, false, false,
                                                        true, false, true,
                                                        false, false)),
                                                        EmptyString)))
                                                      (app gstar0
                                                        (s_ (String ((Ascii
                                                          (true, false,
                                                          false, true, false,
                                                          true, false,
                                                          false)),
                                                          EmptyString))))
                                               else gstar0
                                             in
                                             if skip
                                             then (((star, gstar), st), i2)
                                             else (match next i2 with
                                                   | Some p2 ->
                                                     let (c0, i3) = p2 in
                                                     if N.eqb c0 cBS
                                                     then (match references
                                                                   cf st i3
                                                                   true with
                                                           | RStop ->
                                                             (((gstar,
                                                               gstar), st),
                                                               i3)
                                                           | RPath ->
                                                             let i4 =
                                                               match 
                                                               next i3 with
                                                               | Some p3 ->
                                                                 let (
                                                                   _, x) = p3
                                                                 in
                                                                 x
                                                               | None -> i3
                                                             in
                                                             (((gstar,
                                                             gstar),
                                                             (set_matchbase
                                                               st false)), i4)
                                                           | _ ->
                                                             (((star, gstar),
                                                               st), i2))
                                                     else if N.eqb c0 cSL
                                                          then (((gstar,
                                                                 gstar),
                                                                 (set_matchbase
                                                                   st false)),
                                                                 i3)
                                                          else (((star,
                                                                 gstar), st),
                                                                 i2)
                                                   | None ->
                                                     (((gstar, gstar), st),
                                                       i2))
                                        else let p1 = (false, capture0) in
                                             let (skip, capture) = p1 in
                                             let gstar =
                                               if capture
                                               then app
                                                      (s_ (String ((Ascii
                                                        (false, false, false,
                                                        true, false, true,
                                                        false, false)),
                                                        EmptyString)))
                                                      (app gstar0
                                                        (s_ (String ((Ascii
                                                          (true, false,
                                                          false, true, false,
                                                          true, false,
                                                          false)),
                                                          EmptyString))))
                                               else gstar0
                                             in
                                             if skip
                                             then (((star, gstar), st), i1)
                                             else (match next i1 with
                                                   | Some p2 ->
                                                     let (c0, i3) = p2 in
                                                     if N.eqb c0 cBS
                                                     then (match references
                                                                   cf st i3
                                                                   true with
                                                           | RStop ->
                                                             (((gstar,
                                                               gstar), st),
                                                               i3)
                                                           | RPath ->
                                                             let i4 =
                                                               match 
                                                               next i3 with
                                                               | Some p3 ->
                                                                 let (
                                                                   _, x) = p3
                                                                 in
                                                                 x
                                                               | None -> i3
                                                             in
                                                             (((gstar,
                                                             gstar),
                                                             (set_matchbase
                                                               st false)), i4)
                                                           | _ ->
                                                             (((star, gstar),
                                                               st), i1))
                                                     else if N.eqb c0 cSL
                                                          then (((gstar,
                                                                 gstar),
                                                                 (set_matchbase
                                                                   st false)),
                                                                 i3)
                                                          else (((star,
                                                                 gstar), st),
                                                                 i1)
                                                   | None ->
                                                     (((gstar, gstar), st),
                                                       i1))
                                      | None ->
                                        let p0 = (false, capture0) in
                                        let (skip, capture) = p0 in
                                        let gstar =
                                          if capture
                                          then app
                                                 (s_ (String ((Ascii (false,
                                                   false, false, true, false,
                                                   true, false, false)),
                                                   EmptyString)))
                                                 (app gstar0
                                                   (s_ (String ((Ascii (true,
                                                     false, false, true,
                                                     false, true, false,
                                                     false)), EmptyString))))
                                          else gstar0
                                        in
                                        if skip
                                        then (((star, gstar), st), i1)
                                        else (match next i1 with
                                              | Some p1 ->
                                                let (c0, i2) = p1 in
                                                if N.eqb c0 cBS
                                                then (match references cf st
                                                              i2 true with
                                                      | RStop ->
                                                        (((gstar, gstar),
                                                          st), i2)
                                                      | RPath ->
                                                        let i3 =
                                                          match next i2 with
                                                          | Some p2 ->
                                                            let (_, x) = p2 in
                                                            x
                                                          | None -> i2
                                                        in
                                                        (((gstar, gstar),
                                                        (set_matchbase st
                                                          false)), i3)
                                                      | _ ->
                                                        (((star, gstar), st),
                                                          i1))
                                                else if N.eqb c0 cSL
                                                     then (((gstar, gstar),
                                                            (set_matchbase st
                                                              false)), i2)
                                                     else (((star, gstar),
                                                            st), i1)
                                              | None ->
                                                (((gstar, gstar), st), i1)))
                                else let p0 = (false, capture0) in
                                     let (skip, capture) = p0 in
                                     let gstar =
                                       if capture
                                       then app
                                              (s_ (String ((Ascii (false,
                                                false, false, true, false,
                                                true, false, false)),
                                                EmptyString)))
                                              (app gstar0
                                                (s_ (String ((Ascii (true,
                                                  false, false, true, false,
                                                  true, false, false)),
                                                  EmptyString))))
                                       else gstar0
                                     in
                                     if skip
                                     then (((star, gstar), st), i1)
                                     else (match next i1 with
                                           | Some p1 ->
                                             let (c0, i2) = p1 in
                                             if N.eqb c0 cBS
                                             then (match references cf st i2
                                                           true with
                                                   | RStop ->
                                                     (((gstar, gstar), st),
                                                       i2)
                                                   | RPath ->
                                                     let i3 =
                                                       match next i2 with
                                                       | Some p2 ->
                                                         let (_, x) = p2 in x
                                                       | None -> i2
                                                     in
                                                     (((gstar, gstar),
                                                     (set_matchbase st false)),
                                                     i3)
                                                   | _ ->
                                                     (((star, gstar), st), i1))
                                             else if N.eqb c0 cSL
                                                  then (((gstar, gstar),
                                                         (set_matchbase st
                                                           false)), i2)
                                                  else (((star, gstar), st),
                                                         i1)
                                           | None ->
                                             (((gstar, gstar), st), i1))
                           else let p0 = (true, capture0) in
                                let (skip, capture) = p0 in
                                let gstar =
                                  if capture
                                  then app
                                         (s_ (String ((Ascii (false, false,
                                           false, true, false, true, false,
                                           false)), EmptyString)))
                                         (app gstar0
                                           (s_ (String ((Ascii (true, false,
                                             false, true, false, true, false,
                                             false)), EmptyString))))
                                  else gstar0
                                in
                                if skip
                                then (((star, gstar), st), it)
                                else (match next it with
                                      | Some p1 ->
                                        let (c0, i2) = p1 in
                                        if N.eqb c0 cBS
                                        then (match references cf st i2 true with
                                              | RStop ->
                                                (((gstar, gstar), st), i2)
                                              | RPath ->
                                                let i3 =
                                                  match next i2 with
                                                  | Some p2 ->
                                                    let (_, x) = p2 in x
                                                  | None -> i2
                                                in
                                                (((gstar, gstar),
                                                (set_matchbase st false)), i3)
                                              | _ -> (((star, gstar), st), it))
                                        else if N.eqb c0 cSL
                                             then (((gstar, gstar),
                                                    (set_matchbase st false)),
                                                    i2)
                                             else (((star, gstar), st), it)
                                      | None -> (((gstar, gstar), st), it))
                         | None ->
                           let p = (true, capture0) in
                           let (skip, capture) = p in
                           let gstar =
                             if capture
                             then app
                                    (s_ (String ((Ascii (false, false, false,
                                      true, false, true, false, false)),
                                      EmptyString)))
                                    (app gstar0
                                      (s_ (String ((Ascii (true, false,
                                        false, true, false, true, false,
                                        false)), EmptyString))))
                             else gstar0
                           in
                           if skip
                           then (((star, gstar), st), it)
                           else (match next it with
                                 | Some p0 ->
                                   let (c, i1) = p0 in
                                   if N.eqb c cBS
                                   then (match references cf st i1 true with
                                         | RStop -> (((gstar, gstar), st), i1)
                                         | RPath ->
                                           let i2 =
                                             match next i1 with
                                             | Some p1 -> let (_, x) = p1 in x
                                             | None -> i1
                                           in
                                           (((gstar, gstar),
                                           (set_matchbase st false)), i2)
                                         | _ -> (((star, gstar), st), it))
                                   else if N.eqb c cSL
                                        then (((gstar, gstar),
                                               (set_matchbase st false)), i1)
                                        else (((star, gstar), st), it)
                                 | None -> (((gstar, gstar), st), it)))
                   else (((star, gstar0), st), it)
                 in
                 let (p0, st1) = p in
                 let (value, gstar) = p0 in
                 let is_g = str_eqb value gstar in
                 if (&&) st.after_start (negb is_g)
                 then let value2 = app cf.c_need_char value in
                      let it2 = skip_stars it1.rest it1.idx in
                      let st2 = reset_dir_track st1 in
                      if str_eqb value2 gstar
                      then let sepd = format Frag.u_GLOBSTAR_DIV cf.c_sep []
                           in
                           (match cur with
                            | [] -> (((set_start_dir st2), it2), cur)
                            | last :: cur' ->
                              if negb (str_eqb (itext last) sepd)
                              then let cur1 =
                                     if str_eqb (itext last) []
                                     then (T value2) :: cur'
                                     else (T value2) :: ((T
                                            (format Frag.u_NEED_SEP cf.c_sep
                                              [])) :: cur')
                                   in
                                   let it3 = consume_path_sep cf it2 in
                                   (((set_start_dir st2), it3), ((T
                                   sepd) :: cur1))
                              else (((set_start_dir st2), it2), cur))
                      else ((st2, it2), ((T value2) :: cur))
                 else let st2 = reset_dir_track st1 in
                      if str_eqb value gstar
                      then let sepd = format Frag.u_GLOBSTAR_DIV cf.c_sep []
                           in
                           (match cur with
                            | [] -> (((set_start_dir st2), it1), cur)
                            | last :: cur' ->
                              if negb (str_eqb (itext last) sepd)
                              then let cur1 =
                                     if str_eqb (itext last) []
                                     then (T value) :: cur'
                                     else (T value) :: ((T
                                            (format Frag.u_NEED_SEP cf.c_sep
                                              [])) :: cur')
                                   in
                                   let it3 = consume_path_sep cf it1 in
                                   (((set_start_dir st2), it3), ((T
                                   sepd) :: cur1))
                              else (((set_start_dir st2), it1), cur))
                      else ((st2, it1), ((T value) :: cur))
            else let star = cf.c_path_star in
                 let gstar0 = cf.c_path_gstar_dot1 in
                 let capture0 = cf.c_gcapture in
                 let (p, it1) =
                   if (&&) ((&&) st.after_start st.globstar) (negb st.in_list)
                   then (match next it with
                         | Some p ->
                           let (c, i1) = p in
                           if N.eqb c cSTAR
                           then if cf.c_globstarlong
                                then (match next i1 with
                                      | Some p0 ->
                                        let (c2, i2) = p0 in
                                        if N.eqb c2 cSTAR
                                        then let p1 = (false, false) in
                                             let (skip, capture) = p1 in
                                             let gstar =
                                               if capture
                                               then app
                                                      (s_ (String ((Ascii
                                                        (false, false, false,
                                                        true, false, true,
                                                        false, false)),
                                                        EmptyString)))
                                                      (app gstar0
                                                        (s_ (String ((Ascii
                                                          (true, false,
                                                          false, true, false,
                                                          true, false,
                                                          false)),
                                                          EmptyString))))
                                               else gstar0
                                             in
                                             if skip
                                             then (((star, gstar), st), i2)
                                             else (match next i2 with
                                                   | Some p2 ->
                                                     let (c0, i3) = p2 in
                                                     if N.eqb c0 cBS
                                                     then (match references
                                                                   cf st i3
                                                                   true with
                                                           | RStop ->
                                                             (((gstar,
                                                               gstar), st),
                                                               i3)
                                                           | RPath ->
                                                             let i4 =
                                                               match 
                                                               next i3 with
                                                               | Some p3 ->
                                                                 let (
                                                                   _, x) = p3
                                                                 in
                                                                 x
                                                               | None -> i3
                                                             in
                                                             (((gstar,
                                                             gstar),
                                                             (set_matchbase
                                                               st false)), i4)
                                                           | _ ->
                                                             (((star, gstar),
                                                               st), i2))
                                                     else if N.eqb c0 cSL
                                                          then (((gstar,
                                                                 gstar),
                                                                 (set_matchbase
                                                                   st false)),
                                                                 i3)
                                                          else (((star,
                                                                 gstar), st),
                                                                 i2)
                                                   | None ->
                                                     (((gstar, gstar), st),
                                                       i2))
                                        else let p1 = (false, capture0) in
                                             let (skip, capture) = p1 in
                                             let gstar =
                                               if capture
                                               then app
                                                      (s_ (String ((Ascii
                                                        (false, false, false,
                                                        true, false, true,
                                                        false, false)),
                                                        EmptyString)))
                                                      (app gstar0
                                                        (s_ (String ((Ascii
                                                          (true, false,
                                                          false, true, false,
                                                          true, false,
                                                          false)),
                                                          EmptyString))))
                                               else gstar0
                                             in
                                             if skip
                                             then (((star, gstar), st), i1)
                                             else (match next i1 with
                                                   | Some p2 ->
                                                     let (c0, i3) = p2 in
                                                     if N.eqb c0 cBS
                                                     then (match references
                                                                   cf st i3
                                                                   true with
                                                           | RStop ->
                                                             (((gstar,
                                                               gstar), st),
                                                               i3)
                                                           | RPath ->
                                                             let i4 =
                                                               match 
                                                               next i3 with
                                                               | Some p3 ->
                                                                 let (
                                                                   _, x) = p3
                                                                 in
                                                                 x
                                                               | None -> i3
                                                             in
                                                             (((gstar,
                                                             gstar),
                                                             (set_matchbase
                                                               st false)), i4)
                                                           | _ ->
                                                             (((star, gstar),
                                                               st), i1))
                                                     else if N.eqb c0 cSL
                                                          then (((gstar,
                                                                 gstar),
                                                                 (set_matchbase
                                                                   st false)),
                                                                 i3)
                                                          else (((star,
                                                                 gstar), st),
                                                                 i1)
                                                   | None ->
                                                     (((gstar, gstar), st),
                                                       i1))
                                      | None ->
                                        let p0 = (false, capture0) in
                                        let (skip, capture) = p0 in
                                        let gstar =
                                          if capture
                                          then app
                                                 (s_ (String ((Ascii (false,
                                                   false, false, true, false,
                                                   true, false, false)),
                                                   EmptyString)))
                                                 (app gstar0
                                                   (s_ (String ((Ascii (true,
                                                     false, false, true,
                                                     false, true, false,
                                                     false)), EmptyString))))
                                          else gstar0
                                        in
                                        if skip
                                        then (((star, gstar), st), i1)
                                        else (match next i1 with
                                              | Some p1 ->
                                                let (c0, i2) = p1 in
                                                if N.eqb c0 cBS
                                                then (match references cf st
                                                              i2 true with
                                                      | RStop ->
                                                        (((gstar, gstar),
                                                          st), i2)
                                                      | RPath ->
                                                        let i3 =
                                                          match next i2 with
                                                          | Some p2 ->
                                                            let (_, x) = p2 in
                                                            x
                                                          | None -> i2
                                                        in
                                                        (((gstar, gstar),
                                                        (set_matchbase st
                                                          false)), i3)
                                                      | _ ->
                                                        (((star, gstar), st),
                                                          i1))
                                                else if N.eqb c0 cSL
                                                     then (((gstar, gstar),
                                                            (set_matchbase st
                                                              false)), i2)
                                                     else (((star, gstar),
                                                            st), i1)
                                              | None ->
                                                (((gstar, gstar), st), i1)))
                                else let p0 = (false, capture0) in
                                     let (skip, capture) = p0 in
                                     let gstar =
                                       if capture
                                       then app
                                              (s_ (String ((Ascii (false,
                                                false, false, true, false,
                                                true, false, false)),
                                                EmptyString)))
                                              (app gstar0
                                                (s_ (String ((Ascii (true,
                                                  false, false, true, false,
                                                  true, false, false)),
                                                  EmptyString))))
                                       else gstar0
                                     in
                                     if skip
                                     then (((star, gstar), st), i1)
                                     else (match next i1 with
                                           | Some p1 ->
                                             let (c0, i2) = p1 in
                                             if N.eqb c0 cBS
                                             then (match references cf st i2
                                                           true with
                                                   | RStop ->
                                                     (((gstar, gstar), st),
                                                       i2)
                                                   | RPath ->
                                                     let i3 =
                                                       match next i2 with
                                                       | Some p2 ->
                                                         let (_, x) = p2 in x
                                                       | None -> i2
                                                     in
                                                     (((gstar, gstar),
                                                     (set_matchbase st false)),
                                                     i3)
                                                   | _ ->
                                                     (((star, gstar), st), i1))
                                             else if N.eqb c0 cSL
                                                  then (((gstar, gstar),
                                                         (set_matchbase st
                                                           false)), i2)
                                                  else (((star, gstar), st),
                                                         i1)
                                           | None ->
                                             (((gstar, gstar), st), i1))
                           else let p0 = (true, capture0) in
                                let (skip, capture) = p0 in
                                let gstar =
                                  if capture
                                  then app
                                         (s_ (String ((Ascii (false, false,
                                           false, true, false, true, false,
                                           false)), EmptyString)))
                                         (app gstar0
                                           (s_ (String ((Ascii (true, false,
                                             false, true, false, true, false,
                                             false)), EmptyString))))
                                  else gstar0
                                in
                                if skip
                                then (((star, gstar), st), it)
                                else (match next it with
                                      | Some p1 ->
                                        let (c0, i2) = p1 in
                                        if N.eqb c0 cBS
                                        then (match references cf st i2 true with
                                              | RStop ->
                                                (((gstar, gstar), st), i2)
                                              | RPath ->
                                                let i3 =
                                                  match next i2 with
                                                  | Some p2 ->
                                                    let (_, x) = p2 in x
                                                  | None -> i2
                                                in
                                                (((gstar, gstar),
                                                (set_matchbase st false)), i3)
                                              | _ -> (((star, gstar), st), it))
                                        else if N.eqb c0 cSL
                                             then (((gstar, gstar),
                                                    (set_matchbase st false)),
                                                    i2)
                                             else (((star, gstar), st), it)
                                      | None -> (((gstar, gstar), st), it))
                         | None ->
                           let p = (true, capture0) in
                           let (skip, capture) = p in
                           let gstar =
                             if capture
                             then app
                                    (s_ (String ((Ascii (false, false, false,
                                      true, false, true, false, false)),
                                      EmptyString)))
                                    (app gstar0
                                      (s_ (String ((Ascii (true, false,
                                        false, true, false, true, false,
                                        false)), EmptyString))))
                             else gstar0
                           in
                           if skip
                           then (((star, gstar), st), it)
                           else (match next it with
                                 | Some p0 ->
                                   let (c, i1) = p0 in
                                   if N.eqb c cBS
                                   then (match references cf st i1 true with
                                         | RStop -> (((gstar, gstar), st), i1)
                                         | RPath ->
                                           let i2 =
                                             match next i1 with
                                             | Some p1 -> let (_, x) = p1 in x
                                             | None -> i1
                                           in
                                           (((gstar, gstar),
                                           (set_matchbase st false)), i2)
                                         | _ -> (((star, gstar), st), it))
                                   else if N.eqb c cSL
                                        then (((gstar, gstar),
                                               (set_matchbase st false)), i1)
                                        else (((star, gstar), st), it)
                                 | None -> (((gstar, gstar), st), it)))
                   else (((star, gstar0), st), it)
                 in
                 let (p0, st1) = p in
                 let (value, gstar) = p0 in
                 let is_g = str_eqb value gstar in
                 if (&&) st.after_start (negb is_g)
                 then let value2 = app cf.c_need_char value in
                      let it2 = skip_stars it1.rest it1.idx in
                      let st2 = reset_dir_track st1 in
                      if str_eqb value2 gstar
                      then let sepd = format Frag.u_GLOBSTAR_DIV cf.c_sep []
                           in
                           (match cur with
                            | [] -> (((set_start_dir st2), it2), cur)
                            | last :: cur' ->
                              if negb (str_eqb (itext last) sepd)
                              then let cur1 =
                                     if str_eqb (itext last) []
                                     then (T value2) :: cur'
                                     else (T value2) :: ((T
                                            (format Frag.u_NEED_SEP cf.c_sep
                                              [])) :: cur')
                                   in
                                   let it3 = consume_path_sep cf it2 in
                                   (((set_start_dir st2), it3), ((T
                                   sepd) :: cur1))
                              else (((set_start_dir st2), it2), cur))
                      else ((st2, it2), ((T value2) :: cur))
                 else let st2 = reset_dir_track st1 in
                      if str_eqb value gstar
                      then let sepd = format Frag.u_GLOBSTAR_DIV cf.c_sep []
                           in
                           (match cur with
                            | [] -> (((set_start_dir st2), it1), cur)
                            | last :: cur' ->
                              if negb (str_eqb (itext last) sepd)
                              then let cur1 =
                                     if str_eqb (itext last) []
                                     then (T value) :: cur'
                                     else (T value) :: ((T
                                            (format Frag.u_NEED_SEP cf.c_sep
                                              [])) :: cur')
                                   in
                                   let it3 = consume_path_sep cf it1 in
                                   (((set_start_dir st2), it3), ((T
                                   sepd) :: cur1))
                              else (((set_start_dir st2), it1), cur))
                      else ((st2, it1), ((T value) :: cur))
  else let star =
         if (&&) st.after_start (negb cf.c_dot)
         then app Frag.u_NO_DOT Frag.u_STAR
         else Frag.u_STAR
       in
       let gstar0 = [] in
       let capture0 = cf.c_gcapture in
       let (p, it1) =
         if (&&) ((&&) st.after_start st.globstar) (negb st.in_list)
         then (match next it with
               | Some p ->
                 let (c, i1) = p in
                 if N.eqb c cSTAR
                 then if cf.c_globstarlong
                      then (match next i1 with
                            | Some p0 ->
                              let (c2, i2) = p0 in
                              if N.eqb c2 cSTAR
                              then let p1 = (false, false) in
                                   let (skip, capture) = p1 in
                                   let gstar =
                                     if capture
                                     then app
                                            (s_ (String ((Ascii (false,
                                              false, false, true, false,
                                              true, false, false)),
                                              EmptyString)))
                                            (app gstar0
                                              (s_ (String ((Ascii (true,
                                                false, false, true, false,
                                                true, false, false)),
                                                EmptyString))))
                                     else gstar0
                                   in
                                   if skip
                                   then (((star, gstar), st), i2)
                                   else (match next i2 with
                                         | Some p2 ->
                                           let (c0, i3) = p2 in
                                           if N.eqb c0 cBS
                                           then (match references cf st i3
                                                         true with
                                                 | RStop ->
                                                   (((gstar, gstar), st), i3)
                                                 | RPath ->
                                                   let i4 =
                                                     match next i3 with
                                                     | Some p3 ->
                                                       let (_, x) = p3 in x
                                                     | None -> i3
                                                   in
                                                   (((gstar, gstar),
                                                   (set_matchbase st false)),
                                                   i4)
                                                 | _ ->
                                                   (((star, gstar), st), i2))
                                           else if N.eqb c0 cSL
                                                then (((gstar, gstar),
                                                       (set_matchbase st
                                                         false)), i3)
                                                else (((star, gstar), st), i2)
                                         | None -> (((gstar, gstar), st), i2))
                              else let p1 = (false, capture0) in
                                   let (skip, capture) = p1 in
                                   let gstar =
                                     if capture
                                     then app
                                            (s_ (String ((Ascii (false,
                                              false, false, true, false,
                                              true, false, false)),
                                              EmptyString)))
                                            (app gstar0
                                              (s_ (String ((Ascii (true,
                                                false, false, true, false,
                                                true, false, false)),
                                                EmptyString))))
                                     else gstar0
                                   in
                                   if skip
                                   then (((star, gstar), st), i1)
                                   else (match next i1 with
                                         | Some p2 ->
                                           let (c0, i3) = p2 in
                                           if N.eqb c0 cBS
                                           then (match references cf st i3
                                                         true with
                                                 | RStop ->
                                                   (((gstar, gstar), st), i3)
                                                 | RPath ->
                                                   let i4 =
                                                     match next i3 with
                                                     | Some p3 ->
                                                       let (_, x) = p3 in x
                                                     | None -> i3
                                                   in
                                                   (((gstar, gstar),
                                                   (set_matchbase st false)),
                                                   i4)
                                                 | _ ->
                                                   (((star, gstar), st), i1))
                                           else if N.eqb c0 cSL
                                                then (((gstar, gstar),
                                                       (set_matchbase st
                                                         false)), i3)
                                                else (((star, gstar), st), i1)
                                         | None -> (((gstar, gstar), st), i1))
                            | None ->
                              let p0 = (false, capture0) in
                              let (skip, capture) = p0 in
                              let gstar =
                                if capture
                                then app
                                       (s_ (String ((Ascii (false, false,
                                         false, true, false, true, false,
                                         false)), EmptyString)))
                                       (app gstar0
                                         (s_ (String ((Ascii (true, false,
                                           false, true, false, true, false,
                                           false)), EmptyString))))
                                else gstar0
                              in
                              if skip
                              then (((star, gstar), st), i1)
                              else (match next i1 with
                                    | Some p1 ->
                                      let (c0, i2) = p1 in
                                      if N.eqb c0 cBS
                                      then (match references cf st i2 true with
                                            | RStop ->
                                              (((gstar, gstar), st), i2)
                                            | RPath ->
                                              let i3 =
                                                match next i2 with
                                                | Some p2 ->
                                                  let (_, x) = p2 in x
                                                | None -> i2
                                              in
                                              (((gstar, gstar),
                                              (set_matchbase st false)), i3)
                                            | _ -> (((star, gstar), st), i1))
                                      else if N.eqb c0 cSL
                                           then (((gstar, gstar),
                                                  (set_matchbase st false)),
                                                  i2)
                                           else (((star, gstar), st), i1)
                                    | None -> (((gstar, gstar), st), i1)))
                      else let p0 = (false, capture0) in
                           let (skip, capture) = p0 in
                           let gstar =
                             if capture
                             then app
                                    (s_ (String ((Ascii (false, false, false,
                                      true, false, true, false, false)),
                                      EmptyString)))
                                    (app gstar0
                                      (s_ (String ((Ascii (true, false,
                                        false, true, false, true, false,
                                        false)), EmptyString))))
                             else gstar0
                           in
                           if skip
                           then (((star, gstar), st), i1)
                           else (match next i1 with
                                 | Some p1 ->
                                   let (c0, i2) = p1 in
                                   if N.eqb c0 cBS
                                   then (match references cf st i2 true with
                                         | RStop -> (((gstar, gstar), st), i2)
                                         | RPath ->
                                           let i3 =
                                             match next i2 with
                                             | Some p2 -> let (_, x) = p2 in x
                                             | None -> i2
                                           in
                                           (((gstar, gstar),
                                           (set_matchbase st false)), i3)
                                         | _ -> (((star, gstar), st), i1))
                                   else if N.eqb c0 cSL
                                        then (((gstar, gstar),
                                               (set_matchbase st false)), i2)
                                        else (((star, gstar), st), i1)
                                 | None -> (((gstar, gstar), st), i1))
                 else let p0 = (true, capture0) in
                      let (skip, capture) = p0 in
                      let gstar =
                        if capture
                        then app
                               (s_ (String ((Ascii (false, false, false,
                                 true, false, true, false, false)),
                                 EmptyString)))
                               (app gstar0
                                 (s_ (String ((Ascii (true, false, false,
                                   true, false, true, false, false)),
                                   EmptyString))))
                        else gstar0
                      in
                      if skip
                      then (((star, gstar), st), it)
                      else (match next it with
                            | Some p1 ->
                              let (c0, i2) = p1 in
                              if N.eqb c0 cBS
                              then (match references cf st i2 true with
                                    | RStop -> (((gstar, gstar), st), i2)
                                    | RPath ->
                                      let i3 =
                                        match next i2 with
                                        | Some p2 -> let (_, x) = p2 in x
                                        | None -> i2
                                      in
                                      (((gstar, gstar),
                                      (set_matchbase st false)), i3)
                                    | _ -> (((star, gstar), st), it))
                              else if N.eqb c0 cSL
                                   then (((gstar, gstar),
                                          (set_matchbase st false)), i2)
                                   else (((star, gstar), st), it)
                            | None -> (((gstar, gstar), st), it))
               | None ->
                 let p = (true, capture0) in
                 let (skip, capture) = p in
                 let gstar =
                   if capture
                   then app
                          (s_ (String ((Ascii (false, false, false, true,
                            false, true, false, false)), EmptyString)))
                          (app gstar0
                            (s_ (String ((Ascii (true, false, false, true,
                              false, true, false, false)), EmptyString))))
                   else gstar0
                 in
                 if skip
                 then (((star, gstar), st), it)
                 else (match next it with
                       | Some p0 ->
                         let (c, i1) = p0 in
                         if N.eqb c cBS
                         then (match references cf st i1 true with
                               | RStop -> (((gstar, gstar), st), i1)
                               | RPath ->
                                 let i2 =
                                   match next i1 with
                                   | Some p1 -> let (_, x) = p1 in x
                                   | None -> i1
                                 in
                                 (((gstar, gstar), (set_matchbase st false)),
                                 i2)
                               | _ -> (((star, gstar), st), it))
                         else if N.eqb c cSL
                              then (((gstar, gstar),
                                     (set_matchbase st false)), i1)
                              else (((star, gstar), st), it)
                       | None -> (((gstar, gstar), st), it)))
         else (((star, gstar0), st), it)
       in
       let (p0, st1) = p in
       let (value, gstar) = p0 in
       let is_g = str_eqb value gstar in
       if (&&) st.after_start (negb is_g)
       then let value2 = app cf.c_need_char value in
            let it2 = skip_stars it1.rest it1.idx in
            let st2 = reset_dir_track st1 in
            if str_eqb value2 gstar
            then let sepd = format Frag.u_GLOBSTAR_DIV cf.c_sep [] in
                 (match cur with
                  | [] -> (((set_start_dir st2), it2), cur)
                  | last :: cur' ->
                    if negb (str_eqb (itext last) sepd)
                    then let cur1 =
                           if str_eqb (itext last) []
                           then (T value2) :: cur'
                           else (T value2) :: ((T
                                  (format Frag.u_NEED_SEP cf.c_sep [])) :: cur')
                         in
                         let it3 = consume_path_sep cf it2 in
                         (((set_start_dir st2), it3), ((T sepd) :: cur1))
                    else (((set_start_dir st2), it2), cur))
            else ((st2, it2), ((T value2) :: cur))
       else let st2 = reset_dir_track st1 in
            if str_eqb value gstar
            then let sepd = format Frag.u_GLOBSTAR_DIV cf.c_sep [] in
                 (match cur with
                  | [] -> (((set_start_dir st2), it1), cur)
                  | last :: cur' ->
                    if negb (str_eqb (itext last) sepd)
                    then let cur1 =
                           if str_eqb (itext last) []
                           then (T value) :: cur'
                           else (T value) :: ((T
                                  (format Frag.u_NEED_SEP cf.c_sep [])) :: cur')
                         in
                         let it3 = consume_path_sep cf it1 in
                         (((set_start_dir st2), it3), ((T sepd) :: cur1))
                    else (((set_start_dir st2), it1), cur))
            else ((st2, it1), ((T value) :: cur))

(** val cui_go : cfg -> bool -> item list -> str -> item list * str **)

let rec cui_go cf nested cur after =
  match cur with
  | [] -> ([], after)
  | x :: cur' ->
    (match x with
     | T s ->
       let (done0, _) = cui_go cf nested cur' (app s after) in
       (((T s) :: done0), after)
     | H star ->
       let content =
         if nested
         then after
         else app after (if cf.c_pathname then cf.c_path_eop else Frag.u_EOP)
       in
       let content' =
         if cf.c_capture
         then replace_all
                (s_ (String ((Ascii (false, false, false, true, false, true,
                  false, false)), (String ((Ascii (true, true, true, true,
                  true, true, false, false)), (String ((Ascii (true, true,
                  false, false, false, true, false, false)), (String ((Ascii
                  (true, false, false, true, false, true, false, false)),
                  EmptyString)))))))))
                (s_ (String ((Ascii (true, true, true, true, true, true,
                  false, false)), (String ((Ascii (false, true, false, true,
                  true, true, false, false)), EmptyString))))) content
         else content
       in
       let new0 = app content' (format Frag.u_EXCLA_GROUP_CLOSE star []) in
       let (done0, _) = cui_go cf nested cur' (app new0 after) in
       (((T new0) :: done0), after))

(** val clean_up_inverse :
    cfg -> pst -> item list -> bool -> pst * item list **)

let clean_up_inverse cf st cur nested =
  if Z.eqb st.inv_ext Z0
  then (st, cur)
  else ((set_inv_ext st Z0), (fst (cui_go cf nested cur [])))

(** val ext_types : str **)

let ext_types =
  Sets.coq_EXT_TYPES

(** val group_text : cfg -> ch -> str -> str **)

let group_text cf ty body =
  let pick = fun a b -> format (if cf.c_capture then a else b) body [] in
  if N.eqb ty cQM
  then pick Frag.u_QMARK_CAPTURE_GROUP Frag.u_QMARK_GROUP
  else if N.eqb ty cSTAR
       then pick Frag.u_STAR_CAPTURE_GROUP Frag.u_STAR_GROUP
       else if N.eqb ty cPLUS
            then pick Frag.u_PLUS_CAPTURE_GROUP Frag.u_PLUS_GROUP
            else if N.eqb ty cAT
                 then pick Frag.u_CAPTURE_GROUP Frag.u_GROUP
                 else pick Frag.u_EXCLA_CAPTURE_GROUP Frag.u_EXCLA_GROUP

(** val ext :
    nat -> cfg -> pst -> ch -> iter -> item list -> bool ->
    (((bool * pst) * iter) * item list) res **)

let rec ext fuel cf st ty it cur reset_dot =
  match fuel with
  | O -> Fuel
  | S f ->
    let t_dir = st.dir_start in
    let t_after = st.after_start in
    let t_in = st.in_list in
    let t_ie = st.inv_ext in
    let t_nest = st.inv_nest in
    let st0 = set_lists st true (N.eqb ty cEX) in
    let st1 = if reset_dot then set_mdd st0 false else st0 in
    let finish = fun success stx itx curx ->
      let stx1 = if negb t_in then set_lists stx false stx.inv_nest else stx
      in
      let stx2 =
        if negb t_nest then set_lists stx1 stx1.in_list false else stx1
      in
      let stx3 =
        if success then reset_dir_track stx2 else upd_dir stx2 t_after t_dir
      in
      Ok (((success, stx3), itx), curx)
    in
    let fail = fun stx -> finish false (set_inv_ext stx t_ie) it cur in
    (match next it with
     | Some p ->
       let (c, it1) = p in
       if negb (N.eqb c cLP)
       then fail st1
       else (match ext_loop f cf st1 it1 [] t_after t_nest with
             | Ok a ->
               let (p0, stfail) = a in
               let (p1, extended) = p0 in
               let (st2, it2) = p1 in
               (match extended with
                | Some extd ->
                  let body = jrev extd in
                  if N.eqb ty cEX
                  then let st3 = set_inv_ext st2 (Z.add st2.inv_ext (Zpos XH))
                       in
                       let star0 =
                         if cf.c_pathname
                         then if (||) (negb t_after) st3.match_dot_dir
                              then cf.c_path_star
                              else if (&&) t_after (negb cf.c_dot)
                                   then cf.c_path_star_dot2
                                   else cf.c_path_star_dot1
                         else if (||) (negb t_after) cf.c_dot
                              then Frag.u_STAR
                              else app Frag.u_NO_DOT Frag.u_STAR
                       in
                       let star =
                         if t_after then app cf.c_need_char star0 else star0
                       in
                       let cur1 = (H star) :: ((T
                         (group_text cf ty body)) :: cur)
                       in
                       let (st4, cur2) =
                         if t_in
                         then clean_up_inverse cf st3 cur1
                                ((&&) t_nest st3.inv_nest)
                         else (st3, cur1)
                       in
                       finish true st4 it2 cur2
                  else let cur1 = (T (group_text cf ty body)) :: cur in
                       let (st4, cur2) =
                         if t_in
                         then clean_up_inverse cf st2 cur1
                                ((&&) t_nest st2.inv_nest)
                         else (st2, cur1)
                       in
                       finish true st4 it2 cur2
                | None -> fail stfail)
             | Stop -> fail st1
             | Fuel -> Fuel)
     | None -> fail st1)

(** val ext_loop :
    nat -> cfg -> pst -> iter -> item list -> bool -> bool ->
    (((pst * iter) * item list option) * pst) res **)

and ext_loop fuel cf st it extended t_after t_nest =
  match fuel with
  | O -> Fuel
  | S f ->
    (match next it with
     | Some p ->
       let (c, it1) = p in
       let continue_ = fun stx itx extx ->
         let stx' = update_dir_state stx in
         if N.eqb c cRP
         then Ok (((stx', itx), (Some extx)), stx')
         else ext_loop f cf stx' itx extx t_after t_nest
       in
       let try_ext =
         if (&&) cf.c_extend (ch_in c ext_types)
         then (match ext f cf st c it1 extended false with
               | Ok a ->
                 let (p0, ext') = a in
                 let (p1, it') = p0 in
                 let (b, st') = p1 in
                 if b
                 then Ok ((Some ((st', it'), ext')), st')
                 else Ok (None, st')
               | Stop -> Stop
               | Fuel -> Fuel)
         else Ok (None, st)
       in
       (match try_ext with
        | Ok a ->
          let (o, st0) = a in
          (match o with
           | Some p0 ->
             let (p1, ext') = p0 in
             let (st', it') = p1 in continue_ st' it' ext'
           | None ->
             if N.eqb c cSTAR
             then let (p0, ext') = handle_star cf st0 it1 extended in
                  let (st', it') = p0 in continue_ st' it' ext'
             else if N.eqb c cDOT
                  then let v = handle_dot cf st0 it1 in
                       let st' =
                         if st0.after_start
                         then reset_dir_track
                                (set_mdd st0
                                  ((&&) cf.c_dot (negb cf.c_nodotdir)))
                         else st0
                       in
                       continue_ st' it1 ((T v) :: extended)
                  else if N.eqb c cQM
                       then let (g, st') = restrict_sequence cf st0 in
                            continue_ st' it1 ((T
                              (app g Frag.u_QMARK)) :: extended)
                       else if N.eqb c cSL
                            then let e1 =
                                   if cf.c_pathname
                                   then (T
                                          (restrict_extended_slash cf)) :: extended
                                   else extended
                                 in
                                 continue_ st0 it1 ((T cf.c_sep) :: e1)
                            else if N.eqb c cBAR
                                 then let (st', e1) =
                                        if st0.inv_nest
                                        then clean_up_inverse cf st0 extended
                                               t_nest
                                        else (st0, extended)
                                      in
                                      let st'' =
                                        if t_after
                                        then set_start_dir st'
                                        else st'
                                      in
                                      continue_ st'' it1 ((T
                                        (cBAR :: [])) :: e1)
                                 else if N.eqb c cBS
                                      then (match references cf st0 it1 false with
                                            | RVal (v, st', it') ->
                                              continue_ st' it' ((T
                                                v) :: extended)
                                            | RDot itd ->
                                              ext_loop f cf st0 itd extended
                                                t_after t_nest
                                            | _ -> continue_ st0 it1 extended)
                                      else if N.eqb c cLB
                                           then (match sequence cf st0 it1 with
                                                 | Ok a0 ->
                                                   let (p0, it') = a0 in
                                                   let (v, st') = p0 in
                                                   continue_ st' it' ((T
                                                     v) :: extended)
                                                 | Stop ->
                                                   continue_ st0 it1 ((T
                                                     (s_ (String ((Ascii
                                                       (false, false, true,
                                                       true, true, false,
                                                       true, false)), (String
                                                       ((Ascii (true, true,
                                                       false, true, true,
                                                       false, true, false)),
                                                       EmptyString)))))) :: extended)
                                                 | Fuel -> Fuel)
                                           else if negb (N.eqb c cRP)
                                                then continue_ st0 it1 ((T
                                                       (re_escape_ch c)) :: extended)
                                                else continue_ st0 it1
                                                       extended)
        | Stop -> Stop
        | Fuel -> Fuel)
     | None -> Ok (((st, it), None), st))

type perr =
| EValue
| EFuel
| EUnsupported

(** val root_loop :
    nat -> cfg -> pst -> iter -> item list -> (pst * item list) res **)

let rec root_loop fuel cf st it cur =
  match fuel with
  | O -> Fuel
  | S f ->
    (match next it with
     | Some p ->
       let (c, it1) = p in
       let continue_ = fun stx itx curx ->
         root_loop f cf (update_dir_state stx) itx curx
       in
       let try_ext =
         if (&&) cf.c_extend (ch_in c ext_types)
         then (match ext f cf st c it1 cur true with
               | Ok a ->
                 let (p0, cur') = a in
                 let (p1, it') = p0 in
                 let (b, st') = p1 in
                 if b
                 then Ok ((Some ((st', it'), cur')), st')
                 else Ok (None, st')
               | Stop -> Stop
               | Fuel -> Fuel)
         else Ok (None, st)
       in
       (match try_ext with
        | Ok a ->
          let (o, st0) = a in
          (match o with
           | Some p0 ->
             let (p1, cur') = p0 in
             let (st', it') = p1 in continue_ st' it' cur'
           | None ->
             if N.eqb c cDOT
             then continue_ st0 it1 ((T (handle_dot cf st0 it1)) :: cur)
             else if N.eqb c cSTAR
                  then let (p0, cur') = handle_star cf st0 it1 cur in
                       let (st', it') = p0 in continue_ st' it' cur'
                  else if N.eqb c cQM
                       then let (g, st') = restrict_sequence cf st0 in
                            continue_ st' it1 ((T
                              (app g Frag.u_QMARK)) :: cur)
                       else if N.eqb c cSL
                            then if cf.c_pathname
                                 then let st1 = set_start_dir st0 in
                                      let (st2, cur1) =
                                        clean_up_inverse cf st1 cur false
                                      in
                                      let it2 = consume_path_sep cf it1 in
                                      continue_ (set_matchbase st2 false) it2
                                        ((T
                                        (app cf.c_sep Frag.u_ONE_OR_MORE)) :: cur1)
                                 else continue_ st0 it1 ((T cf.c_sep) :: cur)
                            else if N.eqb c cBS
                                 then (match references cf st0 it1 false with
                                       | RVal (v, st', it') ->
                                         if st'.dir_start
                                         then let (st2, cur1) =
                                                clean_up_inverse cf st' cur
                                                  false
                                              in
                                              let it2 =
                                                consume_path_sep cf it'
                                              in
                                              continue_
                                                (set_matchbase st2 false) it2
                                                ((T v) :: cur1)
                                         else continue_ st' it' ((T v) :: cur)
                                       | RDot itd ->
                                         root_loop f cf st0 itd cur
                                       | _ -> continue_ st0 it1 cur)
                                 else if N.eqb c cLB
                                      then (match sequence cf st0 it1 with
                                            | Ok a0 ->
                                              let (p0, it') = a0 in
                                              let (v, st') = p0 in
                                              continue_ st' it' ((T v) :: cur)
                                            | Stop ->
                                              continue_ st0 it1 ((T
                                                (re_escape_ch c)) :: cur)
                                            | Fuel -> Fuel)
                                      else continue_ st0 it1 ((T
                                             (re_escape_ch c)) :: cur))
        | Stop -> Stop
        | Fuel -> Fuel)
     | None -> Ok (st, cur))

(** val fuel_for : str -> nat **)

let fuel_for p =
  add (mul (S (S O)) (length p)) (S (S (S (S O))))

(** val root :
    cfg -> pst -> str -> item list -> ((pst * item list) res, perr) sum **)

let root cf st p cur =
  let st0 = set_after_start st in
  if cf.c_windrive
  then Inr EUnsupported
  else let root_specified = (&&) cf.c_pathname (starts_with (cSL :: []) p) in
       if (&&) cf.c_noabs root_specified
       then Inr EValue
       else let st1 =
              if root_specified
              then set_extmatchbase (set_matchbase st0 false) false
              else st0
            in
            let cur1 =
              if (&&) (negb root_specified) cf.c_realpath
              then (T []) :: ((T Frag.u_NO_ROOT) :: cur)
              else cur
            in
            (match root_loop (fuel_for p) cf st1 { idx = Z0; rest = p } cur1 with
             | Ok a ->
               let (st2, cur2) = a in
               let (st3, cur3) = clean_up_inverse cf st2 cur2 false in
               let cur4 =
                 if cf.c_pathname
                 then (T (format Frag.u_PATH_TRAIL cf.c_sep [])) :: cur3
                 else cur3
               in
               Inl (Ok (st3, cur4))
             | Stop -> Inl Stop
             | Fuel -> Inr EFuel)

(** val strip_slashes : str -> str * bool **)

let rec strip_slashes p = match p with
| [] -> ([], false)
| c :: p' ->
  if N.eqb c cSL then ((fst (strip_slashes p')), true) else (p, false)

(** val wcparse_cf : cfg -> pst -> str -> (str, perr) sum **)

let wcparse_cf cf st p =
  if cf.c_anchor
  then let (p', n0) = strip_slashes p in
       let st1 =
         if n0 then set_extmatchbase (set_matchbase st false) false else st
       in
       let pre =
         if (||) st1.matchbase st1.extmatchbase
         then if (&&) cf.c_globstarlong cf.c_follow
              then (match root cf st1
                            (s_ (String ((Ascii (false, true, false, true,
                              false, true, false, false)), (String ((Ascii
                              (false, true, false, true, false, true, false,
                              false)), (String ((Ascii (false, true, false,
                              true, false, true, false, false)),
                              EmptyString))))))) ((T []) :: []) with
                    | Inl r -> (match r with
                                | Ok x -> Inl x
                                | _ -> Inr EFuel)
                    | Inr e -> Inr e)
              else let g = st1.globstar in
                   (match root cf (set_globstar st1 true)
                            (s_ (String ((Ascii (false, true, false, true,
                              false, true, false, false)), (String ((Ascii
                              (false, true, false, true, false, true, false,
                              false)), EmptyString))))) ((T []) :: []) with
                    | Inl r ->
                      (match r with
                       | Ok a -> let (s, c) = a in Inl ((set_globstar s g), c)
                       | _ -> Inr EFuel)
                    | Inr e -> Inr e)
         else Inl (st1, ((T []) :: []))
       in
       (match pre with
        | Inl p0 ->
          let (st2, prepend) = p0 in
          let p2 = if str_eqb p' (cBS :: []) then [] else p' in
          let main =
            match p2 with
            | [] -> Inl (st2, ((T []) :: []))
            | _ :: _ ->
              (match root cf st2 p2 ((T []) :: []) with
               | Inl r -> (match r with
                           | Ok x -> Inl x
                           | _ -> Inr EFuel)
               | Inr e -> Inr e)
          in
          (match main with
           | Inl p1 ->
             let (st3, result) = p1 in
             let body =
               match p2 with
               | [] -> jrev result
               | _ :: _ ->
                 if (||) st3.matchbase st3.extmatchbase
                 then app (jrev prepend) (jrev result)
                 else jrev result
             in
             let pattern =
               app
                 (s_ (String ((Ascii (false, true, true, true, true, false,
                   true, false)), (String ((Ascii (false, false, false, true,
                   false, true, false, false)), (String ((Ascii (true, true,
                   true, true, true, true, false, false)), (String ((Ascii
                   (true, true, false, false, true, true, true, false)),
                   EmptyString)))))))))
                 (app
                   (if cf.c_cs
                    then []
                    else s_ (String ((Ascii (true, false, false, true, false,
                           true, true, false)), EmptyString)))
                   (app
                     (s_ (String ((Ascii (false, true, false, true, true,
                       true, false, false)), EmptyString)))
                     (app body
                       (s_ (String ((Ascii (true, false, false, true, false,
                         true, false, false)), (String ((Ascii (false, false,
                         true, false, false, true, false, false)),
                         EmptyString))))))))
             in
             Inl
             (if cf.c_capture
              then replace_all
                     (s_ (String ((Ascii (false, false, false, true, false,
                       true, false, false)), (String ((Ascii (true, true,
                       true, true, true, true, false, false)), (String
                       ((Ascii (true, true, false, false, false, true, false,
                       false)), (String ((Ascii (true, false, false, true,
                       false, true, false, false)), EmptyString))))))))) []
                     pattern
              else pattern)
           | Inr e -> Inr e)
        | Inr e -> Inr e)
  else let pre =
         if (||) st.matchbase st.extmatchbase
         then if (&&) cf.c_globstarlong cf.c_follow
              then (match root cf st
                            (s_ (String ((Ascii (false, true, false, true,
                              false, true, false, false)), (String ((Ascii
                              (false, true, false, true, false, true, false,
                              false)), (String ((Ascii (false, true, false,
                              true, false, true, false, false)),
                              EmptyString))))))) ((T []) :: []) with
                    | Inl r -> (match r with
                                | Ok x -> Inl x
                                | _ -> Inr EFuel)
                    | Inr e -> Inr e)
              else let g = st.globstar in
                   (match root cf (set_globstar st true)
                            (s_ (String ((Ascii (false, true, false, true,
                              false, true, false, false)), (String ((Ascii
                              (false, true, false, true, false, true, false,
                              false)), EmptyString))))) ((T []) :: []) with
                    | Inl r ->
                      (match r with
                       | Ok a -> let (s, c) = a in Inl ((set_globstar s g), c)
                       | _ -> Inr EFuel)
                    | Inr e -> Inr e)
         else Inl (st, ((T []) :: []))
       in
       (match pre with
        | Inl p0 ->
          let (st2, prepend) = p0 in
          let p2 = if str_eqb p (cBS :: []) then [] else p in
          let main =
            match p2 with
            | [] -> Inl (st2, ((T []) :: []))
            | _ :: _ ->
              (match root cf st2 p2 ((T []) :: []) with
               | Inl r -> (match r with
                           | Ok x -> Inl x
                           | _ -> Inr EFuel)
               | Inr e -> Inr e)
          in
          (match main with
           | Inl p1 ->
             let (st3, result) = p1 in
             let body =
               match p2 with
               | [] -> jrev result
               | _ :: _ ->
                 if (||) st3.matchbase st3.extmatchbase
                 then app (jrev prepend) (jrev result)
                 else jrev result
             in
             let pattern =
               app
                 (s_ (String ((Ascii (false, true, true, true, true, false,
                   true, false)), (String ((Ascii (false, false, false, true,
                   false, true, false, false)), (String ((Ascii (true, true,
                   true, true, true, true, false, false)), (String ((Ascii
                   (true, true, false, false, true, true, true, false)),
                   EmptyString)))))))))
                 (app
                   (if cf.c_cs
                    then []
                    else s_ (String ((Ascii (true, false, false, true, false,
                           true, true, false)), EmptyString)))
                   (app
                     (s_ (String ((Ascii (false, true, false, true, true,
                       true, false, false)), EmptyString)))
                     (app body
                       (s_ (String ((Ascii (true, false, false, true, false,
                         true, false, false)), (String ((Ascii (false, false,
                         true, false, false, true, false, false)),
                         EmptyString))))))))
             in
             Inl
             (if cf.c_capture
              then replace_all
                     (s_ (String ((Ascii (false, false, false, true, false,
                       true, false, false)), (String ((Ascii (true, true,
                       true, true, true, true, false, false)), (String
                       ((Ascii (true, true, false, false, false, true, false,
                       false)), (String ((Ascii (true, false, false, true,
                       false, true, false, false)), EmptyString))))))))) []
                     pattern
              else pattern)
           | Inr e -> Inr e)
        | Inr e -> Inr e)

(** val wcparse : platform -> z -> bool -> str -> (str, perr) sum **)

let wcparse p flags is_bytes p0 =
  let (cf, st) = mk_cfg p flags is_bytes in wcparse_cf cf st p0
