(* Functional mirror of wcmatch/_wcparse.py : class WcSplit (795-918): split a pattern at top-level `|`.
   No proofs in this file. *)
From WC Require Import Str WcParse.
From WC.Gen Require Import Consts Posix FlagFuns.
Import Mwcparse.
Open Scope nat_scope.

Record scfg := { s_pathname : bool; s_extend : bool; s_bslash_abort : bool }.

Definition mk_scfg (P : platform) (flags : Z) : scfg :=
  {| s_pathname := has flags PATHNAME; s_extend := has flags EXTMATCH;
     s_bslash_abort := negb (is_unix_style P flags) && has flags PATHNAME |}.

(* iterator over the remaining text, with its absolute index *)
Record sit := { sidx : nat; srest : str }.
Definition snext (it : sit) : option (ch * sit) :=
  match srest it with [] => None | c :: r => Some (c, {| sidx := S (sidx it); srest := r |}) end.

(* _references (828-842): None = StopIteration, Some (inl it) = ok, Some (inr tt) = PathNameException *)
Definition s_references (cf : scfg) (it : sit) (sequence : bool) : option (sit + unit) :=
  match snext it with
  | None => None
  | Some (c, it1) =>
    if N.eqb c cBS then (if sequence && s_bslash_abort cf then Some (inr tt) else Some (inl it1))
    else if N.eqb c cSL then (if sequence && s_pathname cf then Some (inr tt) else Some (inl it1))
    else Some (inl it1)
  end.

(* `i.match(RE_POSIX)`: step over `:name:]` when one of the 14 class names stands here (the names do not depend on str/bytes) *)
Definition s_posix (it : sit) : sit :=
  match posix_find table_u (srest it) with
  | Some (_, n) => {| sidx := sidx it + n; srest := drop n (srest it) |}
  | None => it
  end.

(* the `while c != ']'` loop of _sequence: None = StopIteration *)
Fixpoint s_seq_loop (fuel : nat) (cf : scfg) (c : ch) (it : sit) : option sit :=
  match fuel with
  | O => None
  | S f =>
    if N.eqb c cRB then Some it
    else
      let after : option sit :=
        if N.eqb c cLB then Some (s_posix it)       (* the `]` of a POSIX class does not close the sequence *)
        else if N.eqb c cBS then
          match s_references cf it true with
          | Some (inl it1) => Some it1
          | _ => None
          end
        else if N.eqb c cSL then (if s_pathname cf then None else Some it)
        else Some it in
      match after with
      | None => None
      | Some it1 => match snext it1 with None => None | Some (c', it2) => s_seq_loop f cf c' it2 end
      end
  end.

(* _sequence (807-826) *)
Definition s_sequence (cf : scfg) (it : sit) : option sit :=
  match snext it with
  | None => None
  | Some (c0, it0) =>
    let s1 := if N.eqb c0 cEX || N.eqb c0 cHAT then snext it0 else Some (c0, it0) in
    match s1 with
    | None => None
    | Some (c1, it1) =>
      (* first member: a POSIX class or a literal `[`; a literal `-` or `]` *)
      let s2 := if N.eqb c1 cLB then snext (s_posix it1)
                else if N.eqb c1 cMINUS || N.eqb c1 cRB then snext it1 else Some (c1, it1) in
      match s2 with
      | None => None
      | Some (c2, it2) => s_seq_loop (S (length (srest it2))) cf c2 it2
      end
    end
  end.

(* parse_extend (844-878).  Returns (success, iterator).  On failure the iterator is rewound to `index`,
   which the Python code *overwrites* with the position after the last `[` seen in this list; [back]
   carries that iterator.  (Since the fix 26fc43f the inner bracket has a rewind position of its own: [back] stays put.) *)
Fixpoint s_ext (fuel : nat) (cf : scfg) (it : sit) : bool * sit :=
  match fuel with
  | O => (false, it)
  | S f =>
    match snext it with
    | None => (false, it)
    | Some (c, it1) =>
      if negb (N.eqb c cLP) then (false, it)
      else s_ext_loop f cf it1 it
    end
  end
with s_ext_loop (fuel : nat) (cf : scfg) (it : sit) (back : sit) : bool * sit :=
  match fuel with
  | O => (false, back)
  | S f =>
    match snext it with
    | None => (false, back)
    | Some (c, it1) =>
      let go (itx back' : sit) :=
        if N.eqb c cRP then (true, itx) else s_ext_loop f cf itx back' in
      let nested : bool * sit :=
        if s_extend cf && ch_in c ext_types then s_ext f cf it1 else (false, it1) in
      match nested with
      | (true, it') => s_ext_loop f cf it' back    (* `continue`: the `while c != ')'` test sees the list-type char *)
      | (false, it1) =>                            (* a failed nested list leaves the iterator where *it* rewound to *)
        if N.eqb c cBS then
          match s_references cf it1 false with
          | Some (inl it2) => go it2 back
          | _ => go it1 back
          end
        else if N.eqb c cLB then
          match s_sequence cf it1 with
          | Some it2 => go it2 back        (* the rewind position of the list is not touched by an inner bracket *)
          | None => go it1 back
          end
        else go it1 back
      end
    end
  end.

(* _split (880-909): the list of split positions (index of each top-level `|`) *)
Fixpoint s_split_loop (fuel : nat) (cf : scfg) (it : sit) (acc : list nat) : list nat :=
  match fuel with
  | O => rev acc
  | S f =>
    match snext it with
    | None => rev acc
    | Some (c, it1) =>
      let nested : bool * sit :=
        if s_extend cf && ch_in c ext_types then s_ext f cf it1 else (false, it1) in
      match nested with
      | (true, it') => s_split_loop f cf it' acc
      | (false, it1) =>
        if N.eqb c cBAR then s_split_loop f cf it1 (sidx it :: acc)
        else if N.eqb c cBS then
          match s_references cf it1 false with
          | Some (inl it2) => s_split_loop f cf it2 acc
          | _ => s_split_loop f cf it1 acc
          end
        else if N.eqb c cLB then
          match s_sequence cf it1 with
          | Some it2 => s_split_loop f cf it2 acc
          | None => s_split_loop f cf it1 acc
          end
        else s_split_loop f cf it1 acc
      end
    end
  end.

Fixpoint cut (p : str) (start : nat) (cuts : list nat) : list str :=
  (* pieces p[start:c1], p[c1+1:c2], ..., p[ck+1:] *)
  match cuts with
  | [] => [drop start p]
  | c :: cs => take (c - start) (drop start p) :: cut p (S c) cs
  end.

Definition wcsplit (P : platform) (flags : Z) (p : str) : list str :=
  let cf := mk_scfg P flags in
  cut p 0 (s_split_loop (2 * length p + 2) cf {| sidx := 0; srest := p |} []).
