(* Functional mirror of wcmatch/glob.py : class _GlobSplit (132-385), Unix rules (no drive detection): split a glob
   pattern at directory boundaries into literal / magic parts.  The scanners are those of WcSplit with the glob
   variants of _references and _sequence.  The compiled matcher of a magic part is not modelled (its source text is
   the part text).  No proofs in this file. *)
From WC Require Import Str WcParse WcSplit Expand Escape.
From WC.Gen Require Import Consts FlagFuns.
Import Mwcparse.
Open Scope nat_scope.

Record gpart := { gp_text : str; gp_magic : bool; gp_gstar : bool; gp_gstarlong : bool; gp_dironly : bool; gp_drive : bool }.

Record gscfg := { gs_flags : Z (* after NEGATE has been cleared *); gs_bytes : bool; gs_extend : bool; gs_globstar : bool;
                  gs_globstarlong : bool; gs_follow : bool; gs_matchbase : bool; gs_extmatchbase : bool; gs_noabs : bool }.

Definition mk_gscfg (flags : Z) (is_bytes : bool) : gscfg :=
  let flags1 := if has flags NEGATE then Z.lxor flags NEGATE else flags in
  let gsl := has flags GLOBSTARLONG in
  {| gs_flags := flags1; gs_bytes := is_bytes; gs_extend := has flags1 EXTMATCH; gs_globstar := gsl || has flags GLOBSTAR;
     gs_globstarlong := gsl; gs_follow := has flags FOLLOW; gs_matchbase := has flags MATCHBASE;
     gs_extmatchbase := has flags u_EXTMATCHBASE; gs_noabs := has flags u_NOABSOLUTE |}.

(* _references (226-246), Unix: None = StopIteration, Some (inr tt) = PathNameException,
   Some (inl (value, it)) with value = Some c for `\\` and `\/`, None otherwise *)
Definition g_references (it : sit) (sequence : bool) : option ((option ch * sit) + unit) :=
  match snext it with
  | None => None
  | Some (c, it1) =>
    if N.eqb c cBS then Some (inl (Some c, it1))            (* bslash_abort is False under Unix rules *)
    else if N.eqb c cSL then (if sequence then Some (inr tt) else Some (inl (Some c, it1)))
    else Some (inl (None, it1))
  end.

(* the `while c != ']'` loop of _sequence (216-224) *)
Fixpoint g_seq_loop (fuel : nat) (c : ch) (it : sit) : option sit :=
  match fuel with
  | O => None
  | S f =>
    if N.eqb c cRB then Some it
    else
      let after : option sit :=
        if N.eqb c cBS then
          match g_references it true with
          | Some (inl (_, it1)) => Some it1
          | _ => None
          end
        else if N.eqb c cSL then None
        else Some it in
      match after with
      | None => None
      | Some it1 => match snext it1 with None => None | Some (c', it2) => g_seq_loop f c' it2 end
      end
  end.

(* _sequence (207-224) *)
Definition g_sequence (it : sit) : option sit :=
  match snext it with
  | None => None
  | Some (c0, it0) =>
    let s1 := if N.eqb c0 cEX then snext it0 else Some (c0, it0) in
    match s1 with
    | None => None
    | Some (c1, it1) =>
      let s2 := if N.eqb c1 cHAT || N.eqb c1 cMINUS || N.eqb c1 cLB then snext it1 else Some (c1, it1) in
      match s2 with
      | None => None
      | Some (c2, it2) => g_seq_loop (S (length (srest it2))) c2 it2
      end
    end
  end.

(* parse_extend (248-281); [back] = the position the final rewind goes to (`index`, overwritten at every `[`) *)
Fixpoint g_ext (fuel : nat) (extend : bool) (it : sit) : bool * sit :=
  match fuel with
  | O => (false, it)
  | S f =>
    match snext it with
    | None => (false, it)
    | Some (c, it1) =>
      if negb (N.eqb c cLP) then (false, it)
      else g_ext_loop f extend it1 it
    end
  end
with g_ext_loop (fuel : nat) (extend : bool) (it : sit) (back : sit) : bool * sit :=
  match fuel with
  | O => (false, back)
  | S f =>
    match snext it with
    | None => (false, back)
    | Some (c, it1) =>
      let go (itx back' : sit) :=
        if N.eqb c cRP then (true, itx) else g_ext_loop f extend itx back' in
      let nested : bool * sit :=
        if extend && ch_in c ext_types then g_ext f extend it1 else (false, it1) in
      match nested with
      | (true, it') => g_ext_loop f extend it' back
      | (false, it1) =>
        if N.eqb c cBS then
          match g_references it1 false with
          | Some (inl (_, it2)) => go it2 back
          | _ => go it1 back
          end
        else if N.eqb c cLB then
          match g_sequence it1 with
          | Some it2 => go it2 back        (* the rewind position of the list is not touched by an inner bracket *)
          | None => go it1 back
          end
        else go it1 back
      end
    end
  end.

(* the `for c in i` loop of split (321-345): the list of (split position, offset), and whether the pattern ends with a
   backslash that escapes nothing (the loop then drops that last character from the pattern) *)
Fixpoint g_split_loop (fuel : nat) (extend : bool) (it : sit) (acc : list (nat * nat)) : list (nat * nat) * bool :=
  match fuel with
  | O => (rev acc, false)
  | S f =>
    match snext it with
    | None => (rev acc, false)
    | Some (c, it1) =>
      let nested : bool * sit :=
        if extend && ch_in c ext_types then g_ext f extend it1 else (false, it1) in
      match nested with
      | (true, it') => g_split_loop f extend it' acc
      | (false, it1) =>
        if N.eqb c cBS then
          match g_references it1 false with
          | Some (inl (Some v, it2)) =>
              if N.eqb v cSL then g_split_loop f extend it2 ((sidx it2 - 2, 1) :: acc)
              else g_split_loop f extend it2 acc
          | Some (inl (None, it2)) => g_split_loop f extend it2 acc
          | _ => (fst (g_split_loop f extend it1 acc), true)   (* StopIteration: rewind to just after the backslash *)
          end
        else if N.eqb c cSL then g_split_loop f extend it1 ((sidx it1 - 1, 0) :: acc)
        else if N.eqb c cLB then
          match g_sequence it1 with
          | Some it2 => g_split_loop f extend it2 acc
          | None => g_split_loop f extend it1 acc
          end
        else g_split_loop f extend it1 acc
      end
    end
  end.

Definition g_is_magic (cf : gscfg) (v : str) : bool :=
  existsb (fun c => ch_in c v) (magic_symbols (gs_bytes cf) (gs_flags cf)).

(* store (283-300); parts are kept in order (append at the end) *)
Definition g_store (cf : gscfg) (value : str) (l : list gpart) (dir_only : bool) : list gpart :=
  match l, value with
  | _ :: _, [] => l
  | _, _ =>
    let gsl := gs_globstarlong cf && str_eqb value (S_ "***") in
    let gs := gsl || (gs_globstar cf && str_eqb value (S_ "**")) in
    let magic := g_is_magic cf value in
    match rev l with
    | last :: before =>
        if gs && gp_gstar last
        then rev before ++ [{| gp_text := value; gp_magic := magic; gp_gstar := gs; gp_gstarlong := gsl || gp_gstarlong last;
                               gp_dironly := dir_only; gp_drive := false |}]
        else l ++ [{| gp_text := value; gp_magic := magic; gp_gstar := gs; gp_gstarlong := gsl; gp_dironly := dir_only; gp_drive := false |}]
    | [] => [{| gp_text := value; gp_magic := magic; gp_gstar := gs; gp_gstarlong := gsl; gp_dironly := dir_only; gp_drive := false |}]
    end
  end.

Definition slice (p : str) (a b : nat) : str := take (b - a) (drop a p).      (* p[a:b] *)

(* the `for split, offset in split_index` loop; start1 = start + 1 *)
Fixpoint g_store_all (cf : gscfg) (p : str) (splits : list (nat * nat)) (start1 : nat) (parts : list gpart) : nat * list gpart :=
  match splits with
  | [] => (start1, parts)
  | (split, offset) :: rest =>
      g_store_all cf p rest (split + offset + 1) (g_store cf (slice p start1 split) parts true)
  end.

Definition gpart_lit (t : str) (dir_only drive : bool) : gpart :=
  {| gp_text := t; gp_magic := false; gp_gstar := false; gp_gstarlong := false; gp_dironly := dir_only; gp_drive := drive |}.

Inductive gserr : Set := GValue.

(* split (302-385), Unix rules *)
Definition gsplit (flags : Z) (is_bytes : bool) (p0 : str) : list gpart + gserr :=
  let cf := mk_gscfg flags is_bytes in
  let p1 := if is_negative flags p0 then take 1 p0 else p0 in      (* "isn't really used" (lines 176-180) *)
  let rooted := starts_with [cSL] p1 in
  let parts0 := if rooted then [gpart_lit [cSL] true true] else [] in
  let start1 := if rooted then 1 else 0 in
  let it0 := {| sidx := start1; srest := drop start1 p1 |} in
  let '(splits, dangling) := g_split_loop (2 * length p1 + 2) (gs_extend cf) it0 [] in
  let p := if dangling then removelast p1 else p1 in
  let '(start1', parts1) := g_store_all cf p splits start1 parts0 in
  let parts2 :=
    if start1' <=? length p then
      match drop start1' p with
      | [] => parts1
      | v => g_store cf v parts1 false
      end
    else parts1 in
  let parts3 := match p with [] => parts2 ++ [gpart_lit [] false false] | _ => parts2 end in
  let first_drive := match parts3 with x :: _ => gp_drive x | [] => false end in
  let first_dironly := match parts3 with x :: _ => gp_dironly x | [] => false end in
  let parts4 :=
    if (gs_extmatchbase cf && negb first_drive) || (gs_matchbase cf && (length parts3 =? 1) && negb first_dironly) then
      (if gs_globstarlong cf && gs_follow cf
       then {| gp_text := S_ "***"; gp_magic := true; gp_gstar := true; gp_gstarlong := true; gp_dironly := true; gp_drive := false |}
       else {| gp_text := S_ "**"; gp_magic := true; gp_gstar := true; gp_gstarlong := false; gp_dironly := true; gp_drive := false |})
      :: parts3
    else parts3 in
  if gs_noabs cf && match parts4 with x :: _ => gp_drive x | [] => false end then inr GValue else inl parts4.
