(* Mirror of _wcparse.escape (301-342, Unix mode: no drive carve-out) and is_magic / _get_magic_symbols (396-465).
   No proofs here. *)
From WC Require Import Str WcParse.
From WC.Gen Require Import Consts FlagFuns.
Import Mwcparse.
Open Scope Z_scope.

(* escape: double every backslash, then prefix every character of the RE_MAGIC_ESCAPE class with a backslash.
   (After doubling, every backslash run is even, so the second alternative of RE_MAGIC_ESCAPE - the last backslash
   of an odd run - cannot match.) *)
Definition escape_ch (is_bytes : bool) (c : ch) : str :=
  if N.eqb c 92 then [92; 92]%N
  else if ch_in c (if is_bytes then Sets.RE_MAGIC_ESCAPE_class_b else Sets.RE_MAGIC_ESCAPE_class_s) then [92%N; c]
  else [c].
Definition escape (is_bytes : bool) (s : str) : str := flat_map (escape_ch is_bytes) s.

Definition magic_symbols (is_bytes : bool) (flags : Z) : str :=
  let pick s b := if is_bytes then b else s in
  pick Sets.MAGIC_DEF_s Sets.MAGIC_DEF_b
  ++ (if has flags BRACE then pick Sets.MAGIC_BRACE_s Sets.MAGIC_BRACE_b else [])
  ++ (if has flags SPLIT then pick Sets.MAGIC_SPLIT_s Sets.MAGIC_SPLIT_b else [])
  ++ (if has flags GLOBTILDE then pick Sets.MAGIC_TILDE_s Sets.MAGIC_TILDE_b else [])
  ++ (if has flags EXTMATCH then pick Sets.MAGIC_EXTMATCH_s Sets.MAGIC_EXTMATCH_b else [])
  ++ (if has flags NEGATE then
        (if has flags MINUSNEGATE then pick Sets.MAGIC_MINUS_NEGATE_s Sets.MAGIC_MINUS_NEGATE_b
         else pick Sets.MAGIC_NEGATE_s Sets.MAGIC_NEGATE_b)
      else []).

(* is_magic in Unix mode (no drive prefix handling) *)
Definition is_magic (is_bytes : bool) (flags : Z) (p : str) : bool :=
  existsb (fun c => ch_in c p) (magic_symbols is_bytes flags).
