(* The SPEC of C01-C03: pattern ASTs of the documented grammar, their concrete syntax (unparse) and their
   denotation, written independently of the code.  The denotation is given by translation to a small regular
   expression algebra WITH intersection and complement, decided by Brzozowski derivatives (structural
   recursion only).  Leading-dot rule (C03): the name is pre-processed so that a dot that may only be matched
   by a written `.` is replaced by the extra symbol DOT0; no wildcard class contains DOT0, a written `.`
   matches both.  No proofs in this file. *)
From WC Require Import Str.
Open Scope N_scope.

Definition DOT0 : ch := 1114112.   (* 0x110000: outside Unicode *)

(* ---------------- regular expressions with complement ---------------- *)
Inductive cset := CS (neg : bool) (ranges : list (N * N)).   (* DOT0 is never a member *)
Definition in_ranges (c : ch) (rs : list (N * N)) : bool := existsb (fun r => (fst r <=? c) && (c <=? snd r)) rs.
Definition fold_ci (ci : bool) (c : ch) : ch := if ci then lower_ascii c else c.
Definition cset_mem (ci : bool) (s : cset) (c : ch) : bool :=
  if c =? DOT0 then false else
  match s with
  | CS neg rs =>
      let hit := if ci then in_ranges (lower_ascii c) rs || in_ranges (upper_ascii c) rs else in_ranges c rs in
      if neg then negb hit else hit
  end.

Inductive rx :=
| RNone | REps
| RSet (s : cset)
| RChr (c : ch)            (* a written character; a written `.` also matches DOT0 *)
| RCat (a b : rx) | RAlt (a b : rx) | RStar (a : rx) | RAnd (a b : rx) | RNot (a : rx)
| RNoDot0.                 (* zero-width: the next symbol is not DOT0 (or the text ends) *)

(* a language is a set of (consumed text, next symbol or end); [nullable nx r]: r accepts the empty text
   when the next symbol is nx *)
Fixpoint nullable (nx : option ch) (r : rx) : bool :=
  match r with
  | RNone => false | REps => true | RSet _ => false | RChr _ => false
  | RCat a b => nullable nx a && nullable nx b
  | RAlt a b => nullable nx a || nullable nx b
  | RStar _ => true
  | RAnd a b => nullable nx a && nullable nx b
  | RNot a => negb (nullable nx a)
  | RNoDot0 => match nx with Some c => negb (c =? DOT0) | None => true end
  end.

Definition chr_mem (ci : bool) (w c : ch) : bool :=
  if c =? DOT0 then w =? 46 else (fold_ci ci w =? fold_ci ci c).

(* smart constructors keep derivatives small *)
Definition mkcat (a b : rx) : rx :=
  match a, b with RNone, _ => RNone | _, RNone => RNone | REps, _ => b | _, REps => a | _, _ => RCat a b end.
Definition mkalt (a b : rx) : rx :=
  match a, b with RNone, _ => b | _, RNone => a | _, _ => RAlt a b end.
Definition mkand (a b : rx) : rx :=
  match a, b with RNone, _ => RNone | _, RNone => RNone | _, _ => RAnd a b end.

Fixpoint deriv (ci : bool) (c : ch) (r : rx) : rx :=
  match r with
  | RNone => RNone | REps => RNone
  | RSet s => if cset_mem ci s c then REps else RNone
  | RChr w => if chr_mem ci w c then REps else RNone
  | RCat a b => if nullable (Some c) a then mkalt (mkcat (deriv ci c a) b) (deriv ci c b) else mkcat (deriv ci c a) b
  | RAlt a b => mkalt (deriv ci c a) (deriv ci c b)
  | RStar a => mkcat (deriv ci c a) (RStar a)
  | RAnd a b => mkand (deriv ci c a) (deriv ci c b)
  | RNot a => RNot (deriv ci c a)
  | RNoDot0 => RNone
  end.

Fixpoint rx_match (ci : bool) (r : rx) (s : str) : bool :=
  match s with [] => nullable None r | c :: s' => rx_match ci (deriv ci c r) s' end.

(* ---------------- pattern ASTs ---------------- *)
Inductive britem := BChar (c : ch) | BRange (lo hi : ch) | BPosix (name : str).
Inductive ekind := KQ | KS | KP | KA | KN.       (* ?( *( +( @( !(  *)
Inductive pat :=
| PLit (c : ch) | PEsc (c : ch) | PStar | PQm
| PBr (neg : bool) (items : list britem)
| PExt (k : ekind) (alts : list (list pat)).
Inductive seg := SGlobstar | SGlobstarLong | SPat (ps : list pat).
Record ppat := { p_root : bool; p_segs : list seg; p_trail : bool }.

(* the documented C-locale POSIX classes, written out independently of posix.py *)
Definition posix_doc (name : str) : list (N * N) :=
  if str_eqb name (S_ "alnum") then [(48,57);(65,90);(97,122)]
  else if str_eqb name (S_ "alpha") then [(65,90);(97,122)]
  else if str_eqb name (S_ "ascii") then [(0,127)]
  else if str_eqb name (S_ "blank") then [(9,9);(32,32)]
  else if str_eqb name (S_ "cntrl") then [(0,31);(127,127)]
  else if str_eqb name (S_ "digit") then [(48,57)]
  else if str_eqb name (S_ "graph") then [(33,126)]
  else if str_eqb name (S_ "lower") then [(97,122)]
  else if str_eqb name (S_ "print") then [(32,126)]
  else if str_eqb name (S_ "punct") then [(33,47);(58,64);(91,96);(123,126)]
  else if str_eqb name (S_ "space") then [(9,13);(32,32)]
  else if str_eqb name (S_ "upper") then [(65,90)]
  else if str_eqb name (S_ "word") then [(48,57);(65,90);(95,95);(97,122)]
  else if str_eqb name (S_ "xdigit") then [(48,57);(65,70);(97,102)]
  else [].

Definition br_ranges (items : list britem) : list (N * N) :=
  flat_map (fun i => match i with
                     | BChar c => [(c, c)]
                     | BRange lo hi => if lo <=? hi then [(lo, hi)] else []
                     | BPosix n => posix_doc n
                     end) items.

(* ---------------- concrete syntax ---------------- *)
Definition unp_britem (i : britem) : str :=
  match i with
  | BChar c => [c]
  | BRange lo hi => [lo; 45; hi]
  | BPosix n => S_ "[:" ++ n ++ S_ ":]"
  end.
Definition ekind_ch (k : ekind) : ch :=
  match k with KQ => 63 | KS => 42 | KP => 43 | KA => 64 | KN => 33 end.

Fixpoint unp (p : pat) : str :=
  match p with
  | PLit c => [c]
  | PEsc c => [92; c]
  | PStar => [42]
  | PQm => [63]
  | PBr neg items => [91] ++ (if neg then [33] else []) ++ flat_map unp_britem items ++ [93]
  | PExt k alts =>
      [ekind_ch k; 40] ++
      (fix alts_go (l : list (list pat)) : str :=
         match l with
         | [] => []
         | [a] => flat_map unp a
         | a :: l' => flat_map unp a ++ [124] ++ alts_go l'
         end) alts ++ [41]
  end.
Definition unparse (ps : list pat) : str := flat_map unp ps.

Definition unp_seg (s : seg) : str :=
  match s with SGlobstar => S_ "**" | SGlobstarLong => S_ "***" | SPat ps => unparse ps end.
Definition punparse (pp : ppat) : str :=
  (if p_root pp then [47] else []) ++ join_with [47] (map unp_seg (p_segs pp)) ++ (if p_trail pp then [47] else []).

(* ---------------- denotation ---------------- *)
(* wild = the characters a wildcard may match: everything but DOT0 (by construction of cset) and, in path
   mode, the separator *)
Definition wild (path : bool) : cset := if path then CS true [(47, 47)] else CS true [].
Definition restrict (path : bool) (rs : list (N * N)) (neg : bool) : rx :=
  (* a bracket expression; in path mode it never matches the separator *)
  if path then RAnd (RSet (CS neg rs)) (RSet (CS true [(47, 47)])) else RSet (CS neg rs).

Definition rcats (l : list rx) : rx := fold_right mkcat REps l.
Definition ralts (l : list rx) : rx := fold_right mkalt RNone l.

(* lb = true gives the LOWER bound of C03's granted clause: a `*` or `!(...)` standing where a protected dot
   comes next does not grant the match (the property only grants it "with no wildcard standing at that
   position"); lb = false gives the UPPER bound: a protected dot is consumed by a written `.` only. *)
Definition rstar (lb path : bool) : rx :=
  if lb then RCat RNoDot0 (RStar (RSet (wild path))) else RStar (RSet (wild path)).

Fixpoint den_pat (lb path : bool) (p : pat) : rx :=
  match p with
  | PLit c => RChr c
  | PEsc c => RChr c
  | PStar => rstar lb path
  | PQm => RSet (wild path)
  | PBr neg items => restrict path (br_ranges items) neg
  | PExt k alts =>
      let body := ralts (map (fun a => rcats (map (den_pat lb path) a)) alts) in
      match k with
      | KQ => RAlt REps body
      | KS => RStar body
      | KP => RCat body (RStar body)
      | KA => body
      | KN => RAnd (RNot body) (rstar lb path)   (* a run of ordinary characters not in the union *)
      end
  end.

(* `!(list)` is specified only standing alone or followed by literal text: the *whole remaining text* must
   not be  alt ++ literal-tail.  [den_seq] implements exactly that reading: !(alts) tail  =  (wild* tail) minus
   (alts tail).  For any other tokens it is plain concatenation. *)
Fixpoint den_seq (lb path : bool) (ps : list pat) : rx :=
  match ps with
  | [] => REps
  | PExt KN alts :: tl =>
      let body := ralts (map (fun a => rcats (map (den_pat lb path) a)) alts) in
      let tail := den_seq lb path tl in
      RAnd (RCat (rstar lb path) tail) (RNot (RCat body tail))
  | p :: tl => mkcat (den_pat lb path p) (den_seq lb path tl)
  end.

(* C01/C03 for a name: a leading dot becomes DOT0 unless DOTMATCH *)
Definition mark_leading (dot : bool) (n : str) : str :=
  match n with 46 :: r => if dot then n else DOT0 :: r | _ => n end.
Definition den (lb ci dot : bool) (ps : list pat) (n : str) : bool :=
  rx_match ci (den_seq lb false ps) (mark_leading dot n).

(* ---------------- paths (C02/C03) ---------------- *)
Definition rsep : rx := RCat (RChr 47) (RStar (RChr 47)).          (* one or more separators *)
Definition rsep0 : rx := RStar (RChr 47).
Definition anysym : rx := RAlt (RSet (CS true [])) (RChr 46).      (* every symbol, DOT0 included *)
Definition nonempty (path : bool) (r : rx) : rx := RAnd r (RCat anysym (RStar anysym)).
Definition rsegment : rx := RCat (RSet (wild true)) (RStar (RSet (wild true))).   (* a non-empty, DOT0-free segment *)

Definition seg_rx (lb : bool) (s : seg) : rx :=
  match s with SPat ps => nonempty true (den_seq lb true ps) | _ => REps end.
Definition is_gstar (gs gl : bool) (s : seg) : bool :=
  match s with SGlobstar => gs | SGlobstarLong => gl | SPat _ => false end.
(* `**` without GLOBSTAR (and `***` without GLOBSTARLONG) is just `*` *)
Definition plain_seg (lb : bool) (s : seg) : rx :=
  match s with SPat _ => seg_rx lb s | _ => nonempty true (rstar lb true) end.

(* segments after the first one each come with the separator run written before them *)
Fixpoint segs_rx (lb gs gl : bool) (first : bool) (l : list seg) : rx :=
  match l with
  | [] => REps
  | s :: l' =>
    if is_gstar gs gl s then
      match l' with
      | [] =>
          (* final globstar: the written separator (if any), then zero or more whole segments *)
          if first then RAlt REps (RCat rsegment (RStar (RCat rsep rsegment)))
          else RCat rsep (RAlt REps (RCat rsegment (RStar (RCat rsep rsegment))))
      | _ =>
          (* inner/leading globstar: zero or more whole segments, each followed by a separator run *)
          let rest := segs_rx lb gs gl true l' in
          if first then RCat (RStar (RCat rsegment rsep)) rest
          else RCat rsep (RCat (RStar (RCat rsegment rsep)) rest)
      end
    else
      let r := plain_seg lb s in
      if first then mkcat r (segs_rx lb gs gl false l') else mkcat rsep (mkcat r (segs_rx lb gs gl false l'))
  end.

Definition last_is_gstar (gs gl : bool) (l : list seg) : bool :=
  match rev l with s :: _ => is_gstar gs gl s | [] => false end.

Definition pden_rx (lb gs gl matchbase : bool) (pp : ppat) : rx :=
  let body := segs_rx lb gs gl true (p_segs pp) in
  let body' :=
    (* MATCHBASE: a slash-less pattern matches any path whose last segment it matches *)
    if matchbase && negb (p_root pp) && negb (p_trail pp) && (length (p_segs pp) =? 1)%nat
    then RCat (RStar (RCat rsegment rsep)) body else body in
  let trail := if p_trail pp && negb (last_is_gstar gs gl (p_segs pp)) then rsep else rsep0 in
  mkcat (if p_root pp then rsep else REps) (mkcat body' trail).

(* segment-initial dots become DOT0: all of them without DOTGLOB; with DOTGLOB only those of `.`/`..` segments *)
Fixpoint mark_path (dot : bool) (at_start : bool) (n : str) : str :=
  match n with
  | [] => []
  | c :: r =>
    if c =? 47 then c :: mark_path dot true r
    else if at_start && (c =? 46) then
      let special := match r with
                     | [] => true | 47 :: _ => true
                     | 46 :: [] => true | 46 :: 47 :: _ => true
                     | _ => false end in
      (if negb dot || special then DOT0 else c) :: mark_path dot false r
    else c :: mark_path dot false r
  end.

Definition pden (lb ci dot gs gl matchbase : bool) (pp : ppat) (n : str) : bool :=
  rx_match ci (pden_rx lb gs gl matchbase pp) (mark_path dot true n).
