(* Strings as lists of code points; helpers shared by every model file.  No proofs here. *)
From Coq Require Export NArith ZArith Bool Ascii String.
From Coq Require Export List.
Export ListNotations.

Definition ch := N.
Definition str := list N.

(* ASCII literal -> str *)
Definition S_ (s : string) : str := map N_of_ascii (list_ascii_of_string s).

Fixpoint str_eqb (a b : str) : bool :=
  match a, b with
  | [], [] => true
  | x :: a', y :: b' => N.eqb x y && str_eqb a' b'
  | _, _ => false
  end.

Definition ch_in (c : ch) (l : str) : bool := existsb (N.eqb c) l.

Fixpoint starts_with (p s : str) : bool :=
  match p, s with
  | [], _ => true
  | x :: p', y :: s' => N.eqb x y && starts_with p' s'
  | _ :: _, [] => false
  end.

Fixpoint drop (n : nat) (s : str) : str :=
  match n, s with O, _ => s | S n', _ :: s' => drop n' s' | _, [] => [] end.

Fixpoint take (n : nat) (s : str) : str :=
  match n, s with O, _ => [] | S n', c :: s' => c :: take n' s' | _, [] => [] end.

(* Python `s.replace(old, new)` for non-empty `old`: leftmost, non-overlapping.
   `skip` counts characters of a matched `old` still to be dropped. *)
Fixpoint replace_go (old new : str) (skip : nat) (s : str) : str :=
  match s with
  | [] => []
  | c :: s' =>
      match skip with
      | S k => replace_go old new k s'
      | O => if starts_with old s
             then new ++ replace_go old new (pred (List.length old)) s'
             else c :: replace_go old new O s'
      end
  end.
Definition replace_all (old new s : str) : str :=
  match old with [] => s | _ => replace_go old new O s end.

Definition join (l : list str) : str := concat l.

Fixpoint join_with (sep : str) (l : list str) : str :=
  match l with
  | [] => []
  | [x] => x
  | x :: l' => x ++ sep ++ join_with sep l'
  end.

Definition ends_with (p s : str) : bool := starts_with (rev p) (rev s).

Definition lower_ascii (c : ch) : ch := if (N.leb 65 c && N.leb c 90)%bool then (c + 32)%N else c.
Definition upper_ascii (c : ch) : ch := if (N.leb 97 c && N.leb c 122)%bool then (c - 32)%N else c.

(* Python str.format on the fragment constants: `{}` -> pos, `{sep}` -> sep, `{{` -> `{`, `}}` -> `}` *)
Fixpoint format_go (fuel : nat) (pos sep t : str) : str :=
  match fuel with
  | O => t
  | S f =>
    match t with
    | [] => []
    | 123 :: 123 :: t' => 123 :: format_go f pos sep t'
    | 125 :: 125 :: t' => 125 :: format_go f pos sep t'
    | 123 :: 125 :: t' => pos ++ format_go f pos sep t'
    | 123 :: 115 :: 101 :: 112 :: 125 :: t' => sep ++ format_go f pos sep t'
    | c :: t' => c :: format_go f pos sep t'
    end%N
  end.
Definition format (t pos sep : str) : str := format_go (List.length t) pos sep t.
