(* Functional mirror of the pattern-list loops of wcmatch/_wcparse.py:
   is_negative (468-476), expand (494-536), translate (611-666), compile_pattern (698-750).
   bracex, expand_tilde, norm_pattern and the single-pattern parser are parameters of the section
   (oracles / separately modelled functions).  No proofs in this file. *)
From WC Require Import Str WcParse WcSplit.
From WC.Gen Require Import Consts FlagFuns.
Import Mwcparse.
Open Scope Z_scope.

Definition is_negative (fl : Z) (p : str) : bool :=
  let h1 := match p with c :: _ => Some c | [] => None end in
  let h2 := match p with _ :: c :: _ => Some c | _ => None end in
  let is c o := match o with Some d => N.eqb c d | None => false end in
  if has fl MINUSNEGATE then has fl NEGATE && is cMINUS h1
  else if has fl EXTMATCH then has fl NEGATE && is cEX h1 && negb (is cLP h2)
  else has fl NEGATE && is cEX h1.

Inductive lerr := LLimit | LValue | LSyntax | LFuel | LUnsupported.

Definition of_perr (e : perr) : lerr :=
  match e with EValue => LValue | EFuel => LFuel | EUnsupported => LUnsupported end.

Section Loop.
  Variable P : platform.
  (* bracex.iexpand(p, keep_escapes=True, limit=l): None = ExpansionLimitException *)
  Variable brace : str -> Z -> option (list str).
  (* expand_tilde(p, is_unix, flags) *)
  Variable tilde : Z -> str -> str.
  (* util.norm_pattern(p, normalize, raw): None = SyntaxError / lookup error *)
  Variable norm : bool -> bool -> str -> option str.
  (* WcParse(p, flags).parse() *)
  Variable parse : Z -> str -> str + perr.

  Definition split (fl : Z) (p : str) : list str := if has fl SPLIT then wcsplit P fl p else [p].

  Definition expand (fl lim : Z) (p : str) : option (list str) :=
    match (if has fl BRACE then brace p lim else Some [p]) with
    | None => None
    | Some l => Some (flat_map (fun e => map (tilde fl) (split fl e)) l)
    end.

  Record lst := { l_total : Z; l_seen : list str; l_pos : list str; l_neg : list str }.

  Definition mem (x : str) (l : list str) : bool := existsb (str_eqb x) l.

  (* body of `for expanded in expand(...)`; pflags = the flags handed to the single-pattern compiler *)
  Fixpoint items_loop (fl limit : Z) (pmask : Z -> Z) (items : list str) (st : lst) : lst + lerr :=
    match items with
    | [] => inl st
    | e :: r =>
      let total' := l_total st + 1 in
      if (0 <? limit) && (limit <? total') then inr LLimit
      else if mem e (l_seen st) then
        items_loop fl limit pmask r
          {| l_total := total'; l_seen := l_seen st; l_pos := l_pos st; l_neg := l_neg st |}
      else
        let seen' := e :: l_seen st in
        if is_negative fl e then
          match parse (pmask (Z.lor (Z.lor fl u_NO_GLOBSTAR_CAPTURE) DOTMATCH)) (tl e) with
          | inr er => inr (of_perr er)
          | inl t => items_loop fl limit pmask r
                       {| l_total := total'; l_seen := seen'; l_pos := l_pos st; l_neg := l_neg st ++ [t] |}
          end
        else
          match parse (pmask fl) e with
          | inr er => inr (of_perr er)
          | inl t => items_loop fl limit pmask r
                       {| l_total := total'; l_seen := seen'; l_pos := l_pos st ++ [t]; l_neg := l_neg st |}
          end
    end.

  (* `for pattern in iter_patterns(patterns)` *)
  Fixpoint pats_loop (fl limit : Z) (pmask : Z -> Z) (is_unix : bool) (pats : list str) (current_limit : Z)
           (st : lst) : lst + lerr :=
    match pats with
    | [] => inl st
    | p :: ps =>
      match norm (negb is_unix) (has fl RAWCHARS) p with
      | None => inr LSyntax
      | Some p' =>
        match expand fl current_limit p' with
        | None => inr LLimit
        | Some items =>
          match items_loop fl limit pmask items st with
          | inr e => inr e
          | inl st' =>
            let count := Z.of_nat (length items) in
            let cl := if Z.eqb limit 0 then current_limit
                      else let c := current_limit - count in if c <? 1 then 1 else c in
            pats_loop fl limit pmask is_unix ps cl st'
          end
        end
      end
    end.

  (* the part of translate/compile_pattern after the `exclude` handling.
     tr = true: translate (flags |= _TRANSLATE, masked up front); tr = false: compile_pattern
     (flags unmasked; _compile masks them). *)
  Definition list_core (tr is_bytes : bool) (flags limit : Z) (pats : list str) (negative0 : list str)
    : (list str * list str) + lerr :=
    let fl := if tr then Z.land (Z.lor flags u_TRANSLATE) FLAG_MASK else flags in
    let pmask := if tr then (fun f => f) else (fun f => Z.land f FLAG_MASK) in
    let is_unix := is_unix_style P fl in
    (* exclusion patterns already compiled count against the same limit (lines 631-633 / 717-719) *)
    let total0 := Z.of_nat (length negative0) in
    let cl0 := if 0 <? limit then Z.max (limit - total0) 1 else limit in
    match pats_loop fl limit pmask is_unix pats cl0
            {| l_total := total0; l_seen := []; l_pos := []; l_neg := negative0 |} with
    | inr e => inr e
    | inl st =>
      let pos1 : (list str) + lerr :=
        match l_neg st, l_pos st with
        | _ :: _, [] =>
          if has fl NEGATEALL then
            match parse (pmask (Z.lor fl (if has fl PATHNAME then GLOBSTAR else 0))) (S_ "**") with
            | inl t => inl [t]
            | inr er => inr (of_perr er)
            end
          else inl []
        | _, pos => inl pos
        end in
      match pos1 with
      | inr e => inr e
      | inl pos =>
        let neg :=
          match pos with
          | _ :: _ =>
            if has fl NODIR then
              l_neg st ++ [ if tr then
                              (if is_unix then (if is_bytes then Frag.u_NO_NIX_DIR_b else Frag.u_NO_NIX_DIR_s)
                               else (if is_bytes then Frag.u_NO_WIN_DIR_b else Frag.u_NO_WIN_DIR_s))
                            else
                              (if is_unix then (if is_bytes then ReSrc.wcparse_RE_NO_DIR_1 else ReSrc.wcparse_RE_NO_DIR_0)
                               else (if is_bytes then ReSrc.wcparse_RE_WIN_NO_DIR_1 else ReSrc.wcparse_RE_WIN_NO_DIR_0)) ]
            else l_neg st
          | [] => l_neg st
          end in
        inl (pos, neg)
      end
    end.

  (* translate(patterns, flags, limit, exclude) / compile_pattern(...) *)
  Definition pattern_lists (tr is_bytes : bool) (flags limit : Z) (pats : list str) (exclude : option (list str))
    : (list str * list str) + lerr :=
    match exclude with
    | None => list_core tr is_bytes flags limit pats []
    | Some ex =>
      let fl := no_negate_flags P flags in
      match list_core tr is_bytes (Z.lor (Z.lor fl DOTMATCH) u_NO_GLOBSTAR_CAPTURE) limit ex [] with
      | inr e => inr e
      | inl (negative, _) => list_core tr is_bytes fl limit pats negative
      end
    end.
End Loop.
