(* Model of functools.lru_cache(maxsize, typed=True) around a pure function, and of WcRegexp values. *)
From WC Require Import Str.

Section LRU.
  Variables K V : Type.
  Variable keqb : K -> K -> bool.
  Variable pure : K -> V.
  Variable cap : nat.

  Definition cache := list (K * V).        (* most recently used first *)

  Fixpoint lookup (k : K) (c : cache) : option V :=
    match c with [] => None | (k', v) :: c' => if keqb k k' then Some v else lookup k c' end.
  Fixpoint remove (k : K) (c : cache) : cache :=
    match c with [] => [] | (k', v) :: c' => if keqb k k' then c' else (k', v) :: remove k c' end.

  (* one call of the cached function *)
  Definition call (c : cache) (k : K) : V * cache :=
    match lookup k c with
    | Some v => (v, (k, v) :: remove k c)
    | None => let v := pure k in (v, firstn cap ((k, v) :: c))
    end.

  Fixpoint run (c : cache) (ks : list K) : list V * cache :=
    match ks with
    | [] => ([], c)
    | k :: ks' => let '(v, c1) := call c k in let '(vs, c2) := run c1 ks' in (v :: vs, c2)
    end.

  (* threads: a call is split into atomic events; a miss computes outside the lock and stores later, so several
     threads may compute and store the same key, and stores may be evicted or overwritten in any order *)
  Inductive event := ELookup (k : K) | EStore (k : K) (v : V) | EClear.
  Definition step (c : cache) (e : event) : cache * option (option V) :=
    match e with
    | ELookup k => (match lookup k c with Some v => (k, v) :: remove k c | None => c end, Some (lookup k c))
    | EStore k v => (firstn cap ((k, v) :: remove k c), None)
    | EClear => ([], None)
    end.
End LRU.

(* WcRegexp: immutable record of its constructor arguments; hash is a function of the same fields *)
Record wcregexp := { w_include : list str; w_exclude : option (list str); w_real : bool; w_path : bool; w_follow : bool }.

Fixpoint lstr_eqb (a b : list str) : bool :=
  match a, b with
  | [], [] => true
  | x :: a', y :: b' => str_eqb x y && lstr_eqb a' b'
  | _, _ => false
  end.
Definition wc_eqb (a b : wcregexp) : bool :=
  lstr_eqb (w_include a) (w_include b) &&
  match w_exclude a, w_exclude b with
  | None, None => true | Some x, Some y => lstr_eqb x y | _, _ => false end &&
  Bool.eqb (w_real a) (w_real b) && Bool.eqb (w_path a) (w_path b) && Bool.eqb (w_follow a) (w_follow b).
Definition fields (m : wcregexp) := (w_include m, w_exclude m, w_real m, w_path m, w_follow m).
Definition rebuild (f : list str * option (list str) * bool * bool * bool) : wcregexp :=
  let '(i, e, r, p, fo) := f in {| w_include := i; w_exclude := e; w_real := r; w_path := p; w_follow := fo |}.
